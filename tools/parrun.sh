#!/bin/bash
# tools/parrun.sh seed|benign <nshards> <dirs with patch.diff...>
# Runs the checker against each patch in private scratch worktrees of /repo (never /repo itself), with a snapshot of
# the built checker so that editing gpycheck meanwhile does not mix versions.
#   seed:   the patch's own property (quick); reports CAUGHT / missed
#   benign: every rule once (ALL); a VIOLATION is a false alarm; reports ALARM / silent
# Development aid only: the registered checks always analyse /repo's working tree.
mode=$1; n=$2; shift 2
export GOFLAGS=-mod=mod GOPROXY=off GOSUMDB=off GOTOOLCHAIN=local; unset GOWORK
cd /verif; ./setup.sh >/dev/null || { echo "cannot build"; exit 2; }
tag=$$
snap=/tmp/gpysnap-$tag; mkdir -p $snap; cp bin/gpycheck $snap/gpycheck
one() {
  sh=$1; shift
  wt=/tmp/parwt-$tag-$sh
  git -C /repo worktree add -q --detach $wt HEAD || exit 2
  vs=$snap/verif-$sh; mkdir -p $vs; cp /verif/known_findings.json $vs/; ln -sfn /verif/bin $vs/bin
  i=0
  for d in "$@"; do
    i=$((i+1)); [ $((i % n)) -eq $sh ] || continue
    d=$(cd $d && pwd); name=$(basename $(dirname $d))/$(basename $d); prop=$(basename $d); prop=${prop%%-*}
    if ! git -C $wt apply --check $d/patch.diff 2>/dev/null; then echo "$name: PATCH DOES NOT APPLY"; continue; fi
    git -C $wt apply $d/patch.diff
    if [ $mode = seed ]; then
      out=$($snap/gpycheck -verif $vs -repo $wt $prop quick 2>&1)
      nv=$(echo "$out" | grep -c "^VIOLATION")
      if echo "$out" | grep -q "panic:"; then echo "$name: CHECKER PANIC"
      elif [ $nv -gt 0 ]; then echo "$name: CAUGHT ($nv) $(echo "$out" | grep "^VIOLATION" | head -3 | sed 's/.*replay=out\/violations\///' | tr '\n' ' ')"; else echo "$name: missed"; fi
    else
      out=$($snap/gpycheck -verif $vs -repo $wt ALL quick 2>&1)
      nv=$(echo "$out" | grep -c "^VIOLATION")
      if echo "$out" | grep -q "panic:"; then echo "$name: CHECKER PANIC"
      elif [ $nv -gt 0 ]; then echo "$name: ALARM ($nv)"; echo "$out" | grep -A1 "^VIOLATION" | grep -v "^VIOLATION\|^--" | cut -c1-330 | head -8 | sed 's/^/    /'; else echo "$name: silent ($(echo "$out" | tail -1 | cut -c1-60))"; fi
    fi
    git -C $wt checkout -- . ; git -C $wt clean -fdq
  done
  git -C /repo worktree remove --force $wt >/dev/null 2>&1
}
for sh in $(seq 0 $((n-1))); do one $sh "$@" > $snap/out-$sh.txt 2>&1 & done
wait
cat $snap/out-*.txt
rm -rf $snap; git -C /repo worktree prune
