#!/bin/bash
# tools/confirm6.sh <seed dir> : confirm a seeded change in a private scratch worktree of /repo HEAD.
#   suite passes with the patch; the demonstration passes without the patch and fails with it.
# The demonstration is demo.py (run by the built interpreter from its own directory), demo.sh <tree> or
# demo_test.go / *_test.go (copied into the package directory named by DEMO_PKG in meta.json "demo_pkg",
# or found from the `cp … <pkgdir>/…_test.go` line of how_to_run_demo; external `package main` demos run with go run
# through a replace directive).
set -u
export GOFLAGS=-mod=mod GOPROXY=off GOSUMDB=off GOTOOLCHAIN=local; unset GOWORK
d=$(cd "$1" && pwd); name=$(basename "$d")
wt=/tmp/c6-$name
git -C /repo worktree remove --force $wt >/dev/null 2>&1
git -C /repo worktree add -q --detach $wt HEAD || exit 2
trap 'git -C /repo worktree remove --force $wt >/dev/null 2>&1; rm -rf /tmp/c6bin-$name' EXIT
pkgdir=$(python3 - "$d" <<'PY'
import json,re,sys,os
d=sys.argv[1]
m=json.load(open(os.path.join(d,'meta.json')))
if m.get('demo_pkg'): print(m['demo_pkg']); sys.exit()
txt=str(m.get('how_to_run_demo',''))
for f in os.listdir(d):
    if f.endswith('.go'): txt+=open(os.path.join(d,f)).read()
r=re.search(r'cp\s+\S*_test\.go\s+(?:/tmp/r7-C\d\d/|\./)?([\w/]+)/\w+_test\.go', txt)
print(r.group(1) if r else '')
PY
)
run_demo() { # tree
  local t=$1 out=/tmp/c6bin-$name; mkdir -p $out
  if [ -f "$d/demo.sh" ]; then (cd "$d" && WORKTREE=$t timeout 600 bash demo.sh $t 2>&1 | tail -15; echo "exit=${PIPESTATUS[0]}")
  elif [ -f "$d/demo.py" ]; then
    (cd $t && go build -o $out/gpy .) || return 99
    (cd "$d" && timeout 300 $out/gpy demo.py 2>&1 | tail -15; echo "exit=${PIPESTATUS[0]}")
  elif ls "$d"/*_test.go >/dev/null 2>&1 && [ -n "$pkgdir" ]; then
    for f in "$d"/*_test.go; do cp $f $t/$pkgdir/zz_seed_$(basename $f); done
    (cd $t && timeout 600 go test -vet=off -count=1 ${DEMO_FLAGS:-} -run "${DEMO_RUN:-.}" ./$pkgdir/ 2>&1 | grep -v "^=== \|^    --- PASS\|^--- PASS" | tail -15; echo "exit=${PIPESTATUS[0]}")
    rm -f $t/$pkgdir/zz_seed_*_test.go
  elif ls "$d"/*.go >/dev/null 2>&1; then
    local w=$out/demo; rm -rf $w; mkdir -p $w; cp "$d"/*.go $w/
    printf 'module demo\ngo 1.18\nrequire github.com/go-python/gpython v0.0.0\nreplace github.com/go-python/gpython => %s\n' $t > $w/go.mod; cp $t/go.sum $w/
    if ls $w/*_test.go >/dev/null 2>&1; then (cd $w && timeout 600 go test -count=1 ${DEMO_FLAGS:-} ./... 2>&1 | tail -15; echo "exit=${PIPESTATUS[0]}")
    else (cd $w && timeout 600 go run ${DEMO_FLAGS:-} . 2>&1 | tail -15; echo "exit=${PIPESTATUS[0]}"); fi
  else echo "no demo found"; return 98; fi
}
echo "== $name (demo pkg: ${pkgdir:-n/a})"
wo=$(run_demo $wt); echo "-- demo WITHOUT: $(echo "$wo" | tail -3 | tr '\n' ' ' | cut -c1-300)"
(cd $wt && git apply "$d/patch.diff") || { echo "RESULT $name PATCH-DOES-NOT-APPLY"; exit 3; }
suite=$(cd $wt && go build ./... 2>&1 && go test -vet=off -count=1 ./... 2>&1 | grep -v "^ok\|no test files"; echo "suite-exit=${PIPESTATUS[0]}")
echo "-- suite WITH: $(echo "$suite" | tail -4 | tr '\n' ' ' | cut -c1-300)"
wi=$(run_demo $wt); echo "-- demo WITH: $(echo "$wi" | tail -4 | tr '\n' ' ' | cut -c1-400)"
ok=1
echo "$suite" | grep -q "suite-exit=0" || ok=0
echo "$wo" | grep -q "exit=0" || ok=0
echo "$wi" | grep -q "exit=0" && ok=0
[ $ok = 1 ] && echo "RESULT $name CONFIRMED" || echo "RESULT $name NOT-CONFIRMED"
