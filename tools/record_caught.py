#!/usr/bin/env python3
"""tools/record_caught.py <parrun seed output>: writes caught_by (rule ids, from the replay file names) into each
seeded/<name>/meta.json; a seed the property's own check misses gets caught_by: [] (its 'missed_because' is kept)."""
import json, re, sys, os
for line in open(sys.argv[1]):
    m = re.match(r'^(?:seeded/)?(C\d\d-[\w]+): (CAUGHT|missed|PATCH DOES NOT APPLY)(.*)$', line.strip())
    if not m:
        continue
    name, verdict, rest = m.groups()
    p = os.path.join('/verif/seeded', name, 'meta.json')
    if not os.path.exists(p):
        continue
    meta = json.load(open(p))
    rules = sorted(set(re.findall(r'C\d\d-(C\d\d\.R\d+)_', rest)))
    meta['caught_by'] = rules
    if verdict == 'PATCH DOES NOT APPLY':
        meta['applies'] = False
    if re.search(r'-r\d+$', name):
        meta['round'] = 4
    elif re.search(r'-s\d+$', name):
        meta['round'] = 5
    elif re.search(r'-t\d+$', name):
        meta['round'] = 6
    elif re.search(r'-u\d+$', name):
        meta['round'] = 7
    json.dump(meta, open(p, 'w'), indent=1, ensure_ascii=False)
    open(p, 'a').write('\n')
