#!/bin/bash
# tools/emitdiff.sh <patch> <dumpspec> [armfilter]: diff of `gpycheck -dump <dumpspec>` between the clean and the patched /repo (debug aid)
cd /verif
bin/gpycheck -dump "$2" > /tmp/ed_clean.txt 2>&1
git -C /repo apply "$1" || exit 1
bin/gpycheck -dump "$2" > /tmp/ed_patched.txt 2>&1
git -C /repo checkout -- .; git -C /repo clean -fdq
diff /tmp/ed_clean.txt /tmp/ed_patched.txt | cut -c1-${W:-1500}
