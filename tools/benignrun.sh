#!/bin/bash
# tools/benignrun.sh <dirs with patch.diff>: apply each behaviour-preserving patch to /repo, run every rule once
# (gpycheck ALL), undo. A VIOLATION line here is a false alarm of the checker.
cd /verif
for d in "$@"; do d=$(cd $d && pwd)
  name=$(basename $d)
  if [ -n "$(git -C /repo status --porcelain)" ]; then echo "repo dirty"; exit 1; fi
  if ! git -C /repo apply --check $d/patch.diff 2>/dev/null; then echo "$name: PATCH DOES NOT APPLY"; continue; fi
  git -C /repo apply $d/patch.diff
  out=$(./check ALL quick 2>&1)
  if echo "$out" | grep -q "cannot build\|panic:"; then echo "$name: CHECKER BROKEN"; git -C /repo checkout -- . ; git -C /repo clean -fdq; continue; fi
  n=$(echo "$out" | grep -c "^VIOLATION")
  if [ $n -gt 0 ]; then echo "$name: ALARM ($n)"; echo "$out" | grep -A1 "^VIOLATION" | grep -v "^VIOLATION\|^--" | cut -c1-330 | head -12; else echo "$name: silent ($(echo "$out" | tail -1 | cut -c1-60))"; fi
  git -C /repo checkout -- . ; git -C /repo clean -fdq
done
