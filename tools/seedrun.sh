#!/bin/bash
# tools/seedrun.sh [seed dirs...]: apply each seeded patch to /repo, run the check of its property, undo. Prints caught/missed.
cd /verif
for d in "$@"; do d=$(cd $d && pwd)
  name=$(basename $d); prop=${name%%-*}
  if [ -n "$(git -C /repo status --porcelain)" ]; then echo "repo dirty"; exit 1; fi
  if ! git -C /repo apply --check $d/patch.diff 2>/dev/null; then echo "$name: PATCH DOES NOT APPLY"; continue; fi
  git -C /repo apply $d/patch.diff
  out=$(./check $prop quick 2>&1)
  n=$(echo "$out" | grep -c "^VIOLATION")
  if [ $n -gt 0 ]; then echo "$name: CAUGHT ($n) $(echo "$out" | grep "^VIOLATION" | head -2 | sed 's/.*replay=out\/violations\///' | tr '\n' ' ')"; else echo "$name: missed"; fi
  git -C /repo checkout -- . ; git -C /repo clean -fdq
done
