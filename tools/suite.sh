#!/bin/bash
# tools/suite.sh [tree]: run the repository's test suite the way the baseline does; prints failing packages/tests only.
export GOFLAGS=-mod=mod GOPROXY=off GOSUMDB=off GOTOOLCHAIN=local; unset GOWORK
cd ${1:-/repo} && go test -vet=off -count=1 -timeout 25m ./... 2>&1 | grep -v "^ok\|no test files" | head -40
echo "suite exit: ${PIPESTATUS[0]}"
