#!/bin/bash
# tools/confirm_seed.sh <seed dir with patch.diff + demo>  [props...]
# 1. in a scratch worktree of /repo HEAD: suite passes with the patch; demo differs with/without (and passes without)
# 2. applies the patch to /repo, runs the given checks, undoes it.
set -u
export GOFLAGS=-mod=mod GOPROXY=off GOSUMDB=off GOTOOLCHAIN=local; unset GOWORK
d=$(cd "$1" && pwd); shift
name=$(basename "$d")
wt=/tmp/confirm-$name
git -C /repo worktree remove --force $wt >/dev/null 2>&1
git -C /repo worktree add -q --detach $wt HEAD || exit 2
cleanup() { git -C /repo worktree remove --force $wt >/dev/null 2>&1; rm -rf /tmp/confirm-bin-$name; }
trap cleanup EXIT
run_demo() { # $1 = tree
  local out=/tmp/confirm-bin-$name; mkdir -p $out
  if [ -f "$d/demo.py" ]; then
    (cd $1 && go build -o $out/gpy . ) || return 99
    (cd "$d" && timeout 120 $out/gpy demo.py 2>&1; echo "exit=$?")
  elif [ -f "$d/demo_main.go" ] || [ -f "$d/main.go" ] || ls "$d"/*_test.go >/dev/null 2>&1; then
    local w=$out/demo; rm -rf $w; mkdir -p $w; cp "$d"/*.go $w/ 2>/dev/null
    [ -f "$d/demo_main.go" ] && mv $w/demo_main.go $w/main.go
    cat > $w/go.mod <<EOM
module demo
go 1.18
require github.com/go-python/gpython v0.0.0
replace github.com/go-python/gpython => $1
EOM
    cp $1/go.sum $w/
    if ls $w/*_test.go >/dev/null 2>&1; then
      (cd $w && timeout 300 go test ${DEMO_FLAGS:-} -count=1 ./... 2>&1 | grep -v "^ok\|^---\|^===\|^FAIL\|^PASS\|^[[:space:]]*$" | head -30; echo "exit=${PIPESTATUS[0]}")
    else
      (cd $w && timeout 300 go run ${DEMO_FLAGS:-} . 2>&1 | head -40; echo "exit=${PIPESTATUS[0]}")
    fi
  else
    echo "no demo found"; return 98
  fi
}
echo "== $name: demo WITHOUT patch"
run_demo $wt > /tmp/confirm-bin-$name.without 2>&1; tail -5 /tmp/confirm-bin-$name.without
(cd $wt && git apply "$d/patch.diff") || { echo "PATCH DOES NOT APPLY to /repo HEAD"; exit 3; }
echo "== $name: suite WITH patch"
(cd $wt && go build ./... && go test -vet=off -count=1 ./... 2>&1 | grep -v "^ok\|no test files"; echo "suite-exit=${PIPESTATUS[0]}")
echo "== $name: demo WITH patch"
run_demo $wt > /tmp/confirm-bin-$name.with 2>&1; tail -5 /tmp/confirm-bin-$name.with
if cmp -s /tmp/confirm-bin-$name.with /tmp/confirm-bin-$name.without; then echo "DEMO DOES NOT DISTINGUISH"; else echo "demo distinguishes: yes"; fi
rm -f /tmp/confirm-bin-$name.with /tmp/confirm-bin-$name.without
if [ $# -gt 0 ]; then
  if [ -n "$(git -C /repo status --porcelain)" ]; then echo "/repo not clean"; exit 4; fi
  git -C /repo apply "$d/patch.diff" || exit 3
  for p in "$@"; do echo "== $name: check $p"; (cd /verif && ./check $p quick 2>&1 | grep -v "^  " | cut -c1-400 | tail -8); done
  git -C /repo checkout -- . ; git -C /repo clean -fdq
fi
