#!/bin/bash
# tools/allchecks.sh [quick|thorough]: run every property's check; prints one summary line each and the violations.
cd /verif
t=${1:-quick}
rc=0
for p in C01 C02 C03 C04 C05 C06 C07 C08 C09 C10 C11 C12 C13 C14 C15 C16 C17 C18 C19 C20; do
  out=$(./check $p $t 2>&1); [ $? -ne 0 ] && rc=1
  echo "$out" | grep "^VIOLATION\| $t: " | cut -c1-200
done
exit $rc
