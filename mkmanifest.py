#!/usr/bin/env python3
"""Regenerates MANIFEST.json from the table below (kept next to the checker so the two stay in step)."""
import json, sys

LEVEL_TEXT = ("Structural necessary conditions of the property, decided exhaustively over the code (every path of every "
              "function the rule covers), not over executions. Each rule reports ok/violation/undecided per construct; "
              "undecided or a shortfall against the hand-confirmed obligation floor fails the check. This does not prove "
              "the behavioural property; it decides the clauses listed in level_note for all inputs at once.")

CLAIMS = {
 # id: (technique, clauses decided / what is not covered, design_ref)
}
NA = {}

exec(open('manifest_table.py').read())

props = [json.loads(l)['id'] for l in open('properties.jsonl')]
checks = []
for pid in props:
    if pid in CLAIMS:
        tech, note, ref = CLAIMS[pid]
        checks.append({
            "property_id": pid,
            "quick_cmd": f"./check {pid} quick",
            "thorough_cmd": f"./check {pid} thorough",
            "evidence_file": f"/verif/evidence/{pid}.json",
            "replay_cmd_template": f"./check {pid} quick --replay {{path}}",
            "engine": "gpycheck",
            "level_claimed": {"category": "other", "text": LEVEL_TEXT, "design_ref": ref},
            "level_note": note,
            "technique": tech,
        })
na = [{"property_id": p, "reason": NA[p]} for p in props if p not in CLAIMS]
for p in props:
    assert p in CLAIMS or p in NA, p
m = {
 "version": 1,
 "setup_cmd": "./setup.sh",
 "hooks": {"guard": "verif", "enable": "none: static analysis needs no instrumentation; no hook commits exist",
           "baseline_off_cmd": "cd /repo && go build ./... && go test -vet=off -count=1 ./...",
           "source_commits": [], "add_only": True},
 "engines": [{"name": "gpycheck", "path": "/verif/gpycheck", "serves_properties": sorted(CLAIMS),
              "kind_free_text": "repository-specific static analyser (go/packages + go/types typed AST, go/cfg, go/ssa, VTA call graph; own goyacc grammar reader); no execution of the code under analysis"}],
 "checks": checks,
 "not_applicable": na,
 "notes": "All checks are static analyses of /repo's current working tree; thorough = same rules under extra build configurations (386, windows, +tests). See DESIGN.md.",
}
json.dump(m, open('MANIFEST.json', 'w'), indent=1)
print("claimed", sorted(CLAIMS), "n/a", [x['property_id'] for x in na])
