package main

import (
	"bytes"
	"fmt"
	"go/ast"
	"go/parser"
	"go/printer"
	"go/token"
	"os"
	"os/exec"
	"path/filepath"
	"regexp"
	"strings"

	"golang.org/x/tools/go/ast/astutil"
)

// A small reader for parser/grammar.y (DESIGN.md B.5): declarations, productions and
// their actions. Actions are rewritten ($$ -> VAL, $n -> Dn, $<tag>n -> Dn_tag) and parsed
// with go/parser so rules match on syntax trees, not text.

type yAlt struct {
	lhs    string
	syms   []string
	action string // raw text between the braces (may be empty)
	line   int
	body   *ast.BlockStmt // parsed, rewritten action (nil if none / unparsable)
	perr   error
}

type yGrammar struct {
	tokens   map[string]string // token name -> <tag>
	types    map[string]string // nonterminal -> tag
	literals map[string]bool   // quoted single-char tokens declared with %token
	alts     []*yAlt
	byLHS    map[string][]*yAlt
	order    []string // nonterminals in order of definition
	prologue string
}

var dollarRe = regexp.MustCompile(`\$(<([A-Za-z_][A-Za-z_0-9]*)>)?(\$|-?[0-9]+)`)

func rewriteAction(a string) string {
	return dollarRe.ReplaceAllStringFunc(a, func(m string) string {
		sm := dollarRe.FindStringSubmatch(m)
		tag, ref := sm[2], sm[3]
		base := "VAL"
		if ref != "$" {
			base = "D" + ref
		}
		if tag != "" {
			return base + "_" + tag
		}
		return base
	})
}

func readGrammar(path string) (*yGrammar, error) {
	b, err := os.ReadFile(path)
	if err != nil {
		return nil, err
	}
	src := string(b)
	parts := strings.SplitN(src, "\n%%", 3)
	if len(parts) < 2 {
		return nil, fmt.Errorf("no %%%% section separator in %s", path)
	}
	g := &yGrammar{tokens: map[string]string{}, types: map[string]string{}, literals: map[string]bool{}, byLHS: map[string][]*yAlt{}}
	decl := parts[0]
	if i := strings.Index(decl, "%{"); i >= 0 {
		if j := strings.Index(decl, "%}"); j > i {
			g.prologue = decl[i+2 : j]
		}
	}
	for _, line := range strings.Split(decl, "\n") {
		line = strings.TrimSpace(line)
		if i := strings.Index(line, "//"); i >= 0 {
			line = strings.TrimSpace(line[:i])
		}
		switch {
		case strings.HasPrefix(line, "%token"):
			rest := strings.TrimSpace(strings.TrimPrefix(line, "%token"))
			tag := ""
			if strings.HasPrefix(rest, "<") {
				j := strings.Index(rest, ">")
				tag = rest[1:j]
				rest = strings.TrimSpace(rest[j+1:])
			}
			for _, t := range strings.Fields(rest) {
				if strings.HasPrefix(t, "'") {
					g.literals[t] = true
				} else {
					g.tokens[t] = tag
				}
			}
		case strings.HasPrefix(line, "%type"):
			rest := strings.TrimSpace(strings.TrimPrefix(line, "%type"))
			if strings.HasPrefix(rest, "<") {
				j := strings.Index(rest, ">")
				tag := rest[1:j]
				for _, t := range strings.Fields(rest[j+1:]) {
					g.types[t] = tag
				}
			}
		}
	}
	// rules section
	rules := parts[1]
	baseLine := strings.Count(parts[0], "\n") + 2
	i := 0
	line := baseLine
	n := len(rules)
	var cur string
	var alt *yAlt
	flush := func() {
		if alt != nil {
			g.alts = append(g.alts, alt)
			g.byLHS[alt.lhs] = append(g.byLHS[alt.lhs], alt)
			alt = nil
		}
	}
	isIdent := func(c byte) bool {
		return c == '_' || (c >= 'a' && c <= 'z') || (c >= 'A' && c <= 'Z') || (c >= '0' && c <= '9')
	}
	for i < n {
		c := rules[i]
		switch {
		case c == '\n':
			line++
			i++
		case c == ' ' || c == '\t' || c == '\r':
			i++
		case c == '/' && i+1 < n && rules[i+1] == '/':
			for i < n && rules[i] != '\n' {
				i++
			}
		case c == '/' && i+1 < n && rules[i+1] == '*':
			j := strings.Index(rules[i+2:], "*/")
			if j < 0 {
				return nil, fmt.Errorf("unterminated comment at line %d", line)
			}
			line += strings.Count(rules[i:i+2+j+2], "\n")
			i += 2 + j + 2
		case c == '\'':
			j := i + 1
			for j < n && rules[j] != '\'' {
				if rules[j] == '\\' {
					j++
				}
				j++
			}
			tok := rules[i : j+1]
			if alt != nil {
				alt.syms = append(alt.syms, tok)
			}
			i = j + 1
		case c == '{':
			// action block: match braces, respecting Go strings, runes and comments
			depth := 0
			j := i
			startLine := line
			for j < n {
				ch := rules[j]
				switch {
				case ch == '\n':
					line++
				case ch == '"':
					j++
					for j < n && rules[j] != '"' {
						if rules[j] == '\\' {
							j++
						}
						j++
					}
				case ch == '`':
					j++
					for j < n && rules[j] != '`' {
						if rules[j] == '\n' {
							line++
						}
						j++
					}
				case ch == '\'':
					j++
					for j < n && rules[j] != '\'' {
						if rules[j] == '\\' {
							j++
						}
						j++
					}
				case ch == '/' && j+1 < n && rules[j+1] == '/':
					for j < n && rules[j] != '\n' {
						j++
					}
					continue
				case ch == '{':
					depth++
				case ch == '}':
					depth--
				}
				j++
				if depth == 0 {
					break
				}
			}
			if alt == nil {
				return nil, fmt.Errorf("action outside a rule at line %d", startLine)
			}
			alt.action = rules[i+1 : j-1]
			i = j
		case c == '|':
			lhs := cur
			flush()
			alt = &yAlt{lhs: lhs, line: line}
			i++
		case c == ';':
			flush()
			i++
		case isIdent(c):
			j := i
			for j < n && isIdent(rules[j]) {
				j++
			}
			word := rules[i:j]
			// is it a rule head?  IDENT ':'
			k := j
			for k < n && (rules[k] == ' ' || rules[k] == '\t' || rules[k] == '\n' || rules[k] == '\r') {
				k++
			}
			if k < n && rules[k] == ':' {
				flush()
				cur = word
				if _, seen := g.byLHS[word]; !seen {
					found := false
					for _, o := range g.order {
						if o == word {
							found = true
						}
					}
					if !found {
						g.order = append(g.order, word)
					}
				}
				alt = &yAlt{lhs: cur, line: line}
				line += strings.Count(rules[j:k], "\n")
				i = k + 1
			} else {
				if alt != nil {
					alt.syms = append(alt.syms, word)
				}
				i = j
			}
		default:
			i++
		}
	}
	flush()
	// parse actions
	for _, a := range g.alts {
		if strings.TrimSpace(a.action) == "" {
			continue
		}
		src := "package p\nfunc _() {\n" + rewriteAction(a.action) + "\n}\n"
		f, err := parser.ParseFile(token.NewFileSet(), "action.go", src, 0)
		if err != nil {
			a.perr = err
			continue
		}
		a.body = f.Decls[0].(*ast.FuncDecl).Body
	}
	return g, nil
}

func (g *yGrammar) altsOf(lhs string) []*yAlt { return g.byLHS[lhs] }

func symsString(a *yAlt) string { return strings.Join(a.syms, " ") }

// ---- y.go regeneration ----

// normalisedGoFile prints the declarations of a Go file without comments/positions; element types of the
// integer tables are erased (goyacc versions differ in int8/int16/int32 but not in values).
func normalisedDecls(path string) (map[string]string, []string, error) {
	fset := token.NewFileSet()
	f, err := parser.ParseFile(fset, path, nil, 0)
	if err != nil {
		return nil, nil, err
	}
	out := map[string]string{}
	var order []string
	typeRe := regexp.MustCompile(`\[\.\.\.\](u?int(8|16|32|64)?)\{`)
	typeRe2 := regexp.MustCompile(`\[\](u?int(8|16|32|64)?)\{`)
	pr := func(n ast.Node) string {
		var buf bytes.Buffer
		n = stripIntConv(n)
		_ = printer.Fprint(&buf, token.NewFileSet(), n)
		s := buf.String()
		s = typeRe.ReplaceAllString(s, "[...]int{")
		s = typeRe2.ReplaceAllString(s, "[]int{")
		return s
	}
	for _, d := range f.Decls {
		switch x := d.(type) {
		case *ast.FuncDecl:
			name := x.Name.Name
			if x.Recv != nil && len(x.Recv.List) > 0 {
				name = exprStr(x.Recv.List[0].Type) + "." + name
			}
			out["func "+name] = pr(x)
			order = append(order, "func "+name)
		case *ast.GenDecl:
			for _, sp := range x.Specs {
				switch s := sp.(type) {
				case *ast.ValueSpec:
					for i, nm := range s.Names {
						val := ""
						if i < len(s.Values) {
							val = pr(s.Values[i])
						} else if len(s.Values) == 0 && x.Tok == token.CONST {
							val = "<iota>"
						}
						out[x.Tok.String()+" "+nm.Name] = val
						order = append(order, x.Tok.String()+" "+nm.Name)
					}
				case *ast.TypeSpec:
					out["type "+s.Name.Name] = pr(s.Type)
					order = append(order, "type "+s.Name.Name)
				}
			}
		}
	}
	return out, order, nil
}

// regenerate runs goyacc on the repository's grammar.y in a scratch directory and returns the path of the generated file.
func regenerate(c *Ctx, goyacc string) (dir, out string, err error) {
	dir, err = os.MkdirTemp("", "gpycheck-yacc-")
	if err != nil {
		return "", "", err
	}
	out = filepath.Join(dir, "y.go")
	cmd := exec.Command(goyacc, "-o", out, "-v", filepath.Join(dir, "y.output"), filepath.Join(c.Repo, "parser", "grammar.y"))
	cmd.Dir = dir
	b, err := cmd.CombinedOutput()
	if err != nil {
		return dir, "", fmt.Errorf("goyacc failed: %v: %s", err, string(b))
	}
	return dir, out, nil
}

// stripIntConv removes int(x) conversions: goyacc versions differ in whether table reads are wrapped in int(),
// because newer versions emit narrower table element types; the values and the control flow are the same.
func stripIntConv(n ast.Node) ast.Node {
	return astutil.Apply(n, func(c *astutil.Cursor) bool {
		if call, ok := c.Node().(*ast.CallExpr); ok && len(call.Args) == 1 {
			if id, ok := call.Fun.(*ast.Ident); ok && id.Name == "int" {
				c.Replace(call.Args[0])
			}
		}
		return true
	}, nil)
}

// fullExpr prints an expression completely (types.ExprString elides composite literals).
func fullExpr(e ast.Expr) string {
	var buf bytes.Buffer
	_ = printer.Fprint(&buf, token.NewFileSet(), e)
	return strings.Join(strings.Fields(buf.String()), " ")
}

// fullStmt prints a statement completely.
func fullStmt(st ast.Stmt) string {
	var buf bytes.Buffer
	_ = printer.Fprint(&buf, token.NewFileSet(), st)
	return strings.Join(strings.Fields(buf.String()), " ")
}
