package main

import (
	"regexp"
	"sort"
	"strconv"
	"strings"
)

// Paths that do the same thing under conditions differing in one test and its negation are one path
// without that test: a test that does not influence what is done (a local bookkeeping flag, a branch
// whose arms were merged or split by a refactoring) does not appear in the table.

var linAtom = regexp.MustCompile(`^(.*) (==|!=|<=|>=) (-?\d+)$`)

// negAtom gives the canonical text of the negation of a condition atom.
func negAtom(a string) string {
	if strings.HasPrefix(a, "!(") && strings.HasSuffix(a, ")") {
		depth := 0
		for i := 1; i < len(a); i++ {
			switch a[i] {
			case '(':
				depth++
			case ')':
				depth--
				if depth == 0 && i == len(a)-1 {
					return a[2 : len(a)-1]
				}
				if depth == 0 {
					i = len(a) // the first parenthesis closes early: not a single negation
				}
			}
		}
	}
	if m := linAtom.FindStringSubmatch(a); m != nil && !strings.Contains(m[1], " && ") && !strings.Contains(m[1], " || ") {
		k, _ := strconv.ParseInt(m[3], 10, 64)
		switch m[2] {
		case "==":
			return m[1] + " != " + m[3]
		case "!=":
			return m[1] + " == " + m[3]
		case "<=":
			return m[1] + " >= " + strconv.FormatInt(k+1, 10)
		case ">=":
			return m[1] + " <= " + strconv.FormatInt(k-1, 10)
		}
	}
	return normCond("!(" + a + ")")
}

type condBody struct {
	conds []string
	body  string
	ref   int // the caller's index of (a representative of) the item
}

// mergeComplementary merges, to a fixed point, items with equal bodies whose condition sets are equal or
// differ in exactly one complementary pair.
func mergeComplementary(items []condBody) []condBody {
	for i := range items {
		cs := append([]string{}, items[i].conds...)
		sort.Strings(cs)
		items[i].conds = uniqSorted(cs)
	}
	for changed := true; changed; {
		changed = false
	outer:
		for i := 0; i < len(items); i++ {
			for j := i + 1; j < len(items); j++ {
				if items[i].body != items[j].body {
					continue
				}
				onlyI, onlyJ := diffSorted(items[i].conds, items[j].conds)
				switch {
				case len(onlyI) == 0 && len(onlyJ) == 0:
					items = append(items[:j], items[j+1:]...)
					changed = true
					break outer
				case len(onlyI) == 1 && len(onlyJ) == 1 && (negAtom(onlyI[0]) == onlyJ[0] || negAtom(onlyJ[0]) == onlyI[0]):
					var common []string
					for _, c := range items[i].conds {
						if c != onlyI[0] {
							common = append(common, c)
						}
					}
					items[i].conds = common
					items = append(items[:j], items[j+1:]...)
					changed = true
					break outer
				}
			}
		}
	}
	return items
}

func uniqSorted(s []string) []string {
	var out []string
	for i, x := range s {
		if i == 0 || x != s[i-1] {
			out = append(out, x)
		}
	}
	return out
}

func diffSorted(a, b []string) (onlyA, onlyB []string) {
	in := func(s []string, x string) bool {
		for _, y := range s {
			if y == x {
				return true
			}
		}
		return false
	}
	for _, x := range a {
		if !in(b, x) {
			onlyA = append(onlyA, x)
		}
	}
	for _, x := range b {
		if !in(a, x) {
			onlyB = append(onlyB, x)
		}
	}
	return
}
