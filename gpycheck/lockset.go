package main

import (
	"go/ast"
	"go/token"
	"go/types"
)

// A structured must-hold lockset walk over one function body (B.4 of DESIGN.md).
// Lattice: mutex (rendered receiver path, e.g. "ctx.mu") -> id of the critical section
// currently open on it. Join = intersection; a branch that ends in return/panic does
// not take part in the join.

type lockWalker struct {
	shared   map[string]bool // lock expression -> last acquisition was RLock (shared mode)
	info     *types.Info
	sections int
	// onAccess is called for every selector that resolves to a struct field, with the lockset at that point.
	onAccess func(sel *ast.SelectorExpr, field *types.Var, write bool, held map[string]int)
	// onCall is called for every call, with the lockset at that point.
	onCall func(call *ast.CallExpr, held map[string]int)
	// problems (shapes the walker does not understand)
	undecided []token.Pos
	undecWhy  []string
}

func syncMethod(info *types.Info, call *ast.CallExpr) (recv string, typ string, method string, ok bool) {
	sel, isSel := call.Fun.(*ast.SelectorExpr)
	if !isSel {
		return
	}
	fn, _ := info.Uses[sel.Sel].(*types.Func)
	if fn == nil || fn.Pkg() == nil || fn.Pkg().Path() != "sync" {
		return
	}
	sig := fn.Type().(*types.Signature)
	if sig.Recv() == nil {
		return
	}
	t := sig.Recv().Type()
	if p, isP := t.(*types.Pointer); isP {
		t = p.Elem()
	}
	n, isN := t.(*types.Named)
	if !isN {
		return
	}
	return exprStr(sel.X), n.Obj().Name(), fn.Name(), true
}

func copyHeld(h map[string]int) map[string]int {
	o := map[string]int{}
	for k, v := range h {
		o[k] = v
	}
	return o
}

func meetHeld(a, b map[string]int) map[string]int {
	o := map[string]int{}
	for k, v := range a {
		if w, ok := b[k]; ok && w == v {
			o[k] = v
		}
	}
	return o
}

// walkFunc walks a body starting with nothing held; function literals found inside are
// walked as functions of their own (they may run on another goroutine or later).
func (w *lockWalker) walkFunc(body *ast.BlockStmt) {
	w.stmts(body.List, map[string]int{})
}

// returns the state after the statements and whether control can fall through
func (w *lockWalker) stmts(list []ast.Stmt, held map[string]int) (map[string]int, bool) {
	for _, s := range list {
		var cont bool
		held, cont = w.stmt(s, held)
		if !cont {
			return held, false
		}
	}
	return held, true
}

func (w *lockWalker) exprs(held map[string]int, write bool, es ...ast.Expr) {
	for _, e := range es {
		if e == nil {
			continue
		}
		w.expr(e, held, write)
	}
}

func (w *lockWalker) expr(e ast.Expr, held map[string]int, write bool) {
	switch x := e.(type) {
	case *ast.FuncLit:
		w.walkFunc(x.Body)
		return
	case *ast.SelectorExpr:
		if s, ok := w.info.Selections[x]; ok && s.Kind() == types.FieldVal {
			if f, ok := s.Obj().(*types.Var); ok && w.onAccess != nil {
				w.onAccess(x, f, write, held)
			}
		}
		w.expr(x.X, held, false)
		return
	case *ast.CallExpr:
		if w.onCall != nil {
			w.onCall(x, held)
		}
		w.expr(x.Fun, held, false)
		for _, a := range x.Args {
			w.expr(a, held, false)
		}
		return
	case *ast.ParenExpr:
		w.expr(x.X, held, write)
		return
	case *ast.StarExpr:
		w.expr(x.X, held, write)
		return
	case *ast.UnaryExpr:
		// &x.f hands out the address: treat as write
		w.expr(x.X, held, write || x.Op == token.AND)
		return
	case *ast.IndexExpr:
		w.expr(x.X, held, write)
		w.expr(x.Index, held, false)
		return
	}
	// generic: children are reads
	ast.Inspect(e, func(n ast.Node) bool {
		if n == e || n == nil {
			return true
		}
		if sub, ok := n.(ast.Expr); ok {
			w.expr(sub, held, false)
			return false
		}
		return true
	})
}

func terminates(info *types.Info, s ast.Stmt) bool {
	switch x := s.(type) {
	case *ast.ReturnStmt:
		return true
	case *ast.ExprStmt:
		if call, ok := x.X.(*ast.CallExpr); ok && isBuiltinCall(info, call, "panic") {
			return true
		}
	case *ast.BranchStmt:
		return x.Tok == token.GOTO
	}
	return false
}

func (w *lockWalker) stmt(s ast.Stmt, held map[string]int) (map[string]int, bool) {
	switch x := s.(type) {
	case *ast.ExprStmt:
		if call, ok := x.X.(*ast.CallExpr); ok {
			if recv, typ, m, ok := syncMethod(w.info, call); ok && (typ == "Mutex" || typ == "RWMutex") {
				if w.onCall != nil {
					w.onCall(call, held)
				}
				held = copyHeld(held)
				switch m {
				case "Lock", "RLock":
					w.sections++
					held[recv] = w.sections
					if w.shared == nil {
						w.shared = map[string]bool{}
					}
					w.shared[recv] = m == "RLock"
				case "Unlock", "RUnlock":
					delete(held, recv)
				}
				return held, true
			}
		}
		w.expr(x.X, held, false)
		return held, !terminates(w.info, s)
	case *ast.DeferStmt:
		if _, typ, m, ok := syncMethod(w.info, x.Call); ok && (typ == "Mutex" || typ == "RWMutex") && (m == "Unlock" || m == "RUnlock") {
			return held, true // released at function exit: stays held for the rest of the body
		}
		// a deferred call runs at exit; evaluate its operands now, its body (if a literal) separately
		w.expr(x.Call, held, false)
		return held, true
	case *ast.GoStmt:
		w.expr(x.Call, map[string]int{}, false)
		return held, true
	case *ast.AssignStmt:
		w.exprs(held, false, x.Rhs...)
		w.exprs(held, true, x.Lhs...)
		return held, true
	case *ast.IncDecStmt:
		w.expr(x.X, held, true)
		return held, true
	case *ast.DeclStmt:
		ast.Inspect(x, func(n ast.Node) bool {
			if e, ok := n.(ast.Expr); ok {
				w.expr(e, held, false)
				return false
			}
			return true
		})
		return held, true
	case *ast.ReturnStmt:
		w.exprs(held, false, x.Results...)
		return held, false
	case *ast.BlockStmt:
		return w.stmts(x.List, held)
	case *ast.LabeledStmt:
		return w.stmt(x.Stmt, held)
	case *ast.IfStmt:
		if x.Init != nil {
			held, _ = w.stmt(x.Init, held)
		}
		w.expr(x.Cond, held, false)
		th, tc := w.stmts(x.Body.List, copyHeld(held))
		eh, ec := copyHeld(held), true
		if x.Else != nil {
			eh, ec = w.stmt(x.Else, copyHeld(held))
		}
		switch {
		case tc && ec:
			return meetHeld(th, eh), true
		case tc:
			return th, true
		case ec:
			return eh, true
		}
		return held, false
	case *ast.ForStmt:
		if x.Init != nil {
			held, _ = w.stmt(x.Init, held)
		}
		if x.Cond != nil {
			w.expr(x.Cond, held, false)
		}
		bh, bc := w.stmts(x.Body.List, copyHeld(held))
		if x.Post != nil {
			w.stmt(x.Post, bh)
		}
		if bc && len(meetHeld(bh, held)) != len(held) {
			w.undecided = append(w.undecided, x.Pos())
			w.undecWhy = append(w.undecWhy, "loop body changes the lockset")
		}
		return held, true
	case *ast.RangeStmt:
		w.expr(x.X, held, false)
		bh, bc := w.stmts(x.Body.List, copyHeld(held))
		if bc && len(meetHeld(bh, held)) != len(held) {
			w.undecided = append(w.undecided, x.Pos())
			w.undecWhy = append(w.undecWhy, "loop body changes the lockset")
		}
		return held, true
	case *ast.SwitchStmt, *ast.TypeSwitchStmt, *ast.SelectStmt:
		var body *ast.BlockStmt
		switch y := x.(type) {
		case *ast.SwitchStmt:
			if y.Init != nil {
				held, _ = w.stmt(y.Init, held)
			}
			if y.Tag != nil {
				w.expr(y.Tag, held, false)
			}
			body = y.Body
		case *ast.TypeSwitchStmt:
			if y.Init != nil {
				held, _ = w.stmt(y.Init, held)
			}
			w.stmt(y.Assign, held)
			body = y.Body
		case *ast.SelectStmt:
			body = y.Body
		}
		var out map[string]int
		any := false
		hasDefault := false
		for _, cl := range body.List {
			var list []ast.Stmt
			switch cc := cl.(type) {
			case *ast.CaseClause:
				if cc.List == nil {
					hasDefault = true
				}
				w.exprs(held, false, cc.List...)
				list = cc.Body
			case *ast.CommClause:
				if cc.Comm == nil {
					hasDefault = true
				} else {
					w.stmt(cc.Comm, held)
				}
				list = cc.Body
			}
			h, c := w.stmts(list, copyHeld(held))
			if c {
				if !any {
					out, any = h, true
				} else {
					out = meetHeld(out, h)
				}
			}
		}
		if !hasDefault {
			if !any {
				out, any = held, true
			} else {
				out = meetHeld(out, held)
			}
		}
		if !any {
			return held, false
		}
		return out, true
	case *ast.BranchStmt:
		return held, false
	case *ast.SendStmt:
		w.exprs(held, false, x.Chan, x.Value)
		return held, true
	case *ast.EmptyStmt:
		return held, true
	}
	w.undecided = append(w.undecided, s.Pos())
	w.undecWhy = append(w.undecWhy, "statement form not handled by the lockset walk")
	return held, true
}
