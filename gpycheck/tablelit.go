package main

import (
	"go/ast"
	"go/types"
)

// A lookup table written as data: `var T = map[K]V{K1: V1, …}` at package level, every key a constant, decided
// read-only by readOnlyTable. `v, ok := T[k]` is then the same decision as `switch k { case K1: v = V1 … default: }`,
// and the rules that read such decisions off a switch read them off the literal as well.
type tableEntry struct {
	key ast.Expr
	val ast.Expr
}

type tableLit struct {
	v       *types.Var
	info    *types.Info
	entries []tableEntry
}

var tableLitCache = map[*types.Var]*tableLit{}

// tableLiteral resolves e (an identifier naming a package-level map variable of this module) to its literal.
func tableLiteral(c *Ctx, info *types.Info, e ast.Expr) *tableLit {
	id := identOf(e)
	if id == nil {
		if sel, ok := unparen(e).(*ast.SelectorExpr); ok {
			id = sel.Sel
		}
	}
	if id == nil {
		return nil
	}
	v, ok := info.Uses[id].(*types.Var)
	if !ok || v.Pkg() == nil || v.Parent() != v.Pkg().Scope() {
		return nil
	}
	if t, ok := tableLitCache[v]; ok {
		return t
	}
	tableLitCache[v] = nil
	if _, isMap := v.Type().Underlying().(*types.Map); !isMap {
		return nil
	}
	p := c.Pkgs[v.Pkg().Path()]
	if p == nil {
		return nil
	}
	if ro, _ := readOnlyTable(c, v); !ro {
		return nil
	}
	for _, f := range c.Files(p) {
		for _, d := range f.Decls {
			gd, ok := d.(*ast.GenDecl)
			if !ok {
				continue
			}
			for _, sp := range gd.Specs {
				vs, ok := sp.(*ast.ValueSpec)
				if !ok {
					continue
				}
				for i, nm := range vs.Names {
					if p.TypesInfo.Defs[nm] != types.Object(v) || i >= len(vs.Values) {
						continue
					}
					cl, ok := unparen(vs.Values[i]).(*ast.CompositeLit)
					if !ok {
						return nil
					}
					t := &tableLit{v: v, info: p.TypesInfo}
					for _, el := range cl.Elts {
						kv, ok := el.(*ast.KeyValueExpr)
						if !ok {
							return nil
						}
						if tv, ok := p.TypesInfo.Types[kv.Key]; !ok || tv.Value == nil {
							return nil
						}
						t.entries = append(t.entries, tableEntry{kv.Key, kv.Value})
					}
					tableLitCache[v] = t
					return t
				}
			}
		}
	}
	return nil
}
