package main

import (
	"go/ast"
	"go/types"
)

// A lookup table written as data: `var T = map[K]V{K1: V1, …}` at package level, every key a constant, decided
// read-only by readOnlyTable. `v, ok := T[k]` is then the same decision as `switch k { case K1: v = V1 … default: }`,
// and the rules that read such decisions off a switch read them off the literal as well.
type tableEntry struct {
	key ast.Expr
	val ast.Expr
}

type tableLit struct {
	v       *types.Var
	info    *types.Info
	entries []tableEntry
}

var tableLitCache = map[*types.Var]*tableLit{}

// tableLiteral resolves e (an identifier naming a package-level map variable of this module) to its literal.
func tableLiteral(c *Ctx, info *types.Info, e ast.Expr) *tableLit {
	id := identOf(e)
	if id == nil {
		if sel, ok := unparen(e).(*ast.SelectorExpr); ok {
			id = sel.Sel
		}
	}
	if id == nil {
		return nil
	}
	v, ok := info.Uses[id].(*types.Var)
	if !ok || v.Pkg() == nil || v.Parent() != v.Pkg().Scope() {
		return nil
	}
	if t, ok := tableLitCache[v]; ok {
		return t
	}
	tableLitCache[v] = nil
	if _, isMap := v.Type().Underlying().(*types.Map); !isMap {
		return nil
	}
	p := c.Pkgs[v.Pkg().Path()]
	if p == nil {
		return nil
	}
	if ro, _ := readOnlyTable(c, v); !ro {
		return nil
	}
	for _, f := range c.Files(p) {
		for _, d := range f.Decls {
			gd, ok := d.(*ast.GenDecl)
			if !ok {
				continue
			}
			for _, sp := range gd.Specs {
				vs, ok := sp.(*ast.ValueSpec)
				if !ok {
					continue
				}
				for i, nm := range vs.Names {
					if p.TypesInfo.Defs[nm] != types.Object(v) || i >= len(vs.Values) {
						continue
					}
					cl, ok := unparen(vs.Values[i]).(*ast.CompositeLit)
					if !ok {
						return nil
					}
					t := &tableLit{v: v, info: p.TypesInfo}
					for _, el := range cl.Elts {
						kv, ok := el.(*ast.KeyValueExpr)
						if !ok {
							return nil
						}
						if tv, ok := p.TypesInfo.Types[kv.Key]; !ok || tv.Value == nil {
							return nil
						}
						t.entries = append(t.entries, tableEntry{kv.Key, kv.Value})
					}
					tableLitCache[v] = t
					return t
				}
			}
		}
	}
	return nil
}

// arrayTable: a package-level array or slice literal of struct literals, decided read-only: T[k] for a constant k is
// the k-th element literal, and T[k].f the expression written for field f there.
type arrayTable struct {
	v     *types.Var
	info  *types.Info
	elems map[int64]*ast.CompositeLit
}

var arrayTableCache = map[*types.Var]*arrayTable{}

func arrayTableOf(c *Ctx, info *types.Info, e ast.Expr) *arrayTable {
	id := identOf(e)
	if id == nil {
		return nil
	}
	v, ok := info.Uses[id].(*types.Var)
	if !ok || v.Pkg() == nil || v.Parent() != v.Pkg().Scope() {
		return nil
	}
	if t, ok := arrayTableCache[v]; ok {
		return t
	}
	arrayTableCache[v] = nil
	var elemT types.Type
	switch t := v.Type().Underlying().(type) {
	case *types.Array:
		elemT = t.Elem()
	case *types.Slice:
		elemT = t.Elem()
	default:
		return nil
	}
	if _, isStruct := elemT.Underlying().(*types.Struct); !isStruct {
		return nil
	}
	p := c.Pkgs[v.Pkg().Path()]
	if p == nil {
		return nil
	}
	if ro, _ := readOnlyTable(c, v); !ro {
		return nil
	}
	for _, f := range c.Files(p) {
		for _, d := range f.Decls {
			gd, ok := d.(*ast.GenDecl)
			if !ok {
				continue
			}
			for _, sp := range gd.Specs {
				vs, ok := sp.(*ast.ValueSpec)
				if !ok {
					continue
				}
				for i, nm := range vs.Names {
					if p.TypesInfo.Defs[nm] != types.Object(v) || i >= len(vs.Values) {
						continue
					}
					cl, ok := unparen(vs.Values[i]).(*ast.CompositeLit)
					if !ok {
						return nil
					}
					t := &arrayTable{v: v, info: p.TypesInfo, elems: map[int64]*ast.CompositeLit{}}
					next := int64(0)
					for _, el := range cl.Elts {
						val := el
						if kv, ok := el.(*ast.KeyValueExpr); ok {
							k, ok := constInt(p.TypesInfo, kv.Key)
							if !ok {
								return nil
							}
							next, val = k, kv.Value
						}
						ecl, ok := unparen(val).(*ast.CompositeLit)
						if !ok {
							return nil
						}
						t.elems[next] = ecl
						next++
					}
					arrayTableCache[v] = t
					return t
				}
			}
		}
	}
	return nil
}

// fieldOfElem: the expression written for the named field in a struct literal (keyed or positional).
func fieldOfElem(info *types.Info, cl *ast.CompositeLit, field string) ast.Expr {
	tv, ok := info.Types[cl]
	if !ok {
		return nil
	}
	st, ok := tv.Type.Underlying().(*types.Struct)
	if !ok {
		return nil
	}
	for i, el := range cl.Elts {
		if kv, ok := el.(*ast.KeyValueExpr); ok {
			if id := identOf(kv.Key); id != nil && id.Name == field {
				return kv.Value
			}
			continue
		}
		if i < st.NumFields() && st.Field(i).Name() == field {
			return el
		}
	}
	return nil
}
