package main

import (
	"fmt"
	"go/ast"
	"go/token"
	"go/types"
	"sort"
	"strings"

	"golang.org/x/tools/go/ssa"
)

// Storage-sharing analysis on go/ssa (DESIGN.md A9).
//
// Question decided: can a value returned by a function (or handed to a sink) share mutable
// backing storage — the array behind a []Object, a Go map — with a container that was passed in,
// or be that very container?  Python's model says which operations give a new container (list(x),
// x + y, x[a:b], x.copy(), dict(**kw), tuple(list), type(name, bases, ns) …) and which return the
// operand (x += y).  Go makes the wrong answer one keystroke away: append(a.Items, …) reuses a's
// array, Tuple(x.Items) is a view, a struct copy of a Set shares its map.
//
// The analysis is a flow-insensitive, field-insensitive may-alias propagation with summaries:
//
//   atom      (function, parameter index, kind)   kind = the container type the parameter was
//             witnessed as ("*List", "StringDict", "*Set", "Tuple", "[]Object", …) or "raw" while
//             it is still an interface value / an element of the args tuple (a Python operand)
//   sources   parameters; type assertions promote a raw atom to the asserted container kind
//   flows     slicing, conversion, interface boxing, phi, field loads, append(dst, …) -> dst,
//             struct copies, stores into fields of an object (the object then carries the atom),
//             captured variables, calls through per-function summaries (fixpoint)
//   cut       loading an ELEMENT out of a container yields no atom for a mutable container
//             (a shallow copy is what Python defines) and a raw atom for the args tuple / kwargs
//             (the element is a Python operand)
//   copy()    and range loops move elements, so their destination gets nothing
//
// A function's result "shares" with parameter i when an atom (f, i, kind) with a container kind
// reaches a return value (or the sink), except immutable-to-immutable (Tuple -> Tuple, Bytes -> Bytes).

type atom struct {
	fn   *ssa.Function
	idx  int
	kind string
	elem bool // the atom stands for an element taken out of the parameter (an operand inside args / kwargs), not the parameter itself
}

type taintSet map[atom]bool

type aliasAn struct {
	c       *Ctx
	t       map[ssa.Value]taintSet
	ret     map[*ssa.Function][]taintSet
	stores  map[*ssa.Function]map[[2]int]bool // (dst param, src param): callee stores storage of src into the object dst
	keeps   map[*ssa.Function]map[int]bool    // param j itself is stored as an element of some container (e.g. pushed on the value stack)
	binds   map[*ssa.FreeVar][]ssa.Value
	fns     []*ssa.Function
	changed bool
	pyPath  string
}

func mutableKind(k string) bool {
	switch k {
	case "", "raw", "Tuple", "Bytes", "*FrozenSet":
		return false
	}
	return true
}

// containerKind names the container type of t ("" if t is not a container).
func (a *aliasAn) containerKind(t types.Type) string {
	if t == nil {
		return ""
	}
	if p, ok := t.(*types.Pointer); ok {
		if n, ok := p.Elem().(*types.Named); ok && n.Obj().Pkg() != nil && n.Obj().Pkg().Path() == a.pyPath {
			switch n.Obj().Name() {
			case "List", "Set", "FrozenSet":
				return "*" + n.Obj().Name()
			}
		}
		return ""
	}
	if n, ok := t.(*types.Named); ok && n.Obj().Pkg() != nil && n.Obj().Pkg().Path() == a.pyPath {
		switch n.Obj().Name() {
		case "Tuple", "StringDict", "Bytes":
			return n.Obj().Name()
		}
	}
	switch u := t.Underlying().(type) {
	case *types.Slice:
		if b, ok := u.Elem().Underlying().(*types.Basic); ok && b.Kind() != types.Byte && b.Kind() != types.Uint8 {
			return "" // []string, []int: not object storage
		}
		if _, ok := u.Elem().Underlying().(*types.Basic); ok {
			return "[]byte"
		}
		if _, ok := u.Elem().Underlying().(*types.Interface); ok {
			return "[]Object"
		}
		return ""
	case *types.Map:
		if _, ok := t.(*types.Named); ok {
			return t.(*types.Named).Obj().Name()
		}
		return "map"
	}
	return ""
}

func isInterface(t types.Type) bool {
	_, ok := t.Underlying().(*types.Interface)
	return ok
}

func (a *aliasAn) add(v ssa.Value, ts taintSet) {
	if len(ts) == 0 || v == nil {
		return
	}
	if v.Type() != nil && v.Type().String() == "error" {
		return // a container is never an error value
	}
	cur := a.t[v]
	if cur == nil {
		cur = taintSet{}
		a.t[v] = cur
	}
	for at := range ts {
		if !cur[at] {
			cur[at] = true
			a.changed = true
		}
	}
}

// elem gives the atoms of an element loaded from a container carrying ts.
func elem(ts taintSet, elemIsInterface bool) taintSet {
	if !elemIsInterface {
		return nil
	}
	var out taintSet
	for at := range ts {
		switch at.kind {
		case "Tuple", "[]Object", "StringDict", "raw":
			if out == nil {
				out = taintSet{}
			}
			out[atom{at.fn, at.idx, "raw", true}] = true
		}
	}
	return out
}

func (a *aliasAn) promote(ts taintSet, to types.Type) taintSet {
	k := a.containerKind(to)
	out := taintSet{}
	for at := range ts {
		if at.kind == "raw" {
			if k != "" {
				out[atom{at.fn, at.idx, k, at.elem}] = true
			} else if isInterface(to) {
				out[at] = true
			}
			continue
		}
		out[at] = true
	}
	return out
}

// base walks an address back to the object it points into.
func storeBase(addr ssa.Value) (ssa.Value, bool) {
	elemStore := false
	for {
		switch x := addr.(type) {
		case *ssa.FieldAddr:
			addr = x.X
		case *ssa.IndexAddr:
			elemStore = true
			addr = x.X
		default:
			return addr, elemStore
		}
	}
}

func newAliasAn(c *Ctx) *aliasAn {
	a := &aliasAn{c: c, t: map[ssa.Value]taintSet{}, ret: map[*ssa.Function][]taintSet{},
		stores: map[*ssa.Function]map[[2]int]bool{}, keeps: map[*ssa.Function]map[int]bool{}, binds: map[*ssa.FreeVar][]ssa.Value{}}
	a.pyPath = c.MustPkg("py").PkgPath
	prog := c.SSA()
	_ = prog
	seen := map[*ssa.Function]bool{}
	var addFn func(fn *ssa.Function)
	addFn = func(fn *ssa.Function) {
		if fn == nil || seen[fn] || fn.Blocks == nil {
			return
		}
		seen[fn] = true
		a.fns = append(a.fns, fn)
		for _, an := range fn.AnonFuncs {
			addFn(an)
		}
	}
	for _, p := range c.All {
		sp := c.prog.Package(p.Types)
		if sp == nil {
			continue
		}
		for _, m := range sp.Members {
			switch m := m.(type) {
			case *ssa.Function:
				addFn(m)
			case *ssa.Type:
				for _, t := range []types.Type{m.Type(), types.NewPointer(m.Type())} {
					ms := c.prog.MethodSets.MethodSet(t)
					for i := 0; i < ms.Len(); i++ {
						addFn(c.prog.MethodValue(ms.At(i)))
					}
				}
			}
		}
	}
	sort.Slice(a.fns, func(i, j int) bool { return a.fns[i].Pos() < a.fns[j].Pos() })
	// parameters and closure bindings
	for _, fn := range a.fns {
		for i, p := range fn.Params {
			k := a.containerKind(p.Type())
			switch {
			case k != "":
				a.add(p, taintSet{atom{fn, i, k, false}: true})
			case isInterface(p.Type()):
				a.add(p, taintSet{atom{fn, i, "raw", false}: true})
			}
		}
		for _, b := range fn.Blocks {
			for _, in := range b.Instrs {
				if mc, ok := in.(*ssa.MakeClosure); ok {
					cf := mc.Fn.(*ssa.Function)
					for k, fv := range cf.FreeVars {
						if k < len(mc.Bindings) {
							a.binds[fv] = append(a.binds[fv], mc.Bindings[k])
						}
					}
				}
			}
		}
	}
	for iter := 0; iter < 40; iter++ {
		a.changed = false
		for _, fn := range a.fns {
			a.step(fn)
		}
		if !a.changed {
			break
		}
	}
	return a
}

func union(sets ...taintSet) taintSet {
	out := taintSet{}
	for _, s := range sets {
		for k := range s {
			out[k] = true
		}
	}
	return out
}

func (a *aliasAn) argParser(fn *ssa.Function) bool {
	if fn == nil || fn.Pkg == nil || fn.Pkg.Pkg.Path() != a.pyPath {
		return false
	}
	switch fn.Name() {
	case "UnpackTuple", "ParseTupleAndKeywords", "ParseTuple":
		return true
	}
	return false
}

func (a *aliasAn) step(fn *ssa.Function) {
	for _, fv := range fn.FreeVars {
		for _, b := range a.binds[fv] {
			a.add(fv, a.t[b])
		}
	}
	for _, b := range fn.Blocks {
		for _, in := range b.Instrs {
			switch x := in.(type) {
			case *ssa.Phi:
				for _, e := range x.Edges {
					a.add(x, a.t[e])
				}
			case *ssa.ChangeType:
				a.add(x, a.t[x.X])
			case *ssa.Convert:
				a.add(x, a.t[x.X])
			case *ssa.ChangeInterface:
				a.add(x, a.t[x.X])
			case *ssa.MakeInterface:
				a.add(x, a.t[x.X])
			case *ssa.SliceToArrayPointer:
				a.add(x, a.t[x.X])
			case *ssa.TypeAssert:
				a.add(x, a.promote(a.t[x.X], x.AssertedType))
			case *ssa.Extract:
				switch tup := x.Tuple.(type) {
				case *ssa.Call:
					if rs := a.callRet(tup); x.Index < len(rs) {
						a.add(x, rs[x.Index])
					}
				case *ssa.TypeAssert:
					if x.Index == 0 {
						a.add(x, a.t[tup])
					}
				case *ssa.Lookup, *ssa.Next:
					if isInterface(x.Type()) || a.containerKind(x.Type()) != "" {
						a.add(x, a.t[tup])
					}
				}
			case *ssa.FieldAddr:
				a.add(x, a.t[x.X])
				if isFrameStackField(x) {
					a.add(x, taintSet{atom{nil, -1, "stack", false}: true})
				}
			case *ssa.Field:
				a.add(x, a.t[x.X])
			case *ssa.IndexAddr:
				et := x.Type().(*types.Pointer).Elem()
				a.add(x, elem(a.t[x.X], isInterface(et)))
			case *ssa.Index:
				a.add(x, elem(a.t[x.X], isInterface(x.Type())))
			case *ssa.Lookup:
				if m, ok := x.X.Type().Underlying().(*types.Map); ok {
					a.add(x, elem(a.t[x.X], isInterface(m.Elem())))
				}
			case *ssa.Range:
				a.add(x, a.t[x.X])
			case *ssa.Next:
				a.add(x, elem(a.t[x.Iter], true))
			case *ssa.Slice:
				a.add(x, a.t[x.X])
			case *ssa.UnOp:
				if x.Op == token.MUL {
					switch x.Type().Underlying().(type) {
					case *types.Slice, *types.Map, *types.Pointer, *types.Interface, *types.Struct, *types.Array:
						a.add(x, a.t[x.X])
					}
				}
			case *ssa.Store:
				base, elemStore := storeBase(x.Addr)
				if elemStore {
					// an element is stored: a reference, not shared storage — but remember that the parameter is kept
					if it, ok := x.Val.Type().Underlying().(*types.Interface); !ok || it.NumMethods() > 0 {
						for at := range a.t[x.Val] {
							if at.fn == fn && !at.elem {
								a.setKeeps(fn, at.idx)
							}
						}
					}
					continue
				}
				vt := a.t[x.Val]
				if len(vt) == 0 {
					continue
				}
				a.add(base, vt)
				if fv, ok := base.(*ssa.FreeVar); ok {
					for _, bd := range a.binds[fv] {
						a.add(bd, vt)
					}
				}
				if u, ok := base.(*ssa.UnOp); ok && u.Op == token.MUL {
					// the object lives in a variable cell (captured or address-taken)
					a.add(u.X, vt)
					if fv, ok := u.X.(*ssa.FreeVar); ok {
						for _, bd := range a.binds[fv] {
							a.add(bd, vt)
						}
					}
				}
				// summary: storage of parameter j now reachable from the object of parameter i
				if bi := paramIdentity(base); bi >= 0 {
					for st := range vt {
						if st.fn == fn && st.idx != bi && st.kind != "raw" {
							m := a.stores[fn]
							if m == nil {
								m = map[[2]int]bool{}
								a.stores[fn] = m
							}
							k := [2]int{bi, st.idx}
							if !m[k] {
								m[k] = true
								a.changed = true
							}
						}
					}
				}
			case *ssa.Call:
				rs := a.callRet(x)
				if len(rs) == 1 {
					a.add(x, rs[0])
				}
				a.callEffects(x)
			case *ssa.Defer:
				a.callEffectsCommon(&x.Call)
			case *ssa.Go:
				a.callEffectsCommon(&x.Call)
			case *ssa.Return:
				rs := a.ret[fn]
				for len(rs) < len(x.Results) {
					rs = append(rs, taintSet{})
				}
				a.ret[fn] = rs
				for i, r := range x.Results {
					for at := range a.t[r] {
						if !rs[i][at] {
							rs[i][at] = true
							a.changed = true
						}
					}
				}
			}
		}
	}
}

// callRet gives the atoms of each result of a call, in the caller's terms.
func (a *aliasAn) callRet(call *ssa.Call) []taintSet {
	cc := call.Common()
	if b, ok := cc.Value.(*ssa.Builtin); ok {
		if b.Name() == "append" && len(cc.Args) > 0 {
			return []taintSet{a.t[cc.Args[0]]}
		}
		return nil
	}
	callee := cc.StaticCallee()
	if callee == nil || callee.Blocks == nil {
		return nil
	}
	rs := a.ret[callee]
	out := make([]taintSet, len(rs))
	for i, r := range rs {
		o := taintSet{}
		for at := range r {
			if at.fn == callee {
				if at.idx < len(cc.Args) {
					for ct := range a.t[cc.Args[at.idx]] {
						if at.elem && !ct.elem {
							// the callee returned an element of its parameter
							for e := range elem(taintSet{ct: true}, true) {
								if at.kind != "raw" {
									e.kind = at.kind
								}
								o[e] = true
							}
							continue
						}
						if at.kind == "raw" || ct.kind != "raw" {
							// a raw argument witnessed as a container in the callee
							o[ct] = true
						}
						if ct.kind == "raw" && at.kind != "raw" {
							o[atom{ct.fn, ct.idx, at.kind, ct.elem || at.elem}] = true
						}
					}
				}
			} else {
				o[at] = true // captured from an enclosing function
			}
		}
		out[i] = o
	}
	return out
}

func (a *aliasAn) callEffects(call *ssa.Call) { a.callEffectsCommon(call.Common()) }

func (a *aliasAn) callEffectsCommon(cc *ssa.CallCommon) {
	callee := cc.StaticCallee()
	if callee == nil {
		return
	}
	if a.argParser(callee) && len(cc.Args) > 0 {
		// UnpackTuple(args, kwargs, …, &x, &y): each x receives an element of args / kwargs
		src := union(elem(a.t[cc.Args[0]], true))
		if len(cc.Args) > 1 {
			src = union(src, elem(a.t[cc.Args[1]], true))
		}
		last := cc.Args[len(cc.Args)-1]
		if sl, ok := last.(*ssa.Slice); ok {
			if arr, ok := sl.X.(*ssa.Alloc); ok {
				for _, ref := range *arr.Referrers() {
					ia, ok := ref.(*ssa.IndexAddr)
					if !ok {
						continue
					}
					for _, r2 := range *ia.Referrers() {
						if st, ok := r2.(*ssa.Store); ok && st.Addr == ia {
							a.add(st.Val, src)
							if fv, ok := st.Val.(*ssa.FreeVar); ok {
								for _, bd := range a.binds[fv] {
									a.add(bd, src)
								}
							}
						}
					}
				}
			}
		}
		return
	}
	for j := range a.keeps[callee] {
		if j < len(cc.Args) {
			for at := range a.t[cc.Args[j]] {
				if !at.elem && at.fn != nil && at.fn == callerOf(cc) {
					a.setKeeps(at.fn, at.idx)
				}
			}
		}
	}
	for k := range a.stores[callee] {
		dst, src := k[0], k[1]
		if dst < len(cc.Args) && src < len(cc.Args) {
			st := taintSet{}
			for at := range a.t[cc.Args[src]] {
				if at.kind != "raw" {
					st[at] = true
				}
			}
			base, _ := storeBase(cc.Args[dst])
			a.add(base, st)
			a.add(cc.Args[dst], st)
		}
	}
}

// ---- naming of anonymous functions ----

type litNamer struct {
	names map[token.Pos]string
}

func newLitNamer(c *Ctx) *litNamer {
	ln := &litNamer{names: map[token.Pos]string{}}
	for _, p := range c.All {
		for _, f := range c.Files(p) {
			var stack []ast.Node
			ast.Inspect(f, func(n ast.Node) bool {
				if n == nil {
					stack = stack[:len(stack)-1]
					return true
				}
				if fl, ok := n.(*ast.FuncLit); ok {
					name := ""
					for i := len(stack) - 1; i >= 0 && name == ""; i-- {
						switch s := stack[i].(type) {
						case *ast.CallExpr:
							if len(s.Args) > 0 {
								if bl, ok := s.Args[0].(*ast.BasicLit); ok && bl.Kind == token.STRING {
									name = exprStr(s.Fun) + "(" + bl.Value + ")"
								}
							}
						case *ast.AssignStmt:
							if len(s.Lhs) == 1 {
								name = exprStr(s.Lhs[0])
							}
						case *ast.KeyValueExpr:
							name = exprStr(s.Key)
						case *ast.FuncDecl, *ast.FuncLit:
							i = -1
						}
					}
					// prefix with an enclosing assignment target if the call itself is assigned (T.Dict["x"] = MustNewMethod("x", func…))
					for i := len(stack) - 1; i >= 0; i-- {
						if as, ok := stack[i].(*ast.AssignStmt); ok && len(as.Lhs) == 1 {
							l := exprStr(as.Lhs[0])
							if !strings.Contains(name, l) {
								name = l + "=" + name
							}
							break
						}
						if _, ok := stack[i].(*ast.FuncLit); ok {
							break
						}
					}
					ln.names[fl.Pos()] = name
				}
				stack = append(stack, n)
				return true
			})
		}
	}
	return ln
}

func (ln *litNamer) id(fn *ssa.Function) string {
	if fn.Parent() == nil {
		return ssaFuncID(fn)
	}
	if syn, ok := fn.Syntax().(*ast.FuncLit); ok {
		if n := ln.names[syn.Pos()]; n != "" {
			return ln.id(fn.Parent()) + "$" + n
		}
	}
	return ssaFuncID(fn)
}

func paramName(fn *ssa.Function, i int) string {
	if i < len(fn.Params) {
		return fn.Params[i].Name()
	}
	return fmt.Sprintf("#%d", i)
}

// paramIdentity: v is a parameter object itself (possibly type-asserted); -1 otherwise.
func paramIdentity(v ssa.Value) int {
	for i := 0; i < 8; i++ {
		switch x := v.(type) {
		case *ssa.Parameter:
			for k, p := range x.Parent().Params {
				if p == x {
					return k
				}
			}
			return -1
		case *ssa.TypeAssert:
			v = x.X
		case *ssa.ChangeInterface:
			v = x.X
		case *ssa.MakeInterface:
			v = x.X
		case *ssa.Extract:
			if ta, ok := x.Tuple.(*ssa.TypeAssert); ok && x.Index == 0 {
				v = ta.X
			} else {
				return -1
			}
		default:
			return -1
		}
	}
	return -1
}

func (a *aliasAn) setKeeps(fn *ssa.Function, i int) {
	m := a.keeps[fn]
	if m == nil {
		m = map[int]bool{}
		a.keeps[fn] = m
	}
	if !m[i] {
		m[i] = true
		a.changed = true
	}
}

func callerOf(cc *ssa.CallCommon) *ssa.Function {
	for _, arg := range cc.Args {
		if in, ok := arg.(ssa.Instruction); ok {
			return in.Parent()
		}
		if p, ok := arg.(*ssa.Parameter); ok {
			return p.Parent()
		}
	}
	return nil
}
