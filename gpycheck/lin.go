package main

import (
	"fmt"
	"sort"
	"strings"
)

// lin is a linear integer expression  c + Σ coef·symbol  over named symbols.
type lin struct {
	c int64
	t map[string]int64
}

func linConst(c int64) *lin { return &lin{c: c, t: map[string]int64{}} }
func linSym(s string) *lin  { return &lin{t: map[string]int64{s: 1}} }

func (a *lin) clone() *lin {
	o := &lin{c: a.c, t: map[string]int64{}}
	for k, v := range a.t {
		o.t[k] = v
	}
	return o
}

func (a *lin) add(b *lin) *lin {
	o := a.clone()
	o.c += b.c
	for k, v := range b.t {
		o.t[k] += v
		if o.t[k] == 0 {
			delete(o.t, k)
		}
	}
	return o
}

func (a *lin) scale(k int64) *lin {
	o := &lin{c: a.c * k, t: map[string]int64{}}
	if k == 0 {
		return o
	}
	for s, v := range a.t {
		o.t[s] = v * k
	}
	return o
}

func (a *lin) sub(b *lin) *lin { return a.add(b.scale(-1)) }

func (a *lin) isConst() bool { return len(a.t) == 0 }

func (a *lin) isZero() bool { return a.c == 0 && len(a.t) == 0 }

func (a *lin) equal(b *lin) bool { return a.sub(b).isZero() }

// singleSym returns the symbol if the expression is exactly 1·s.
func (a *lin) singleSym() (string, bool) {
	if a.c != 0 || len(a.t) != 1 {
		return "", false
	}
	for s, v := range a.t {
		if v == 1 {
			return s, true
		}
	}
	return "", false
}

func (a *lin) coef(s string) int64 { return a.t[s] }

func (a *lin) String() string {
	var keys []string
	for k := range a.t {
		keys = append(keys, k)
	}
	sort.Strings(keys)
	var parts []string
	for _, k := range keys {
		v := a.t[k]
		switch v {
		case 1:
			parts = append(parts, k)
		case -1:
			parts = append(parts, "-"+k)
		default:
			parts = append(parts, fmt.Sprintf("%d*%s", v, k))
		}
	}
	if a.c != 0 || len(parts) == 0 {
		parts = append(parts, fmt.Sprintf("%d", a.c))
	}
	s := strings.Join(parts, " + ")
	return strings.ReplaceAll(s, "+ -", "- ")
}

// subst replaces symbol s by expression e.
func (a *lin) subst(s string, e *lin) *lin {
	k, ok := a.t[s]
	if !ok {
		return a
	}
	o := a.clone()
	delete(o.t, s)
	return o.add(e.scale(k))
}

// reduce tries to rewrite a to zero using equalities (each eq == 0), by
// eliminating one symbol per equality with coefficient ±1.
func reduceWith(a *lin, eqs []*lin) *lin {
	cur := a
	for iter := 0; iter < 4; iter++ {
		changed := false
		for _, eq := range eqs {
			// pick a symbol of eq with coef ±1 that occurs in cur
			var keys []string
			for s := range eq.t {
				keys = append(keys, s)
			}
			sort.Strings(keys)
			for _, s := range keys {
				k := eq.t[s]
				if (k == 1 || k == -1) && cur.t[s] != 0 {
					// s = -(eq - k*s)/k
					rest := eq.clone()
					delete(rest.t, s)
					rest = rest.scale(-k) // since k=±1, 1/k = k
					cur = cur.subst(s, rest)
					changed = true
					break
				}
			}
		}
		if !changed {
			break
		}
	}
	return cur
}

// linCond renders the comparison `d op 0` over integers in a canonical form, so that the many ways of
// writing one test (i != n-1, i < last with last := n-1, !(i >= n-1), n-1 > i …) give one text:
//   - the terms are ordered by symbol and the first has a positive coefficient;
//   - strict inequalities are tightened (d < 0 is d <= -1), leaving ==, !=, <=, >=;
//   - the constant stands on the right;
//   - for a quantity that cannot be negative (a length, a loop index, a masked bit-field), s >= 1 is
//     s != 0 and s <= 0 is s == 0;
//   - for the index of a range loop over X, which is at most len(X)-1, idx(X)-len(X) >= -1 is == -1
//     and <= -2 is != -1.
func linCond(d *lin, op string) string {
	d = d.clone()
	var keys []string
	for k := range d.t {
		keys = append(keys, k)
	}
	sort.Strings(keys)
	flip := map[string]string{"<": ">", ">": "<", "<=": ">=", ">=": "<=", "==": "==", "!=": "!="}
	if len(keys) > 0 && d.t[keys[0]] < 0 {
		d = d.scale(-1)
		op = flip[op]
	}
	switch op {
	case "<":
		d.c++
		op = "<="
	case ">":
		d.c--
		op = ">="
	}
	rhs := -d.c
	d.c = 0
	if len(keys) == 1 && d.t[keys[0]] == 1 && (nonNegSym(keys[0]) || strings.HasPrefix(keys[0], "idx(")) {
		switch {
		case op == ">=" && rhs == 1:
			op, rhs = "!=", 0
		case op == "<=" && rhs == 0:
			op, rhs = "==", 0
		}
	}
	if len(keys) == 2 && strings.HasPrefix(keys[0], "idx(") && keys[1] == "len("+strings.TrimPrefix(keys[0], "idx(") &&
		d.t[keys[0]] == 1 && d.t[keys[1]] == -1 {
		switch {
		case op == ">=" && rhs == -1:
			op = "=="
		case op == "<=" && rhs == -2:
			op, rhs = "!=", -1
		}
	}
	lhs := "0"
	if len(keys) > 0 {
		lhs = d.String()
	}
	return fmt.Sprintf("%s %s %d", lhs, op, rhs)
}

var negOp = map[string]string{"<": ">=", ">": "<=", "<=": ">", ">=": "<", "==": "!=", "!=": "=="}

// linCondNamed is linCond, except that an (in)equality of a single symbol with a named constant of an
// enumeration type keeps the constant's name: `vm.why == whyReturn`, not `vm.why == 2`.
func linCondNamed(d *lin, op, name string) string {
	if name != "" && (op == "==" || op == "!=") && len(d.t) == 1 {
		for s, k := range d.t {
			if k == 1 || k == -1 {
				return s + " " + op + " " + name
			}
		}
	}
	return linCond(d, op)
}
