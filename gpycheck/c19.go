package main

import (
	"fmt"
	"go/ast"
	"go/constant"
	"go/token"
	"go/types"
	"strings"
)

// C19 structural rules (DESIGN.md §4 C19):
//   R2  a module is registered in the context's store by the function that creates it (ModuleStore.NewModule), and
//       every function that creates a module and then runs its code creates (= registers) it first — so an import
//       of the module from inside its own body (a cycle) finds it in the store instead of running the body again
//   R3  ImportModuleLevelObject consults the store first, never reassigns the module name it was given, and registers a
//       file module under that same name
//   R4  from-import-star applies the underscore filter only when the module has no __all__

func runC19R2(c *Ctx, r *Rep) {
	nm := c.Method("py", "ModuleStore", "NewModule")
	if nm == nil {
		r.undecided("register|(*py.ModuleStore).NewModule", token.NoPos, "anchor function not found")
		return
	}
	fd := c.Decl(nm)
	p := c.MustPkg("py")
	r.analysed("(*py.ModuleStore).NewModule")
	// the store's map is written in NewModule
	storeType := c.Named("py", "ModuleStore")
	var mapField *types.Var
	if st, ok := storeType.Underlying().(*types.Struct); ok {
		for i := 0; i < st.NumFields(); i++ {
			if _, ok := st.Field(i).Type().Underlying().(*types.Map); ok {
				mapField = st.Field(i)
			}
		}
	}
	if mapField == nil {
		r.undecided("register|store map", token.NoPos, "no map field found in ModuleStore")
		return
	}
	writesIn := map[string]token.Pos{}
	for _, f := range c.Files(p) {
		for _, d := range f.Decls {
			d2, ok := d.(*ast.FuncDecl)
			if !ok || d2.Body == nil {
				continue
			}
			ast.Inspect(d2.Body, func(n ast.Node) bool {
				as, ok := n.(*ast.AssignStmt)
				if !ok {
					return true
				}
				for _, l := range as.Lhs {
					if ie, ok := l.(*ast.IndexExpr); ok {
						if se, ok := ie.X.(*ast.SelectorExpr); ok {
							if sel := p.TypesInfo.Selections[se]; sel != nil && sel.Obj() == mapField {
								writesIn[declID(p, d2)] = as.Pos()
							}
						}
					}
				}
				return true
			})
		}
	}
	_, inNew := writesIn["(*py.ModuleStore).NewModule"]
	r.check(inNew, "register|module registered where it is created", fd.Pos(),
		"ModuleStore.NewModule inserts the module it creates into the store",
		"ModuleStore.NewModule no longer inserts the new module into the store: while the module's body runs the module is not importable, so an import cycle (or an import of it from a module it imports) runs the body a second time and hands out a different module object")
	for id, pos := range writesIn {
		if id != "(*py.ModuleStore).NewModule" {
			r.bad("register|other writer "+id, pos, "%s writes the module table of the store: registration is owned by ModuleStore.NewModule (created = registered); a second registration point can register a module after its body ran", id)
		}
	}
	// creators that also run code: create first
	n := 0
	for _, pk := range c.All {
		for _, f := range c.Files(pk) {
			for _, d := range f.Decls {
				d2, ok := d.(*ast.FuncDecl)
				if !ok || d2.Body == nil {
					continue
				}
				var create, run token.Pos
				ast.Inspect(d2.Body, func(n ast.Node) bool {
					call, ok := n.(*ast.CallExpr)
					if !ok {
						return true
					}
					fn := Callee(pk.TypesInfo, call)
					if fn == nil {
						return true
					}
					if fn == nm && create == token.NoPos {
						create = call.Pos()
					}
					if fn.Name() == "RunCode" && run == token.NoPos {
						if sig, ok := fn.Type().(*types.Signature); ok && sig.Recv() != nil {
							run = call.Pos()
						}
					}
					return true
				})
				if create == token.NoPos || run == token.NoPos {
					continue
				}
				n++
				id := declID(pk, d2)
				r.analysed(id)
				r.check(create < run, "register|"+id+"|created before its code runs", run,
					"the module is created (and thereby registered) before its code is run",
					id+" runs the module's code before the module is created and registered in the store")
			}
		}
	}
	if n == 0 {
		r.undecided("register|creators", token.NoPos, "no function found that creates a module and runs its code (expected the context's ModuleInit)")
	}
}

func runC19R3(c *Ctx, r *Rep) {
	p := c.MustPkg("py")
	fd, root := c.ExpandAlias(p, c.FuncDecl("py", "ImportModuleLevelObject"))
	if fd == nil || fd.Body == nil {
		r.undecided("import|py.ImportModuleLevelObject", token.NoPos, "anchor function not found")
		return
	}
	r.analysed("py.ImportModuleLevelObject")
	var nameObj types.Object
	for _, f := range fd.Type.Params.List {
		for _, nme := range f.Names {
			if nme.Name == "name" {
				nameObj = p.TypesInfo.Defs[nme]
			}
		}
	}
	if nameObj == nil {
		r.undecided("import|name parameter", fd.Pos(), "no parameter called name")
		return
	}
	reassigned := token.NoPos
	ast.Inspect(fd.Body, func(n ast.Node) bool {
		if as, ok := n.(*ast.AssignStmt); ok {
			for _, l := range as.Lhs {
				if id, ok := l.(*ast.Ident); ok && p.TypesInfo.Uses[id] != nil && root(p.TypesInfo.Uses[id]) == nameObj {
					reassigned = as.Pos()
				}
			}
		}
		return true
	})
	r.check(reassigned == token.NoPos, "import|module name not reassigned", fd.Pos(),
		"the module name is the same value for the store lookup and for registration",
		"the parameter `name` is reassigned at "+c.Pos(reassigned)+": the store lookup at the top uses the dotted name, so whatever is registered under the new value is never found again and the module body runs on every import")
	// first statement consults the store
	first := false
	if len(fd.Body.List) > 0 {
		ast.Inspect(fd.Body.List[0], func(n ast.Node) bool {
			if call, ok := n.(*ast.CallExpr); ok {
				if fn := Callee(p.TypesInfo, call); fn != nil && fn.Name() == "GetModule" && len(call.Args) == 1 {
					if id, ok := call.Args[0].(*ast.Ident); ok && p.TypesInfo.Uses[id] == nameObj {
						first = true
					}
				}
			}
			return true
		})
	}
	r.check(first, "import|store consulted first", fd.Body.Pos(), "the context's module store is consulted before anything else", "the first statement does not look the module up in the context's store by its name: an already imported module would be initialised again")
	// the file module is registered under `name`
	found := false
	ast.Inspect(fd.Body, func(n ast.Node) bool {
		call, ok := n.(*ast.CallExpr)
		if !ok {
			return true
		}
		if fn := Callee(p.TypesInfo, call); fn != nil && (fn.Name() == "RunFile" || fn.Name() == "RunCode") && len(call.Args) == 4 && fn.Type().(*types.Signature).Recv() == nil {
			found = true
			id, ok := call.Args[3].(*ast.Ident)
			r.check(ok && p.TypesInfo.Uses[id] != nil && root(p.TypesInfo.Uses[id]) == nameObj, "import|file module registered under the imported name", call.Pos(),
				fn.Name()+" receives the imported name as the module name",
				fn.Name()+" is given `"+exprStr(call.Args[3])+"` as the module name, not the imported name: the module is registered (and gets __name__) under a key the store lookup never uses")
		}
		return true
	})
	if !found {
		r.undecided("import|file module", fd.Pos(), "no RunFile/RunCode call found; confirm how a source module is loaded and update the rule")
	}
	// a module that cannot be found is an ImportError (raise-site census)
	raises := false
	ast.Inspect(fd.Body, func(n ast.Node) bool {
		if call, ok := n.(*ast.CallExpr); ok && len(call.Args) >= 1 {
			if fn := Callee(p.TypesInfo, call); fn != nil && fn.Name() == "ExceptionNewf" && exprStr(call.Args[0]) == "ImportError" {
				raises = true
			}
		}
		return true
	})
	r.check(raises, "import|missing module is ImportError", fd.Pos(), "ImportModuleLevelObject raises ImportError itself for a module that cannot be found",
		"ImportModuleLevelObject has no ExceptionNewf(ImportError, …): a module that cannot be found surfaces as whatever the path resolution returns (FileNotFoundError), so `except ImportError` does not catch a missing module")
}

func runC19R4(c *Ctx, r *Rep) {
	fd := c.FuncDeclX("vm", "do_IMPORT_STAR")
	if fd == nil || fd.Body == nil {
		r.undecided("star|vm.do_IMPORT_STAR", token.NoPos, "anchor function not found")
		return
	}
	p := c.MustPkg("vm")
	info := p.TypesInfo
	r.analysed("vm.do_IMPORT_STAR")
	// the comma-ok lookup of "__all__" and the flag it defines
	var okObj types.Object
	ast.Inspect(fd.Body, func(n ast.Node) bool {
		as, ok := n.(*ast.AssignStmt)
		if !ok || len(as.Lhs) != 2 || len(as.Rhs) != 1 || okObj != nil {
			return true
		}
		if ix, ok := unparen(as.Rhs[0]).(*ast.IndexExpr); ok && strConstIs(info, ix.Index, "__all__") {
			if id, ok := as.Lhs[1].(*ast.Ident); ok {
				okObj = info.Defs[id]
				if okObj == nil {
					okObj = info.Uses[id]
				}
			}
		}
		return true
	})
	// the if statement deciding on that flag: which branch is taken with __all__, which without
	var has, hasNot ast.Node
	var at token.Pos
	ast.Inspect(fd.Body, func(n ast.Node) bool {
		is, ok := n.(*ast.IfStmt)
		if !ok || has != nil || okObj == nil {
			return true
		}
		cond, neg := unparen(is.Cond), false
		if u, ok := cond.(*ast.UnaryExpr); ok && u.Op == token.NOT {
			cond, neg = unparen(u.X), true
		}
		id, ok := cond.(*ast.Ident)
		if !ok || info.Uses[id] != okObj || is.Else == nil {
			return true
		}
		at = is.Pos()
		if neg {
			has, hasNot = is.Else, is.Body
		} else {
			has, hasNot = is.Body, is.Else
		}
		return false
	})
	if has == nil {
		r.undecided("star|__all__ branch", fd.Pos(), "no if/else on the presence of \"__all__\" in the module's globals found; confirm how star import chooses names and update the rule")
		return
	}
	isFilter := func(n ast.Node) bool {
		call, ok := n.(*ast.CallExpr)
		return ok && exprStr(call.Fun) == "strings.HasPrefix" && len(call.Args) == 2 && exprStr(call.Args[1]) == `"_"`
	}
	count := func(root ast.Node, pred func(ast.Node) bool) (n int, first token.Pos) {
		ast.Inspect(root, func(m ast.Node) bool {
			if m != nil && pred(m) {
				if n == 0 {
					first = m.Pos()
				}
				n++
			}
			return true
		})
		return
	}
	all, _ := count(fd.Body, isFilter)
	inNo, _ := count(hasNot, isFilter)
	inHas, hp := count(has, isFilter)
	if all == 0 {
		r.bad("star|underscore filter", fd.Pos(), "no underscore filter at all: without __all__, from m import * must skip names starting with an underscore")
		return
	}
	bad := hp
	if inHas == 0 {
		bad = at
	}
	r.check(inNo > 0 && inHas == 0 && inNo == all, "star|underscore filter only without __all__", bad,
		"the underscore filter is applied in the branch for modules without __all__",
		"the underscore filter is applied outside the no-__all__ branch: names listed in __all__ are bound exactly as listed, including those starting with an underscore")
	// the __all__ branch binds into the importer's namespace
	binds, _ := count(has, func(n ast.Node) bool {
		as, ok := n.(*ast.AssignStmt)
		if !ok {
			return false
		}
		for _, l := range as.Lhs {
			if strings.Contains(exprStr(l), "Locals[") {
				return true
			}
		}
		return false
	})
	r.check(binds > 0, "star|__all__ names are bound", at, "each name listed in __all__ is bound in the importer's namespace", "the __all__ branch binds nothing into the importer's namespace")
}

func init() {
	register(&Rule{ID: "C19.R2", Prop: "C19", Floor: 2,
		Doc: "module registered before its code runs: the store's module table is written only by ModuleStore.NewModule (created = registered), and every function that creates a module and runs its code (the context's ModuleInit) creates it first",
		Run: runC19R2})
	register(&Rule{ID: "C19.R3", Prop: "C19", Floor: 3,
		Doc: "ImportModuleLevelObject: the store is consulted first, by the name given; that name is never reassigned; a source module is run and registered under the same name (so the next import finds it); a module that cannot be found is reported by an ImportError raised here",
		Run: runC19R3})
	register(&Rule{ID: "C19.R4", Prop: "C19", Floor: 2,
		Doc: "from m import *: names come from __all__ when present and are bound as listed; the skip-leading-underscore filter is applied only in the branch without __all__",
		Run: runC19R4})
}

// C19.R6: a module's code runs in the module's own dictionary, and that dictionary is never replaced. Importers that
// obtained the module while its body was still running (an import cycle) hold the same dict the body fills in.
func runC19R6(c *Ctx, r *Rep) {
	nm := c.Method("py", "ModuleStore", "NewModule")
	n := 0
	for _, pk := range c.All {
		for _, f := range c.Files(pk) {
			for _, d := range f.Decls {
				fd, ok := d.(*ast.FuncDecl)
				if !ok || fd.Body == nil {
					continue
				}
				// the variable that receives the new module
				var modVar types.Object
				ast.Inspect(fd.Body, func(nd ast.Node) bool {
					as, ok := nd.(*ast.AssignStmt)
					if !ok || len(as.Rhs) != 1 || len(as.Lhs) < 1 {
						return true
					}
					if call, ok := as.Rhs[0].(*ast.CallExpr); ok && nm != nil && Callee(pk.TypesInfo, call) == nm {
						if id, ok := as.Lhs[0].(*ast.Ident); ok {
							modVar = pk.TypesInfo.Defs[id]
							if modVar == nil {
								modVar = pk.TypesInfo.Uses[id]
							}
						}
					}
					return true
				})
				if modVar == nil {
					continue
				}
				id := declID(pk, fd)
				ast.Inspect(fd.Body, func(nd ast.Node) bool {
					switch x := nd.(type) {
					case *ast.CallExpr:
						fn := Callee(pk.TypesInfo, x)
						if fn == nil || fn.Name() != "RunCode" || len(x.Args) < 3 {
							return true
						}
						if sig, ok := fn.Type().(*types.Signature); !ok || sig.Recv() == nil {
							return true
						}
						n++
						r.analysed(id)
						want := modVar.Name() + ".Globals"
						okArgs := exprStr(x.Args[1]) == want && exprStr(x.Args[2]) == want
						r.check(okArgs, "owndict|"+id+"|code runs in the module's dictionary", x.Pos(),
							"the module's code is run with the module's own Globals as globals and locals",
							fmt.Sprintf("%s runs the module's code with globals=%s, locals=%s instead of %s: what the body defines does not appear in the dictionary other importers of the (already registered) module hold — in an import cycle the partner sees an empty module and its writes are lost", id, exprStr(x.Args[1]), exprStr(x.Args[2]), want))
					case *ast.AssignStmt:
						for _, l := range x.Lhs {
							if exprStr(l) == modVar.Name()+".Globals" {
								r.bad("owndict|"+id+"|Globals replaced", x.Pos(), "%s assigns %s.Globals after the module was created and registered: importers that already hold the module keep the old dictionary", id, modVar.Name())
							}
						}
					}
					return true
				})
			}
		}
	}
	if n == 0 {
		r.undecided("owndict|sites", token.NoPos, "no function that creates a module and runs its code found")
	}
}

func init() {
	register(&Rule{ID: "C19.R6", Prop: "C19", Floor: 1,
		Doc: "a module's code runs in the module's own dictionary (globals and locals are the Globals of the module just created) and that dictionary is not replaced afterwards, so every importer — also one inside an import cycle — sees what the body defines",
		Run: runC19R6})
}

// strConstIs: the expression is a string constant (a literal or a named constant) with the given value.
func strConstIs(info *types.Info, e ast.Expr, want string) bool {
	tv, ok := info.Types[e]
	return ok && tv.Value != nil && tv.Value.Kind() == constant.String && constant.StringVal(tv.Value) == want
}
