package main

import (
	"fmt"
	"go/ast"
	"go/token"
	"go/types"
	"strings"
)

func init() {
	register(&Rule{ID: "C03.R1", Prop: "C03", Floor: 150,
		Doc: "scope -> opcode family table: compiler.NameOp interpreted symbolically for every point of scope(6) x block type(3) x optimised(2) x context(6) must choose the opcode family, opcode, name table and operand offset that compile.c's compiler_nameop prescribes (Free/Cell -> *_DEREF, LOAD_CLASSDEREF in class bodies; Local in a function -> *_FAST; GlobalExplicit, and GlobalImplicit in an optimised function -> *_GLOBAL; otherwise *_NAME; Freevars operand offset by len(Cellvars))",
		Run: runC03R1})
	register(&Rule{ID: "C03.R5", Prop: "C03", Floor: 5,
		Doc: "scope-analysis sets are not shared between sibling blocks: every StringSet that AnalyzeBlock (directly or through AnalyzeName) mutates is handed to it by AnalyzeChildBlock as a fresh Copy() of the parent's set; argument binding order in vm.EvalCode: cells are created from arguments only after every parameter slot (positional, keyword, defaults, keyword-only defaults) has been filled; closure cells are laid out as compiler and VM agree (cells first, free variables offset by len(Cellvars))",
		Run: runC03R5})
}

func runC03R1(c *Ctx, r *Rep) {
	e := newEmitEngine(c)
	fd := c.MethodDecl("compile", "compiler", "NameOp")
	if fd == nil {
		r.undecided("compile|compiler.NameOp", token.NoPos, "anchor not found")
		return
	}
	r.analysed("(*compile.compiler).NameOp")
	scopes := []string{"ScopeInvalid", "ScopeLocal", "ScopeGlobalExplicit", "ScopeGlobalImplicit", "ScopeFree", "ScopeCell"}
	blocks := []string{"FunctionBlock", "ClassBlock", "ModuleBlock"}
	ctxs := []string{"Load", "Store", "Del", "AugLoad", "AugStore", "Param"}
	// every declared Scope constant must be in the domain
	if nt := c.Named("symtable", "Scope"); nt != nil {
		sp := c.MustPkg("symtable")
		for _, n := range sp.Types.Scope().Names() {
			if k, ok := sp.Types.Scope().Lookup(n).(*types.Const); ok && types.Identical(k.Type(), nt) {
				known := false
				for _, s := range scopes {
					if s == n {
						known = true
					}
				}
				r.check(known, "symtable|Scope|"+n, k.Pos(), "scope class has a row in the specification", "declared scope class "+n+" has no row in the NameOp specification")
			}
		}
	}
	for _, sc := range scopes {
		sk := c.ConstObj("symtable", sc)
		if sk == nil {
			r.undecided("symtable|"+sc, token.NoPos, "constant not found")
			continue
		}
		for _, bl := range blocks {
			bk := c.ConstObj("symtable", bl)
			if bk == nil {
				r.undecided("symtable|"+bl, token.NoPos, "constant not found")
				continue
			}
			for _, unopt := range []int64{0, 1} {
				for _, cx := range ctxs {
					ck := c.ConstObj("ast", cx)
					if ck == nil {
						r.undecided("ast|"+cx, token.NoPos, "constant not found")
						continue
					}
					key := fmt.Sprintf("compile|NameOp|(%s, %s, unoptimized=%d, %s)", sc, bl, unopt, cx)
					// spec
					fam := "NAME"
					table := "c.Code.Names"
					switch sc {
					case "ScopeFree":
						fam, table = "DEREF", "c.Code.Freevars"
					case "ScopeCell":
						fam, table = "DEREF", "c.Code.Cellvars"
					case "ScopeLocal":
						if bl == "FunctionBlock" {
							fam, table = "FAST", "c.Code.Varnames"
						}
					case "ScopeGlobalImplicit":
						if bl == "FunctionBlock" && unopt == 0 {
							fam = "GLOBAL"
						}
					case "ScopeGlobalExplicit":
						fam = "GLOBAL"
					}
					verb := map[string]string{"Load": "LOAD", "AugLoad": "LOAD", "Store": "STORE", "AugStore": "STORE", "Del": "DELETE"}[cx]
					wantOp := ""
					if verb != "" {
						wantOp = verb + "_" + fam
						if wantOp == "LOAD_DEREF" && bl == "ClassBlock" {
							wantOp = "LOAD_CLASSDEREF"
						}
					}
					wantOffset := sc == "ScopeFree"
					// run
					e.se.callOverride = map[string]val{"(*symtable.SymTable).GetScope": {kind: vInt, lin: linConst(constVal(sk))}}
					nameV := unk("name")
					ctxV := val{kind: vInt, lin: linConst(constVal(ck))}
					e.se.labelN = 0
					st := newState()
					st.selVals = map[string]val{
						"c.SymTable.Type":        {kind: vInt, lin: linConst(constVal(bk))},
						"c.SymTable.Unoptimized": {kind: vInt, lin: linConst(unopt)},
					}
					paths := e.se.runFuncFrom(fd, []*val{&nameV, &ctxV}, []string{"name", "ctx"}, st)
					e.se.callOverride = nil
					var got []string
					for _, p := range paths {
						if len(p.st.und) > 0 {
							got = append(got, "undecided: "+strings.Join(p.st.und, "; "))
							continue
						}
						op, tbl, operand := "", "", ""
						for _, cr := range p.st.calls {
							switch cr.callee {
							case "(*compile.compiler).Index":
								if len(cr.args) == 2 {
									tbl = cr.args[1].String()
								}
							case "(*compile.compiler).OpArg":
								if len(cr.args) == 2 {
									op = e.opName(cr.args[0])
									operand = cr.args[1].String()
								}
							}
						}
						got = append(got, fmt.Sprintf("%s table=%s offset=%v", op, tbl, strings.Contains(operand, "len(c.Code.Cellvars)")))
					}
					got = uniq(got)
					if wantOp == "" {
						r.check(len(got) == 0, key, fd.Pos(), "rejected (internal error): a Param context never reaches NameOp", fmt.Sprintf("context Param emits %v", got))
						continue
					}
					want := fmt.Sprintf("%s table=%s offset=%v", wantOp, table, wantOffset)
					if len(got) == 1 && got[0] == want {
						r.ok(key, fd.Pos(), "%s", want)
					} else {
						r.bad(key, fd.Pos(), "NameOp emits %v; compiler_nameop prescribes %s: the name resolves through the wrong namespace (or the wrong slot) at run time", got, want)
					}
				}
			}
		}
	}
}

func runC03R5(c *Ctx, r *Rep) {
	// (1) AnalyzeChildBlock hands copies
	sp := c.MustPkg("symtable")
	info := sp.TypesInfo
	ab := c.MethodDecl("symtable", "SymTable", "AnalyzeBlock")
	acb := c.MethodDecl("symtable", "SymTable", "AnalyzeChildBlock")
	if ab == nil || acb == nil {
		r.undecided("symtable|AnalyzeBlock/AnalyzeChildBlock", token.NoPos, "anchors not found")
	} else {
		r.analysed("(*symtable.SymTable).AnalyzeBlock")
		r.analysed("(*symtable.SymTable).AnalyzeChildBlock")
		// which set parameters does AnalyzeBlock mutate (Add/Discard/Update receiver, or passed to AnalyzeName which mutates them)
		mutated := mutatedSetParams(c, ab, 0)
		var params []string
		for _, f := range ab.Type.Params.List {
			for _, n := range f.Names {
				params = append(params, n.Name)
			}
		}
		// the call in AnalyzeChildBlock
		var call *ast.CallExpr
		abObj := c.Method("symtable", "SymTable", "AnalyzeBlock")
		ast.Inspect(acb.Body, func(n ast.Node) bool {
			if cl, ok := n.(*ast.CallExpr); ok && Callee(info, cl) == abObj {
				call = cl
			}
			return true
		})
		if call == nil {
			r.bad("symtable|AnalyzeChildBlock|calls AnalyzeBlock", acb.Pos(), "AnalyzeChildBlock no longer calls AnalyzeBlock")
		} else {
			for i, p := range params {
				if i >= len(call.Args) {
					continue
				}
				key := "symtable|AnalyzeChildBlock|argument " + p
				if !mutated[p] {
					r.okTrivial(key, call.Args[i].Pos(), "AnalyzeBlock does not modify %s", p)
					continue
				}
				// the argument must be a local initialised from a Copy() call
				fresh := false
				if id := identOf(call.Args[i]); id != nil {
					obj := info.Uses[id]
					ast.Inspect(acb.Body, func(n ast.Node) bool {
						if as, ok := n.(*ast.AssignStmt); ok && as.Tok == token.DEFINE && len(as.Lhs) == 1 && len(as.Rhs) == 1 {
							if lid := identOf(as.Lhs[0]); lid != nil && info.Defs[lid] == obj {
								if cl, ok := as.Rhs[0].(*ast.CallExpr); ok {
									if f := Callee(info, cl); f != nil && f.Name() == "Copy" {
										fresh = true
									}
								}
							}
						}
						return true
					})
				}
				r.check(fresh, key, call.Args[i].Pos(), "a fresh Copy() of the parent's set",
					fmt.Sprintf("AnalyzeBlock modifies its %s set (a `global` declaration discards the name from it, new bindings are added) but AnalyzeChildBlock passes %s without copying: what one nested block declares leaks into its later siblings, so resolution depends on the order in which sibling scopes are analysed", p, exprStr(call.Args[i])))
			}
		}
	}
	// (2) EvalCode ordering: cells from arguments after all parameter binding
	ec := c.FuncDecl("vm", "EvalCode")
	if ec == nil {
		r.undecided("vm|EvalCode", token.NoPos, "anchor not found")
		return
	}
	r.analysed("vm.EvalCode")
	vp := c.MustPkg("vm")
	cellIdx, lastBind := -1, -1
	var fastObj types.Object
	for _, s := range ec.Body.List {
		if as, ok := s.(*ast.AssignStmt); ok && as.Tok == token.DEFINE && len(as.Lhs) == 1 && strings.HasSuffix(exprStr(as.Rhs[0]), ".Localsplus") {
			fastObj = vp.TypesInfo.Defs[as.Lhs[0].(*ast.Ident)]
		}
	}
	// the statements of EvalCode with helpers of the package spliced in where they are called; a parameter of such
	// a helper that receives the fast-locals slice stands for it
	fastAlias := map[types.Object]bool{}
	for _, s := range ec.Body.List {
		es, ok := s.(*ast.ExprStmt)
		if !ok {
			continue
		}
		call, ok := es.X.(*ast.CallExpr)
		if !ok {
			continue
		}
		fn := Callee(vp.TypesInfo, call)
		if fn == nil || fn.Pkg() != vp.Types {
			continue
		}
		hd := c.Decl(fn)
		if hd == nil || hd.Type.Params == nil {
			continue
		}
		i := 0
		for _, f := range hd.Type.Params.List {
			for _, nm := range f.Names {
				if i < len(call.Args) {
					if aid := identOf(call.Args[i]); aid != nil && fastObj != nil && vp.TypesInfo.Uses[aid] == fastObj {
						fastAlias[vp.TypesInfo.Defs[nm]] = true
					}
				}
				i++
			}
		}
	}
	flat := c.Flatten(vp, ec)
	ec = &ast.FuncDecl{Name: ec.Name, Type: ec.Type, Body: flat}
	for i, s := range ec.Body.List {
		isCell, binds := false, false
		ast.Inspect(s, func(n ast.Node) bool {
			switch x := n.(type) {
			case *ast.CallExpr:
				if f := Callee(vp.TypesInfo, x); f != nil && f.Name() == "NewCell" {
					isCell = true
				}
			case *ast.AssignStmt:
				for j, l := range x.Lhs {
					if ix, ok := unparen(l).(*ast.IndexExpr); ok {
						if id := identOf(ix.X); id != nil && fastObj != nil && (vp.TypesInfo.Uses[id] == fastObj || fastAlias[vp.TypesInfo.Uses[id]]) {
							if j < len(x.Rhs) && exprStr(x.Rhs[j]) != "nil" {
								binds = true
							}
						}
					}
				}
			}
			return true
		})
		if isCell && cellIdx < 0 {
			cellIdx = i
		}
		if binds && !isCell {
			lastBind = i
		}
	}
	if cellIdx < 0 || lastBind < 0 {
		r.undecided("vm|EvalCode|cell creation order", ec.Pos(), "could not locate the cell-creation loop (%d) or the parameter binding statements (%d)", cellIdx, lastBind)
	} else {
		r.check(cellIdx > lastBind, "vm|EvalCode|cell creation order", ec.Body.List[cellIdx].Pos(), "cells are created after the last parameter slot is filled",
			"cells for parameters captured by closures are created before all parameter slots are filled (a later statement still binds fast locals): a captured parameter that gets its value from a default or keyword-only default is seen as unbound by the closure")
	}
	// (3) closure layout: compiler offsets free variables by len(Cellvars); VM copies closure[i] to len(Cellvars)+i
	okVM := false
	origins := localOrigins(vp.TypesInfo, ec.Body)
	ast.Inspect(ec.Body, func(n ast.Node) bool {
		if as, ok := n.(*ast.AssignStmt); ok && len(as.Lhs) == 1 && len(as.Rhs) == 1 {
			ix, ok := unparen(as.Lhs[0]).(*ast.IndexExpr)
			if !ok || exprStr(as.Rhs[0]) != "closure[i]" {
				return true
			}
			if be, ok := unparen(ix.Index).(*ast.BinaryExpr); ok && be.Op == token.ADD && exprStr(be.Y) == "i" {
				base := exprStr(be.X)
				if id := identOf(be.X); id != nil && origins[id.Name] != nil {
					base = exprStr(origins[id.Name]) // ncells := len(co.Cellvars)
				}
				if base == "len(co.Cellvars)" {
					okVM = true
				}
			}
		}
		return true
	})
	r.check(okVM, "vm|EvalCode|free variable layout", ec.Pos(), "closure[i] stored at len(Cellvars)+i", "EvalCode does not store closure[i] at slot len(Cellvars)+i, the slot the compiler's *_DEREF operands address for free variables (C03.R1 offset)")
}

// mutatedSetParams: names of the StringSet parameters of fd that fd mutates (method Add/Discard/Update called on them,
// or passed to a module function that mutates the corresponding parameter), depth-limited.
func mutatedSetParams(c *Ctx, fd *ast.FuncDecl, depth int) map[string]bool {
	out := map[string]bool{}
	p := c.DeclPkg(declFunc(c, fd))
	if p == nil {
		return out
	}
	info := p.TypesInfo
	params := map[types.Object]string{}
	for _, f := range fd.Type.Params.List {
		for _, n := range f.Names {
			params[info.Defs[n]] = n.Name
		}
	}
	ast.Inspect(fd.Body, func(n ast.Node) bool {
		call, ok := n.(*ast.CallExpr)
		if !ok {
			return true
		}
		if sel, ok := unparen(call.Fun).(*ast.SelectorExpr); ok {
			if id := identOf(sel.X); id != nil {
				if nm, isParam := params[info.Uses[id]]; isParam {
					switch sel.Sel.Name {
					case "Add", "Discard", "Update":
						out[nm] = true
					}
				}
			}
		}
		if depth < 3 {
			if f := Callee(info, call); f != nil && inModule(f) {
				if gfd := c.Decl(f); gfd != nil && gfd != fd {
					sub := mutatedSetParams(c, gfd, depth+1)
					i := 0
					for _, fl := range gfd.Type.Params.List {
						for _, n := range fl.Names {
							if sub[n.Name] && i < len(call.Args) {
								if id := identOf(call.Args[i]); id != nil {
									if nm, isParam := params[info.Uses[id]]; isParam {
										out[nm] = true
									}
								}
							}
							i++
						}
					}
				}
			}
		}
		return true
	})
	return out
}

func declFunc(c *Ctx, fd *ast.FuncDecl) *types.Func {
	c.buildDeclIdx()
	for fn, d := range c.declIdx {
		if d == fd {
			return fn
		}
	}
	return nil
}

// ---- C03.R7: the classification decision (SymTable.AnalyzeName) as a path table ----

func init() {
	register(&Rule{ID: "C03.R7", Prop: "C03", Floor: 15,
		Doc: "classification decision table: every path of SymTable.AnalyzeName (conditions over the def/use flags, the bound/global sets and the nesting flag -> scope assigned, which of local/global/bound/free gains or loses the name, whether the block becomes free, or SyntaxError) equals the table of symtable.c analyze_name; AnalyzeCells turns Local into Cell exactly for names free in a child and removes them from free",
		Run: runC03R7})
}

// analyzeNameSpec: rendered paths, reviewed against CPython 3.4 Python/symtable.c analyze_name().
var analyzeNameSpec = []string{
	"[bits(symbol.Flags,0,1) != 0 && bits(symbol.Flags,0,4) != 0] SyntaxError",
	"[bits(symbol.Flags,0,1) != 0 && bits(symbol.Flags,0,4) == 0 && bits(symbol.Flags,0,8) != 0] SyntaxError",
	"[bits(symbol.Flags,0,1) != 0 && bits(symbol.Flags,0,4) == 0 && bits(symbol.Flags,0,8) == 0 && bound != nil] scopes[name] = ScopeGlobalExplicit; global.Add(name); bound.Discard(name)",
	"[bits(symbol.Flags,0,1) != 0 && bits(symbol.Flags,0,4) == 0 && bits(symbol.Flags,0,8) == 0 && bound == nil] scopes[name] = ScopeGlobalExplicit; global.Add(name)",
	"[bits(symbol.Flags,0,1) == 0 && bits(symbol.Flags,0,8) != 0 && bits(symbol.Flags,0,4) != 0] SyntaxError",
	"[bits(symbol.Flags,0,1) == 0 && bits(symbol.Flags,0,8) != 0 && bits(symbol.Flags,0,4) == 0 && bound != nil && !(bound.Contains(name))] SyntaxError",
	"[bits(symbol.Flags,0,1) == 0 && bits(symbol.Flags,0,8) != 0 && bits(symbol.Flags,0,4) == 0 && bound != nil && bound.Contains(name)] scopes[name] = ScopeFree; st.Free = true; free.Add(name)",
	"[bits(symbol.Flags,0,1) == 0 && bits(symbol.Flags,0,8) != 0 && bits(symbol.Flags,0,4) == 0 && bound == nil] SyntaxError",
	"[bits(symbol.Flags,0,1) == 0 && bits(symbol.Flags,0,8) == 0 && bits(symbol.Flags,0,134) != 0] scopes[name] = ScopeLocal; local.Add(name); global.Discard(name)",
	"[bits(symbol.Flags,0,1) == 0 && bits(symbol.Flags,0,8) == 0 && bits(symbol.Flags,0,134) == 0 && bound != nil && !(bound.Contains(name)) && global != nil && !(global.Contains(name)) && !(st.Nested)] scopes[name] = ScopeGlobalImplicit",
	"[bits(symbol.Flags,0,1) == 0 && bits(symbol.Flags,0,8) == 0 && bits(symbol.Flags,0,134) == 0 && bound != nil && !(bound.Contains(name)) && global != nil && !(global.Contains(name)) && st.Nested] st.Free = true; scopes[name] = ScopeGlobalImplicit",
	"[bits(symbol.Flags,0,1) == 0 && bits(symbol.Flags,0,8) == 0 && bits(symbol.Flags,0,134) == 0 && bound != nil && !(bound.Contains(name)) && global != nil && global.Contains(name)] scopes[name] = ScopeGlobalImplicit",
	"[bits(symbol.Flags,0,1) == 0 && bits(symbol.Flags,0,8) == 0 && bits(symbol.Flags,0,134) == 0 && bound != nil && !(bound.Contains(name)) && global == nil && !(st.Nested)] scopes[name] = ScopeGlobalImplicit",
	"[bits(symbol.Flags,0,1) == 0 && bits(symbol.Flags,0,8) == 0 && bits(symbol.Flags,0,134) == 0 && bound != nil && !(bound.Contains(name)) && global == nil && st.Nested] st.Free = true; scopes[name] = ScopeGlobalImplicit",
	"[bits(symbol.Flags,0,1) == 0 && bits(symbol.Flags,0,8) == 0 && bits(symbol.Flags,0,134) == 0 && bound != nil && bound.Contains(name)] scopes[name] = ScopeFree; st.Free = true; free.Add(name)",
	"[bits(symbol.Flags,0,1) == 0 && bits(symbol.Flags,0,8) == 0 && bits(symbol.Flags,0,134) == 0 && bound == nil && global != nil && !(global.Contains(name)) && !(st.Nested)] scopes[name] = ScopeGlobalImplicit",
	"[bits(symbol.Flags,0,1) == 0 && bits(symbol.Flags,0,8) == 0 && bits(symbol.Flags,0,134) == 0 && bound == nil && global != nil && !(global.Contains(name)) && st.Nested] st.Free = true; scopes[name] = ScopeGlobalImplicit",
	"[bits(symbol.Flags,0,1) == 0 && bits(symbol.Flags,0,8) == 0 && bits(symbol.Flags,0,134) == 0 && bound == nil && global != nil && global.Contains(name)] scopes[name] = ScopeGlobalImplicit",
	"[bits(symbol.Flags,0,1) == 0 && bits(symbol.Flags,0,8) == 0 && bits(symbol.Flags,0,134) == 0 && bound == nil && global == nil && !(st.Nested)] scopes[name] = ScopeGlobalImplicit",
	"[bits(symbol.Flags,0,1) == 0 && bits(symbol.Flags,0,8) == 0 && bits(symbol.Flags,0,134) == 0 && bound == nil && global == nil && st.Nested] st.Free = true; scopes[name] = ScopeGlobalImplicit",
}

func analyzeNamePaths(c *Ctx) ([]string, []string) {
	fd := c.MethodDecl("symtable", "SymTable", "AnalyzeName")
	if fd == nil {
		return nil, []string{"anchor not found"}
	}
	se := newSymExec(c, "symtable")
	se.emitMode = false
	se.keepRaised = true
	se.primitive = map[*types.Func]bool{}
	if nt := c.Named("symtable", "StringSet"); nt != nil {
		for i := 0; i < nt.NumMethods(); i++ {
			se.primitive[nt.Method(i)] = true
		}
	}
	var names []string
	var vals []*val
	for _, f := range fd.Type.Params.List {
		for _, n := range f.Names {
			names = append(names, n.Name)
			v := unk(n.Name)
			vals = append(vals, &v)
		}
	}
	scopeName := func(v val) string {
		if v.kind == vInt && v.lin.isConst() {
			sp := c.MustPkg("symtable")
			if nt := c.Named("symtable", "Scope"); nt != nil {
				for _, n := range sp.Types.Scope().Names() {
					if k, ok := sp.Types.Scope().Lookup(n).(*types.Const); ok && types.Identical(k.Type(), nt) && constVal(k) == v.lin.c {
						return n
					}
				}
			}
		}
		return v.String()
	}
	render := func(st *sstate, raised bool) string {
		var conds []string
		for _, cnd := range st.conds {
			conds = append(conds, normCond(cnd))
		}
		conds = simplifyConds(conds)
		type eff struct {
			seq int
			s   string
		}
		var effs []eff
		for _, as := range st.assigns {
			rhs := as.rhs.String()
			if strings.HasPrefix(as.lhs, "scopes[") {
				rhs = scopeName(as.rhs)
			}
			effs = append(effs, eff{as.seq, as.lhs + " = " + rhs})
		}
		for _, cr := range st.calls {
			short := cr.callee
			if i := strings.LastIndex(short, ")."); i >= 0 {
				short = short[i+2:]
			}
			switch short {
			case "Add", "Discard", "Update":
				recv := "?"
				if cr.recv != nil {
					recv = cr.recv.String()
				}
				var as []string
				for _, a := range cr.args {
					as = append(as, a.String())
				}
				effs = append(effs, eff{cr.seq, recv + "." + short + "(" + strings.Join(as, ",") + ")"})
			}
		}
		for i := 0; i < len(effs); i++ {
			for j := i + 1; j < len(effs); j++ {
				if effs[j].seq < effs[i].seq {
					effs[i], effs[j] = effs[j], effs[i]
				}
			}
		}
		var es []string
		for _, e := range effs {
			es = append(es, e.s)
		}
		if raised {
			es = append(es, "SyntaxError")
		}
		return "[" + strings.Join(conds, " && ") + "] " + strings.Join(es, "; ")
	}
	var und []string
	res := se.runFunc(fd, vals, names)
	var out []string
	for _, pr := range res {
		und = append(und, pr.st.und...)
		out = append(out, render(pr.st, false))
	}
	for _, st := range se.raised {
		out = append(out, render(st, true))
	}
	return uniq(out), und
}

func runC03R7(c *Ctx, r *Rep) {
	got, und := analyzeNamePaths(c)
	r.analysed("(*symtable.SymTable).AnalyzeName")
	if len(und) > 0 {
		r.undecided("symtable|AnalyzeName|paths", token.NoPos, "%s", strings.Join(uniq(und), "; "))
		return
	}
	missing, extra := diffSets(analyzeNameSpec, got)
	for _, p := range got {
		in := false
		for _, w := range analyzeNameSpec {
			if w == p {
				in = true
			}
		}
		if in {
			r.ok("symtable|AnalyzeName|"+p, token.NoPos, "as analyze_name")
		}
	}
	for _, m := range missing {
		r.bad("symtable|AnalyzeName|missing "+m, token.NoPos, "the decision path `%s` of analyze_name is no longer taken by AnalyzeName", m)
	}
	for _, x := range extra {
		r.bad("symtable|AnalyzeName|"+x, token.NoPos, "AnalyzeName has a decision path that analyze_name does not have: `%s` (a name is classified differently, or a forbidden declaration is no longer rejected, for some combination of flags and enclosing bindings)", x)
	}
	// (AnalyzeCells is decided by its decision table, C03.R3)
}
