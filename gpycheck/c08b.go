package main

import (
	"fmt"
	"go/ast"
	"go/token"
	"go/types"
	"strings"

	"golang.org/x/tools/go/packages"
)

func runC08R2(c *Ctx, r *Rep) {
	p := c.MustPkg("py")
	rt := c.Named("py", "Runtime")
	if rt == nil {
		r.undecided("py|Runtime", token.NoPos, "anchor type not found")
		return
	}
	st := rt.Underlying().(*types.Struct)
	var table, mu *types.Var
	for i := 0; i < st.NumFields(); i++ {
		f := st.Field(i)
		if _, isMap := f.Type().Underlying().(*types.Map); isMap {
			table = f
		}
		if isSyncType(f.Type(), "Mutex", "RWMutex") {
			mu = f
		}
	}
	if table == nil || mu == nil {
		r.bad("py|Runtime|fields", rt.Obj().Pos(), "the registry type has no map field guarded by a mutex field")
		return
	}
	for _, pk := range c.ModulePkgs() {
		for _, f := range c.Files(pk) {
			for _, d := range f.Decls {
				fd, ok := d.(*ast.FuncDecl)
				if !ok || fd.Body == nil {
					continue
				}
				id := declID(pk, fd)
				w := &lockWalker{info: pk.TypesInfo}
				w.onAccess = func(sel *ast.SelectorExpr, fld *types.Var, write bool, held map[string]int) {
					if fld != table {
						return
					}
					r.analysed(id)
					want := exprStr(sel.X) + "." + mu.Name()
					mode := "read"
					if write {
						mode = "write"
					}
					key := fmt.Sprintf("%s|%s|%s %s", shortPkg(pk.PkgPath), id, table.Name(), mode)
					if _, ok := held[want]; ok && write && w.shared[want] {
						r.bad(key, sel.Pos(), "the registry table %s is written while %s is held in shared mode only (RLock): two registrations, or a registration and a lookup, run concurrently on the map (fatal 'concurrent map writes'); a write needs Lock", table.Name(), want)
					} else if ok {
						r.ok(key, sel.Pos(), "under %s", want)
					} else {
						r.bad(key, sel.Pos(), "the registry table %s is accessed (%s) without holding %s: registration from one goroutine races with lookups from running contexts", table.Name(), mode, want)
					}
				}
				w.walkFunc(fd.Body)
			}
		}
	}
	_ = p
}

func mutableContainer(t types.Type) string {
	n := namedTypeName(t)
	switch n {
	case "*py.List", "py.StringDict", "*py.Set", "*py.Dict", "*py.FrozenSet":
		return n
	}
	return ""
}

func runC08R3(c *Ctx, r *Rep) {
	// (i) NewModule copies
	nm := c.MethodDeclX("py", "ModuleStore", "NewModule")
	if nm == nil {
		r.undecided("py|(*ModuleStore).NewModule", token.NoPos, "anchor not found")
		return
	}
	r.analysed("(*py.ModuleStore).NewModule")
	pyp := c.MustPkg("py")
	copies := false
	deep := false
	conditionalCopy := token.NoPos
	ast.Inspect(nm.Body, func(n ast.Node) bool {
		if kv, ok := n.(*ast.KeyValueExpr); ok && exprStr(kv.Key) == "Globals" {
			if call, ok := kv.Value.(*ast.CallExpr); ok {
				if f := Callee(pyp.TypesInfo, call); f != nil && f.Name() == "Copy" {
					copies = true
				} else if f != nil && f.Pkg() == pyp.Types && isNewFunc(FuncID(f)) && returnsFreshContainer(c, pyp, f) {
					copies = true // a helper written since the reference that builds the instance's own dictionary
				}
			}
		}
		// per-instance copy of container-valued globals
		if call, ok := n.(*ast.CallExpr); ok {
			if f := Callee(pyp.TypesInfo, call); f != nil && (f.Name() == "Copy" || strings.Contains(strings.ToLower(f.Name()), "copy")) {
				if _, isKV := n.(*ast.KeyValueExpr); !isKV {
					// a Copy call on a value ranged from Globals
					ast.Inspect(call, func(m ast.Node) bool { return true })
				}
			}
		}
		return true
	})
	// a loop over the globals that copies container values
	ast.Inspect(nm.Body, func(n ast.Node) bool {
		rs, ok := n.(*ast.RangeStmt)
		if !ok || !strings.Contains(strings.ToLower(exprStr(rs.X)), "globals") {
			return true
		}
		// unconditional: reached from the body through plain blocks only (an extracted helper shows up as one)
		topLevel := false
		var plain func(list []ast.Stmt)
		plain = func(list []ast.Stmt) {
			for _, st := range list {
				if st == ast.Stmt(rs) {
					topLevel = true
				}
				if b, ok := st.(*ast.BlockStmt); ok {
					plain(b.List)
				}
			}
		}
		plain(nm.Body.List)
		if !topLevel {
			conditionalCopy = rs.Pos()
			return true
		}
		ast.Inspect(rs.Body, func(m ast.Node) bool {
			if ts, ok := m.(*ast.TypeSwitchStmt); ok {
				for _, cl := range ts.Body.List {
					for _, e := range cl.(*ast.CaseClause).List {
						if tv, ok := pyp.TypesInfo.Types[e]; ok && mutableContainer(tv.Type) != "" {
							deep = true
						}
					}
				}
			}
			return true
		})
		return true
	})
	if conditionalCopy != token.NoPos {
		r.bad("py|(*ModuleStore).NewModule|container globals copied unconditionally", conditionalCopy, "the loop that gives each module instance its own copy of container-valued globals runs only under a condition: for the module kinds excluded by it every context shares one list/dict object (os.environ, sys.path) and sees the others' changes")
	}
	r.check(copies, "py|(*ModuleStore).NewModule|Globals copied", nm.Pos(), "instance Globals built from impl.Globals.Copy()", "a module instance's Globals is not built from a copy of the implementation's Globals: every context shares one dictionary")
	// (ii) per-context re-binding in NewContext
	rebound := map[string]bool{}
	if nc := c.FuncDecl("stdlib", "NewContext"); nc != nil {
		r.analysed("stdlib.NewContext")
		ast.Inspect(nc.Body, func(n ast.Node) bool {
			as, ok := n.(*ast.AssignStmt)
			if !ok || len(as.Lhs) != 1 {
				return true
			}
			if ix, ok := as.Lhs[0].(*ast.IndexExpr); ok && strings.HasSuffix(exprStr(ix.X), ".Globals") {
				if bl, ok := ix.Index.(*ast.BasicLit); ok {
					rebound[strings.Trim(bl.Value, `"`)+"@"+exprStr(ix.X)] = true
					rebound[strings.Trim(bl.Value, `"`)] = true
				}
			}
			return true
		})
	}
	// (iii) container-valued globals of every ModuleImpl literal
	for _, pk := range c.ModulePkgs() {
		if !strings.HasPrefix(pk.PkgPath, modPath+"/stdlib") && pk.PkgPath != modPath+"/py" {
			continue
		}
		info := pk.TypesInfo
		for _, f := range c.Files(pk) {
			for _, d := range f.Decls {
				fd, ok := d.(*ast.FuncDecl)
				if !ok || fd.Body == nil {
					continue
				}
				// StringDict literals that reach a ModuleImpl{Globals: …}
				var dicts []*ast.CompositeLit
				modName := ""
				ast.Inspect(fd.Body, func(n ast.Node) bool {
					cl, ok := n.(*ast.CompositeLit)
					if !ok {
						return true
					}
					tv, ok := info.Types[cl]
					if !ok || !strings.HasSuffix(namedTypeName(tv.Type), "py.ModuleImpl") {
						return true
					}
					for _, e := range cl.Elts {
						kv, ok := e.(*ast.KeyValueExpr)
						if !ok {
							continue
						}
						switch exprStr(kv.Key) {
						case "Globals":
							switch v := unparen(kv.Value).(type) {
							case *ast.CompositeLit:
								dicts = append(dicts, v)
							case *ast.Ident:
								// local variable: its defining literal
								obj := info.Uses[v]
								ast.Inspect(fd.Body, func(m ast.Node) bool {
									if as, ok := m.(*ast.AssignStmt); ok && len(as.Lhs) == 1 && len(as.Rhs) == 1 {
										if id := identOf(as.Lhs[0]); id != nil && (info.Defs[id] == obj || info.Uses[id] == obj) {
											if lit, ok := unparen(as.Rhs[0]).(*ast.CompositeLit); ok {
												dicts = append(dicts, lit)
											}
										}
									}
									return true
								})
							}
						case "Info":
							if il, ok := kv.Value.(*ast.CompositeLit); ok {
								for _, ie := range il.Elts {
									if ikv, ok := ie.(*ast.KeyValueExpr); ok && exprStr(ikv.Key) == "Name" {
										modName = strings.Trim(exprStr(ikv.Value), `"`)
									}
								}
							}
						}
					}
					return true
				})
				for _, dl := range dicts {
					for _, e := range dl.Elts {
						kv, ok := e.(*ast.KeyValueExpr)
						if !ok {
							continue
						}
						tv, ok := info.Types[kv.Value]
						if !ok {
							continue
						}
						kind := mutableContainer(tv.Type)
						name := strings.Trim(exprStr(kv.Key), `"`)
						key := fmt.Sprintf("%s|module %s|global %s", shortPkg(pk.PkgPath), modName, name)
						if kind == "" {
							r.okTrivial(key, kv.Pos(), "immutable value (%s)", namedTypeName(tv.Type))
							continue
						}
						r.analysed(declID(pk, fd))
						switch {
						case rebound[name]:
							r.ok(key, kv.Pos(), "%s re-bound per context by NewContext", kind)
						case deep:
							r.ok(key, kv.Pos(), "%s copied per instance by NewModule", kind)
						default:
							r.bad(key, kv.Pos(), "module global %s.%s is a %s created once at registration; NewModule's shallow copy hands the same container to every context, so a mutation in one context is visible in all others", modName, name, kind)
						}
					}
				}
			}
		}
	}
}

// fieldWrites lists assignments to fields of the named struct type across the module.
type fieldWrite struct {
	pkg   string
	fn    string
	field string
	pos   token.Pos
	init  bool
}

func fieldWritesOf(c *Ctx, rel, typ string) []fieldWrite {
	nt := c.Named(rel, typ)
	if nt == nil {
		return nil
	}
	var out []fieldWrite
	for _, pk := range c.ModulePkgs() {
		info := pk.TypesInfo
		for _, f := range c.Files(pk) {
			for _, d := range f.Decls {
				fd, ok := d.(*ast.FuncDecl)
				if !ok || fd.Body == nil {
					continue
				}
				id := declID(pk, fd)
				check := func(l ast.Expr, pos token.Pos) {
					sel, ok := unparen(l).(*ast.SelectorExpr)
					if !ok {
						return
					}
					s, ok := info.Selections[sel]
					if !ok || s.Kind() != types.FieldVal {
						return
					}
					rt := s.Recv()
					if p, ok := rt.(*types.Pointer); ok {
						rt = p.Elem()
					}
					if !types.Identical(rt, nt) {
						return
					}
					out = append(out, fieldWrite{pkg: shortPkg(pk.PkgPath), fn: id, field: sel.Sel.Name, pos: pos, init: fd.Name.Name == "init" && fd.Recv == nil})
				}
				ast.Inspect(fd.Body, func(n ast.Node) bool {
					switch x := n.(type) {
					case *ast.AssignStmt:
						for _, l := range x.Lhs {
							check(l, x.Pos())
						}
					case *ast.IncDecStmt:
						check(x.X, x.Pos())
					}
					return true
				})
			}
		}
	}
	return out
}

func runC08R4(c *Ctx, r *Rep) {
	ws := fieldWritesOf(c, "py", "ModuleImpl")
	n := 0
	for _, w := range ws {
		if w.init {
			continue
		}
		n++
		r.analysed(w.fn)
		r.bad(fmt.Sprintf("%s|%s|write ModuleImpl.%s", w.pkg, w.fn, w.field), w.pos,
			"field %s of a shared *py.ModuleImpl is assigned at run time: implementations are registered once and instantiated by every context, so this write races with other contexts initialising the same module and mutates the caller's struct", w.field)
	}
	if n == 0 {
		r.ok("py|ModuleImpl|read-only", token.NoPos, "no run-time assignment to a ModuleImpl field (%d in initialisers)", len(ws))
	}
}

func runC08R5(c *Ctx, r *Rep) {
	ws := fieldWritesOf(c, "py", "Code")
	allowed := func(w fieldWrite) bool {
		switch {
		case w.pkg == "compile":
			return true // the object is private to the compiler until compileAst returns it
		case w.pkg == "py" && (strings.HasSuffix(w.fn, "NewCode") || strings.HasSuffix(w.fn, "InitCell2arg")):
			return true
		case w.pkg == "stdlib/marshal":
			return true
		}
		return false
	}
	for _, w := range ws {
		r.analysed(w.fn)
		key := fmt.Sprintf("%s|%s|write Code.%s", w.pkg, w.fn, w.field)
		if allowed(w) {
			r.okTrivial(key, w.pos, "construction-time write")
		} else {
			r.bad(key, w.pos, "field %s of a py.Code is assigned outside its construction (compiler, NewCode, marshal reader): code objects are shared by every frame and context that runs them", w.field)
		}
	}
	r.check(len(ws) > 0, "py|Code|writers found", token.NoPos, fmt.Sprintf("%d construction-time writers", len(ws)), "no writer of py.Code fields found: the anchor type changed")
	// the sanctioned writer methods of package py are themselves only called during construction
	for _, wm := range []string{"InitCell2arg"} {
		m := c.Method("py", "Code", wm)
		if m == nil {
			continue
		}
		for _, pk := range c.All {
			for _, f := range c.Files(pk) {
				for _, d := range f.Decls {
					fd, ok := d.(*ast.FuncDecl)
					if !ok || fd.Body == nil {
						continue
					}
					ast.Inspect(fd.Body, func(n ast.Node) bool {
						call, ok := n.(*ast.CallExpr)
						if !ok || Callee(pk.TypesInfo, call) != m {
							return true
						}
						id := declID(pk, fd)
						sp := shortPkg(pk.PkgPath)
						okCaller := sp == "compile" || sp == "stdlib/marshal" || (sp == "py" && strings.HasSuffix(id, "NewCode"))
						r.check(okCaller, fmt.Sprintf("%s|%s|calls Code.%s", sp, id, wm), call.Pos(),
							"called while the code object is being constructed",
							fmt.Sprintf("%s calls (*py.Code).%s, which assigns fields of the code object, outside its construction: running a code object must not write to it — it is shared by every frame, goroutine and context that executes it (lazy initialisation races)", id, wm))
						return true
					})
				}
			}
		}
	}
}

func runC08R6(c *Ctx, r *Rep) {
	for _, name := range []string{"SetAttrString", "DeleteAttrString"} {
		fd := c.FuncDecl("py", name)
		if fd == nil {
			r.undecided("py|"+name, token.NoPos, "anchor not found")
			continue
		}
		r.analysed("py." + name)
		p := c.MustPkg("py")
		// position of the generic dictionary write / delete
		var writePos token.Pos
		ast.Inspect(fd.Body, func(n ast.Node) bool {
			switch x := n.(type) {
			case *ast.AssignStmt:
				if ix, ok := unparen(x.Lhs[0]).(*ast.IndexExpr); ok {
					if tv, ok := p.TypesInfo.Types[ix.X]; ok && namedTypeName(tv.Type) == "py.StringDict" {
						writePos = x.Pos()
					}
				}
			case *ast.CallExpr:
				if isBuiltinCall(p.TypesInfo, x, "delete") {
					writePos = x.Pos()
				}
			}
			return true
		})
		if !writePos.IsValid() {
			r.undecided("py|"+name+"|dictionary write", fd.Pos(), "generic dictionary write not found")
			continue
		}
		// a guard before it: an if whose condition mentions TPFLAGS_HEAPTYPE (directly or through a helper) and whose body returns
		guarded := false
		ast.Inspect(fd.Body, func(n ast.Node) bool {
			ifs, ok := n.(*ast.IfStmt)
			if !ok || ifs.Pos() > writePos {
				return true
			}
			mentions := strings.Contains(exprStr(ifs.Cond), "TPFLAGS_HEAPTYPE")
			ast.Inspect(ifs.Cond, func(m ast.Node) bool {
				if call, ok := m.(*ast.CallExpr); ok {
					if f := Callee(p.TypesInfo, call); f != nil {
						if gfd := c.Decl(f); gfd != nil {
							ast.Inspect(gfd.Body, func(k ast.Node) bool {
								if id, ok := k.(*ast.Ident); ok && id.Name == "TPFLAGS_HEAPTYPE" {
									mentions = true
								}
								return true
							})
						}
					}
				}
				return true
			})
			if ifs.Init != nil && strings.Contains(nodeText2(ifs.Init), "TPFLAGS_HEAPTYPE") {
				mentions = true
			}
			if mentions && len(ifs.Body.List) > 0 {
				if _, ok := ifs.Body.List[len(ifs.Body.List)-1].(*ast.ReturnStmt); ok {
					guarded = true
				}
			}
			return true
		})
		r.check(guarded, "py|"+name+"|built-in types protected", writePos, "dictionary write refused for non-heap type objects",
			"the generic path of "+name+" writes the object's dictionary without testing whether the object is a built-in (non-heap) type: `int.foo = 1` from one context changes the type that every context shares")
	}
}

func nodeText2(n ast.Node) string {
	var b strings.Builder
	ast.Inspect(n, func(m ast.Node) bool {
		if id, ok := m.(*ast.Ident); ok {
			b.WriteString(id.Name + " ")
		}
		return true
	})
	return b.String()
}

func runC08R8(c *Ctx, r *Rep) {
	for _, pk := range c.ModulePkgs() {
		rel := shortPkg(pk.PkgPath)
		core := rel == "py" || rel == "vm" || rel == "compile" || rel == "symtable" || rel == "parser" || rel == "ast" || rel == "stdlib" || strings.HasPrefix(rel, "stdlib/")
		if !core {
			continue
		}
		n := 0
		for _, f := range c.Files(pk) {
			ast.Inspect(f, func(m ast.Node) bool {
				if g, ok := m.(*ast.GoStmt); ok {
					n++
					r.bad(rel+"|go statement", g.Pos(), "package %s starts a goroutine: interpreter state (frames, module dictionaries) is owned by the calling goroutine and has no locking", rel)
				}
				return true
			})
		}
		if n == 0 {
			r.okTrivial(rel+"|no goroutines", token.NoPos, "no go statements")
		}
	}
}

// returnsFreshContainer: every return of the function hands back a container the function itself made — a local whose
// every assignment is make(…), a composite literal or a .Copy() call — or such an expression directly.
func returnsFreshContainer(c *Ctx, p *packages.Package, fn *types.Func) bool {
	fd := c.Decl(fn)
	if fd == nil || fd.Body == nil {
		return false
	}
	info := p.TypesInfo
	fresh := func(e ast.Expr) bool {
		switch x := unparen(e).(type) {
		case *ast.CompositeLit:
			return true
		case *ast.CallExpr:
			if isBuiltinCall(info, x, "make") {
				return true
			}
			if f := Callee(info, x); f != nil && f.Name() == "Copy" {
				return true
			}
		}
		return false
	}
	ok, n := true, 0
	ast.Inspect(fd.Body, func(nd ast.Node) bool {
		if _, isLit := nd.(*ast.FuncLit); isLit {
			return false
		}
		rs, isRet := nd.(*ast.ReturnStmt)
		if !isRet || len(rs.Results) == 0 {
			return true
		}
		n++
		res := rs.Results[0]
		if fresh(res) {
			return true
		}
		id := identOf(res)
		if id == nil {
			ok = false
			return true
		}
		obj := info.Uses[id]
		assigned := 0
		ast.Inspect(fd.Body, func(m ast.Node) bool {
			if as, isAs := m.(*ast.AssignStmt); isAs && len(as.Lhs) == len(as.Rhs) {
				for i, l := range as.Lhs {
					if lid := identOf(l); lid != nil && info.ObjectOf(lid) == obj {
						assigned++
						if !fresh(as.Rhs[i]) {
							ok = false
						}
					}
				}
			}
			return true
		})
		if assigned == 0 {
			ok = false
		}
		return true
	})
	return ok && n > 0
}
