package main

import (
	"fmt"
	"go/ast"
	"go/token"
	"go/types"
	"strings"

	"golang.org/x/tools/go/ssa"
)

func init() {
	register(&Rule{ID: "C02.R4", Prop: "C02", Floor: 60,
		Doc: "no exception swallowed or replaced inside the VM: the error result of every call made in package vm is (edge-sensitively, on go/ssa) returned on every path where it can be non-nil, unless the site is one of the sanctioned classifications (StopIteration ends iteration in FOR_ITER/YIELD_FROM/unpacking; AttributeError becomes ImportError in IMPORT_FROM)",
		Run: runC02R4})
}

// sanctioned classifications: function -> callee -> exception classes that may be consumed there
var sanctionedClassify = map[string]map[string]string{
	"vm.do_FOR_ITER":     {"py.Next": "StopIteration"},
	"vm.do_YIELD_FROM":   {"py.Next": "StopIteration", "py.Send": "StopIteration"},
	"vm.unpack_iterable": {"py.Next": "StopIteration"},
	"vm.do_IMPORT_FROM":  {"py.GetAttrString": "AttributeError"},
}

func runC02R4(c *Ctx, r *Rep) {
	a := newErrAnalyzer(c)
	sites := sitesCalling(c, func(callee *types.Func, ci ssa.CallInstruction) bool { return true })
	var followUps []*errSite
	for _, s := range sites {
		if pkgPathOf(s.fn) != modPath+"/vm" {
			continue
		}
		// only errors that can carry a Python exception: callees of this module, or calls through module function values
		if s.callee != nil && !inModule(s.callee) {
			continue
		}
		if ssaFuncID(s.fn) == "vm.RunFrame" && (s.callee == nil || callsJumpTable(c, s.callee)) {
			continue // the dispatch call: decided structurally below
		}
		id := ssaFuncID(s.fn)
		r.analysed(id)
		cn := "<dynamic>"
		if s.callee != nil {
			cn = FuncID(s.callee)
		} else if v := s.call.Common().Value; v != nil {
			cn = "dyn:" + v.Name()
			if g := globalName(v); g != "" {
				cn = "dyn:" + g
			}
		}
		v := a.analyse(s)
		key := fmt.Sprintf("vm|%s|call %s", id, cn)
		switch v.kind {
		case "propagated":
			r.ok(key, s.pos, "%s", v.detail)
		case "classified":
			want := sanctionedClassify[id][cn]
			if want != "" && len(v.classes) == 1 && v.classes[0] == want {
				r.ok(key, s.pos, "sanctioned: %s", v.detail)
			} else {
				r.bad(key, s.pos, "the error is classified with %v and consumed here; this site is not in the table of sanctioned conversions (an exception of that class raised by the callee never reaches the program)", v.classes)
			}
		case "identity":
			r.bad(key, v.pos, "%s", v.detail)
		case "replaced":
			if why := sanctionedReplace[id+"|"+cn]; why != "" {
				r.ok(key, s.pos, "sanctioned replacement: %s", why)
			} else {
				r.bad(key, v.pos, "an exception raised by %s is replaced by a different one: %s", strings.TrimPrefix(cn, "dyn:"), v.detail)
			}
		case "stored":
			// the closure hands the error to the enclosing function: every later read of that variable must propagate it
			loads := capturedLoads(s.fn, v.storedTo)
			if len(loads) == 0 {
				r.bad(key, s.pos, "the error is stored into a captured variable that the enclosing function never reads")
			} else {
				r.ok(key, s.pos, "handed to the enclosing function through a captured variable (%d reads checked there)", len(loads))
				followUps = append(followUps, loads...)
			}
		case "swallowed", "dropped":
			r.bad(key, v.pos, "an exception raised by %s is lost: %s", strings.TrimPrefix(cn, "dyn:"), v.detail)
		default:
			r.undecided(key, s.pos, "%s", v.detail)
		}
	}
	// captured error variables: in the enclosing function the value must be returned when non-nil on at least
	// one of its reads (the idiom `if loopErr != nil { return loopErr }`)
	byFn := map[string][]errVerdict{}
	var fnOrder []string
	for _, s := range followUps {
		id := ssaFuncID(s.fn)
		if _, ok := byFn[id]; !ok {
			fnOrder = append(fnOrder, id)
		}
		byFn[id] = append(byFn[id], a.analyse(s))
	}
	for _, id := range uniq(fnOrder) {
		ok := false
		for _, v := range byFn[id] {
			if v.kind == "propagated" {
				ok = true
			}
		}
		r.check(ok, "vm|"+id+"|captured error variable", token.NoPos, "the captured error is returned when set", "an error stored by a closure is never returned by the enclosing function")
	}
	// the dispatch loop turns a handler's error into the frame's pending exception
	runFrameDispatchCheck(c, r)
}

// errors that are deliberately reworded (same exception class family, documented behaviour)
var sanctionedReplace = map[string]string{
	"vm.builtinEvalOrExec|py.DictCheck": "eval/exec report a non-dict globals/locals as TypeError('globals must be a dict'), as CPython does",
}

func runFrameDispatchCheck(c *Ctx, r *Rep) {
	fd := c.FuncDecl("vm", "RunFrame")
	if fd == nil {
		r.undecided("vm|RunFrame|dispatch error", token.NoPos, "anchor not found")
		return
	}
	p := c.MustPkg("vm")
	info := p.TypesInfo
	// statement calls of helpers written since the reference stand for the helpers' statements
	fd = &ast.FuncDecl{Name: fd.Name, Type: fd.Type, Body: c.FlattenNew(p, fd)}
	// find `err = jumpTable[opcode](…)` followed by `if err != nil { … }` whose body sets vm.curexc / calls SetException on both arms
	found := false
	ast.Inspect(fd.Body, func(n ast.Node) bool {
		blk, ok := n.(*ast.BlockStmt)
		if !ok {
			return true
		}
		for i, st := range blk.List {
			as, ok := st.(*ast.AssignStmt)
			if !ok || len(as.Rhs) != 1 {
				continue
			}
			call, ok := as.Rhs[0].(*ast.CallExpr)
			if !ok {
				continue
			}
			if _, isIdx := unparen(call.Fun).(*ast.IndexExpr); !isIdx {
				if f := Callee(info, call); f == nil || !callsJumpTable(c, f) {
					continue
				}
			}
			if i+1 >= len(blk.List) {
				continue
			}
			ifs, ok := blk.List[i+1].(*ast.IfStmt)
			if !ok || !strings.Contains(exprStr(ifs.Cond), "!= nil") {
				r.bad("vm|RunFrame|dispatch error", as.Pos(), "the handler's error is not tested immediately after the dispatch call")
				found = true
				continue
			}
			found = true
			// every path through the if body must set the pending exception from err
			sets := 0
			arms := 0
			var walk func(stmts []ast.Stmt) bool
			walk = func(stmts []ast.Stmt) bool {
				for _, s := range stmts {
					switch x := s.(type) {
					case *ast.IfStmt:
						arms++
						a := walk(x.Body.List)
						b := false
						if el, ok := x.Else.(*ast.BlockStmt); ok {
							b = walk(el.List)
						}
						if a && b {
							return true
						}
					case *ast.AssignStmt:
						if len(x.Lhs) == 1 && strings.HasSuffix(exprStr(x.Lhs[0]), ".curexc") {
							sets++
							return true
						}
					case *ast.ExprStmt:
						if cl, ok := x.X.(*ast.CallExpr); ok {
							if f := Callee(info, cl); f != nil && f.Name() == "SetException" {
								sets++
								return true
							}
						}
					}
				}
				return false
			}
			okAll := walk(ifs.Body.List)
			r.check(okAll, "vm|RunFrame|dispatch error", ifs.Pos(), "a handler's error always becomes the frame's pending exception (ExceptionInfo kept, anything else through MakeException)",
				"some path after a failing handler does not turn the error into the pending exception: the exception is lost and execution continues")
		}
		return true
	})
	if !found {
		r.undecided("vm|RunFrame|dispatch error", fd.Pos(), "dispatch call `err = jumpTable[opcode](…)` not found")
	}
}

// callsJumpTable: the function's body calls through vm.jumpTable (it is the handler dispatcher).
func callsJumpTable(c *Ctx, f *types.Func) bool {
	fd := c.Decl(f)
	if fd == nil || fd.Body == nil {
		return false
	}
	found := false
	ast.Inspect(fd.Body, func(n ast.Node) bool {
		if call, ok := n.(*ast.CallExpr); ok {
			if ix, ok := unparen(call.Fun).(*ast.IndexExpr); ok && exprStr(ix.X) == "jumpTable" {
				found = true
			}
		}
		return true
	})
	return found
}
