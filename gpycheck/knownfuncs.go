package main

import (
	"fmt"
	"go/ast"
	"sort"
)

// knownFuncs (knownfuncs_data.go, generated with `gpycheck -dump knownfuncs`) names the functions that
// existed when the reference tables were written. It carries no verdict. It is the vocabulary of the
// reference: a call to a function of the analysed package that is not in it is a helper introduced since —
// typically extracted from a function the tables describe — and the interpreters look through it instead
// of treating it as an opaque primitive, so that extracting a helper does not change a table.
func isNewFunc(id string) bool { return len(knownFuncs) > 0 && !knownFuncs[id] }

func init() {
	debugHooks["knownfuncs"] = func(c *Ctx) {
		var ids []string
		for _, p := range c.ModulePkgs() {
			for _, f := range c.Files(p) {
				for _, d := range f.Decls {
					if fd, ok := d.(*ast.FuncDecl); ok {
						ids = append(ids, declID(p, fd))
					}
				}
			}
		}
		sort.Strings(ids)
		fmt.Println("package main\n\n// Generated with `gpycheck -dump knownfuncs`; see knownfuncs.go.\n\nvar knownFuncs = map[string]bool{")
		prev := ""
		for _, id := range ids {
			if id != prev {
				fmt.Printf("\t%q: true,\n", id)
			}
			prev = id
		}
		fmt.Println("}")
	}
}
