package main

import (
	"fmt"
	"go/ast"
	"go/types"
	"sort"

	"golang.org/x/tools/go/packages"
)

// knownFuncs (knownfuncs_data.go, generated with `gpycheck -dump knownfuncs`) names the functions that
// existed when the reference tables were written. It carries no verdict. It is the vocabulary of the
// reference: a call to a function of the analysed package that is not in it is a helper introduced since —
// typically extracted from a function the tables describe — and the interpreters look through it instead
// of treating it as an opaque primitive, so that extracting a helper does not change a table.
func isNewFunc(id string) bool { return len(knownFuncs) > 0 && !knownFuncs[id] }

func init() {
	debugHooks["knownfuncs"] = func(c *Ctx) {
		var ids []string
		for _, p := range c.ModulePkgs() {
			for _, f := range c.Files(p) {
				for _, d := range f.Decls {
					if fd, ok := d.(*ast.FuncDecl); ok {
						ids = append(ids, declID(p, fd))
					}
				}
			}
		}
		sort.Strings(ids)
		fmt.Println("package main\n\n// Generated with `gpycheck -dump knownfuncs`; see knownfuncs.go.\n\nvar knownFuncs = map[string]bool{")
		prev := ""
		for _, id := range ids {
			if id != prev {
				fmt.Printf("\t%q: true,\n", id)
			}
			prev = id
		}
		fmt.Println("}")
	}
}

// knownCallers: for a function introduced since the reference was written, the functions of the reference
// vocabulary in the same package that call it, directly or through at most two other new functions — the
// functions it was extracted from. A site that a reviewed table lists under one of them and that now sits in
// the helper was moved, not added: the review goes with it.
func knownCallers(c *Ctx, p *packages.Package, fd *ast.FuncDecl) []string {
	if !isNewFunc(declID(p, fd)) {
		return nil
	}
	self, _ := p.TypesInfo.Defs[fd.Name].(*types.Func)
	if self == nil {
		return nil
	}
	var calls func(from *ast.FuncDecl, depth int) bool
	calls = func(from *ast.FuncDecl, depth int) bool {
		hit := false
		ast.Inspect(from.Body, func(n ast.Node) bool {
			call, ok := n.(*ast.CallExpr)
			if !ok || hit {
				return !hit
			}
			cal := Callee(p.TypesInfo, call)
			if cal == nil || cal.Pkg() != p.Types {
				return true
			}
			if cal == self {
				hit = true
			} else if depth > 0 && isNewFunc(FuncID(cal)) {
				if d := c.Decl(cal); d != nil && d.Body != nil && calls(d, depth-1) {
					hit = true
				}
			}
			return !hit
		})
		return hit
	}
	var out []string
	for _, f := range c.Files(p) {
		for _, d := range f.Decls {
			if od, ok := d.(*ast.FuncDecl); ok && od.Body != nil && od != fd && !isNewFunc(declID(p, od)) && calls(od, 2) {
				out = append(out, declID(p, od))
			}
		}
	}
	sort.Strings(out)
	return out
}

// knownIndexSites (knownsites_data.go, `gpycheck -dump knownsites`): the index, slice and call expressions of the
// pipeline packages as they stood in the reference tree, keyed function|expression. C11.R6 asks the Go compiler
// which bounds checks it cannot prove. A site that is in this vocabulary but not among the reviewed unproven
// sites was proven when the reference was written: if the compiler no longer proves it, a guard was removed.
// A site that is not in the vocabulary is new code; whether it is in bounds is not something this rule decides.
func isKnownSite(fn, expr string) bool { return knownIndexSites[fn+"|"+expr] }

func init() {
	debugHooks["knownsites"] = func(c *Ctx) {
		seen := map[string]bool{}
		for _, rel := range pipelinePkgs {
			p := c.Pkg(rel)
			if p == nil {
				continue
			}
			for _, f := range c.Files(p) {
				for _, d := range f.Decls {
					fd, ok := d.(*ast.FuncDecl)
					if !ok || fd.Body == nil {
						continue
					}
					id := declID(p, fd)
					ast.Inspect(fd.Body, func(n ast.Node) bool {
						switch x := n.(type) {
						case *ast.IndexExpr:
							seen[id+"|"+exprStr(x)] = true
						case *ast.SliceExpr:
							seen[id+"|"+exprStr(x)] = true
						case *ast.CallExpr:
							seen[id+"|call "+exprStr(x)] = true
						}
						return true
					})
				}
			}
		}
		var keys []string
		for k := range seen {
			keys = append(keys, k)
		}
		sort.Strings(keys)
		fmt.Println("package main\n\n// Generated with `gpycheck -dump knownsites`; see knownfuncs.go.\n\nvar knownIndexSites = map[string]bool{")
		for _, k := range keys {
			fmt.Printf("\t%q: true,\n", k)
		}
		fmt.Println("}")
	}
}
