package main

import (
	"fmt"
	"go/ast"
	"go/token"
	"go/types"
	"strings"

	"golang.org/x/tools/go/ssa"
)

func init() {
	register(&Rule{ID: "C02.R3", Prop: "C02", Floor: 4,
		Doc: "handler matching direction: in py.ExceptionGivenMatches and py.IsException the subtype test has the *raised* exception's type as receiver and the *handler's* class as argument (value origin on go/ssa); the tuple case recurses with the operands in the same positions",
		Run: runC02R3})
	register(&Rule{ID: "C02.R5", Prop: "C02", Floor: 3,
		Doc: "traceback address: the address AddTraceback hands to Code.Addr2Line lies inside the instruction being executed, given how many times RunFrame advances Lasti while fetching (1 or 3) and whether Addr2Line stops at table addresses > or >= the query",
		Run: runC02R5})
}

// paramOrigins returns the parameters a value derives from.
func paramOrigins(v ssa.Value, seen map[ssa.Value]bool, out map[*ssa.Parameter]bool) {
	if v == nil || seen[v] {
		return
	}
	seen[v] = true
	switch x := v.(type) {
	case *ssa.Parameter:
		out[x] = true
	case *ssa.Phi:
		for _, e := range x.Edges {
			paramOrigins(e, seen, out)
		}
	case *ssa.TypeAssert:
		paramOrigins(x.X, seen, out)
	case *ssa.ChangeInterface:
		paramOrigins(x.X, seen, out)
	case *ssa.MakeInterface:
		paramOrigins(x.X, seen, out)
	case *ssa.ChangeType:
		paramOrigins(x.X, seen, out)
	case *ssa.Extract:
		paramOrigins(x.Tuple, seen, out)
	case *ssa.UnOp:
		paramOrigins(x.X, seen, out)
	case *ssa.Field:
		paramOrigins(x.X, seen, out)
	case *ssa.FieldAddr:
		paramOrigins(x.X, seen, out)
	case *ssa.Index:
		paramOrigins(x.X, seen, out)
	case *ssa.IndexAddr:
		paramOrigins(x.X, seen, out)
	case *ssa.Lookup:
		paramOrigins(x.X, seen, out)
	case *ssa.Call:
		cc := x.Common()
		if cc.IsInvoke() {
			paramOrigins(cc.Value, seen, out)
		} else if f := cc.StaticCallee(); f != nil && f.Signature.Recv() != nil && len(cc.Args) > 0 {
			paramOrigins(cc.Args[0], seen, out)
		}
	}
}

func originNames(v ssa.Value) []string {
	out := map[*ssa.Parameter]bool{}
	paramOrigins(v, map[ssa.Value]bool{}, out)
	var names []string
	for p := range out {
		names = append(names, p.Name())
	}
	return uniq(names)
}

func runC02R3(c *Ctx, r *Rep) {
	isSub := c.Method("py", "Type", "IsSubtype")
	if isSub == nil {
		r.undecided("py|(*Type).IsSubtype", token.NoPos, "anchor not found")
		return
	}
	// function, index of the raised-exception parameter, index of the handler-class parameter
	for _, spec := range []struct {
		fn      string
		raised  int
		handler int
	}{{"ExceptionGivenMatches", 0, 1}, {"IsException", 1, 0}} {
		obj := c.Func("py", spec.fn)
		fn := c.SSAFunc(obj)
		if fn == nil {
			r.undecided("py|"+spec.fn, token.NoPos, "anchor not found")
			continue
		}
		r.analysed("py." + spec.fn)
		raised, handler := fn.Params[spec.raised].Name(), fn.Params[spec.handler].Name()
		n := 0
		for _, b := range fn.Blocks {
			for _, in := range b.Instrs {
				call, ok := in.(*ssa.Call)
				if !ok {
					continue
				}
				cc := call.Common()
				callee := cc.StaticCallee()
				if callee == nil {
					continue
				}
				switch {
				case callee.Object() == isSub && len(cc.Args) == 2:
					n++
					ro, ao := originNames(cc.Args[0]), originNames(cc.Args[1])
					ok := len(ro) == 1 && ro[0] == raised && len(ao) == 1 && ao[0] == handler
					r.check(ok, "py|"+spec.fn+"|IsSubtype direction", call.Pos(),
						fmt.Sprintf("type of %s .IsSubtype( %s )", raised, handler),
						fmt.Sprintf("IsSubtype is applied with receiver derived from %v and argument derived from %v; a handler must match when the raised type (%s) is a subtype of the handler class (%s) — reversed, `except Base` stops catching Derived and `except Derived` catches Base", ro, ao, raised, handler))
				case callee == fn && len(cc.Args) == 2: // recursion on tuple elements
					n++
					a0, a1 := originNames(cc.Args[spec.raised]), originNames(cc.Args[spec.handler])
					ok := len(a0) == 1 && a0[0] == raised && len(a1) == 1 && a1[0] == handler
					r.check(ok, "py|"+spec.fn+"|tuple recursion", call.Pos(), "recurses with (raised, element of handler tuple)",
						fmt.Sprintf("the recursive call passes values derived from %v / %v in the raised / handler positions", a0, a1))
				}
			}
		}
		r.check(n >= 1, "py|"+spec.fn+"|uses IsSubtype", fn.Pos(), "matches by inheritance", "no call of (*Type).IsSubtype: handlers no longer match by inheritance")
	}
}

func runC02R5(c *Ctx, r *Rep) {
	// (1) sizes: how far RunFrame advances Lasti before dispatch
	rf := c.FuncDecl("vm", "RunFrame")
	at := c.MethodDecl("vm", "Vm", "AddTraceback")
	a2l := c.MethodDecl("py", "Code", "Addr2Line")
	if rf == nil || at == nil || a2l == nil {
		r.undecided("anchors", token.NoPos, "RunFrame / AddTraceback / Addr2Line not found")
		return
	}
	r.analysed("vm.RunFrame")
	r.analysed("(*vm.Vm).AddTraceback")
	r.analysed("(*py.Code).Addr2Line")
	isLastiInc := func(s ast.Stmt) bool {
		id, ok := s.(*ast.IncDecStmt)
		return ok && id.Tok == token.INC && strings.HasSuffix(exprStr(id.X), ".Lasti")
	}
	var main *ast.ForStmt
	for _, s := range rf.Body.List {
		if f, ok := s.(*ast.ForStmt); ok && main == nil {
			main = f
		}
	}
	if main == nil {
		r.undecided("vm|RunFrame|fetch", rf.Pos(), "main loop not found")
		return
	}
	base, extra := 0, 0
	for _, s := range main.Body.List {
		if isLastiInc(s) {
			base++
		}
		if ifs, ok := s.(*ast.IfStmt); ok && strings.Contains(exprStr(ifs.Cond), "HAS_ARG") {
			for _, t := range ifs.Body.List {
				if isLastiInc(t) {
					extra++
				}
			}
		}
		// stop at the dispatch call
		if as, ok := s.(*ast.AssignStmt); ok && len(as.Rhs) == 1 {
			if call, ok := as.Rhs[0].(*ast.CallExpr); ok {
				if _, isIdx := unparen(call.Fun).(*ast.IndexExpr); isIdx {
					break
				}
				if f := Callee(c.MustPkg("vm").TypesInfo, call); f != nil && callsJumpTable(c, f) {
					break
				}
			}
		}
	}
	if base == 0 {
		r.undecided("vm|RunFrame|fetch", main.Pos(), "no Lasti++ found before dispatch")
		return
	}
	sizes := []int{base, base + extra}
	// (2) the query AddTraceback makes
	se := newSymExec(c, "vm")
	paths := se.runFunc(at, []*val{nil}, []string{"exc"})
	var k *int64
	var qpos token.Pos
	for _, p := range paths {
		for _, cr := range p.st.calls {
			if cr.callee == "(*py.Code).Addr2Line" && len(cr.args) == 1 && cr.args[0].kind == vInt {
				l := cr.args[0].lin
				if len(l.t) == 1 {
					for s, co := range l.t {
						if co == 1 && strings.HasSuffix(s, ".Lasti") {
							kk := l.c
							k = &kk
							qpos = cr.pos
						}
					}
				}
			}
		}
	}
	if k == nil {
		r.undecided("vm|(*Vm).AddTraceback|query", at.Pos(), "the argument of Addr2Line is not of the form frame.Lasti + constant")
		return
	}
	// (3) Addr2Line's comparison
	op := token.ILLEGAL
	ast.Inspect(a2l.Body, func(n ast.Node) bool {
		if ifs, ok := n.(*ast.IfStmt); ok {
			if be, ok := unparen(ifs.Cond).(*ast.BinaryExpr); ok && (be.Op == token.GTR || be.Op == token.GEQ) {
				if len(ifs.Body.List) == 1 {
					// the scan ends there: by leaving the loop, or by returning the line reached so far
					if br, ok := ifs.Body.List[0].(*ast.BranchStmt); ok && br.Tok == token.BREAK {
						op = be.Op
					}
					if _, ok := ifs.Body.List[0].(*ast.ReturnStmt); ok {
						op = be.Op
					}
				}
			}
		}
		return true
	})
	if op == token.ILLEGAL {
		r.undecided("py|(*Code).Addr2Line|comparison", a2l.Pos(), "no `if addr >(=) query { break }` found")
		return
	}
	r.ok("vm|RunFrame|fetch sizes", main.Pos(), "instruction sizes at dispatch: %v", sizes)
	r.ok("py|(*Code).Addr2Line|comparison", a2l.Pos(), "table scan stops at addresses %s the query", op)
	okAll := true
	for _, size := range sizes {
		// Lasti = start + size at the time of the query; q = Lasti + k
		off := int64(size) + *k // q - start
		if op == token.GTR {
			// returns the line of the last entry with addr <= q: need start <= q < start+size
			if !(off >= 0 && off < int64(size)) {
				okAll = false
			}
		} else {
			// returns the line of the last entry with addr < q: need start < q <= start+size
			if !(off > 0 && off <= int64(size)) {
				okAll = false
			}
		}
	}
	r.check(okAll, "vm|(*Vm).AddTraceback|query address", qpos,
		fmt.Sprintf("queries Lasti%+d: inside the current instruction for sizes %v", *k, sizes),
		fmt.Sprintf("AddTraceback queries Addr2Line with Lasti%+d while Lasti already points past the instruction (sizes %v) and Addr2Line stops at addresses %s the query: when the next instruction starts a new source line the traceback names the following line instead of the raising one", *k, sizes, op))
	_ = types.Typ
}

// ---- C02.R6: line table writer/reader agreement ----

func init() {
	register(&Rule{ID: "C02.R6", Prop: "C02", Floor: 6,
		Doc: "line-table writer/reader agreement: compile.Instructions.Lnotab appends (address delta, line delta) byte pairs, unsigned, splitting deltas above 255; py.Code.Addr2Line consumes pairs in the same order, two bytes at a time, reading each byte as an unsigned quantity",
		Run: runC02R6})
}

func runC02R6(c *Ctx, r *Rep) {
	a2l := c.MethodDecl("py", "Code", "Addr2Line")
	wr := c.MethodDecl("compile", "Instructions", "Lnotab")
	if a2l == nil || wr == nil {
		r.undecided("anchors", token.NoPos, "Addr2Line / Lnotab not found")
		return
	}
	r.analysed("(*py.Code).Addr2Line")
	r.analysed("(compile.Instructions).Lnotab")
	pyp := c.MustPkg("py")
	info := pyp.TypesInfo
	// reader
	var loop *ast.ForStmt
	ast.Inspect(a2l.Body, func(n ast.Node) bool {
		if f, ok := n.(*ast.ForStmt); ok && loop == nil {
			loop = f
		}
		return true
	})
	if loop == nil {
		r.undecided("py|(*Code).Addr2Line|loop", a2l.Pos(), "no scanning loop")
		return
	}
	step := ""
	loopVar := ""
	if as, ok := loop.Post.(*ast.AssignStmt); ok && as.Tok == token.ADD_ASSIGN {
		step = exprStr(as.Rhs[0])
		loopVar = exprStr(as.Lhs[0])
	} else if loop.Post == nil {
		// a while-style loop: the counter is the variable compared in the condition and stepped in the body
		if be, ok := loop.Cond.(*ast.BinaryExpr); ok {
			cv := exprStr(be.X)
			ast.Inspect(loop.Body, func(n ast.Node) bool {
				if as, ok := n.(*ast.AssignStmt); ok && as.Tok == token.ADD_ASSIGN && len(as.Lhs) == 1 && exprStr(as.Lhs[0]) == cv {
					step = exprStr(as.Rhs[0])
					loopVar = cv
				}
				return true
			})
		}
	}
	r.check(step == "2", "py|(*Code).Addr2Line|pair step", loop.Pos(), "table consumed two bytes at a time", "the line table is not consumed in steps of 2 (step "+step+")")
	// the two accumulations
	type acc struct {
		target string
		idx    string
		signed bool
		pos    token.Pos
	}
	var accs []acc
	ast.Inspect(loop.Body, func(n ast.Node) bool {
		as, ok := n.(*ast.AssignStmt)
		if !ok || as.Tok != token.ADD_ASSIGN || len(as.Lhs) != 1 {
			return true
		}
		a := acc{target: exprStr(as.Lhs[0]), pos: as.Pos()}
		ast.Inspect(as.Rhs[0], func(m ast.Node) bool {
			switch x := m.(type) {
			case *ast.IndexExpr:
				if strings.HasSuffix(strings.ToLower(exprStr(x.X)), "lnotab") { // the field, or a local holding it
					a.idx = exprStr(x.Index)
				}
			case *ast.CallExpr:
				if tv, ok := info.Types[x.Fun]; ok && tv.IsType() {
					if b, ok := tv.Type.Underlying().(*types.Basic); ok && b.Kind() == types.Int8 {
						a.signed = true
					}
				}
			}
			return true
		})
		if a.idx != "" {
			accs = append(accs, a)
		}
		return true
	})
	if len(accs) != 2 {
		r.undecided("py|(*Code).Addr2Line|accumulations", loop.Pos(), "expected two `x += …Lnotab[…]` accumulations, found %d", len(accs))
		return
	}
	if as, ok := loop.Init.(*ast.AssignStmt); ok && loopVar == "" {
		loopVar = exprStr(as.Lhs[0])
	}
	for _, a := range accs {
		isAddr := a.idx == loopVar
		isLine := a.idx == loopVar+" + 1"
		role := "?"
		if isAddr {
			role = "address"
		} else if isLine {
			role = "line"
		}
		r.check(isAddr || isLine, "py|(*Code).Addr2Line|"+a.target+" index", a.pos, a.target+" accumulates the "+role+" byte of each pair", "table byte index "+a.idx+" is neither i nor i+1")
		r.check(!a.signed, "py|(*Code).Addr2Line|"+a.target+" unsigned", a.pos, "byte read as unsigned",
			"the "+role+" delta byte is converted through int8: the compiler writes deltas 0..255 unsigned (Lnotab splits above 255), so a gap of 128..255 lines/bytes between table entries is read as negative and tracebacks name lines far too low")
	}
	// the line accumulation must come after the break test, the address accumulation before it
	// writer
	cp := c.MustPkg("compile")
	_ = cp
	n := 0
	ast.Inspect(wr.Body, func(nn ast.Node) bool {
		call, ok := nn.(*ast.CallExpr)
		if !ok {
			return true
		}
		if id := identOf(call.Fun); id == nil || id.Name != "append" || len(call.Args) != 3 {
			return true
		}
		n++
		a1, a2 := exprStr(call.Args[1]), exprStr(call.Args[2])
		ok1 := !strings.Contains(a1, "lineno")
		ok2 := !strings.Contains(a2, "bytecode") && !strings.Contains(a2, "offset")
		r.check(ok1 && ok2, fmt.Sprintf("compile|Instructions.Lnotab|pair (%s, %s)", a1, a2), call.Pos(), "(address delta, line delta) order",
			fmt.Sprintf("the writer appends (%s, %s): the reader takes the first byte of a pair as the address delta and the second as the line delta", a1, a2))
		return true
	})
	r.check(n >= 3, "compile|Instructions.Lnotab|pairs", wr.Pos(), fmt.Sprintf("%d pair appends", n), "the writer no longer appends byte pairs")
	// split thresholds
	thr := 0
	ast.Inspect(wr.Body, func(nn ast.Node) bool {
		if f, ok := nn.(*ast.ForStmt); ok && f.Cond != nil {
			if be, ok := f.Cond.(*ast.BinaryExpr); ok && be.Op == token.GTR {
				// the bound by value: the literal or a named constant
				if tv, ok := cp.TypesInfo.Types[be.Y]; ok && tv.Value != nil && tv.Value.ExactString() == "255" {
					thr++
				}
			}
		}
		return true
	})
	r.check(thr == 2, "compile|Instructions.Lnotab|split at 255", wr.Pos(), "both deltas split above 255", fmt.Sprintf("expected two `for d > 255` split loops, found %d: a delta above 255 is truncated to its low byte", thr))
}
