package main

import (
	"fmt"
	"go/ast"
	"go/token"
	"go/types"
	"os"
	"os/exec"
	"path/filepath"
	"regexp"
	"sort"
	"strings"

	"golang.org/x/tools/go/packages"
	"golang.org/x/tools/go/ssa"
)

// C11: the compile pipeline is total.

var pipelinePkgs = []string{"parser", "symtable", "compile", "ast"}

func init() {
	register(&Rule{ID: "C11.R1", Prop: "C11", Floor: 6,
		Doc: "stage barriers: parser.Parse, parser.Lex, symtable.NewSymTable and compiler.compileAst each defer a closure that recovers and assigns the named error result; everything a pipeline entry point (compile.Compile, parser.ParseString/LexString/Parse/Lex) does outside a barrier is free of panic sites; no goroutine is started in the pipeline packages",
		Run: runC11R1})
	register(&Rule{ID: "C11.R2", Prop: "C11", Floor: 45,
		Doc: "what a recovered panic becomes: every explicit panic in parser/symtable/compile/ast is classified by the static construction of its argument: (a) SyntaxError-family exception, (b) re-panic of an error that came out of a nested barrier, (c) anything else, which MakeException turns into SystemError and therefore must be unreachable: discharged by exhaustiveness (default arm of a switch covering every declared constant / every implementer of a sealed interface) or by a row of the confirmed-instance table; new (c)-sites fail",
		Run: runC11R2})
}

// barrierInfo describes a recover barrier found in a function.
type barrierInfo struct {
	deferIdx int // index of the defer statement in the body
	assigns  bool
	lit      *ast.FuncLit
	info     *types.Info // type information for lit's body (another package's when the barrier is a named function)
}

// barrierCtx resolves a named function deferred as a barrier (`defer py.RecoverError(&err)`) to its declaration.
var barrierCtx *Ctx

func findBarrier(info *types.Info, fd *ast.FuncDecl) *barrierInfo {
	if fd.Body == nil || fd.Type.Results == nil {
		return nil
	}
	// named error result
	var errObj types.Object
	for _, f := range fd.Type.Results.List {
		for _, n := range f.Names {
			if o := info.Defs[n]; o != nil && o.Type().String() == "error" {
				errObj = o
			}
		}
	}
	for i, s := range fd.Body.List {
		ds, ok := s.(*ast.DeferStmt)
		if !ok {
			continue
		}
		fl, ok := ds.Call.Fun.(*ast.FuncLit)
		if !ok {
			// a named function deferred directly: recover() called by that function itself (not by a closure
			// inside it, where it would be inert) stops the panic exactly like the literal does; the error result
			// is assigned through the pointer parameter that receives &err
			if barrierCtx == nil {
				continue
			}
			fn := Callee(info, ds.Call)
			hd := barrierCtx.Decl(fn)
			if fn == nil || hd == nil || hd.Body == nil || hd.Recv != nil {
				continue
			}
			hinfo := barrierCtx.DeclPkg(fn).TypesInfo
			direct := false
			var visit func(n ast.Node) bool
			visit = func(n ast.Node) bool {
				switch x := n.(type) {
				case *ast.FuncLit:
					return false
				case *ast.CallExpr:
					if isBuiltinCall(hinfo, x, "recover") {
						direct = true
					}
				}
				return true
			}
			ast.Inspect(hd.Body, visit)
			if !direct {
				continue
			}
			// parameters that receive the address of the error result
			errParams := map[types.Object]bool{}
			pi := 0
			for _, f := range hd.Type.Params.List {
				for _, nm := range f.Names {
					if pi < len(ds.Call.Args) {
						if u, ok := unparen(ds.Call.Args[pi]).(*ast.UnaryExpr); ok && u.Op == token.AND {
							if id := identOf(u.X); id != nil && errObj != nil && info.Uses[id] == errObj {
								errParams[hinfo.Defs[nm]] = true
							}
						}
					}
					pi++
				}
			}
			assigns := false
			ast.Inspect(hd.Body, func(n ast.Node) bool {
				if as, ok := n.(*ast.AssignStmt); ok {
					for _, l := range as.Lhs {
						if st, ok := unparen(l).(*ast.StarExpr); ok {
							if id := identOf(st.X); id != nil && errParams[hinfo.Uses[id]] {
								assigns = true
							}
						}
					}
				}
				return true
			})
			return &barrierInfo{deferIdx: i, assigns: assigns, lit: &ast.FuncLit{Type: hd.Type, Body: hd.Body}, info: hinfo}
		}
		hasRecover, assigns := false, false
		ast.Inspect(fl.Body, func(n ast.Node) bool {
			switch x := n.(type) {
			case *ast.CallExpr:
				if isBuiltinCall(info, x, "recover") {
					hasRecover = true
				}
			case *ast.AssignStmt:
				for _, l := range x.Lhs {
					if id := identOf(l); id != nil && errObj != nil && info.Uses[id] == errObj {
						assigns = true
					}
				}
			}
			return true
		})
		if hasRecover {
			return &barrierInfo{deferIdx: i, assigns: assigns, lit: fl, info: info}
		}
	}
	return nil
}

// potentialPanics lists syntactic panic sites in a statement list (index/slice on non-map, type assertion without
// comma-ok, explicit panic, integer division, map write through possibly nil map is not tracked).
func potentialPanics(info *types.Info, n ast.Node) []string {
	var out []string
	commaOK := map[ast.Expr]bool{}
	ast.Inspect(n, func(m ast.Node) bool {
		switch x := m.(type) {
		case *ast.AssignStmt:
			if len(x.Lhs) == 2 && len(x.Rhs) == 1 {
				commaOK[unparen(x.Rhs[0])] = true
			}
		case *ast.ValueSpec:
			if len(x.Names) == 2 && len(x.Values) == 1 {
				commaOK[unparen(x.Values[0])] = true
			}
		case *ast.TypeSwitchStmt:
			switch a := x.Assign.(type) {
			case *ast.AssignStmt:
				commaOK[unparen(a.Rhs[0])] = true
			case *ast.ExprStmt:
				commaOK[unparen(a.X)] = true
			}
		}
		return true
	})
	ast.Inspect(n, func(m ast.Node) bool {
		switch x := m.(type) {
		case *ast.FuncLit:
			return false
		case *ast.CallExpr:
			if isBuiltinCall(info, x, "panic") {
				out = append(out, "panic(…)")
			}
		case *ast.TypeAssertExpr:
			if x.Type != nil && !commaOK[x] {
				out = append(out, "unchecked type assertion "+exprStr(x))
			}
		case *ast.IndexExpr:
			if tv, ok := info.Types[x.X]; ok {
				switch tv.Type.Underlying().(type) {
				case *types.Slice, *types.Array, *types.Basic, *types.Pointer:
					out = append(out, "index "+exprStr(x))
				}
			}
		case *ast.SliceExpr:
			out = append(out, "slice "+exprStr(x))
		case *ast.BinaryExpr:
			if x.Op == token.QUO || x.Op == token.REM {
				if tv, ok := info.Types[x]; ok {
					if b, ok := tv.Type.Underlying().(*types.Basic); ok && b.Info()&types.IsInteger != 0 {
						if _, isConst := constInt(info, x.Y); !isConst {
							out = append(out, "integer division "+exprStr(x))
						}
					}
				}
			}
		}
		return true
	})
	return out
}

func runC11R1(c *Ctx, r *Rep) {
	type anchor struct{ rel, recv, name string }
	barriers := []anchor{{"parser", "", "Parse"}, {"parser", "", "Lex"}, {"symtable", "", "NewSymTable"}, {"compile", "compiler", "compileAst"}}
	isBarrier := map[*types.Func]bool{}
	for _, a := range barriers {
		var fn *types.Func
		if a.recv == "" {
			fn = c.Func(a.rel, a.name)
		} else {
			fn = c.Method(a.rel, a.recv, a.name)
		}
		key := a.rel + "|" + a.name + "|barrier"
		fd := c.Decl(fn)
		if fd == nil {
			r.undecided(key, token.NoPos, "anchor not found")
			continue
		}
		p := c.DeclPkg(fn)
		r.analysed(FuncID(fn))
		b := findBarrier(p.TypesInfo, fd)
		switch {
		case b == nil:
			r.bad(key, fd.Pos(), "%s has no `defer func(){ if r := recover(); r != nil { err = … } }()`: a panic raised in this stage escapes to the embedder instead of becoming an error", a.name)
			continue
		case !b.assigns:
			r.bad(key, fd.Body.List[b.deferIdx].Pos(), "the deferred closure of %s recovers but never assigns the named error result: the panic is swallowed and a nil error is returned", a.name)
			continue
		}
		isBarrier[fn] = true
		// statements before the defer are outside the barrier
		var pre []string
		for _, s := range fd.Body.List[:b.deferIdx] {
			pre = append(pre, potentialPanics(p.TypesInfo, s)...)
		}
		// the recovering closure itself must not panic
		pre = append(pre, potentialPanics(p.TypesInfo, b.lit.Body)...)
		r.check(len(pre) == 0, key, fd.Body.List[b.deferIdx].Pos(), "barrier in place; nothing that can panic runs before it or inside the recovering closure",
			fmt.Sprintf("code outside the barrier of %s can panic: %v", a.name, pre))
		// calls made before the defer must be to panic-free functions (one level)
		for _, s := range fd.Body.List[:b.deferIdx] {
			ast.Inspect(s, func(n ast.Node) bool {
				if call, ok := n.(*ast.CallExpr); ok {
					if f := Callee(p.TypesInfo, call); f != nil && inModule(f) {
						if gfd := c.Decl(f); gfd != nil {
							pp := potentialPanics(c.DeclPkg(f).TypesInfo, gfd.Body)
							r.check(len(pp) == 0, a.rel+"|"+a.name+"|pre-barrier call "+f.Name(), call.Pos(), "callee has no panic site",
								fmt.Sprintf("%s is called before the barrier is installed and contains panic sites %v", f.Name(), pp))
						}
					}
				}
				return true
			})
		}
	}
	// entry points: everything outside barriers must be panic-site free
	entries := []anchor{{"compile", "", "Compile"}, {"parser", "", "ParseString"}, {"parser", "", "LexString"}}
	for _, e := range entries {
		fn := c.Func(e.rel, e.name)
		fd := c.Decl(fn)
		key := e.rel + "|" + e.name + "|exposed region"
		if fd == nil {
			if e.name == "LexString" {
				continue
			}
			r.undecided(key, token.NoPos, "anchor not found")
			continue
		}
		p := c.DeclPkg(fn)
		r.analysed(FuncID(fn))
		pp := potentialPanics(p.TypesInfo, fd.Body)
		var bad []string
		ast.Inspect(fd.Body, func(n ast.Node) bool {
			if call, ok := n.(*ast.CallExpr); ok {
				if f := Callee(p.TypesInfo, call); f != nil && inModule(f) && !isBarrier[f] {
					if gfd := c.Decl(f); gfd != nil {
						if q := potentialPanics(c.DeclPkg(f).TypesInfo, gfd.Body); len(q) > 0 {
							bad = append(bad, fmt.Sprintf("%s: %v", f.Name(), q))
						}
						// and its callees must be barriers or panic-free too
						ast.Inspect(gfd.Body, func(m ast.Node) bool {
							if c2, ok := m.(*ast.CallExpr); ok {
								if g := Callee(c.DeclPkg(f).TypesInfo, c2); g != nil && inModule(g) && !isBarrier[g] {
									if hfd := c.Decl(g); hfd != nil {
										if q := potentialPanics(c.DeclPkg(g).TypesInfo, hfd.Body); len(q) > 0 {
											bad = append(bad, fmt.Sprintf("%s→%s: %v", f.Name(), g.Name(), q))
										}
									}
								}
							}
							return true
						})
					}
				}
			}
			return true
		})
		r.check(len(pp) == 0 && len(bad) == 0, key, fd.Pos(), "outside the stage barriers the entry point only forwards values",
			fmt.Sprintf("outside the stage barriers %s has panic sites %v %v", e.name, pp, bad))
	}
	// no goroutines in the pipeline
	for _, rel := range pipelinePkgs {
		p := c.Pkg(rel)
		if p == nil {
			r.undecided(rel+"|package", token.NoPos, "package not found")
			continue
		}
		n := 0
		for _, f := range c.Files(p) {
			ast.Inspect(f, func(m ast.Node) bool {
				if g, ok := m.(*ast.GoStmt); ok {
					n++
					r.bad(rel+"|go statement", g.Pos(), "a goroutine is started in pipeline package %s: a panic on it escapes every barrier and kills the process", rel)
				}
				return true
			})
		}
		if n == 0 {
			r.okTrivial(rel+"|no goroutines", token.NoPos, "no go statements")
		}
	}
}

// ---- R2 ----

var syntaxFamily = map[string]bool{"SyntaxError": true, "IndentationError": true, "TabError": true}

// confirmedUnreachable: (c)-panics whose guard is an invariant established elsewhere; each row was confirmed by reading.
// key: package|function|message-or-expression
type boundsRow struct {
	n   int
	why string
}

var confirmedBounds = map[string]boundsRow{
	// loops `for i := range xs` / `for i := 0; i < len(xs)` over one slice indexing a sibling slice of the same length
	"(*ast.List).SetCtx|o.Elts[i]":                       {1, "i ranges over o.Elts (the compiler loses the bound through the interface call in the body)"},
	"(*ast.Tuple).SetCtx|o.Elts[i]":                      {1, "i ranges over o.Elts"},
	"(*compile.compiler).Expr|node.Comparators[i]":       {1, "i ranges over node.Ops and the arm first checks len(Ops) == len(Comparators)"},
	"(*compile.compiler).Expr|node.Ops[i]":               {1, "i ranges over node.Ops"},
	"(*compile.compiler).Expr|node.Keys[i]":              {1, "i ranges over node.Keys"},
	"(*compile.compiler).Expr|node.Values[i]":            {1, "i ranges over node.Keys and the arm first checks len(Keys) == len(Values)"},
	"(*compile.compiler).compileFunc|Args.KwDefaults[i]": {2, "i ranges over Args.KwDefaults (nil test and the emitted default)"},
	"(*compile.compiler).compileFunc|Args.Kwonlyargs[i]": {1, "i ranges over Args.KwDefaults after the check len(KwDefaults) <= len(Kwonlyargs)"},
	"(*compile.compiler).importFrom|names[i]":            {1, "names was made with len(node.Names) and i ranges over node.Names"},
	"(*compile.compiler).makeClosure|code.Freevars[i]":   {1, "i ranges over code.Freevars"},
	"ast.dump|strs[i]":                                   {1, "i ranges over a slice of the same length as strs (not in the pipeline proper: ast.Dump is a debugging aid)"},
	// stack disciplines
	"(*compile.compiler).Stmt|c.loops[i]":            {1, "i starts at len(c.loops)-2 and the loop runs while i >= 0; the enclosing arm has c.loops.Top() != nil"},
	"(*compile.loopstack).Pop|(*ls)[:len(*ls) - 1]":  {1, "every Pop is paired with an earlier Push on the same path (C12.R5)"},
	"(*parser.yyLex).Lex|x.indentStack[i]":           {2, "indentStack always holds the initial 0 (queueDedents keeps [:1]; entries are only appended), i starts at len-1 and the loop runs while i >= 0"},
	"(*parser.yyLex).queueDedents|x.indentStack[:1]": {1, "indentStack is created with one element and never shrinks below one"},
	// structural guarantees of the grammar / callers
	"(*compile.compiler).comprehension|generators[0]":                  {1, "grammar: comp_for yields at least one generator"},
	"(*symtable.SymTable).parseComprehension|generators[0]":            {1, "grammar: comp_for yields at least one generator"},
	"(*compile.compiler).comprehensionGenerator|generators[gen_index]": {1, "called with gen_index 0 and recursively only while gen_index < len(generators)"},
	"(*compile.compiler).with|node.Items[pos]":                         {1, "called with pos 0 (grammar: with_stmt has at least one item) and recursively only while pos != len(Items)"},
	"(*compile.compiler).importFrom|alias.Name[0]":                     {1, "grammar: an import alias name is a non-empty NAME or '*'"},
	"(compile.Instructions).stackDepthWalk|baseIs[dest.Number():]":     {1, "dest is a Label that was added to the stream (C12.R6) so its number indexes baseIs"},
	// bounds derived from strings functions
	"(*compile.compiler).import_|alias.Name[:dot]":    {1, "dot is the result of strings.IndexByte on the same string, taken only when >= 0"},
	"(*symtable.SymTable).Parse|name[:dot]":           {1, "dot is the result of strings.LastIndex on the same string, taken only when >= 0"},
	"(*parser.yyLex).Lex|x.line[:removed]":            {1, "removed = len(x.line) - len(TrimLeft(x.line)), between 0 and len(x.line)"},
	"(*parser.yyLex).refill|x.line[:len(x.line) - 2]": {1, "guarded by HasSuffix(x.line, \"\\r\\n\"), so len(x.line) >= 2"},
	"(*parser.yyLex).readNumber|s[2:]":                {3, "s is the match of a regexp that starts with the two-character radix prefix 0o / 0x / 0b"},
	"(*parser.yyLex).readString|x.line[i:]":           {1, "i is a range index over x.line"},
	"(*parser.yyLex).cut|x.line[:i]":                  {1, "callers pass the length of a regexp match / operator / prefix found at the start of x.line, or a range index plus the matched terminator's length"},
	// inlined helpers: the bounds check of the callee is reported at each call site
	"(*compile.compiler).Stmt|call c.loops.Pop()":               {2, "follows the c.loops.Push of the same arm (C12.R5 proves Push/Pop balance on every path)"},
	"(*compile.compiler).tryExcept|call c.loops.Pop()":          {1, "follows the Push at the top of tryExcept (C12.R5)"},
	"(*compile.compiler).tryFinally|call c.loops.Pop()":         {2, "each follows its Push (C12.R5)"},
	"(*compile.compiler).with|call c.loops.Pop()":               {1, "follows the Push after SETUP_WITH (C12.R5)"},
	"(*parser.yyLex).Lex|call x.queueDedents()":                 {2, "inlined indentStack[:1]: the stack never has fewer than one element"},
	"(*parser.yyLex).Lex|call x.readOperator()":                 {1, "inlined x.line[:i] under `len(x.line) >= i`"},
	"(*parser.yyLex).readIdentifier|call x.cut(i)":              {1, "i is a range index over x.line or len(x.line)"},
	"(*parser.yyLex).readNumber|call x.cut(len(s))":             {1, "s is the match of a regexp anchored at the start of x.line"},
	"(*parser.yyLex).readOperator|call x.cut(i)":                {1, "under `len(x.line) >= i`"},
	"(*parser.yyLex).readString|call x.cut(1)":                  {1, "r1 (a quote) was read from x.line[1], so len(x.line) >= 2; or HasPrefix matched a one-byte quote"},
	"(*parser.yyLex).readString|call x.cut(2)":                  {2, "r2 (a quote) was read from x.line[2], so len(x.line) >= 3"},
	"(*parser.yyLex).readString|call x.cut(3)":                  {2, "HasPrefix matched a three-byte quote"},
	"(*parser.yyLex).readString|call x.cut(i + len(stringEnd))": {1, "HasPrefix(x.line[i:], stringEnd) just held"},
	// stringer-generated tables
	"(symtable.BlockType).String|_BlockType_index[i]":                                          {1, "generated by stringer: guarded by i < len(index)-1"},
	"(symtable.BlockType).String|_BlockType_name[_BlockType_index[i]:_BlockType_index[i + 1]]": {1, "generated by stringer: index table is increasing and ends at len(name)"},
	"(symtable.Scope).String|_Scope_index[i]":                                                  {1, "generated by stringer: guarded by i < len(index)-1"},
	"(symtable.Scope).String|_Scope_name[_Scope_index[i]:_Scope_index[i + 1]]":                 {1, "generated by stringer"},
	// escape decoding
	"parser.DecodeEscape|runes[i + 1]":      {2, "each use is the right operand of `i+1 < len(runes) &&`"},
	"parser.DecodeEscape|runes[i:i + size]": {1, "guarded by i+size <= len(runes)"},
	"parser.DecodeEscape|runes[i]":          {2, "i < len(runes) by the loop condition / the explicit check after i++"},
}

var confirmedUnreachable = map[string]string{
	// ---- compile: guards whose truth is decided by another rule of this checker ----
	`compile|(*compile.compiler).Jump|"Jump called with non jump instruction"`:                       "C12.R3 proves every c.Jump call site passes an opcode that has a case in this switch",
	`compile|(*compile.compiler).OpArg|"OpArg called with an instruction which doesn't take an Arg"`: "C12.R4 proves every c.OpArg call site passes an opcode >= HAVE_ARGUMENT",
	`compile|(*compile.compiler).Op|"Op called with an instruction which takes an Arg"`:              "C12.R4 proves every c.Op call site passes an opcode < HAVE_ARGUMENT",
	`compile|compile.opcodeStackEffect|"Unknown opcode in StackEffect"`:                              "C12.R2 proves every opcode the compiler can emit has a case here (only NOP/EXTENDED_ARG, which it never passes, are missing)",
	`compile|(compile.Instructions).stackDepthWalk|"Stack depth negative"`:                           "the emitted schemes are those of C01.R4/C02.R2/C04.R2 whose per-instruction effects C12.R1 ties to this table; each scheme pushes before it pops",
	`compile|(compile.Instructions).Assemble|"Failed to assemble: positions did not settle"`:         "instruction sizes are monotone (OpArg.wide is sticky), so at most len(is) passes change a position",
	// ---- compile: invariants of the AST the parser builds (grammar actions are the only constructors) ----
	`compile|(*compile.compiler).Expr|"compile: Dict keys and values differing sizes"`:   "grammar: dictorsetmaker appends one key and one value per `test ':' test` item",
	`compile|(*compile.compiler).Expr|"compile: No Ops or Comparators in Compare"`:       "grammar: a Compare node is only built by `comparison comp_op expr`, which carries one operator",
	`compile|(*compile.compiler).Expr|"compile: Unequal Ops and Comparators in Compare"`: "grammar: the comparison production appends one operator and one comparator together",
	`compile|(*compile.compiler).Expr|"param invalid in attribute expression"`:           "ast.Param is never assigned to any node's Ctx (setCtx is only called with Store/Del; AugLoad/AugStore come from Stmt(AugAssign))",
	`compile|(*compile.compiler).Expr|"param invalid in subscript expression"`:           "switch over Ctx whose only uncovered constant is Param, never assigned to a node",
	`compile|(*compile.compiler).subscript|"invalid %v kind %v in subscript"`:            "ctx comes from Subscript.Ctx or the AugLoad/AugStore constants; Param is never assigned",
	`compile|(*compile.compiler).NameOp|"NameOp: param invalid for deref variable"`:      "ctx is a Name node's Ctx or a Load/Store/Del constant; Param is never assigned to a node",
	`compile|(*compile.compiler).NameOp|"NameOp: param invalid for local variable"`:      "as above",
	`compile|(*compile.compiler).NameOp|"NameOp: param invalid for global variable"`:     "as above",
	`compile|(*compile.compiler).NameOp|"NameOp: param invalid for name variable"`:       "as above",
	`compile|(*compile.compiler).NameOp|"NameOp: ctx invalid for deref variable"`:        "default arm after all six ExprContext constants",
	`compile|(*compile.compiler).NameOp|"NameOp: Op not set"`:                            "every arm of the four ctx switches assigns op or panics; optype is one of the four constants",
	`compile|(*compile.compiler).NameOp|"NameOp: Can't compile None, True or False"`:     "the lexer turns these spellings into keyword tokens (tokens map), so no Name/arg/alias identifier can carry them",
	`compile|(*compile.compiler).NameOp|"NameOp: Invalid scope %v for %q"`:               "default arm after all symtable.Scope constants",
	`compile|(*compile.compiler).Stmt|"compile: can't set context in AugAssign"`:         "grammar: the augmented-assignment target went through setCtx(Store), which accepts only node types that implement SetCtx",
	`compile|(*compile.compiler).Stmt|"impossible"`:                                      "follows c.panicSyntaxErrorf, which never returns",
	`compile|(*compile.compiler).Stmt|"unknown loop type"`:                               "default arm after all four loopType constants",
	`compile|(*compile.compiler).compileFunc|"compile: more KwDefaults than Kwonlyargs"`: "grammar: typedargslist/varargslist append one KwDefaults entry per keyword-only argument",
	`compile|(*compile.compiler).importFrom|"can only import *"`:                         "grammar: import_from produces the single alias `*` only from the '*' token",
	`compile|(*compile.compiler).nestedSlice|"extended slice invalid in nested slice"`:   "grammar: subscriptlist builds ExtSlice only at the top level of a subscript",
	`compile|(*compile.compiler).compileAst|"suite should not be possible"`:              "no grammar production builds ast.Suite",
	`compile|(*compile.compiler).compileAst|"Unknown ModuleBase: %v"`:                    "compileAst is called with the parser's Mod result or with the node that opened a scope (newCompilerScope callers pass FunctionDef/Lambda/ClassDef/comprehensions)",
	`compile|(*compile.compiler).comprehensionGenerator|"unknown comprehension %v"`:      "called from the four comprehension arms of compileAst with that arm's node",
	// ---- compile: invariants of the symbol table (symtable.Analyze) ----
	`compile|(*compile.compiler).compileAst|"Need qualname"`:                                                                         "setQualname always yields at least Code.Name, which the grammar makes non-empty for a class",
	`compile|(*compile.compiler).compileAst|"__class__ must be first constant"`:                                                      "NeedsClassClosure makes newCompilerScope add __class__ as a cell and Find() sorts: symtable invariant",
	`compile|(*compile.compiler).compileAst|"Can't have cellvars without closure"`:                                                   "a class block only gets cell variables through the implicit __class__ (DropClassFree): symtable invariant",
	`compile|(*compile.compiler).getRefType|"compile: getRefType: unknown scope for %s in %s\nsymbols: %v\nlocals: %s\nglobals: %s"`: "every free variable of a child code object was analysed in the parent table (AnalyzeCells/Update): symtable invariant",
	`compile|(*compile.compiler).makeClosure|"compile: makeClosure: lookup %q in %q %v %v\nfreevars of %q: %v\n"`:                    "a child's free variable is Cell or Free in the parent (symtable.Symbols.Update keeps DefFreeClass): symtable invariant",
	`compile|(*compile.compiler).newCompilerScope|"No symtable found for scope type %v"`:                                             "symtable.Parse creates a child table for every scope-opening node (C03.R2 checks the traversal)",
	`compile|(*compile.compiler).newCompilerScope|"class closure not in class"`:                                                      "NeedsClassClosure is only set on class blocks (symtable.AnalyzeCells/DropClassFree)",
	`compile|(*compile.compiler).setQualname|"compile: setQualname: expecting a parent"`:                                             "depth > 1 only for compilers created by newCompiler(parent!=nil)",
	`compile|(*compile.compiler).setQualname|"compile: setQualname: not expecting scopeGlobalImplicit"`:                              "a def/class name is bound in its parent scope, so its scope there is never GlobalImplicit",
	// ---- parser ----
	`parser|(*parser.yyLex).dequeue|"token queue empty"`:                   "both callers test queueEmpty() first",
	`parser|(*parser.yyLex).Lex|"Bad state"`:                               "default arm after all lexer state constants",
	`parser|(*parser.yyLex).readNumber|"Unparsed number"`:                  "reached only after the leading-digit/`.digit` test, for which one of the five number regexps matches",
	`parser|(*parser.yyLex).readNumber|err`:                                "the text handed to IntFromString/FloatFromString was matched by the corresponding number regexp, which those parsers accept",
	`parser|(*parser.yyLex).readString|"Bad string start"`:                 "label found: is reached only when the next byte is a quote",
	`parser|(*parser.yyParserImpl).Parse|"bad type for decorated"`:         "grammar: decorated derives only classdef or funcdef",
	`parser|(*parser.yyParserImpl).Parse|"not Bytes or String in strings"`: "grammar: strings items are STRING tokens, whose values the lexer makes py.String or py.Bytes",
	`parser|parser.applyTrailers|"Unknown trailer type: %T"`:               "grammar: the trailer production builds only Call, Subscript or Attribute",
	// ---- ast ----
	`ast|ast.Walk|"Unknown ast node %T, %#v"`: "default arm of the type switch over all node types (C03.R2 checks coverage)",
}

// movedPanic: the panic sits in a function introduced since the table was confirmed, and the table has a site
// with the same argument in a function of the package that calls this helper (directly or through other
// new helpers): the site was moved by extracting the helper, the argument for its unreachability goes with it.
func movedPanic(c *Ctx, p *packages.Package, rel string, fd *ast.FuncDecl, label string) (string, string) {
	if !isNewFunc(declID(p, fd)) {
		return "", ""
	}
	self, _ := p.TypesInfo.Defs[fd.Name].(*types.Func)
	if self == nil {
		return "", ""
	}
	var calls func(from *ast.FuncDecl, depth int) bool
	calls = func(from *ast.FuncDecl, depth int) bool {
		hit := false
		ast.Inspect(from.Body, func(n ast.Node) bool {
			call, ok := n.(*ast.CallExpr)
			if !ok || hit {
				return !hit
			}
			cal := Callee(p.TypesInfo, call)
			if cal == nil || cal.Pkg() != p.Types {
				return true
			}
			if cal == self {
				hit = true
			} else if depth > 0 && isNewFunc(FuncID(cal)) {
				if d := c.Decl(cal); d != nil && d.Body != nil && calls(d, depth-1) {
					hit = true
				}
			}
			return !hit
		})
		return hit
	}
	prefix, suffix := rel+"|", "|"+label
	// a message assembled from a literal and a variable part ("… invalid for " + kind + " variable") stands for
	// the reviewed messages that begin with that literal
	lit := ""
	if i := strings.Index(label, `" + `); i > 0 && strings.HasPrefix(label, `"`) {
		lit = label[:i]
	}
	var keys []string
	for k := range confirmedUnreachable {
		if !strings.HasPrefix(k, prefix) {
			continue
		}
		if strings.HasSuffix(k, suffix) {
			keys = append(keys, k)
		} else if lit != "" {
			if j := strings.LastIndex(k, "|"); j >= 0 && strings.HasPrefix(k[j+1:], lit) {
				keys = append(keys, k)
			}
		}
	}
	sort.Strings(keys)
	for _, k := range keys {
		fid := strings.TrimPrefix(k, prefix)
		if j := strings.LastIndex(fid, "|"); j >= 0 {
			fid = fid[:j]
		}
		for _, f := range c.Files(p) {
			for _, d := range f.Decls {
				if od, ok := d.(*ast.FuncDecl); ok && od.Body != nil && declID(p, od) == fid && calls(od, 2) {
					return fid, confirmedUnreachable[k]
				}
			}
		}
	}
	return "", ""
}

type panicSite struct {
	pkg   *packages.Package
	fd    *ast.FuncDecl
	call  *ast.CallExpr
	class string // a, b, c
	why   string
	label string
}

func sealedImplementers(c *Ctx, iface *types.Named) []*types.Named {
	p := c.Pkgs[iface.Obj().Pkg().Path()]
	var out []*types.Named
	it := iface.Underlying().(*types.Interface)
	for _, n := range p.Types.Scope().Names() {
		tn, ok := p.Types.Scope().Lookup(n).(*types.TypeName)
		if !ok {
			continue
		}
		nt, ok := tn.Type().(*types.Named)
		if !ok {
			continue
		}
		if _, isI := nt.Underlying().(*types.Interface); isI {
			continue
		}
		if types.Implements(types.NewPointer(nt), it) || types.Implements(nt, it) {
			out = append(out, nt)
		}
	}
	// base structs that only exist to be embedded (ExprBase, StmtBase, …) are never nodes themselves
	embedded := map[*types.Named]bool{}
	for _, nt := range out {
		if st, ok := nt.Underlying().(*types.Struct); ok {
			for i := 0; i < st.NumFields(); i++ {
				if f := st.Field(i); f.Embedded() {
					if en, ok := f.Type().(*types.Named); ok {
						embedded[en] = true
					}
				}
			}
		}
	}
	var res []*types.Named
	for _, nt := range out {
		if !embedded[nt] {
			res = append(res, nt)
		}
	}
	return res
}

// defaultArmExhaustive reports whether the panic sits in the default arm of a switch that covers its whole domain.
func defaultArmExhaustive(c *Ctx, p *packages.Package, fd *ast.FuncDecl, call *ast.CallExpr) (bool, string) {
	info := p.TypesInfo
	var found bool
	var why string
	// the statement after a switch without default whose arms all leave the function: the same as its default arm
	terminates := func(body []ast.Stmt) bool {
		if len(body) == 0 {
			return false
		}
		switch l := body[len(body)-1].(type) {
		case *ast.ReturnStmt:
			return true
		case *ast.ExprStmt:
			if cl, ok := l.X.(*ast.CallExpr); ok && isBuiltinCall(info, cl, "panic") {
				return true
			}
		}
		return false
	}
	ast.Inspect(fd.Body, func(n ast.Node) bool {
		blk, ok := n.(*ast.BlockStmt)
		if !ok || found {
			return !found
		}
		for i := 1; i < len(blk.List); i++ {
			es, ok := blk.List[i].(*ast.ExprStmt)
			if !ok || es.X != ast.Expr(call) {
				continue
			}
			sw, ok := blk.List[i-1].(*ast.SwitchStmt)
			if !ok || sw.Tag == nil {
				continue
			}
			tv, ok := info.Types[sw.Tag]
			if !ok {
				continue
			}
			nt, ok := tv.Type.(*types.Named)
			if !ok || c.Pkgs[nt.Obj().Pkg().Path()] == nil {
				continue
			}
			cased := map[string]bool{}
			all := true
			for _, cl := range sw.Body.List {
				cc := cl.(*ast.CaseClause)
				if cc.List == nil || !terminates(cc.Body) {
					all = false
				}
				for _, e := range cc.List {
					cased[constName(info, e)] = true
				}
			}
			if !all {
				continue
			}
			decl := c.Pkgs[nt.Obj().Pkg().Path()]
			total, missing := 0, 0
			for _, nm := range decl.Types.Scope().Names() {
				if k, ok := decl.Types.Scope().Lookup(nm).(*types.Const); ok && types.Identical(k.Type(), nt) {
					total++
					if !cased[nm] {
						missing++
					}
				}
			}
			if total > 0 && missing == 0 {
				found, why = true, fmt.Sprintf("follows a switch whose arms all leave the function and which covers all %d constants of %s", total, namedTypeName(nt))
			}
		}
		return !found
	})
	if found {
		return true, why
	}
	// the miss branch of a lookup in a read-only table literal that has an entry for every constant of its key type:
	// `v, ok := T[k]; if !ok { panic }` is the default arm of the switch the table stands for
	ast.Inspect(fd.Body, func(n ast.Node) bool {
		is, ok := n.(*ast.IfStmt)
		if !ok || found {
			return !found
		}
		inBody := false
		for _, st := range is.Body.List {
			if es, ok := st.(*ast.ExprStmt); ok && es.X == ast.Expr(call) {
				inBody = true
			}
		}
		u, ok := unparen(is.Cond).(*ast.UnaryExpr)
		if !inBody || !ok || u.Op != token.NOT {
			return true
		}
		flag := identOf(u.X)
		if flag == nil {
			return true
		}
		fobj := info.Uses[flag]
		var lookups []*ast.IndexExpr
		nAssign := 0
		collect := func(as *ast.AssignStmt) {
			for i, l := range as.Lhs {
				if lid := identOf(l); lid != nil && info.ObjectOf(lid) == fobj {
					nAssign++
					if i == 1 && len(as.Lhs) == 2 && len(as.Rhs) == 1 {
						if ix, ok := unparen(as.Rhs[0]).(*ast.IndexExpr); ok {
							lookups = append(lookups, ix)
						}
					}
				}
			}
		}
		if as, ok := is.Init.(*ast.AssignStmt); ok {
			collect(as)
		} else {
			// the statement directly in front of the test, in the same block (the flag may be a reused `ok`)
			ast.Inspect(fd.Body, func(m ast.Node) bool {
				var list []ast.Stmt
				switch b := m.(type) {
				case *ast.BlockStmt:
					list = b.List
				case *ast.CaseClause:
					list = b.Body
				}
				for i := 1; i < len(list); i++ {
					if list[i] == ast.Stmt(is) {
						if as, ok := list[i-1].(*ast.AssignStmt); ok {
							collect(as)
						}
					}
				}
				return true
			})
		}
		if nAssign != 1 || len(lookups) != 1 {
			return true
		}
		tl := tableLiteral(c, info, lookups[0].X)
		if tl == nil {
			return true
		}
		tv, ok := info.Types[lookups[0].Index]
		if !ok {
			return true
		}
		nt, ok := tv.Type.(*types.Named)
		if !ok || nt.Obj().Pkg() == nil || c.Pkgs[nt.Obj().Pkg().Path()] == nil {
			return true
		}
		keyed := map[string]bool{}
		for _, en := range tl.entries {
			keyed[constName(tl.info, en.key)] = true
		}
		decl := c.Pkgs[nt.Obj().Pkg().Path()]
		total, missing := 0, 0
		for _, nm := range decl.Types.Scope().Names() {
			if k, ok := decl.Types.Scope().Lookup(nm).(*types.Const); ok && types.Identical(k.Type(), nt) {
				total++
				if !keyed[nm] {
					missing++
				}
			}
		}
		if total > 0 && missing == 0 {
			found, why = true, fmt.Sprintf("miss branch of a lookup in the read-only table %s, which has an entry for all %d constants of %s", tl.v.Name(), total, namedTypeName(nt))
		}
		return !found
	})
	if found {
		return true, why
	}
	ast.Inspect(fd.Body, func(n ast.Node) bool {
		switch sw := n.(type) {
		case *ast.SwitchStmt:
			var dflt *ast.CaseClause
			for _, cl := range sw.Body.List {
				if cc := cl.(*ast.CaseClause); cc.List == nil {
					dflt = cc
				}
			}
			if dflt == nil || !(call.Pos() >= dflt.Pos() && call.End() <= dflt.End()) || sw.Tag == nil {
				return true
			}
			// directly in the default arm (not nested deeper in another switch's arm)
			tv, ok := info.Types[sw.Tag]
			if !ok {
				return true
			}
			nt, ok := tv.Type.(*types.Named)
			if !ok {
				return true
			}
			// all declared constants of the type
			decl := c.Pkgs[nt.Obj().Pkg().Path()]
			if decl == nil {
				return true
			}
			cased := map[string]bool{}
			for _, cl := range sw.Body.List {
				for _, e := range cl.(*ast.CaseClause).List {
					cased[constName(info, e)] = true
				}
			}
			var missing []string
			total := 0
			for _, nm := range decl.Types.Scope().Names() {
				if k, ok := decl.Types.Scope().Lookup(nm).(*types.Const); ok && types.Identical(k.Type(), nt) {
					total++
					if !cased[nm] {
						missing = append(missing, nm)
					}
				}
			}
			if total > 0 && len(missing) == 0 {
				found, why = true, fmt.Sprintf("default arm of a switch covering all %d constants of %s", total, namedTypeName(nt))
			} else if total > 0 {
				why = fmt.Sprintf("switch over %s does not cover %v", namedTypeName(nt), missing)
			}
		case *ast.TypeSwitchStmt:
			var dflt *ast.CaseClause
			for _, cl := range sw.Body.List {
				if cc := cl.(*ast.CaseClause); cc.List == nil {
					dflt = cc
				}
			}
			if dflt == nil || !(call.Pos() >= dflt.Pos() && call.End() <= dflt.End()) {
				return true
			}
			var operand ast.Expr
			switch a := sw.Assign.(type) {
			case *ast.AssignStmt:
				operand = a.Rhs[0].(*ast.TypeAssertExpr).X
			case *ast.ExprStmt:
				operand = a.X.(*ast.TypeAssertExpr).X
			}
			tv, ok := info.Types[operand]
			if !ok {
				return true
			}
			nt, ok := tv.Type.(*types.Named)
			if !ok {
				return true
			}
			it, ok := nt.Underlying().(*types.Interface)
			if !ok || nt.Obj().Pkg() == nil || !strings.HasPrefix(nt.Obj().Pkg().Path(), modPath) {
				return true
			}
			// sealed: has an unexported method
			sealed := false
			for i := 0; i < it.NumMethods(); i++ {
				if !it.Method(i).Exported() {
					sealed = true
				}
			}
			if !sealed && nt.Obj().Pkg().Path() != modPath+"/ast" {
				why = "type switch over an open interface " + namedTypeName(nt)
				return true
			}
			impls := sealedImplementers(c, nt)
			var missing []string
			for _, im := range impls {
				covered := false
				for _, cl := range sw.Body.List {
					for _, e := range cl.(*ast.CaseClause).List {
						if ctv, ok := info.Types[e]; ok {
							ct := ctv.Type
							if ci, isI := ct.Underlying().(*types.Interface); isI {
								if types.Implements(types.NewPointer(im), ci) || types.Implements(im, ci) {
									covered = true
								}
							} else if types.Identical(ct, types.NewPointer(im)) || types.Identical(ct, im) {
								covered = true
							}
						}
					}
				}
				if !covered {
					missing = append(missing, im.Obj().Name())
				}
			}
			if len(missing) == 0 && len(impls) > 0 {
				found, why = true, fmt.Sprintf("default arm of a type switch covering all %d implementers of sealed %s", len(impls), namedTypeName(nt))
			} else {
				why = fmt.Sprintf("type switch over %s does not cover %v", namedTypeName(nt), missing)
			}
		}
		return true
	})
	return found, why
}

func classifyPanic(c *Ctx, p *packages.Package, fd *ast.FuncDecl, call *ast.CallExpr) (class, why string) {
	info := p.TypesInfo
	arg := unparen(call.Args[0])
	isSyntaxCtor := func(e ast.Expr) (bool, string) {
		cl, ok := unparen(e).(*ast.CallExpr)
		if !ok {
			return false, ""
		}
		f := Callee(info, cl)
		if f == nil {
			return false, ""
		}
		switch f.Name() {
		case "ExceptionNewf":
			if len(cl.Args) > 0 {
				n := exprStr(cl.Args[0])
				n = n[strings.LastIndex(n, ".")+1:]
				if syntaxFamily[n] {
					return true, "ExceptionNewf(" + n + ")"
				}
				return false, "ExceptionNewf(" + n + ")"
			}
		case "MakeSyntaxError":
			return true, "MakeSyntaxError"
		}
		return false, ""
	}
	if ok, w := isSyntaxCtor(arg); ok {
		return "a", w
	} else if w != "" {
		return "c", "constructs a non-syntax exception " + w
	}
	if id, ok := arg.(*ast.Ident); ok {
		obj := info.Uses[id]
		// all assignments to the identifier in this function
		var srcs []ast.Expr
		ast.Inspect(fd.Body, func(n ast.Node) bool {
			if as, ok := n.(*ast.AssignStmt); ok {
				for i, l := range as.Lhs {
					lid := identOf(l)
					if lid == nil {
						continue
					}
					o := info.Defs[lid]
					if o == nil {
						o = info.Uses[lid]
					}
					if o == obj {
						if len(as.Rhs) == len(as.Lhs) {
							srcs = append(srcs, as.Rhs[i])
						} else if len(as.Rhs) == 1 {
							srcs = append(srcs, as.Rhs[0])
						}
					}
				}
			}
			return true
		})
		if len(srcs) > 0 {
			allSyntax, allBarrier := true, true
			var ws []string
			for _, s := range srcs {
				if ok, w := isSyntaxCtor(s); ok {
					ws = append(ws, w)
					allBarrier = false
					continue
				}
				allSyntax = false
				if cl, ok := unparen(s).(*ast.CallExpr); ok {
					if f := Callee(info, cl); f != nil {
						if gfd := c.Decl(f); gfd != nil && findBarrier(c.DeclPkg(f).TypesInfo, gfd) != nil {
							ws = append(ws, "error of barrier "+f.Name())
							continue
						}
						ws = append(ws, "error of "+FuncID(f))
					}
				}
				allBarrier = false
			}
			if allSyntax {
				return "a", strings.Join(uniq(ws), ", ")
			}
			if allBarrier {
				return "b", strings.Join(uniq(ws), ", ")
			}
			return "c", "re-panics " + strings.Join(uniq(ws), ", ") + " (exception class not fixed to the SyntaxError family here)"
		}
	}
	return "c", "argument " + exprStr(arg)
}

func panicLabel(call *ast.CallExpr) string {
	arg := unparen(call.Args[0])
	if bl, ok := arg.(*ast.BasicLit); ok {
		return bl.Value
	}
	if cl, ok := arg.(*ast.CallExpr); ok && len(cl.Args) > 0 {
		for _, a := range cl.Args {
			if bl, ok := a.(*ast.BasicLit); ok && bl.Kind == token.STRING {
				return bl.Value
			}
		}
	}
	return exprStr(arg)
}

// pipelineReachable: functions reachable (VTA call graph) from the pipeline entry points.
func pipelineReachable(c *Ctx) map[*types.Func]bool {
	cg := c.CallGraph()
	out := map[*types.Func]bool{}
	var roots []*ssa.Function
	for _, a := range [][2]string{{"compile", "Compile"}, {"parser", "Parse"}, {"parser", "ParseString"}, {"parser", "Lex"}, {"parser", "LexString"}, {"symtable", "NewSymTable"}} {
		if f := c.SSAFunc(c.Func(a[0], a[1])); f != nil {
			roots = append(roots, f)
		}
	}
	seen := map[*ssa.Function]bool{}
	var visit func(f *ssa.Function)
	visit = func(f *ssa.Function) {
		if seen[f] {
			return
		}
		seen[f] = true
		top := f
		for top.Parent() != nil {
			top = top.Parent()
		}
		if obj, ok := top.Object().(*types.Func); ok {
			out[obj] = true
		}
		if n := cg.Nodes[f]; n != nil {
			for _, e := range n.Out {
				visit(e.Callee.Func)
			}
		}
		for _, an := range f.AnonFuncs {
			visit(an)
		}
	}
	for _, f := range roots {
		visit(f)
	}
	return out
}

func runC11R2(c *Ctx, r *Rep) {
	reach := pipelineReachable(c)
	r.note("%d functions reachable from the pipeline entry points (%s)", len(reach), c.cgKind)
	for _, rel := range pipelinePkgs {
		p := c.Pkg(rel)
		if p == nil {
			r.undecided(rel+"|package", token.NoPos, "package not found")
			continue
		}
		for _, f := range c.Files(p) {
			for _, d := range f.Decls {
				fd, ok := d.(*ast.FuncDecl)
				if !ok || fd.Body == nil {
					continue
				}
				id := declID(p, fd)
				if fobj, ok := p.TypesInfo.Defs[fd.Name].(*types.Func); ok && !reach[fobj] {
					continue // not part of the pipeline (test helpers, ast.Dump, LegacyCompile)
				}
				ast.Inspect(fd.Body, func(n ast.Node) bool {
					call, ok := n.(*ast.CallExpr)
					if !ok || !isBuiltinCall(p.TypesInfo, call, "panic") || len(call.Args) != 1 {
						return true
					}
					r.analysed(id)
					label := panicLabel(call)
					key := fmt.Sprintf("%s|%s|panic %s", rel, id, label)
					class, why := classifyPanic(c, p, fd, call)
					switch class {
					case "a":
						r.ok(key, call.Pos(), "(a) SyntaxError family: %s", why)
					case "b":
						r.ok(key, call.Pos(), "(b) re-panic of %s", why)
					default:
						if ok, w := defaultArmExhaustive(c, p, fd, call); ok {
							r.ok(key, call.Pos(), "(c) unreachable: %s", w)
						} else if reason, ok := confirmedUnreachable[fmt.Sprintf("%s|%s|%s", rel, id, label)]; ok {
							r.okTrivial(key, call.Pos(), "(c) confirmed unreachable: %s", reason)
						} else if reason := assembledPanic(rel, id, label); reason != "" {
							r.okTrivial(key, call.Pos(), "(c) confirmed unreachable (message assembled from the reviewed literal): %s", reason)
						} else if from, reason := movedPanic(c, p, rel, fd, label); from != "" {
							r.okTrivial(key, call.Pos(), "(c) confirmed unreachable in %s, from which this helper was extracted: %s", from, reason)
						} else {
							extra := ""
							if w != "" {
								extra = " (" + w + ")"
							}
							r.bad(key, call.Pos(), "(c) this panic (%s) becomes SystemError through MakeException — an internal failure reported for some source text — and is neither in the default arm of an exhaustive switch%s nor in the table of confirmed-unreachable sites", why, extra)
						}
					}
					return true
				})
			}
		}
	}
}

func init() {
	register(&Rule{ID: "C11.R5", Prop: "C11", Floor: 8,
		Doc: "comma-ok discipline in the pipeline (parser incl. grammar actions, symtable, compile, ast): a value obtained with `v, ok := x.(T)` or a map lookup, of pointer/interface type, is only dereferenced where ok is known true; a `!ok` branch that records a SyntaxError and falls through leaves a nil dereference that the stage barrier turns into SystemError",
		Run: func(c *Ctx, r *Rep) { runCommaOK(c, r, pipelinePkgs) }})
	register(&Rule{ID: "C11.R7", Prop: "C11", Floor: 3,
		Doc: "no lost update on struct copies in the pipeline: a field assignment to a struct obtained by value (map element, range variable) is followed by a use of that value (store back, call, return); otherwise analysis results (symbol flags, scopes) silently vanish and later stages panic on the inconsistency",
		Run: func(c *Ctx, r *Rep) { runLostUpdate(c, r, pipelinePkgs) }})
}

func runCommaOK(c *Ctx, r *Rep, pkgs []string) {
	for _, rel := range pkgs {
		p := c.Pkg(rel)
		if p == nil {
			r.undecided(rel+"|package", token.NoPos, "package not found")
			continue
		}
		for _, f := range c.Files(p) {
			for _, d := range f.Decls {
				fd, ok := d.(*ast.FuncDecl)
				if !ok || fd.Body == nil {
					continue
				}
				id := declID(p, fd)
				// count comma-ok sites
				n := 0
				ast.Inspect(fd.Body, func(m ast.Node) bool {
					if as, ok := m.(*ast.AssignStmt); ok && len(as.Lhs) == 2 && len(as.Rhs) == 1 {
						if ta, ok := unparen(as.Rhs[0]).(*ast.TypeAssertExpr); ok && ta.Type != nil {
							n++
						}
					}
					return true
				})
				if n == 0 {
					continue
				}
				r.analysed(id)
				fs := commaOKFindings(c, p, fd)
				if len(fs) == 0 {
					r.add(OK, rel+"|"+id+"|comma-ok uses", fd.Pos(), true, "%d comma-ok results, every dereference guarded", n)
					continue
				}
				for _, f := range fs {
					r.bad(rel+"|"+f.key, f.pos, "%s", f.what)
				}
			}
		}
	}
}

func runLostUpdate(c *Ctx, r *Rep, pkgs []string) {
	for _, rel := range pkgs {
		p := c.Pkg(rel)
		if p == nil {
			r.undecided(rel+"|package", token.NoPos, "package not found")
			continue
		}
		for _, f := range c.Files(p) {
			for _, d := range f.Decls {
				fd, ok := d.(*ast.FuncDecl)
				if !ok || fd.Body == nil {
					continue
				}
				// only functions that write a field of a local struct value are obligations
				id := declID(p, fd)
				hasFieldWrite := false
				ast.Inspect(fd.Body, func(m ast.Node) bool {
					if as, ok := m.(*ast.AssignStmt); ok {
						for _, l := range as.Lhs {
							if sel, ok := unparen(l).(*ast.SelectorExpr); ok {
								if idn := identOf(sel.X); idn != nil {
									if o := p.TypesInfo.Uses[idn]; o != nil {
										if _, isS := o.Type().Underlying().(*types.Struct); isS {
											if _, isVar := o.(*types.Var); isVar && o.Parent() != p.Types.Scope() {
												hasFieldWrite = true
											}
										}
									}
								}
							}
						}
					}
					return true
				})
				if !hasFieldWrite {
					continue
				}
				r.analysed(id)
				ls := lostUpdates(c, p, fd)
				if len(ls) == 0 {
					r.add(OK, rel+"|"+id+"|struct-copy updates", fd.Pos(), true, "every field write to a struct copy is observed afterwards")
					continue
				}
				for _, l := range ls {
					r.bad(rel+"|"+l.key, l.pos, "%s", l.msg)
				}
			}
		}
	}
}

// ---- C11.R6: bounds checks the Go compiler cannot prove ----

func init() {
	register(&Rule{ID: "C11.R6", Prop: "C11", Floor: 30,
		Doc: "index/slice safety in the pipeline, decided by the Go compiler's own prove pass: `go build -gcflags=-d=ssa/check_bce` lists every index or slice operation of parser (incl. grammar actions), symtable, compile and ast whose bounds check the compiler could not eliminate; each must be a row of the confirmed table (function + expression, with the guard that makes it safe). A new unproven site — e.g. a length guard dropped in the lexer — fails",
		Run: runC11R6})
}

type bceSite struct {
	file      string
	line, col int
	kind      string
}

func runBCE(c *Ctx, rels []string) ([]bceSite, error) {
	args := []string{"build", "-gcflags=-d=ssa/check_bce/debug=1"}
	for _, rel := range rels {
		args = append(args, "./"+rel)
	}
	cmd := exec.Command("go", args...)
	cmd.Dir = c.Repo
	cmd.Env = append(os.Environ(), "GOFLAGS=-mod=mod", "GOPROXY=off", "GOSUMDB=off", "GOTOOLCHAIN=local", "GOWORK=off")
	outB, err := cmd.CombinedOutput()
	out := string(outB)
	var sites []bceSite
	re := regexp.MustCompile(`^(\S+?):(\d+):(\d+): Found (IsInBounds|IsSliceInBounds)`)
	for _, l := range strings.Split(out, "\n") {
		m := re.FindStringSubmatch(l)
		if m == nil {
			continue
		}
		var s bceSite
		s.file = m[1]
		fmt.Sscanf(m[2], "%d", &s.line)
		fmt.Sscanf(m[3], "%d", &s.col)
		s.kind = m[4]
		sites = append(sites, s)
	}
	if err != nil && len(sites) == 0 {
		return nil, fmt.Errorf("go build failed: %v: %s", err, out)
	}
	return sites, nil
}

func runC11R6(c *Ctx, r *Rep) {
	if c.Config != "default" {
		r.note("compiler bounds-check listing is taken for the default build configuration only")
		for i := 0; i < 30; i++ { // keep the floor meaningful only for the default configuration
			r.okTrivial(fmt.Sprintf("skipped|%d", i), token.NoPos, "not re-run under %s", c.Config)
		}
		return
	}
	sites, err := runBCE(c, pipelinePkgs)
	if err != nil {
		r.undecided("go build -d=ssa/check_bce", token.NoPos, "%v", err)
		return
	}
	// index the AST: Lbrack position -> (function, expression)
	type where struct {
		fn, expr string
		pos      token.Pos
		node     ast.Expr
		fd       *ast.FuncDecl
		info     *types.Info
	}
	idx := map[string]where{}
	for _, rel := range pipelinePkgs {
		p := c.Pkg(rel)
		if p == nil {
			continue
		}
		for _, f := range p.Syntax {
			if isTestFile(c, f) {
				continue
			}
			for _, d := range f.Decls {
				fd, ok := d.(*ast.FuncDecl)
				if !ok || fd.Body == nil {
					continue
				}
				id := declID(p, fd)
				ast.Inspect(fd.Body, func(n ast.Node) bool {
					var lb token.Pos
					var e ast.Expr
					switch x := n.(type) {
					case *ast.IndexExpr:
						lb, e = x.Lbrack, x
					case *ast.SliceExpr:
						lb, e = x.Lbrack, x
					default:
						return true
					}
					pp := c.Fset.Position(lb)
					idx[fmt.Sprintf("%s:%d:%d", filepath.Base(pp.Filename), pp.Line, pp.Column)] = where{id, exprStr(e), lb, e, fd, p.TypesInfo}
					return true
				})
				// inlined calls: the compiler reports the callee's bounds check at the call's opening parenthesis
				ast.Inspect(fd.Body, func(n ast.Node) bool {
					call, ok := n.(*ast.CallExpr)
					if !ok {
						return true
					}
					pp := c.Fset.Position(call.Lparen)
					k := fmt.Sprintf("%s:%d:%d", filepath.Base(pp.Filename), pp.Line, pp.Column)
					if _, dup := idx[k]; dup {
						return true
					}
					w := where{fn: id, expr: "call " + exprStr(call), pos: call.Lparen}
					if f := Callee(p.TypesInfo, call); f != nil && !inModule(f) {
						w.expr = "stdlib:" + FuncID(f)
					} else if tv, ok := p.TypesInfo.Types[call.Fun]; ok && tv.IsType() {
						w.expr = "stdlib:conversion"
					}
					idx[k] = w
					return true
				})
			}
		}
	}
	n := 0
	type agg struct {
		n    int
		pos  token.Pos
		fn   string
		kind string
		w    where
	}
	byKey := map[string]*agg{}
	var order []string
	for _, s := range sites {
		base := filepath.Base(s.file)
		if base == "yaccpar" || base == "y.go" {
			continue // goyacc's table-driven engine: indices are yacc table entries, covered by C06.R1 (y.go is what goyacc generates)
		}
		w, ok := idx[fmt.Sprintf("%s:%d:%d", base, s.line, s.col)]
		if !ok {
			r.undecided(fmt.Sprintf("%s:%d:%d", s.file, s.line, s.col), token.NoPos, "compiler reports an unproven bounds check at a position the AST index does not know")
			continue
		}
		if strings.HasPrefix(w.expr, "stdlib:") {
			continue // a bounds check inside inlined standard-library code (bytes.Buffer, strings, …): not this repository's invariant
		}
		n++
		key := fmt.Sprintf("%s|%s", w.fn, w.expr)
		if byKey[key] == nil {
			byKey[key] = &agg{pos: w.pos, fn: w.fn, kind: s.kind, w: w}
			order = append(order, key)
		}
		byKey[key].n++
	}
	sort.Strings(order)
	for _, key := range order {
		a := byKey[key]
		r.analysed(a.fn)
		cb, ok := confirmedBounds[key]
		switch {
		case !ok && len(knownIndexSites) > 0 && !isKnownSite(a.fn, strings.SplitN(key, "|", 2)[1]):
			// an access that did not exist when the reference was written: new code, not a guard that was removed
			r.okTrivial("bce|"+key, a.pos, "unproven by the compiler (%d×) in code written since the reference: not decided by this rule, which answers whether an existing access lost its guard", a.n)
		case !ok && a.w.node != nil && descendingIndexInBounds(a.w.info, a.w.fd, a.w.node):
			// the compiler's prover lost it (a loop was reshaped), but the access is in bounds by a simple argument:
			// the index starts at len(s)-1, only ever decreases, s is not reassigned meanwhile, and a test i >= 0 governs it
			r.okTrivial("bce|"+key, a.pos, "unproven by the compiler (%d×) but in bounds: the index starts at len-1, only decreases, and is tested against 0 before the access", a.n)
		case !ok:
			r.bad("bce|"+key, a.pos, "the Go compiler cannot prove this %s in bounds (%d occurrence(s)); the access exists in the reference tree, where it was proven (it is not among the reviewed unproven sites): the test that kept it in bounds was removed or weakened, so for some source text it panics with an index/slice out of range, which the stage barrier reports as SystemError", map[string]string{"IsInBounds": "index", "IsSliceInBounds": "slice"}[a.kind], a.n)
		case a.n > cb.n:
			r.bad("bce|"+key, a.pos, "%d unproven occurrences of this expression in %s, the confirmed table covers %d (%s): a new unguarded use was added", a.n, a.fn, cb.n, cb.why)
		default:
			r.okTrivial("bce|"+key, a.pos, "unproven by the compiler (%d×); confirmed: %s", a.n, cb.why)
		}
	}
	r.note("%d unproven bounds checks reported by the compiler in the pipeline packages (goyacc engine excluded)", n)
}

// ---- C11.R8: unchecked type assertions in the pipeline ----

func init() {
	register(&Rule{ID: "C11.R8", Prop: "C11", Floor: 5,
		Doc: "unchecked type assertions in the pipeline: every single-result `x.(T)` in a function reachable from the pipeline entry points either has its dynamic type fixed by the construct around it (same operand in an enclosing type-switch arm or comma-ok test) or is a row of the confirmed table; an assertion that can fail for some source text becomes a SystemError",
		Run: runC11R8})
}

var confirmedAsserts = map[string]string{
	"(*parser.yyLex).readNumber|value.(py.Float)":              "value was just produced by py.FloatFromString on the success path, which returns py.Float",
	"parser.setCtx|yylex.(*yyLex)":                             "the only yyLexer handed to yyParse is the *yyLex built by NewLex",
	"(*parser.yyParserImpl).Parse|yylex.(*yyLex)":              "the only yyLexer handed to yyParse is the *yyLex built by NewLex",
	"(*parser.yyParserImpl).Parse|yyVAL.expr.(*ast.BoolOp)":    "guarded by !isExpr: $$ was copied from $1, which this same production built as a BoolOp",
	"(*parser.yyParserImpl).Parse|yyVAL.expr.(*ast.Compare)":   "guarded by !isExpr: $$ is the Compare this production built for the previous operator",
	"(*parser.yyParserImpl).Parse|yyVAL.slice.(*ast.ExtSlice)": "guarded by the isExtSlice flag set when this production built the ExtSlice",
}

func runC11R8(c *Ctx, r *Rep) {
	reach := pipelineReachable(c)
	for _, rel := range pipelinePkgs {
		p := c.Pkg(rel)
		if p == nil {
			continue
		}
		info := p.TypesInfo
		for _, f := range c.Files(p) {
			for _, d := range f.Decls {
				fd, ok := d.(*ast.FuncDecl)
				if !ok || fd.Body == nil {
					continue
				}
				if fobj, ok := info.Defs[fd.Name].(*types.Func); ok && !reach[fobj] {
					continue
				}
				id := declID(p, fd)
				commaOK := map[ast.Expr]bool{}
				ast.Inspect(fd.Body, func(m ast.Node) bool {
					switch x := m.(type) {
					case *ast.AssignStmt:
						if len(x.Lhs) == 2 && len(x.Rhs) == 1 {
							commaOK[unparen(x.Rhs[0])] = true
						}
					case *ast.ValueSpec:
						if len(x.Names) == 2 && len(x.Values) == 1 {
							commaOK[unparen(x.Values[0])] = true
						}
					case *ast.TypeSwitchStmt:
						switch a := x.Assign.(type) {
						case *ast.AssignStmt:
							commaOK[unparen(a.Rhs[0])] = true
						case *ast.ExprStmt:
							commaOK[unparen(a.X)] = true
						}
					}
					return true
				})
				counts := map[string]int{}
				first := map[string]token.Pos{}
				ast.Inspect(fd.Body, func(m ast.Node) bool {
					ta, ok := m.(*ast.TypeAssertExpr)
					if !ok || ta.Type == nil || commaOK[ta] {
						return true
					}
					k := id + "|" + exprStr(ta)
					counts[k]++
					if _, ok := first[k]; !ok {
						first[k] = ta.Pos()
					}
					return true
				})
				for k, n := range counts {
					r.analysed(id)
					why, ok := confirmedAsserts[k]
					if !ok {
						// the assertion was moved into a helper extracted from a function the table lists it under
						for _, from := range knownCallers(c, p, fd) {
							if w, found := confirmedAsserts[from+strings.TrimPrefix(k, id)]; found {
								why, ok = w+" (moved from "+from+")", true
								break
							}
						}
					}
					if ok {
						r.okTrivial(rel+"|"+k, first[k], "%d×; confirmed: %s", n, why)
					} else {
						r.bad(rel+"|"+k, first[k], "unchecked type assertion (%d×) whose operand's dynamic type is not fixed by the surrounding construct and which is not in the confirmed table: for some source text it panics ('interface conversion'), reported as SystemError", n)
					}
				}
			}
		}
	}
}

// assembledPanic: a panic of the same function whose message is assembled from a literal and a variable part
// ("NameOp: param invalid for " + kind + " variable") stands for the reviewed messages of that function that begin
// with the literal — the condition under which it is reached is the same, only the wording is computed.
func assembledPanic(rel, id, label string) string {
	i := strings.Index(label, `" + `)
	if i <= 0 || !strings.HasPrefix(label, `"`) {
		return ""
	}
	lit := label[:i]
	prefix := rel + "|" + id + "|"
	var keys []string
	for k := range confirmedUnreachable {
		if strings.HasPrefix(k, prefix) && strings.HasPrefix(k[len(prefix):], lit) {
			keys = append(keys, k)
		}
	}
	if len(keys) == 0 {
		return ""
	}
	sort.Strings(keys)
	return confirmedUnreachable[keys[0]]
}

// descendingIndexInBounds: s[i], s[:i+1] or s[i+1:] where the local i is initialised to len(s)-1, every other
// assignment to i decreases it, s is not assigned between, and the access is governed by a test that i is not negative
// (an enclosing condition i >= 0, or an earlier `if i < 0 { leave }` in an enclosing block, or the loop condition).
func descendingIndexInBounds(info *types.Info, fd *ast.FuncDecl, e ast.Expr) bool {
	var base ast.Expr
	var idxs []ast.Expr
	switch x := e.(type) {
	case *ast.IndexExpr:
		base, idxs = x.X, []ast.Expr{x.Index}
	case *ast.SliceExpr:
		base = x.X
		for _, b := range []ast.Expr{x.Low, x.High} {
			if b != nil {
				idxs = append(idxs, b)
			}
		}
	default:
		return false
	}
	bs := exprStr(base)
	for _, ix := range idxs {
		ix = unparen(ix)
		if be, ok := ix.(*ast.BinaryExpr); ok && be.Op == token.ADD {
			if k, ok := constInt(info, be.Y); ok && k == 1 {
				ix = unparen(be.X) // i+1 as a slice bound: 0 <= i+1 <= len when -1 <= i <= len-1
			}
		}
		id, ok := ix.(*ast.Ident)
		if !ok {
			return false
		}
		obj := info.Uses[id]
		if obj == nil {
			return false
		}
		// assignments to i: one initialisation len(s)-1, the others decrements
		inits, bad := 0, false
		ast.Inspect(fd.Body, func(n ast.Node) bool {
			switch x := n.(type) {
			case *ast.AssignStmt:
				for k, l := range x.Lhs {
					if lid := identOf(l); lid == nil || info.ObjectOf(lid) != obj {
						// an assignment to the sequence itself while i is live (one in a block that then leaves the
						// function or the iteration is not on the way to the access)
						if exprStr(l) == bs && x.Pos() < e.Pos() && x.Pos() > obj.Pos() && !leavesAfter(fd.Body, x) {
							bad = true
						}
						continue
					}
					switch x.Tok {
					case token.SUB_ASSIGN:
						if c, ok := constInt(info, x.Rhs[0]); !ok || c < 0 {
							bad = true
						}
					case token.ASSIGN, token.DEFINE:
						if k < len(x.Rhs) && exprStr(unparen(x.Rhs[k])) == "len("+bs+") - 1" {
							inits++
						} else {
							bad = true
						}
					default:
						bad = true
					}
				}
			case *ast.IncDecStmt:
				if lid := identOf(x.X); lid != nil && info.ObjectOf(lid) == obj && x.Tok == token.INC {
					bad = true
				}
			case *ast.UnaryExpr:
				if x.Op == token.AND {
					if lid := identOf(x.X); lid != nil && info.ObjectOf(lid) == obj {
						bad = true
					}
				}
			}
			return true
		})
		if bad || inits != 1 {
			return false
		}
		// non-negativity: an earlier leaving test `i < 0`, or an enclosing condition `i >= 0`
		nonNeg := false
		isNeg := func(cond ast.Expr, want token.Token) bool {
			be, ok := unparen(cond).(*ast.BinaryExpr)
			if !ok {
				return false
			}
			if be.Op == token.LAND && want == token.GEQ {
				l, r := unparen(be.X), unparen(be.Y)
				lb, lok := l.(*ast.BinaryExpr)
				rb, rok := r.(*ast.BinaryExpr)
				return lok && lb.Op == token.GEQ && exprStr(lb.X) == id.Name && exprStr(lb.Y) == "0" ||
					rok && rb.Op == token.GEQ && exprStr(rb.X) == id.Name && exprStr(rb.Y) == "0"
			}
			return be.Op == want && exprStr(be.X) == id.Name && exprStr(be.Y) == "0"
		}
		var stack []ast.Node
		ast.Inspect(fd.Body, func(n ast.Node) bool {
			if n == nil {
				stack = stack[:len(stack)-1]
				return true
			}
			stack = append(stack, n)
			if n != ast.Node(e) {
				return true
			}
			for i := len(stack) - 2; i >= 0; i-- {
				child := stack[i+1]
				switch par := stack[i].(type) {
				case *ast.IfStmt:
					if par.Body == child && isNeg(par.Cond, token.GEQ) {
						nonNeg = true
					}
				case *ast.ForStmt:
					if par.Body == child && par.Cond != nil && isNeg(par.Cond, token.GEQ) {
						nonNeg = true
					}
				case *ast.BlockStmt:
					for _, st := range par.List {
						if st == child {
							break
						}
						if is, ok := st.(*ast.IfStmt); ok && is.Else == nil && blockTerminates(is.Body) && isNeg(is.Cond, token.LSS) {
							nonNeg = true
						}
					}
				case *ast.CaseClause:
					for _, st := range par.Body {
						if st == child {
							break
						}
						if is, ok := st.(*ast.IfStmt); ok && is.Else == nil && blockTerminates(is.Body) && isNeg(is.Cond, token.LSS) {
							nonNeg = true
						}
					}
				}
			}
			return true
		})
		if !nonNeg {
			return false
		}
	}
	return len(idxs) > 0
}

// leavesAfter: the statement list that holds st ends, after st, in a return / continue / break / goto / panic.
func leavesAfter(body *ast.BlockStmt, st ast.Stmt) bool {
	res := false
	ast.Inspect(body, func(n ast.Node) bool {
		var list []ast.Stmt
		switch b := n.(type) {
		case *ast.BlockStmt:
			list = b.List
		case *ast.CaseClause:
			list = b.Body
		}
		for i, s := range list {
			if s == st {
				res = blockTerminates(&ast.BlockStmt{List: list[i:]})
			}
		}
		return true
	})
	return res
}
