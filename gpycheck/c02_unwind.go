package main

import (
	"fmt"
	"go/ast"
	"go/token"
	"go/types"
	"strings"
)

// C02.R1: the block-unwinding loop of vm.RunFrame as a decision table over
// (block type × pending reason), extracted by interpreting the loop body
// symbolically with b.Type and vm.why fixed to each pair of declared constants,
// and compared with CPython 3.4 ceval.c `fast_block_end`.

type unwindRow struct {
	pop       bool
	pushBlock bool     // pushes a new ExceptHandler block
	pushes    []string // alternatives separated by |
	whyNot    bool     // vm.why reset to whyNot
	lasti     string   // "", "b.Handler", "vm.retval"
	leave     bool     // leaves the unwinding loop (resumes execution)
	excSwap   bool     // vm.exc <- vm.curexc, curexc cleared
}

var excPushes = []string{"vm.exc.Traceback", "vm.exc.Value", "vm.exc.Type|py.None", "vm.curexc.Traceback", "vm.curexc.Value", "vm.curexc.Type|py.None"}

func unwindSpec(bt, why string) unwindRow {
	switch bt {
	case "TryBlockExceptHandler":
		return unwindRow{pop: true}
	case "TryBlockSetupLoop":
		switch why {
		case "whyContinue":
			return unwindRow{whyNot: true, lasti: "vm.retval", leave: true}
		case "whyBreak":
			return unwindRow{pop: true, whyNot: true, lasti: "b.Handler", leave: true}
		}
		return unwindRow{pop: true}
	case "TryBlockSetupExcept":
		if why == "whyException" {
			return unwindRow{pop: true, pushBlock: true, pushes: excPushes, whyNot: true, lasti: "b.Handler", leave: true, excSwap: true}
		}
		return unwindRow{pop: true}
	case "TryBlockSetupFinally":
		switch why {
		case "whyException":
			return unwindRow{pop: true, pushBlock: true, pushes: excPushes, whyNot: true, lasti: "b.Handler", leave: true, excSwap: true}
		case "whyReturn", "whyContinue":
			return unwindRow{pop: true, pushes: []string{"vm.retval", "why"}, whyNot: true, lasti: "b.Handler", leave: true}
		case "whyBreak":
			return unwindRow{pop: true, pushes: []string{"why"}, whyNot: true, lasti: "b.Handler", leave: true}
		}
	}
	return unwindRow{}
}

func init() {
	register(&Rule{ID: "C02.R1", Prop: "C02", Floor: 16,
		Doc: "unwind dispatch table: the unwinding loop of vm.RunFrame, interpreted with (block type, why) fixed to each of the 4×4 declared pairs, must pop the block / unwind the stack / push (tb,val,type ×2 for a caught exception; retval then why for return/continue through finally; why for break) / swap exception state / set Lasti / leave or continue exactly as ceval.c's fast_block_end does",
		Run: runC02R1})
}

// findUnwindLoop returns the unwinding loop and the objects of `vm`, `frame`, `b`.
func findUnwindLoop(c *Ctx) (loop *ast.ForStmt, fd *ast.FuncDecl, names map[types.Object]string, why string) {
	fd = c.FuncDecl("vm", "RunFrame")
	if fd == nil {
		return nil, nil, nil, "vm.RunFrame not found"
	}
	p := c.MustPkg("vm")
	info := p.TypesInfo
	names = map[types.Object]string{}
	if fd.Type.Params != nil && len(fd.Type.Params.List) > 0 && len(fd.Type.Params.List[0].Names) > 0 {
		names[info.Defs[fd.Type.Params.List[0].Names[0]]] = "frame"
	}
	var main *ast.ForStmt
	for _, s := range fd.Body.List {
		switch x := s.(type) {
		case *ast.DeclStmt:
			if gd, ok := x.Decl.(*ast.GenDecl); ok {
				for _, sp := range gd.Specs {
					if vs, ok := sp.(*ast.ValueSpec); ok {
						for _, n := range vs.Names {
							if o := info.Defs[n]; o != nil && namedTypeName(o.Type()) == "vm.Vm" {
								names[o] = "vm"
							}
						}
					}
				}
			}
		case *ast.ForStmt:
			if main == nil {
				main = x
			}
		}
	}
	if main == nil {
		return nil, fd, nil, "no main loop in RunFrame"
	}
	for _, s := range main.Body.List {
		if f, ok := s.(*ast.ForStmt); ok {
			// the loop whose condition tests frame.Block
			if strings.Contains(exprStr(f.Cond), "Block") {
				loop = f
			}
		}
	}
	if loop == nil {
		return nil, fd, nil, "no unwinding loop (for … frame.Block != nil) in RunFrame's main loop"
	}
	// b := frame.Block
	for _, s := range loop.Body.List {
		if as, ok := s.(*ast.AssignStmt); ok && as.Tok == token.DEFINE && len(as.Lhs) == 1 {
			if strings.HasSuffix(exprStr(as.Rhs[0]), ".Block") {
				names[info.Defs[as.Lhs[0].(*ast.Ident)]] = "b"
			}
		}
	}
	return loop, fd, names, ""
}

type unwindOutcome struct {
	leave bool
	st    *sstate
}

func runUnwind(c *Ctx, se *symExec, loop *ast.ForStmt, names map[types.Object]string, btVal, whyVal int64) []unwindOutcome {
	se.params = map[types.Object]string{}
	for o, n := range names {
		se.params[o] = n
	}
	st := newState()
	st.selVals = map[string]val{
		"b.Type": {kind: vInt, lin: linConst(btVal)},
		"vm.why": {kind: vInt, lin: linConst(whyVal)},
	}
	se.overflow = false
	se.inStack = nil
	lc := &loopCtl{}
	loopStack = []*loopCtl{lc}
	fall, _ := se.execStmts(loop.Body.List, []*sstate{st})
	loopStack = nil
	var out []unwindOutcome
	for _, s := range lc.breaks {
		out = append(out, unwindOutcome{true, s})
	}
	for _, s := range lc.continues {
		out = append(out, unwindOutcome{false, s})
	}
	for _, s := range fall {
		out = append(out, unwindOutcome{false, s})
	}
	return out
}

func runC02R1(c *Ctx, r *Rep) {
	loop, fd, names, why := findUnwindLoop(c)
	if loop == nil {
		r.undecided("vm|RunFrame|unwinding loop", token.NoPos, "%s", why)
		return
	}
	r.analysed("vm.RunFrame")
	_ = fd
	se := newSymExec(c, "vm")
	bts := []string{"TryBlockSetupLoop", "TryBlockSetupExcept", "TryBlockSetupFinally", "TryBlockExceptHandler"}
	whys := []string{"whyException", "whyReturn", "whyBreak", "whyContinue"}
	// every declared block type must be in the table (a new block kind needs a spec row)
	pyp := c.MustPkg("py")
	if bt := c.Named("py", "TryBlockType"); bt != nil {
		for _, n := range pyp.Types.Scope().Names() {
			if k, ok := pyp.Types.Scope().Lookup(n).(*types.Const); ok && types.Identical(k.Type(), bt) {
				known := false
				for _, b := range bts {
					if b == n {
						known = true
					}
				}
				r.check(known, "py|TryBlockType|"+n, k.Pos(), "block kind has a row in the unwind specification", "declared block kind "+n+" has no row in the unwind specification")
			}
		}
	}
	for _, bt := range bts {
		bk := c.ConstObj("py", bt)
		if bk == nil {
			r.undecided("py|"+bt, token.NoPos, "block type constant not found")
			continue
		}
		for _, w := range whys {
			wk := c.ConstObj("vm", w)
			if wk == nil {
				r.undecided("vm|"+w, token.NoPos, "why constant not found")
				continue
			}
			key := fmt.Sprintf("vm|RunFrame|unwind (%s, %s)", bt, w)
			spec := unwindSpec(bt, w)
			outs := runUnwind(c, se, loop, names, constVal(bk), constVal(wk))
			if len(outs) == 0 {
				r.undecided(key, loop.Pos(), "no path through the loop body")
				continue
			}
			var problems []string
			for _, o := range outs {
				st := o.st
				if len(st.und) > 0 {
					problems = append(problems, "uninterpretable: "+strings.Join(st.und, "; "))
					continue
				}
				pop, pushBlock := false, false
				unwindKind := ""
				for _, cr := range st.calls {
					switch cr.callee {
					case "(*py.Frame).PopBlock":
						pop = true
					case "(*py.Frame).PushBlock":
						if len(cr.args) == 3 && cr.args[0].kind == vInt && cr.args[0].lin.isConst() {
							if eh := c.ConstObj("py", "TryBlockExceptHandler"); eh != nil && cr.args[0].lin.c == constVal(eh) {
								pushBlock = true
							}
						}
					}
				}
				_ = unwindKind
				var pushes []string
				for _, v := range st.pushed {
					s := v.String()
					if v.kind == vInt && v.lin.isConst() && v.lin.c == constVal(wk) {
						s = "why"
					}
					pushes = append(pushes, s)
				}
				whyNot, lasti := false, ""
				excSwap := 0
				for _, as := range st.assigns {
					switch {
					case as.lhs == "vm.why":
						if nk := c.ConstObj("vm", "whyNot"); nk != nil && as.rhs.kind == vInt && as.rhs.lin.isConst() && as.rhs.lin.c == constVal(nk) {
							whyNot = true
						}
					case strings.HasSuffix(as.lhs, ".Lasti"):
						lasti = as.rhs.String()
					case strings.HasPrefix(as.lhs, "vm.exc.") && strings.HasPrefix(as.rhs.String(), "vm.curexc."):
						if strings.TrimPrefix(as.lhs, "vm.exc.") == strings.TrimPrefix(as.rhs.String(), "vm.curexc.") {
							excSwap++
						}
					}
				}
				if pop != spec.pop {
					problems = append(problems, fmt.Sprintf("block popped=%v, spec %v", pop, spec.pop))
				}
				if pushBlock != spec.pushBlock {
					problems = append(problems, fmt.Sprintf("except-handler block pushed=%v, spec %v", pushBlock, spec.pushBlock))
				}
				if o.leave != spec.leave {
					problems = append(problems, fmt.Sprintf("leaves the unwinding loop=%v, spec %v", o.leave, spec.leave))
				}
				if whyNot != spec.whyNot {
					problems = append(problems, fmt.Sprintf("why reset=%v, spec %v", whyNot, spec.whyNot))
				}
				if spec.lasti != "" && lasti != spec.lasti {
					problems = append(problems, fmt.Sprintf("Lasti <- %q, spec %q", lasti, spec.lasti))
				}
				if spec.lasti == "" && lasti != "" {
					problems = append(problems, fmt.Sprintf("Lasti <- %q, spec leaves Lasti alone", lasti))
				}
				if spec.excSwap != (excSwap == 3) {
					problems = append(problems, fmt.Sprintf("exception state handed to the handler (vm.exc <- vm.curexc, 3 fields)=%d, spec %v", excSwap, spec.excSwap))
				}
				if len(pushes) != len(spec.pushes) {
					problems = append(problems, fmt.Sprintf("pushes %v, spec %v", pushes, spec.pushes))
				} else {
					for i, want := range spec.pushes {
						ok := false
						for _, alt := range strings.Split(want, "|") {
							if pushes[i] == alt {
								ok = true
							}
						}
						if !ok {
							problems = append(problems, fmt.Sprintf("push #%d is %s, spec %s (full %v)", i, pushes[i], want, pushes))
						}
					}
				}
			}
			if len(problems) > 0 {
				r.bad(key, loop.Pos(), "%s", strings.Join(uniq(problems), " | "))
			} else {
				r.ok(key, loop.Pos(), "%d paths: pop=%v pushes=%v leave=%v lasti=%q", len(outs), spec.pop, spec.pushes, spec.leave, spec.lasti)
			}
		}
	}
}
