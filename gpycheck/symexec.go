package main

import (
	"fmt"
	"go/ast"
	"go/constant"
	"go/token"
	"go/types"
	"hash/fnv"
	"strconv"
	"strings"

	"golang.org/x/tools/go/packages"
)

// Structured symbolic execution of VM opcode handlers (DESIGN.md B.2).
// Nothing is run: the handler's AST is walked path by path over an abstract
// evaluation stack. The 15 stack primitives of *Vm are not hard-coded; their
// bodies are inlined and interpreted as index/slice/append arithmetic on the
// field py.Frame.Stack.

type vkind int

const (
	vUnknown vkind = iota
	vInt           // lin
	vSlot          // value read from the evaluation stack at entry (slot = depth from entry top)
	vErrNil
	vErrNonNil
	vBool
	vStack // the evaluation-stack slice itself
)

type val struct {
	kind vkind
	lin  *lin
	slot int
	desc string
	b    bool              // for vBool when known
	bk   bool              // bool known
	lit  *ast.FuncLit      // a local function literal (inlined when called)
	cmp  string            // for vBool with lin: the comparison `lin cmp 0` it stands for
	cnam string            // … and, when one side is a named constant of an enumeration type, that name
	nn   bool              // known not to be nil (a package-level singleton that is never reassigned)
	fnv  *types.Func       // a package-level function used as a value (called through a parameter of a helper)
	elem *ast.CompositeLit // an element of a read-only table literal of structs (T[k], &T[k])
}

func unk(desc string) val { return val{kind: vUnknown, desc: desc} }

func (v val) String() string {
	switch v.kind {
	case vInt:
		return v.lin.String()
	case vSlot:
		return fmt.Sprintf("slot%d", v.slot)
	case vErrNil:
		return "nil"
	case vErrNonNil:
		return "err!"
	case vStack:
		return "<stack>"
	case vBool:
		if v.bk {
			return fmt.Sprintf("%v", v.b)
		}
	}
	if v.desc != "" {
		return v.desc
	}
	return "?"
}

type callRec struct {
	callee string
	args   []val
	recv   *val
	pos    token.Pos
	seq    int
	loop   []loopAlt // for callee "<loop>": the alternative iterations of a loop body
	ret    string    // rendered first result (emission mode)
}

// loopAlt is one path through a loop body: the conditions taken and the events recorded.
type loopAlt struct {
	conds   []string
	calls   []callRec
	assigns []assignRec // the assignments to fields and elements made in this alternative
	exit    string      // "", "break", "return"
}

type assignRec struct {
	lhs string
	rhs val
	src string
	pos token.Pos
	seq int
}

type sstate struct {
	h       *lin // current height
	conc    bool // stack content tracked concretely
	base    int  // number of entry slots consumed
	pushed  []val
	vars    map[types.Object]val
	conds   []string
	eqs     []*lin
	nes     []*lin
	calls   []callRec
	assigns []assignRec
	maxSlot int // deepest entry slot touched (-1 none)
	seq     int
	known   map[string]bool // truth of conditions already decided on this path (canonical text)
	selVals map[string]val  // values of selector expressions fixed by the analysis (decision-table enumeration) or assigned constants
	rebased string          // non-empty once the stack was truncated to a symbolic level: entry slots are no longer addressable
	und     []string
	undPos  []token.Pos
	nmake   int // make() calls seen on this path (decision tables number them)
}

func newState() *sstate {
	return &sstate{h: linSym("H0"), conc: true, vars: map[types.Object]val{}, maxSlot: -1}
}

func (s *sstate) clone() *sstate {
	o := *s
	o.h = s.h.clone()
	o.pushed = append([]val{}, s.pushed...)
	o.vars = map[types.Object]val{}
	for k, v := range s.vars {
		o.vars[k] = v
	}
	o.conds = append([]string{}, s.conds...)
	o.eqs = append([]*lin{}, s.eqs...)
	o.nes = append([]*lin{}, s.nes...)
	o.calls = append([]callRec{}, s.calls...)
	o.assigns = append([]assignRec{}, s.assigns...)
	o.und = append([]string{}, s.und...)
	o.undPos = append([]token.Pos{}, s.undPos...)
	if s.known != nil {
		o.known = map[string]bool{}
		for k, v := range s.known {
			o.known[k] = v
		}
	}
	if s.selVals != nil {
		o.selVals = map[string]val{}
		for k, v := range s.selVals {
			o.selVals[k] = v
		}
	}
	return &o
}

func (s *sstate) undecided(pos token.Pos, format string, a ...interface{}) {
	s.und = append(s.und, fmt.Sprintf(format, a...))
	s.undPos = append(s.undPos, pos)
}

// delta = current height - entry height
func (s *sstate) delta() *lin { return s.h.sub(linSym("H0")) }

func (s *sstate) touch(slot int) {
	if slot > s.maxSlot {
		s.maxSlot = slot
	}
}

// read the value at depth d (0 = top)
func (s *sstate) readDepth(d int) val {
	if !s.conc {
		return unk("stack[?]")
	}
	if d < len(s.pushed) {
		return s.pushed[len(s.pushed)-1-d]
	}
	if s.rebased != "" {
		return unk("stack-below-" + s.rebased)
	}
	slot := s.base + d - len(s.pushed)
	s.touch(slot)
	return val{kind: vSlot, slot: slot}
}

func (s *sstate) writeDepth(d int, v val) {
	if !s.conc {
		return
	}
	if d < len(s.pushed) {
		s.pushed[len(s.pushed)-1-d] = v
		return
	}
	// overwriting an entry slot: materialise the entry slots above it as pushed values
	need := d - len(s.pushed) + 1
	var mat []val
	for i := need - 1; i >= 0; i-- {
		slot := s.base + i
		s.touch(slot)
		mat = append(mat, val{kind: vSlot, slot: slot})
	}
	s.base += need
	s.pushed = append(mat, s.pushed...)
	s.pushed[len(s.pushed)-1-d] = v
}

func (s *sstate) pop(n int) {
	s.h = s.h.add(linConst(int64(-n)))
	if !s.conc {
		return
	}
	for i := 0; i < n; i++ {
		if len(s.pushed) > 0 {
			s.pushed = s.pushed[:len(s.pushed)-1]
		} else {
			s.touch(s.base)
			s.base++
		}
	}
}

func (s *sstate) push(v val) {
	s.h = s.h.add(linConst(1))
	if s.conc {
		s.pushed = append(s.pushed, v)
	}
}

// ---------------------------------------------------------------------

type symExec struct {
	c               *Ctx
	p               *packages.Package
	info            *types.Info
	stackFld        *types.Var // py.Frame.Stack
	maxPaths        int
	depth           int
	inStack         []*types.Func
	stackWriters    map[*types.Func]bool
	vmName, argName string // canonical names of handler params
	params          map[types.Object]string
	overflow        bool
	inlineMemo      map[*types.Func]bool
	assignCounts    map[types.Object]int
	singletons      map[types.Object]bool
	flagNames       map[types.Object]string
	stackAlias      map[types.Object]bool // single-assignment locals holding the evaluation stack slice
	pinned          map[types.Object]bool // canonical names that value changes do not undo (loop counters)
	inlineAll       bool
	primitive       map[*types.Func]bool // never inlined: recorded as events
	noRet           map[*types.Func]int  // 1 = never returns (every path panics), 2 = returns
	tableMode       bool                 // decision tables: loop control and allocation order are rendered
	emitMode        bool                 // record loops as structured events, name labels
	rangeBind       map[types.Object]val
	callOverride    map[string]val  // decision-table enumeration: fixed result of an external call, by callee id
	primByID        map[string]bool // FuncIDs never inlined (decision tables)
	raised          []*sstate       // paths that ended in a never-returning (raising) call, when keepRaised is set
	keepRaised      bool
	labelN          int
}

type pathResult struct {
	st   *sstate
	rets []val
}

type ev struct {
	st *sstate
	v  val
}

func newSymExec(c *Ctx, rel string) *symExec {
	p := c.MustPkg(rel)
	se := &symExec{c: c, p: p, info: p.TypesInfo, maxPaths: 6000, params: map[types.Object]string{}}
	fr := c.Named("py", "Frame")
	if fr == nil {
		panic("py.Frame not found")
	}
	st := fr.Underlying().(*types.Struct)
	for i := 0; i < st.NumFields(); i++ {
		if st.Field(i).Name() == "Stack" {
			se.stackFld = st.Field(i)
		}
	}
	if se.stackFld == nil {
		panic("py.Frame.Stack not found")
	}
	se.inlineAll = rel == "compile"
	// module functions that assign the Stack field (outside package vm they make an external call opaque)
	se.stackWriters = map[*types.Func]bool{}
	for _, pk := range c.ModulePkgs() {
		if pk == p {
			continue
		}
		for _, f := range c.Files(pk) {
			for _, d := range f.Decls {
				fd, ok := d.(*ast.FuncDecl)
				if !ok || fd.Body == nil {
					continue
				}
				ast.Inspect(fd.Body, func(n ast.Node) bool {
					if as, ok := n.(*ast.AssignStmt); ok {
						for _, l := range as.Lhs {
							if sel, ok := unparen(l).(*ast.SelectorExpr); ok {
								if s, ok := pk.TypesInfo.Selections[sel]; ok && s.Obj() == se.stackFld {
									if fn, ok := pk.TypesInfo.Defs[fd.Name].(*types.Func); ok {
										se.stackWriters[fn] = true
									}
								}
							}
						}
					}
					return true
				})
			}
		}
	}
	return se
}

func (se *symExec) isStack(e ast.Expr) bool {
	if se.stackFld == nil {
		return false
	}
	// a local that was assigned the stack slice itself (`stack := vm.frame.Stack`) stands for it
	if id, ok := unparen(e).(*ast.Ident); ok {
		if o := se.info.Uses[id]; o != nil && se.stackAlias[o] {
			return true
		}
		return false
	}
	sel, ok := unparen(e).(*ast.SelectorExpr)
	if !ok {
		return false
	}
	s, ok := se.info.Selections[sel]
	return ok && s.Obj() == se.stackFld
}

// runFunc executes fd with the given parameter values (nil entries = unknown) and returns all complete paths.
// Parameter i gets the canonical name names[i] in rendered expressions.
func (se *symExec) runFunc(fd *ast.FuncDecl, vals []*val, names []string) []pathResult {
	return se.runFuncFrom(fd, vals, names, newState())
}

// runFuncFrom is runFunc starting from a prepared state (selector overrides for decision-table enumeration).
func (se *symExec) runFuncFrom(fd *ast.FuncDecl, vals []*val, names []string, st *sstate) []pathResult {
	n := 0
	se.params = map[types.Object]string{}
	for _, f := range fd.Type.Params.List {
		for _, id := range f.Names {
			obj := se.info.Defs[id]
			if n < len(vals) && vals[n] != nil {
				st.vars[obj] = *vals[n]
			}
			if n < len(names) && names[n] != "" {
				se.params[obj] = names[n]
			}
			n++
		}
	}
	if se.tableMode && fd.Recv != nil && len(fd.Recv.List) == 1 && len(fd.Recv.List[0].Names) == 1 {
		if obj := se.info.Defs[fd.Recv.List[0].Names[0]]; obj != nil {
			se.params[obj] = "recv"
		}
	}
	se.overflow = false
	fn, _ := se.info.Defs[fd.Name].(*types.Func)
	se.inStack = []*types.Func{fn}
	loopStack = nil
	return se.execBody(fd.Body, st)
}

// runHandler executes an opcode handler func(vm *Vm, arg int32) error.
func (se *symExec) runHandler(fd *ast.FuncDecl) []pathResult {
	a := val{kind: vInt, lin: linSym("arg")}
	return se.runFunc(fd, []*val{nil, &a}, []string{"vm", "arg"})
}

// execBody runs a function body; every path ends in a return (or falls off the end).
func (se *symExec) execBody(body *ast.BlockStmt, st *sstate) []pathResult {
	fall, rets := se.execStmts(body.List, []*sstate{st})
	for _, f := range fall {
		rets = append(rets, pathResult{st: f})
	}
	return rets
}

type loopCtl struct {
	breaks    []*sstate
	continues []*sstate
}

var loopStack []*loopCtl

func (se *symExec) execStmts(list []ast.Stmt, sts []*sstate) (fall []*sstate, rets []pathResult) {
	cur := sts
	for _, s := range list {
		if len(cur) == 0 {
			break
		}
		var next []*sstate
		for _, st := range cur {
			f, r := se.execStmt(s, st)
			next = append(next, f...)
			rets = append(rets, r...)
		}
		if len(next)+len(rets) > se.maxPaths {
			se.overflow = true
			return nil, rets
		}
		cur = next
	}
	return cur, rets
}

func (se *symExec) execStmt(s ast.Stmt, st *sstate) (fall []*sstate, rets []pathResult) {
	switch x := s.(type) {
	case *ast.ExprStmt:
		if call, ok := x.X.(*ast.CallExpr); ok && isBuiltinCall(se.info, call, "panic") {
			return nil, nil // path ends in panic: not a successful path
		}
		for _, e := range se.eval(x.X, st) {
			fall = append(fall, e.st)
		}
		return
	case *ast.AssignStmt:
		return se.execAssign(x, st), nil
	case *ast.IncDecStmt:
		d := int64(1)
		if x.Tok == token.DEC {
			d = -1
		}
		for _, e := range se.eval(x.X, st) {
			nv := unk("")
			if e.v.kind == vInt {
				nv = val{kind: vInt, lin: e.v.lin.add(linConst(d))}
			}
			se.assignTo(x.X, nv, e.st, x.Pos(), se.canon(x.X)+x.Tok.String())
			fall = append(fall, e.st)
		}
		return
	case *ast.DeclStmt:
		gd, ok := x.Decl.(*ast.GenDecl)
		if !ok {
			return []*sstate{st}, nil
		}
		cur := []*sstate{st}
		for _, sp := range gd.Specs {
			vs, ok := sp.(*ast.ValueSpec)
			if !ok {
				continue
			}
			for i, name := range vs.Names {
				var next []*sstate
				for _, c := range cur {
					if i < len(vs.Values) {
						for _, e := range se.eval(vs.Values[i], c) {
							e.st.vars[se.info.Defs[name]] = e.v
							next = append(next, e.st)
						}
					} else {
						// zero value
						obj := se.info.Defs[name]
						zv := unk("zero")
						if b, ok := obj.Type().Underlying().(*types.Basic); ok && b.Info()&types.IsInteger != 0 {
							zv = val{kind: vInt, lin: linConst(0)}
						} else if obj.Type().String() == "error" {
							zv = val{kind: vErrNil}
						} else if b, ok := obj.Type().Underlying().(*types.Basic); ok && b.Kind() == types.Bool {
							zv = val{kind: vBool, bk: true, b: false}
						}
						c.vars[obj] = zv
						next = append(next, c)
					}
				}
				cur = next
			}
		}
		return cur, nil
	case *ast.ReturnStmt:
		type acc struct {
			st *sstate
			vs []val
		}
		cur := []acc{{st, nil}}
		for _, rexpr := range x.Results {
			var next []acc
			for _, a := range cur {
				boolTestHere := len(x.Results) == 1 && se.isBoolTest(rexpr) &&
					(se.tableMode || len(se.inStack) > 0 && isNewFunc(FuncID(se.inStack[len(se.inStack)-1])))
				// a call returning a tuple
				if call, ok := unparen(rexpr).(*ast.CallExpr); ok && len(x.Results) == 1 && !boolTestHere {
					for _, r := range se.evalCallMulti(call, a.st) {
						next = append(next, acc{r.st, r.rets})
					}
					continue
				}
				// inside a helper that was looked through: a boolean result that is a test (a && b, x == y, !p)
				// is decided here, so that the caller's `if helper(…)` branches on the test itself
				if len(x.Results) == 1 && se.isBoolTest(rexpr) &&
					(se.tableMode || len(se.inStack) > 0 && isNewFunc(FuncID(se.inStack[len(se.inStack)-1]))) {
					tr, fa := se.branch(rexpr, a.st)
					for _, t := range tr {
						next = append(next, acc{t, []val{{kind: vBool, bk: true, b: true}}})
					}
					for _, f := range fa {
						next = append(next, acc{f, []val{{kind: vBool, bk: true, b: false}}})
					}
					continue
				}
				for _, e := range se.eval(rexpr, a.st) {
					next = append(next, acc{e.st, append(append([]val{}, a.vs...), e.v)})
				}
			}
			cur = next
		}
		for _, a := range cur {
			rets = append(rets, pathResult{st: a.st, rets: a.vs})
		}
		return nil, rets
	case *ast.BlockStmt:
		return se.execStmts(x.List, []*sstate{st})
	case *ast.IfStmt:
		cur := []*sstate{st}
		if x.Init != nil {
			f, r := se.execStmt(x.Init, st)
			cur, rets = f, append(rets, r...)
		}
		for _, c := range cur {
			tr, fa := se.branch(x.Cond, c)
			if len(tr) > 0 {
				f, r := se.execStmts(x.Body.List, tr)
				fall = append(fall, f...)
				rets = append(rets, r...)
			}
			if len(fa) > 0 {
				if x.Else != nil {
					for _, fs := range fa {
						f, r := se.execStmt(x.Else, fs)
						fall = append(fall, f...)
						rets = append(rets, r...)
					}
				} else {
					fall = append(fall, fa...)
				}
			}
		}
		return
	case *ast.SwitchStmt:
		return se.execSwitch(x, st)
	case *ast.TypeSwitchStmt:
		return se.execTypeSwitch(x, st)
	case *ast.ForStmt:
		return se.execFor(x, st)
	case *ast.RangeStmt:
		return se.execRange(x, st)
	case *ast.BranchStmt:
		switch x.Tok {
		case token.BREAK:
			if n := len(loopStack); n > 0 && x.Label == nil {
				loopStack[n-1].breaks = append(loopStack[n-1].breaks, st)
				return nil, nil
			}
		case token.CONTINUE:
			if n := len(loopStack); n > 0 && x.Label == nil {
				loopStack[n-1].continues = append(loopStack[n-1].continues, st)
				return nil, nil
			}
		}
		st.undecided(x.Pos(), "branch statement %s not handled", x.Tok)
		return []*sstate{st}, nil
	case *ast.EmptyStmt:
		return []*sstate{st}, nil
	case *ast.DeferStmt:
		// a deferred recover barrier does not take part in the straight-line behaviour being interpreted
		if fl, ok := x.Call.Fun.(*ast.FuncLit); ok {
			rec := false
			ast.Inspect(fl.Body, func(n ast.Node) bool {
				if c, ok := n.(*ast.CallExpr); ok && isBuiltinCall(se.info, c, "recover") {
					rec = true
				}
				return true
			})
			if rec {
				return []*sstate{st}, nil
			}
		}
		if se.emitMode {
			// decision tables: a deferred call is an effect of the path (it runs at every exit after this point)
			st.seq++
			st.calls = append(st.calls, callRec{callee: "defer", args: []val{unk(strings.Join(strings.Fields(fullExpr(x.Call)), " "))}, pos: s.Pos(), seq: st.seq})
			return []*sstate{st}, nil
		}
		st.undecided(s.Pos(), "defer statement not handled by the interpreter")
		return []*sstate{st}, nil
	case *ast.GoStmt, *ast.LabeledStmt, *ast.SelectStmt, *ast.SendStmt:
		st.undecided(s.Pos(), "statement form %T not handled by the handler interpreter", s)
		return []*sstate{st}, nil
	}
	st.undecided(s.Pos(), "statement form %T not handled", s)
	return []*sstate{st}, nil
}

func (se *symExec) execAssign(x *ast.AssignStmt, st *sstate) []*sstate {
	// flag := a && b (|| , !): a local flag that holds a compound test is decided where it is computed, so
	// that `flag := a && b; if flag` and `if a && b` give the same tests
	if (x.Tok == token.ASSIGN || x.Tok == token.DEFINE) && len(x.Lhs) == 1 && len(x.Rhs) == 1 && identOf(x.Lhs[0]) != nil && identOf(x.Lhs[0]).Name != "_" {
		compound := false
		switch r := unparen(x.Rhs[0]).(type) {
		case *ast.BinaryExpr:
			compound = r.Op == token.LAND || r.Op == token.LOR
		case *ast.UnaryExpr:
			compound = r.Op == token.NOT
		}
		if compound && se.isBoolTest(x.Rhs[0]) && noFlagLeaves(x.Rhs[0]) {
			tr, fa := se.branch(x.Rhs[0], st)
			var out []*sstate
			for _, t := range tr {
				se.assignTo(x.Lhs[0], val{kind: vBool, bk: true, b: true}, t, x.Pos(), "true")
				out = append(out, t)
			}
			for _, f := range fa {
				se.assignTo(x.Lhs[0], val{kind: vBool, bk: true, b: false}, f, x.Pos(), "false")
				out = append(out, f)
			}
			return out
		}
	}
	// compound assignment  a op= b
	if x.Tok != token.ASSIGN && x.Tok != token.DEFINE {
		var out []*sstate
		for _, l := range se.eval(x.Lhs[0], st) {
			for _, r := range se.eval(x.Rhs[0], l.st) {
				nv := unk("")
				if l.v.kind == vInt && r.v.kind == vInt {
					switch x.Tok {
					case token.ADD_ASSIGN:
						nv = val{kind: vInt, lin: l.v.lin.add(r.v.lin)}
					case token.SUB_ASSIGN:
						nv = val{kind: vInt, lin: l.v.lin.sub(r.v.lin)}
					}
				}
				se.assignTo(x.Lhs[0], nv, r.st, x.Pos(), se.canon(x.Lhs[0])+" "+x.Tok.String()+" "+se.canon(x.Rhs[0]))
				out = append(out, r.st)
			}
		}
		return out
	}
	// multi-value from one call / type assertion / map index
	if len(x.Lhs) > 1 && len(x.Rhs) == 1 {
		var out []*sstate
		switch r := unparen(x.Rhs[0]).(type) {
		case *ast.CallExpr:
			for _, pr := range se.evalCallMulti(r, st) {
				for i, l := range x.Lhs {
					v := unk("")
					if i < len(pr.rets) {
						v = pr.rets[i]
					}
					se.assignTo(l, v, pr.st, x.Pos(), "")
				}
				out = append(out, pr.st)
			}
			return out
		case *ast.TypeAssertExpr:
			for _, e := range se.eval(r.X, st) {
				se.assignTo(x.Lhs[0], e.v, e.st, x.Pos(), "")
				desc := se.canon(r)
				if se.tableMode {
					// the operand of the assertion is shown by value (slot1.(py.Int)), not under the name of the local
					// it happens to be held in
					if vs := e.v.String(); vs != "" && vs != "?" && (e.v.kind != vUnknown || e.v.desc != "") {
						desc = vs + ".(" + se.canon(r.Type) + ")"
					}
				}
				se.assignTo(x.Lhs[1], val{kind: vBool, desc: desc}, e.st, x.Pos(), "")
				out = append(out, e.st)
			}
			return out
		default:
			if ix, ok := r.(*ast.IndexExpr); ok && len(x.Lhs) == 2 {
				if hits := se.tableLookup(ix, st); hits != nil {
					for _, h := range hits {
						se.assignTo(x.Lhs[0], h.v, h.st, x.Pos(), "")
						se.assignTo(x.Lhs[1], val{kind: vBool, bk: true, b: h.found}, h.st, x.Pos(), "")
						out = append(out, h.st)
					}
					return out
				}
			}
			for _, e := range se.eval(x.Rhs[0], st) {
				for i, l := range x.Lhs {
					v := unk("")
					if i == 0 {
						v = e.v
					} else if i == 1 {
						// the comma-ok flag of a map lookup / channel receive
						txt := se.canon(x.Rhs[0])
						if ix, ok := unparen(x.Rhs[0]).(*ast.IndexExpr); ok {
							// a named string constant as the key is shown by value, as it is where the element is read
							if tv, ok := se.info.Types[ix.Index]; ok && tv.Value != nil && tv.Value.Kind() == constant.String {
								if _, lit := unparen(ix.Index).(*ast.BasicLit); !lit {
									txt = se.canon(ix.X) + "[" + tv.Value.ExactString() + "]"
								}
							}
						}
						v = val{kind: vBool, desc: "has(" + txt + ")"}
					}
					se.assignTo(l, v, e.st, x.Pos(), se.canon(x.Rhs[0]))
				}
				out = append(out, e.st)
			}
			return out
		}
	}
	// parallel assignment: evaluate all rhs first
	type acc struct {
		st *sstate
		vs []val
	}
	cur := []acc{{st, nil}}
	for _, r := range x.Rhs {
		var next []acc
		for _, a := range cur {
			for _, e := range se.eval(r, a.st) {
				next = append(next, acc{e.st, append(append([]val{}, a.vs...), e.v)})
			}
		}
		cur = next
	}
	var out []*sstate
	for _, a := range cur {
		for i, l := range x.Lhs {
			// index expressions on the lhs may pop (vm.frame.Locals[..] = vm.POP() is rhs; lhs index evaluated too)
			se.assignTo(l, a.vs[i], a.st, x.Pos(), se.canon(x.Rhs[i]))
		}
		out = append(out, a.st)
	}
	// `locals := vm.frame.Locals`: a local of map or pointer type, assigned once, from a plain access path,
	// is that path under another name and is rendered as the path
	if x.Tok == token.DEFINE && len(x.Lhs) == len(x.Rhs) {
		for i, l := range x.Lhs {
			id := identOf(l)
			if id == nil || id.Name == "_" {
				continue
			}
			obj := se.info.Defs[id]
			if obj == nil || se.assignCount(obj) != 1 {
				continue
			}
			if b, ok := obj.Type().Underlying().(*types.Basic); ok && b.Kind() == types.String && se.tableMode && callFree(x.Rhs[i]) {
				// a string computed once from plain operands (`toCompile := r.previous + line`) is shown as that expression
				if _, taken := se.params[obj]; !taken {
					t := se.canon(x.Rhs[i])
					if _, isBin := unparen(x.Rhs[i]).(*ast.BinaryExpr); isBin {
						t = "(" + t + ")"
					}
					se.params[obj] = t
				}
				continue
			}
			if se.emitMode && len(out) == 1 && len(cur) == 1 && cur[0].vs[i].kind == vUnknown && strings.HasSuffix(cur[0].vs[i].desc, "[*]") {
				// `name := code.Freevars[i]` inside `for i := range code.Freevars`: the loop's element under a name of
				// its own is shown as the element, as the value variable of the range statement would be
				if _, taken := se.params[obj]; !taken {
					se.params[obj] = cur[0].vs[i].desc
				}
				continue
			}
			if !isPurePath(x.Rhs[i]) {
				// `last := is[len(is)-1]`: an element or field selected from values that are never assigned
				// again is that selection under another name
				if _, taken := se.params[obj]; !taken && se.stableSelection(x.Rhs[i]) {
					se.params[obj] = se.canon(x.Rhs[i])
				}
				continue
			}
			if _, isId := unparen(x.Rhs[i]).(*ast.Ident); isId {
				continue // x := y is left alone (y may be reassigned)
			}
			switch obj.Type().Underlying().(type) {
			case *types.Map, *types.Pointer:
				if _, taken := se.params[obj]; !taken {
					se.params[obj] = se.canon(x.Rhs[i])
				}
			case *types.Slice:
				// a slice header is a copy: only when the function never assigns the field it was read from
				if sel, ok := unparen(x.Rhs[i]).(*ast.SelectorExpr); ok && !se.fieldAssignedNear(x.Pos(), sel.Sel.Name) {
					if _, taken := se.params[obj]; !taken {
						se.params[obj] = se.canon(x.Rhs[i])
					}
				}
			}
		}
	}
	return out
}

// isBoolTest: a boolean expression built from comparisons, calls and logical operators (not a constant or a plain variable).
func (se *symExec) isBoolTest(e ast.Expr) bool {
	tv, ok := se.info.Types[e]
	if !ok || tv.Value != nil {
		return false
	}
	if b, ok := tv.Type.Underlying().(*types.Basic); !ok || b.Kind() != types.Bool {
		return false
	}
	switch x := unparen(e).(type) {
	case *ast.BinaryExpr:
		return true
	case *ast.UnaryExpr:
		return x.Op == token.NOT
	case *ast.CallExpr:
		if ftv, ok := se.info.Types[x.Fun]; ok && ftv.IsType() {
			return false // a conversion, bool(x), is not a test
		}
		return true
	}
	return false
}

// noFlagLeaves: every leaf of the logical expression is a comparison or a call, none a plain variable.
func noFlagLeaves(e ast.Expr) bool {
	switch x := unparen(e).(type) {
	case *ast.BinaryExpr:
		if x.Op == token.LAND || x.Op == token.LOR {
			return noFlagLeaves(x.X) && noFlagLeaves(x.Y)
		}
		return true
	case *ast.UnaryExpr:
		if x.Op == token.NOT {
			return noFlagLeaves(x.X)
		}
	case *ast.CallExpr:
		return true
	}
	return false
}

// stableSelection: an index or field selection built from parameters and single-assignment locals that are never
// assigned afterwards, constants and len(): its value does not change while the function runs.
func (se *symExec) stableSelection(e ast.Expr) bool {
	switch x := unparen(e).(type) {
	case *ast.IndexExpr:
		// a selection from a slice or array held in a stable variable (not a map: maps change under the same name)
		if tv, ok := se.info.Types[x.X]; ok {
			switch tv.Type.Underlying().(type) {
			case *types.Slice, *types.Array:
			default:
				return false
			}
		}
		return se.stableOperand(x.X) && se.stableOperand(x.Index)
	case *ast.CallExpr:
		// a conversion of a stable variable: mangled := string(name)
		if tv, ok := se.info.Types[x.Fun]; ok && tv.IsType() && len(x.Args) == 1 {
			if _, isId := unparen(x.Args[0]).(*ast.Ident); isId {
				return se.stableOperand(x.Args[0])
			}
		}
	}
	return false
}

func (se *symExec) stableOperand(e ast.Expr) bool {
	switch x := unparen(e).(type) {
	case *ast.BasicLit:
		return true
	case *ast.Ident:
		if tv, ok := se.info.Types[x]; ok && tv.Value != nil {
			return true
		}
		o := se.info.Uses[x]
		if o == nil {
			return false
		}
		if v, ok := o.(*types.Var); ok && !v.IsField() && v.Parent() != nil && v.Parent() != v.Pkg().Scope() {
			return se.assignCount(o) <= 1
		}
		return false
	case *ast.BinaryExpr:
		switch x.Op {
		case token.ADD, token.SUB:
			return se.stableOperand(x.X) && se.stableOperand(x.Y)
		}
	case *ast.CallExpr:
		if id := identOf(x.Fun); id != nil && id.Name == "len" && len(x.Args) == 1 {
			if _, isB := se.info.Uses[id].(*types.Builtin); isB {
				return se.stableOperand(x.Args[0])
			}
		}
	}
	return false
}

// fieldAssignedNear: the function declaration around pos assigns some x.<field>.
func (se *symExec) fieldAssignedNear(pos token.Pos, field string) bool {
	for _, f := range se.c.Files(se.p) {
		if pos < f.Pos() || pos > f.End() {
			continue
		}
		for _, d := range f.Decls {
			fd, ok := d.(*ast.FuncDecl)
			if !ok || fd.Body == nil || pos < fd.Pos() || pos > fd.End() {
				continue
			}
			found := false
			ast.Inspect(fd.Body, func(n ast.Node) bool {
				if as, ok := n.(*ast.AssignStmt); ok {
					for _, l := range as.Lhs {
						if sel, ok := unparen(l).(*ast.SelectorExpr); ok && sel.Sel.Name == field {
							found = true
						}
					}
				}
				return !found
			})
			return found
		}
	}
	return true
}

// strConstText: the text under which a string constant appears in a table: itself when short, otherwise its
// beginning and a checksum of the whole.
func strConstText(quoted string) string {
	if len(quoted) <= 48 {
		return quoted
	}
	h := fnv.New32a()
	h.Write([]byte(quoted))
	return fmt.Sprintf("%s…#%08x\"", quoted[:32], h.Sum32())
}

// callFree: the expression contains no call other than conversions.
func callFree(e ast.Expr) bool {
	ok := true
	ast.Inspect(e, func(n ast.Node) bool {
		if call, isCall := n.(*ast.CallExpr); isCall {
			if len(call.Args) == 1 {
				switch f := unparen(call.Fun).(type) {
				case *ast.Ident:
					if f.Name == "string" || f.Name == "int" || f.Name == "rune" || f.Name == "byte" {
						return true
					}
				}
			}
			ok = false
		}
		return ok
	})
	return ok
}

func isPurePath(e ast.Expr) bool {
	switch x := unparen(e).(type) {
	case *ast.Ident:
		return x.Name != "_" && x.Name != "nil"
	case *ast.SelectorExpr:
		return isPurePath(x.X)
	}
	return false
}

// singleton: a package-level variable of pointer type that is initialised where it is declared and never
// assigned again (py.StopIteration, py.None, …): it is not nil.
func (se *symExec) singleton(obj types.Object) bool {
	v, ok := obj.(*types.Var)
	if !ok || v.Pkg() == nil || v.Parent() != v.Pkg().Scope() {
		return false
	}
	if _, isPtr := v.Type().Underlying().(*types.Pointer); !isPtr {
		return false
	}
	p := se.c.Pkgs[v.Pkg().Path()]
	if p == nil {
		return false
	}
	if se.singletons == nil {
		se.singletons = map[types.Object]bool{}
	}
	if r, ok := se.singletons[obj]; ok {
		return r
	}
	inited, assigned := false, false
	for _, f := range se.c.Files(p) {
		ast.Inspect(f, func(n ast.Node) bool {
			switch y := n.(type) {
			case *ast.ValueSpec:
				for i, nm := range y.Names {
					if p.TypesInfo.Defs[nm] == obj && (i < len(y.Values) || len(y.Values) == 1) {
						inited = true
					}
				}
			case *ast.AssignStmt:
				for _, l := range y.Lhs {
					if id := identOf(l); id != nil && p.TypesInfo.Uses[id] == obj {
						assigned = true
					}
				}
			case *ast.UnaryExpr:
				if id := identOf(y.X); y.Op == token.AND && id != nil && p.TypesInfo.Uses[id] == obj {
					assigned = true
				}
			}
			return true
		})
	}
	se.singletons[obj] = inited && !assigned
	return inited && !assigned
}

// assignCount: how often the object is assigned (or has its address taken) anywhere in its package.
func (se *symExec) assignCount(obj types.Object) int {
	if se.assignCounts == nil {
		se.assignCounts = map[types.Object]int{}
		note := func(e ast.Expr) {
			if id := identOf(e); id != nil {
				if o := se.info.Defs[id]; o != nil {
					se.assignCounts[o]++
				} else if o := se.info.Uses[id]; o != nil {
					se.assignCounts[o]++
				}
			}
		}
		for _, f := range se.c.Files(se.p) {
			ast.Inspect(f, func(n ast.Node) bool {
				switch y := n.(type) {
				case *ast.AssignStmt:
					for _, l := range y.Lhs {
						note(l)
					}
				case *ast.IncDecStmt:
					note(y.X)
				case *ast.RangeStmt:
					note(y.Key)
					note(y.Value)
				case *ast.UnaryExpr:
					if y.Op == token.AND {
						note(y.X)
						note(y.X)
					}
				}
				return true
			})
		}
	}
	return se.assignCounts[obj]
}

// canon renders an expression with the handler's parameter names normalised.
// flagName: a local boolean variable is shown as flag1, flag2, … by the order in which the boolean locals of its
// function are declared, so that renaming it changes no row.
func (se *symExec) flagName(obj types.Object) string {
	v, ok := obj.(*types.Var)
	if !ok || v.IsField() || v.Pkg() == nil || v.Parent() == nil || v.Parent() == v.Pkg().Scope() {
		return ""
	}
	if b, ok := v.Type().Underlying().(*types.Basic); !ok || b.Kind() != types.Bool {
		return ""
	}
	if se.flagNames == nil {
		se.flagNames = map[types.Object]string{}
		for _, f := range se.c.Files(se.p) {
			for _, d := range f.Decls {
				fd, ok := d.(*ast.FuncDecl)
				if !ok || fd.Body == nil {
					continue
				}
				k := 0
				ast.Inspect(fd.Body, func(n ast.Node) bool {
					id, ok := n.(*ast.Ident)
					if !ok {
						return true
					}
					if o, ok := se.info.Defs[id].(*types.Var); ok && o != nil && !o.IsField() {
						if b, ok := o.Type().Underlying().(*types.Basic); ok && b.Kind() == types.Bool {
							k++
							se.flagNames[o] = fmt.Sprintf("flag%d", k)
						}
					}
					return true
				})
			}
		}
	}
	return se.flagNames[obj]
}

// enumConst: the first of the expressions that names a constant of a named (enumeration-like) type, as written.
func (se *symExec) enumConst(es ...ast.Expr) string {
	for _, e := range es {
		var id *ast.Ident
		switch x := unparen(e).(type) {
		case *ast.Ident:
			id = x
		case *ast.SelectorExpr:
			id = x.Sel
		}
		if id == nil {
			continue
		}
		if c, ok := se.info.Uses[id].(*types.Const); ok {
			if _, named := c.Type().(*types.Named); named {
				if c.Pkg() != nil && c.Pkg() != se.p.Types {
					return c.Pkg().Name() + "." + c.Name()
				}
				return c.Name()
			}
		}
	}
	return ""
}

func (se *symExec) canon(e ast.Expr) string {
	s := exprStr(e)
	// a conversion to the type the operand already has (string(line) for a string) changes nothing and does not show
	ast.Inspect(e, func(n ast.Node) bool {
		call, ok := n.(*ast.CallExpr)
		if !ok || len(call.Args) != 1 {
			return true
		}
		if tv, ok := se.info.Types[call.Fun]; ok && tv.IsType() {
			if at, ok := se.info.Types[call.Args[0]]; ok && at.Type != nil && types.Identical(at.Type, tv.Type) {
				s = strings.Replace(s, exprStr(call), exprStr(call.Args[0]), 1)
			}
		}
		return true
	})
	repl := map[string]string{}
	ast.Inspect(e, func(n ast.Node) bool {
		if id, ok := n.(*ast.Ident); ok {
			if nm, ok := se.params[se.info.Uses[id]]; ok && nm != id.Name {
				repl[id.Name] = nm
			} else if !ok {
				if nm := se.flagName(se.info.Uses[id]); nm != "" {
					repl[id.Name] = nm
				}
			}
		}
		return true
	})
	if len(repl) == 0 {
		return s
	}
	// two-phase replacement so that a replacement text is never rewritten again
	i := 0
	ph := map[string]string{}
	for name, nm := range repl {
		p := fmt.Sprintf("\x00%d\x00", i)
		i++
		s = replaceIdent(s, name, p)
		ph[p] = nm
	}
	for p, nm := range ph {
		s = strings.ReplaceAll(s, p, nm)
	}
	return s
}

func (se *symExec) assignTo(lhs ast.Expr, v val, st *sstate, pos token.Pos, src string) {
	lhs = unparen(lhs)
	switch l := lhs.(type) {
	case *ast.Ident:
		if l.Name == "_" {
			return
		}
		obj := se.info.Defs[l]
		if obj == nil {
			obj = se.info.Uses[l]
		}
		if obj != nil {
			if len(st.known) > 0 {
				st.forget(l.Name)
				if nm, ok := se.params[obj]; ok {
					st.forget(nm)
				}
			}
			st.vars[obj] = v
			if v.kind == vStack && se.assignCount(obj) == 1 {
				if se.stackAlias == nil {
					se.stackAlias = map[types.Object]bool{}
				}
				se.stackAlias[obj] = true
			}
			se.nameByDesc(obj, v)
		}
		return
	case *ast.SelectorExpr:
		if se.isStack(l) {
			// vm.frame.Stack = <expr>
			if v.kind == vStack {
				switch {
				case v.desc == "append-done": // pushes already applied
				case v.lin != nil:
					n := st.h.sub(v.lin)
					if n.isConst() && n.c >= 0 && !strings.HasPrefix(v.desc, "append") {
						st.pop(int(n.c))
					} else if !strings.HasPrefix(v.desc, "append") {
						// truncation to a symbolic level: track what is pushed above it from here on
						st.h = v.lin.clone()
						st.conc = true
						st.pushed = nil
						st.base = 0
						st.rebased = v.lin.String()
					} else {
						st.h = v.lin.clone()
						st.conc = false
					}
				}
				return
			}
			st.undecided(pos, "assignment to the evaluation stack with a value the interpreter cannot model")
			return
		}
		st.seq++
		st.assigns = append(st.assigns, assignRec{lhs: se.canon(l), rhs: v, src: src, pos: pos, seq: st.seq})
		if st.selVals != nil {
			// later reads of this field on this path see the assigned value
			if v.kind != vUnknown || v.desc != "" {
				st.selVals[se.canon(l)] = v
			} else {
				delete(st.selVals, se.canon(l))
			}
		}
		return
	case *ast.IndexExpr:
		if se.isStack(l.X) {
			// write into a stack slot
			idx := se.evalInt(l.Index, st)
			if idx != nil {
				d := st.h.sub(idx).add(linConst(-1)) // depth from top = h-1-idx
				if d.isConst() && d.c >= 0 {
					st.writeDepth(int(d.c), v)
					return
				}
			}
			// write at a symbolic position: content unknown from now on, height unchanged
			st.conc = false
			return
		}
		st.seq++
		st.assigns = append(st.assigns, assignRec{lhs: se.canon(l), rhs: v, src: src, pos: pos, seq: st.seq})
		st.forgetText(se.canon(l.X) + "[") // what was known about the container's elements no longer holds
		return
	case *ast.StarExpr:
		st.seq++
		st.assigns = append(st.assigns, assignRec{lhs: se.canon(l), rhs: v, src: src, pos: pos, seq: st.seq})
		return
	}
	st.undecided(pos, "assignment target %s not handled", exprStr(lhs))
}

// evalInt evaluates an integer expression to a linear form without side effects on failure (nil = not linear).
func (se *symExec) evalInt(e ast.Expr, st *sstate) *lin {
	rs := se.eval(e, st.clone())
	if len(rs) != 1 || rs[0].v.kind != vInt {
		return nil
	}
	return rs[0].v.lin
}

func (se *symExec) evalList(es []ast.Expr, st *sstate) []struct {
	st *sstate
	vs []val
} {
	type acc = struct {
		st *sstate
		vs []val
	}
	cur := []acc{{st, nil}}
	for _, e := range es {
		var next []acc
		for _, a := range cur {
			for _, r := range se.eval(e, a.st) {
				next = append(next, acc{r.st, append(append([]val{}, a.vs...), r.v)})
			}
		}
		cur = next
	}
	return cur
}

func one(st *sstate, v val) []ev { return []ev{{st, v}} }

// constVal returns the abstract value of a constant expression.
func (se *symExec) constOf(e ast.Expr) (val, bool) {
	tv, ok := se.info.Types[e]
	if !ok || tv.Value == nil {
		return val{}, false
	}
	if n, ok := constToInt(tv); ok && tv.Value.Kind() == constant.Int {
		return val{kind: vInt, lin: linConst(n)}, true
	}
	if tv.Value.Kind() == constant.Bool {
		return val{kind: vBool, bk: true, b: constant.BoolVal(tv.Value)}, true
	}
	return val{}, false
}

// symInt turns an unknown value of integer type into a named symbol.
func (se *symExec) symInt(e ast.Expr, v val) val {
	if v.kind != vUnknown || v.lin != nil {
		return v
	}
	tv, ok := se.info.Types[e]
	if !ok {
		return v
	}
	if b, ok := tv.Type.Underlying().(*types.Basic); ok && b.Info()&types.IsInteger != 0 {
		d := v.desc
		if d == "" || d == "lit" {
			d = se.canon(e)
		}
		return val{kind: vInt, lin: linSym(d)}
	}
	return v
}

func (se *symExec) eval(e ast.Expr, st *sstate) []ev {
	switch x := e.(type) {
	case *ast.ParenExpr:
		return se.eval(x.X, st)
	case *ast.BasicLit, *ast.FuncLit, *ast.CompositeLit:
		if tv, ok := se.info.Types[e]; ok && tv.Value != nil {
			if n, ok := constToInt(tv); ok {
				return one(st, val{kind: vInt, lin: linConst(n)})
			}
		}
		if cl, ok := e.(*ast.CompositeLit); ok {
			// evaluate element expressions for their stack effects, in order
			var elts []ast.Expr
			for _, el := range cl.Elts {
				if kv, ok := el.(*ast.KeyValueExpr); ok {
					elts = append(elts, kv.Value)
				} else {
					elts = append(elts, el)
				}
			}
			var out []ev
			for _, r := range se.evalList(elts, st) {
				var ds []string
				for _, v := range r.vs {
					ds = append(ds, v.String())
				}
				out = append(out, ev{r.st, unk("composite[" + strings.Join(ds, ",") + "]")})
			}
			return out
		}
		if fl, ok := e.(*ast.FuncLit); ok {
			if se.touchesStack(fl.Body) {
				st.undecided(fl.Pos(), "closure manipulates the evaluation stack")
			}
			return one(st, val{kind: vUnknown, desc: "funclit", lit: fl})
		}
		if bl, ok := e.(*ast.BasicLit); ok && se.tableMode && (bl.Kind == token.STRING || bl.Kind == token.CHAR) {
			// decision tables: string constants (attribute names, messages) are part of the decision
			return one(st, unk(strConstText(bl.Value)))
		}
		return one(st, unk("lit"))
	case *ast.Ident:
		if cv, ok := se.constOf(e); ok {
			return one(st, cv)
		}
		// a named string constant reads as the literal it stands for
		if tv, ok := se.info.Types[e]; ok && tv.Value != nil && tv.Value.Kind() == constant.String && se.tableMode {
			return one(st, unk(strConstText(strconv.Quote(constant.StringVal(tv.Value)))))
		}
		if x.Name == "nil" {
			return one(st, val{kind: vErrNil})
		}
		if x.Name == "true" || x.Name == "false" {
			return one(st, val{kind: vBool, bk: true, b: x.Name == "true"})
		}
		if obj := se.info.Uses[x]; obj != nil {
			if v, ok := st.vars[obj]; ok {
				return one(st, se.symInt(e, v))
			}
			if f, ok := obj.(*types.Func); ok {
				v := unk(FuncID(f))
				v.fnv = f
				return one(st, v)
			}
			nm := x.Name
			if p, ok := se.params[obj]; ok && se.tableMode {
				nm = p // the canonical name of a parameter, receiver or alias
			}
			v := unk(nm)
			v.nn = se.singleton(obj)
			return one(st, se.symInt(e, v))
		}
		return one(st, unk(x.Name))
	case *ast.SelectorExpr:
		if cv, ok := se.constOf(e); ok {
			return one(st, cv)
		}
		if se.isStack(x) {
			return one(st, val{kind: vStack})
		}
		if st.selVals != nil {
			if v, ok := st.selVals[se.canon(x)]; ok {
				return one(st, v)
			}
		}
		// field read: evaluate the base for effects
		if _, isPkg := se.info.Uses[identOf(x.X)].(*types.PkgName); isPkg {
			v := unk(se.canon(x))
			if f, ok := se.info.Uses[x.Sel].(*types.Func); ok {
				v.fnv = f // py.Add handed to a helper as a value
			}
			return one(st, v)
		}
		var out []ev
		for _, r := range se.eval(x.X, st) {
			if r.v.elem != nil {
				// a field of an element of a table literal: what the literal says
				if fe := fieldOfElem(se.info, r.v.elem, x.Sel.Name); fe != nil {
					out = append(out, se.eval(fe, r.st)...)
					continue
				}
			}
			d := se.canon(x)
			if r.v.kind == vSlot {
				d = fmt.Sprintf("slot%d.%s", r.v.slot, x.Sel.Name)
			} else if se.emitMode && r.v.kind == vUnknown && r.v.desc != "" && r.v.desc != "lit" {
				d = r.v.desc + "." + x.Sel.Name
			}
			out = append(out, ev{r.st, se.symInt(e, unk(d))})
		}
		return out
	case *ast.StarExpr:
		return se.eval(x.X, st)
	case *ast.UnaryExpr:
		var out []ev
		for _, r := range se.eval(x.X, st) {
			switch {
			case x.Op == token.SUB && r.v.kind == vInt:
				out = append(out, ev{r.st, val{kind: vInt, lin: r.v.lin.scale(-1)}})
			case x.Op == token.NOT && r.v.kind == vBool && r.v.bk:
				out = append(out, ev{r.st, val{kind: vBool, bk: true, b: !r.v.b}})
			case x.Op == token.NOT:
				out = append(out, ev{r.st, val{kind: vBool, desc: "!" + r.v.desc}})
			case x.Op == token.AND:
				out = append(out, ev{r.st, r.v})
			default:
				out = append(out, ev{r.st, unk(se.canon(x))})
			}
		}
		return out
	case *ast.BinaryExpr:
		var out []ev
		for _, l := range se.eval(x.X, st) {
			for _, r := range se.eval(x.Y, l.st) {
				out = append(out, ev{r.st, se.binop(x, l.v, r.v)})
			}
		}
		return out
	case *ast.TypeAssertExpr:
		return se.eval(x.X, st) // identity is preserved; a failing assertion panics (C10's business)
	case *ast.IndexExpr:
		if se.isStack(x.X) {
			var out []ev
			for _, r := range se.eval(x.Index, st) {
				if r.v.kind == vInt {
					d := r.st.h.sub(r.v.lin).add(linConst(-1))
					if d.isConst() && d.c >= 0 {
						out = append(out, ev{r.st, r.st.readDepth(int(d.c))})
						continue
					}
				}
				out = append(out, ev{r.st, unk("stack[?]")})
			}
			return out
		}
		if at := arrayTableOf(se.c, se.info, x.X); at != nil && at.info == se.info {
			// an element of a read-only table literal, selected by a constant: the element's literal
			if ks := se.eval(x.Index, st); len(ks) == 1 && ks[0].v.kind == vInt && ks[0].v.lin.isConst() {
				if cl := at.elems[ks[0].v.lin.c]; cl != nil {
					v := unk(fmt.Sprintf("%s[%d]", at.v.Name(), ks[0].v.lin.c))
					v.elem = cl
					return one(ks[0].st, v)
				}
			}
		}
		var out []ev
		for _, b := range se.eval(x.X, st) {
			for _, r := range se.eval(x.Index, b.st) {
				d := se.canon(x)
				if se.emitMode && b.v.kind == vUnknown && b.v.desc != "" {
					ix := r.v.String()
					if r.v.kind == vInt && !r.v.lin.isConst() {
						ix = "*" // an element selected by a loop index
						if s, ok := r.v.lin.singleSym(); !ok || !(strings.HasPrefix(s, "loop:") || strings.HasPrefix(s, "idx(")) {
							ix = r.v.lin.String()
						}
					}
					d = b.v.desc + "[" + ix + "]"
				}
				out = append(out, ev{r.st, se.symInt(e, unk(d))})
			}
		}
		return out
	case *ast.SliceExpr:
		if se.isStack(x.X) {
			// a view of the stack: evaluate bounds; produce a described value
			cur := []ev{{st, unk("")}}
			lo, hi := "", ""
			var loL, hiL *lin
			if x.Low != nil {
				loL = se.evalInt(x.Low, st)
				if loL != nil {
					lo = loL.String()
				}
			}
			if x.High != nil {
				hiL = se.evalInt(x.High, st)
				if hiL != nil {
					hi = hiL.String()
				}
			} else {
				hiL = st.h
			}
			v := val{kind: vStack, desc: fmt.Sprintf("stack[%s:%s]", lo, hi)}
			if x.Low == nil && hiL != nil {
				v.lin = hiL // stack[:hi] -> candidate new height
			} else if loL != nil && hiL != nil {
				v.desc = fmt.Sprintf("stackview len=%s", hiL.sub(loL))
				v.kind = vUnknown
				v.lin = hiL.sub(loL)
			} else {
				v.kind = vUnknown
			}
			return []ev{{cur[0].st, v}}
		}
		var out []ev
		for _, b := range se.eval(x.X, st) {
			out = append(out, ev{b.st, unk(se.canon(x))})
		}
		return out
	case *ast.CallExpr:
		var out []ev
		for _, pr := range se.evalCallMulti(x, st) {
			v := unk("call")
			if len(pr.rets) > 0 {
				v = pr.rets[0]
			}
			out = append(out, ev{pr.st, v})
		}
		return out
	case *ast.KeyValueExpr:
		return se.eval(x.Value, st)
	}
	st.undecided(e.Pos(), "expression form %T not handled", e)
	return one(st, unk(""))
}

func identOf(e ast.Expr) *ast.Ident {
	id, _ := unparen(e).(*ast.Ident)
	return id
}

func (se *symExec) binop(x *ast.BinaryExpr, l, r val) val {
	if l.kind == vInt && r.kind == vInt {
		switch x.Op {
		case token.ADD:
			return val{kind: vInt, lin: l.lin.add(r.lin)}
		case token.SUB:
			return val{kind: vInt, lin: l.lin.sub(r.lin)}
		case token.MUL:
			if l.lin.isConst() {
				return val{kind: vInt, lin: r.lin.scale(l.lin.c)}
			}
			if r.lin.isConst() {
				return val{kind: vInt, lin: l.lin.scale(r.lin.c)}
			}
		case token.AND, token.SHR, token.SHL:
			if l.lin.isConst() && r.lin.isConst() {
				switch x.Op {
				case token.AND:
					return val{kind: vInt, lin: linConst(l.lin.c & r.lin.c)}
				case token.SHR:
					return val{kind: vInt, lin: linConst(l.lin.c >> uint(r.lin.c))}
				case token.SHL:
					return val{kind: vInt, lin: linConst(l.lin.c << uint(r.lin.c))}
				}
			}
			if r.lin.isConst() {
				if s, ok := l.lin.singleSym(); ok {
					return val{kind: vInt, lin: linSym(bitsSym(s, x.Op, r.lin.c))}
				}
				// (a - b) << k is (a - b) * 2**k
				if x.Op == token.SHL && r.lin.c >= 0 && r.lin.c < 31 {
					return val{kind: vInt, lin: l.lin.scale(1 << uint(r.lin.c))}
				}
			}
		case token.EQL, token.NEQ, token.LSS, token.LEQ, token.GTR, token.GEQ:
			d := l.lin.sub(r.lin)
			if d.isConst() {
				var b bool
				switch x.Op {
				case token.EQL:
					b = d.c == 0
				case token.NEQ:
					b = d.c != 0
				case token.LSS:
					b = d.c < 0
				case token.LEQ:
					b = d.c <= 0
				case token.GTR:
					b = d.c > 0
				case token.GEQ:
					b = d.c >= 0
				}
				return val{kind: vBool, bk: true, b: b}
			}
			return val{kind: vBool, desc: se.canon(x), lin: d, cmp: x.Op.String(), cnam: se.enumConst(x.X, x.Y)}
		}
		return unk(se.canon(x))
	}
	switch x.Op {
	case token.EQL, token.NEQ:
		// a package-level singleton is not nil
		if (l.nn && r.kind == vErrNil) || (r.nn && l.kind == vErrNil) {
			return val{kind: vBool, bk: true, b: x.Op == token.NEQ}
		}
		// error nil tests
		if (l.kind == vErrNil || l.kind == vErrNonNil) && r.kind == vErrNil {
			isNil := l.kind == vErrNil
			return val{kind: vBool, bk: true, b: (x.Op == token.EQL) == isNil}
		}
		// an operand that holds a described value (the result of a call kept in a local) is shown as that value
		side := func(e ast.Expr, v val) string {
			_, isId := unparen(e).(*ast.Ident)
			if _, isCall := unparen(e).(*ast.CallExpr); isCall {
				isId = true // the call itself, not kept in a local
			}
			if isId && v.kind == vUnknown && v.desc != "" && v.desc != "lit" && v.lit == nil && strings.Contains(v.desc, "#") {
				return v.desc
			}
			return se.canon(e)
		}
		return val{kind: vBool, desc: side(x.X, l) + " " + x.Op.String() + " " + side(x.Y, r)}
	case token.LAND, token.LOR, token.LSS, token.LEQ, token.GTR, token.GEQ:
		return val{kind: vBool, desc: se.canon(x)}
	}
	return unk(se.canon(x))
}

// posForm gives a canonical positive form of a condition text and whether the text asserts it.
//
//	a != b  ->  (a == b, false);   a == b -> (a == b, true);   x -> (x, true)
func posForm(c string) (string, bool) {
	if i := strings.Index(c, " != "); i > 0 && !strings.Contains(c, "&&") && !strings.Contains(c, "||") {
		return c[:i] + " == " + c[i+4:], false
	}
	return c, true
}

// forgetText drops decided conditions whose text contains t.
func (s *sstate) forgetText(t string) {
	for k := range s.known {
		if strings.Contains(k, t) {
			delete(s.known, k)
		}
	}
}

// forget drops decided conditions that mention a reassigned variable.
func (s *sstate) forget(name string) {
	for k := range s.known {
		if containsIdent(k, name) {
			delete(s.known, k)
		}
	}
}

func containsIdent(s, name string) bool {
	for i := 0; i+len(name) <= len(s); i++ {
		if s[i:i+len(name)] == name {
			before := i == 0 || !isIdentChar(s[i-1])
			after := i+len(name) >= len(s) || !isIdentChar(s[i+len(name)])
			if before && after {
				return true
			}
		}
	}
	return false
}

func nonNegSym(s string) bool {
	if strings.HasPrefix(s, "len(") {
		return true
	}
	if strings.HasPrefix(s, "bits(") {
		return !strings.HasSuffix(s, ",-1)")
	}
	return false
}

// bitsSym gives the canonical name of a bit-field of a symbol.
//
//	s & m        -> bits(s,0,m)
//	s >> k       -> bits(s,k,-1)
//	bits(s,k,-1) & m -> bits(s,k,m)
func bitsSym(s string, op token.Token, c int64) string {
	base, shift, mask := s, int64(0), int64(-1)
	if strings.HasPrefix(s, "bits(") {
		var b string
		inner := s[5 : len(s)-1]
		parts := strings.Split(inner, ",")
		if len(parts) == 3 {
			b = parts[0]
			fmt.Sscanf(parts[1], "%d", &shift)
			fmt.Sscanf(parts[2], "%d", &mask)
			base = b
		}
	}
	switch op {
	case token.AND:
		if mask == -1 {
			mask = c
		} else {
			mask &= c
		}
	case token.SHR:
		if mask != -1 {
			mask >>= uint(c)
		}
		shift += c
	case token.SHL:
		return fmt.Sprintf("(%s<<%d)", s, c)
	}
	// The annotation-count field of MAKE_FUNCTION/MAKE_CLOSURE is read as (arg>>16)&0x7fff by the VM and
	// as (arg>>16)&0xffff by the compiler's table, exactly as in CPython 3.4 (ceval.c / compile.c); the two
	// agree for every operand the compiler can produce (a function has at most 255+ parameters), so the
	// masks are identified.
	if shift == 16 && mask == 0xffff {
		mask = 0x7fff
	}
	return fmt.Sprintf("bits(%s,%d,%d)", base, shift, mask)
}

func (se *symExec) touchesStack(n ast.Node) bool {
	found := false
	ast.Inspect(n, func(m ast.Node) bool {
		switch y := m.(type) {
		case *ast.SelectorExpr:
			if se.isStack(y) {
				found = true
			}
		case *ast.CallExpr:
			if fn := Callee(se.info, y); fn != nil && fn.Pkg() == se.p.Types {
				if fd := se.c.Decl(fn); fd != nil && fd != n {
					// a vm function: conservatively assume it may touch the stack if its body mentions it
					if se.mentionsStackShallow(fd) {
						found = true
					}
				}
			}
		}
		return true
	})
	return found
}

func (se *symExec) mentionsStackShallow(fd *ast.FuncDecl) bool {
	found := false
	ast.Inspect(fd.Body, func(m ast.Node) bool {
		if y, ok := m.(*ast.SelectorExpr); ok && se.isStack(y) {
			found = true
		}
		return true
	})
	return found
}

// branch splits a state on a condition.
func (se *symExec) branch(cond ast.Expr, st *sstate) (tr, fa []*sstate) {
	cond = unparen(cond)
	if b, ok := cond.(*ast.BinaryExpr); ok {
		switch b.Op {
		case token.LAND:
			t1, f1 := se.branch(b.X, st)
			fa = append(fa, f1...)
			for _, s := range t1 {
				t2, f2 := se.branch(b.Y, s)
				tr = append(tr, t2...)
				fa = append(fa, f2...)
			}
			return
		case token.LOR:
			t1, f1 := se.branch(b.X, st)
			tr = append(tr, t1...)
			for _, s := range f1 {
				t2, f2 := se.branch(b.Y, s)
				tr = append(tr, t2...)
				fa = append(fa, f2...)
			}
			return
		}
	}
	if u, ok := cond.(*ast.UnaryExpr); ok && u.Op == token.NOT {
		f, t := se.branch(u.X, st)
		return t, f
	}
	for _, r := range se.eval(cond, st) {
		if r.v.kind == vBool && r.v.bk {
			if r.v.b {
				tr = append(tr, r.st)
			} else {
				fa = append(fa, r.st)
			}
			continue
		}
		if b, ok := cond.(*ast.BinaryExpr); ok && (b.Op == token.EQL || b.Op == token.NEQ) && r.v.kind == vBool && r.v.lin != nil {
			// decided by what the path already knows?
			known, isEq := false, false
			red := reduceWith(r.v.lin, r.st.eqs)
			if red.isConst() {
				known, isEq = true, red.c == 0
			} else {
				for _, n := range r.st.nes {
					if n.equal(r.v.lin) || n.equal(r.v.lin.scale(-1)) {
						known, isEq = true, false
					}
				}
			}
			if known {
				if isEq == (b.Op == token.EQL) {
					tr = append(tr, r.st)
				} else {
					fa = append(fa, r.st)
				}
				continue
			}
		}
		// the two texts of this test: as asserted and as denied
		cs := se.canon(cond)
		if r.v.kind == vBool && r.v.desc != "" && identOf(cond) != nil {
			cs = r.v.desc // a flag variable is shown as the test that produced it
		}
		if be, ok := cond.(*ast.BinaryExpr); ok && (be.Op == token.EQL || be.Op == token.NEQ) && r.v.kind == vBool && r.v.desc != "" && r.v.lin == nil {
			cs = r.v.desc // operands holding described values are shown as those values
		}
		if call, isCall := cond.(*ast.CallExpr); isCall && se.tableMode && len(r.st.calls) > 0 {
			// a predicate call is shown with the values of its operands, not the names of the locals holding them
			if last := r.st.calls[len(r.st.calls)-1]; last.pos == call.Pos() {
				var as []string
				for _, a := range last.args {
					as = append(as, a.String())
				}
				recv := ""
				if last.recv != nil {
					recv = last.recv.String() + "."
				}
				short := last.callee
				if i := strings.LastIndex(short, ")."); i >= 0 {
					short = short[i+2:]
				}
				cs = recv + short + "(" + strings.Join(as, ", ") + ")"
			}
		}
		posT, negT := normCond(cs), normCond("!("+cs+")")
		if r.v.kind == vBool && r.v.lin != nil && negOp[r.v.cmp] != "" {
			// an integer comparison (or a flag holding one): canonical linear form, whatever the way it is written
			posT, negT = linCondNamed(r.v.lin, r.v.cmp, r.v.cnam), linCondNamed(r.v.lin, negOp[r.v.cmp], r.v.cnam)
		}
		// a condition already decided on this path (and whose operands were not reassigned since)
		if v, ok := r.st.known[posT]; ok {
			if v {
				tr = append(tr, r.st)
			} else {
				fa = append(fa, r.st)
			}
			continue
		}
		t, f := r.st, r.st.clone()
		if t.known == nil {
			t.known = map[string]bool{}
		}
		if f.known == nil {
			f.known = map[string]bool{}
		}
		t.known[posT], t.known[negT] = true, false
		f.known[posT], f.known[negT] = false, true
		if id := identOf(cond); id != nil {
			if obj := se.info.Uses[id]; obj != nil {
				if bt, ok := obj.Type().Underlying().(*types.Basic); ok && bt.Kind() == types.Bool {
					t.vars[obj] = val{kind: vBool, bk: true, b: true}
					f.vars[obj] = val{kind: vBool, bk: true, b: false}
				}
			}
		}
		t.conds = append(t.conds, posT)
		f.conds = append(f.conds, negT)
		// refine: !(e > 0) for a non-negative quantity (masked bit-field, length) means e == 0
		if b, ok := cond.(*ast.BinaryExpr); ok && b.Op == token.GTR && r.v.kind == vBool && r.v.lin != nil {
			if sym, ok := r.v.lin.singleSym(); ok && nonNegSym(sym) {
				f.eqs = append(f.eqs, r.v.lin)
			}
		}
		// refine
		if b, ok := cond.(*ast.BinaryExpr); ok && (b.Op == token.EQL || b.Op == token.NEQ) {
			if r.v.kind == vBool && r.v.lin != nil {
				if b.Op == token.EQL {
					t.eqs = append(t.eqs, r.v.lin)
					f.nes = append(f.nes, r.v.lin)
				} else {
					f.eqs = append(f.eqs, r.v.lin)
					t.nes = append(t.nes, r.v.lin)
				}
			}
			// err ==/!= nil refinement
			if id := identOf(b.X); id != nil {
				if y := identOf(b.Y); y != nil && y.Name == "nil" {
					if obj := se.info.Uses[id]; obj != nil && obj.Type().String() == "error" {
						if b.Op == token.EQL {
							t.vars[obj] = val{kind: vErrNil}
							f.vars[obj] = val{kind: vErrNonNil}
						} else {
							t.vars[obj] = val{kind: vErrNonNil}
							f.vars[obj] = val{kind: vErrNil}
						}
					}
				}
			}
		}
		tr = append(tr, t)
		fa = append(fa, f)
	}
	return
}

func (se *symExec) execSwitch(x *ast.SwitchStmt, st *sstate) (fall []*sstate, rets []pathResult) {
	cur := []*sstate{st}
	if x.Init != nil {
		f, r := se.execStmt(x.Init, st)
		cur, rets = f, append(rets, r...)
	}
	lc := &loopCtl{}
	loopStack = append(loopStack, lc) // `break` inside a switch leaves the switch
	defer func() { loopStack = loopStack[:len(loopStack)-1] }()
	for _, c0 := range cur {
		var tagv *val
		base := c0
		if x.Tag != nil {
			rs := se.eval(x.Tag, c0)
			if len(rs) != 1 {
				c0.undecided(x.Pos(), "switch tag forks")
				fall = append(fall, c0)
				continue
			}
			base = rs[0].st
			v := rs[0].v
			tagv = &v
		}
		clauses := x.Body.List
		var dflt *ast.CaseClause
		dfltIdx := -1
		remaining := base // state in which no earlier case matched
		runFrom := func(i int, s *sstate) {
			// execute clause i, following fallthrough
			sts := []*sstate{s}
			for j := i; j < len(clauses); j++ {
				cc := clauses[j].(*ast.CaseClause)
				body := cc.Body
				ft := false
				if n := len(body); n > 0 {
					if b, ok := body[n-1].(*ast.BranchStmt); ok && b.Tok == token.FALLTHROUGH {
						ft = true
						body = body[:n-1]
					}
				}
				f, r := se.execStmts(body, sts)
				rets = append(rets, r...)
				if !ft {
					fall = append(fall, f...)
					return
				}
				sts = f
			}
			fall = append(fall, sts...)
		}
		if tagv == nil {
			// a tagless switch is an if / else-if chain: every state in which the earlier cases failed goes on
			for i, cl := range clauses {
				if cl.(*ast.CaseClause).List == nil {
					dflt, dfltIdx = cl.(*ast.CaseClause), i
				}
			}
			var chain func(i int, s *sstate)
			chain = func(i int, s *sstate) {
				for i < len(clauses) && clauses[i].(*ast.CaseClause).List == nil {
					i++
				}
				if i >= len(clauses) {
					if dflt != nil {
						runFrom(dfltIdx, s)
					} else {
						fall = append(fall, s)
					}
					return
				}
				states := []*sstate{s}
				for _, ce := range clauses[i].(*ast.CaseClause).List {
					var next []*sstate
					for _, st0 := range states {
						tr, fa := se.branch(ce, st0)
						for _, t := range tr {
							runFrom(i, t)
						}
						next = append(next, fa...)
					}
					states = next
				}
				for _, st0 := range states {
					chain(i+1, st0)
				}
			}
			chain(0, base)
			continue
		}
		for i, cl := range clauses {
			cc := cl.(*ast.CaseClause)
			if cc.List == nil {
				dflt, dfltIdx = cc, i
				continue
			}
			if remaining == nil {
				break
			}
			for _, ce := range cc.List {
				if remaining == nil {
					break
				}
				if tagv != nil {
					cv := se.evalInt(ce, remaining)
					if tagv.kind == vInt && cv != nil {
						d := tagv.lin.sub(cv)
						if d.isConst() {
							if d.c == 0 {
								runFrom(i, remaining)
								remaining = nil
							}
							continue
						}
						// contradicts an earlier disequality?
						excluded := false
						for _, n := range remaining.nes {
							if n.equal(d) || n.equal(d.scale(-1)) {
								excluded = true
							}
						}
						if excluded {
							continue
						}
						// contradicts an earlier equality?
						red := reduceWith(d, remaining.eqs)
						if red.isConst() {
							if red.c == 0 {
								runFrom(i, remaining)
								remaining = nil
							}
							continue
						}
						t := remaining.clone()
						t.eqs = append(t.eqs, d)
						cn := se.enumConst(ce)
						t.conds = append(t.conds, linCondNamed(d, "==", cn))
						runFrom(i, t)
						remaining.nes = append(remaining.nes, d)
						remaining.conds = append(remaining.conds, linCondNamed(d, "!=", cn))
						continue
					}
					t := remaining.clone()
					tagS := se.canon(x.Tag)
					if tagv.kind == vUnknown && tagv.desc != "" && tagv.lit == nil && se.emitMode {
						tagS = tagv.desc // a local holding an access path is shown as that path
					}
					t.conds = append(t.conds, tagS+" == "+se.canon(ce))
					runFrom(i, t)
					remaining.conds = append(remaining.conds, tagS+" != "+se.canon(ce))
				} else {
					tr, fa := se.branch(ce, remaining)
					for _, t := range tr {
						runFrom(i, t)
					}
					if len(fa) == 0 {
						remaining = nil
					} else {
						remaining = fa[0]
					}
				}
			}
		}
		if remaining != nil {
			if dflt != nil {
				runFrom(dfltIdx, remaining)
			} else {
				fall = append(fall, remaining)
			}
		}
	}
	fall = append(fall, lc.breaks...)
	return
}

func (se *symExec) execTypeSwitch(x *ast.TypeSwitchStmt, st *sstate) (fall []*sstate, rets []pathResult) {
	cur := []*sstate{st}
	if x.Init != nil {
		f, r := se.execStmt(x.Init, st)
		cur, rets = f, append(rets, r...)
	}
	lc := &loopCtl{}
	loopStack = append(loopStack, lc)
	defer func() { loopStack = loopStack[:len(loopStack)-1] }()
	for _, c0 := range cur {
		// evaluate the guard operand
		var operand ast.Expr
		switch a := x.Assign.(type) {
		case *ast.AssignStmt:
			operand = a.Rhs[0].(*ast.TypeAssertExpr).X
		case *ast.ExprStmt:
			operand = a.X.(*ast.TypeAssertExpr).X
		}
		for _, r := range se.eval(operand, c0) {
			hasDefault := false
			for _, cl := range x.Body.List {
				cc := cl.(*ast.CaseClause)
				if cc.List == nil {
					hasDefault = true
				}
				// `case A, B:` is one clause for each of the listed types
				lbls := []string{"default"}
				if cc.List != nil {
					lbls = nil
					for _, t := range cc.List {
						lbls = append(lbls, exprStr(t))
					}
				}
				for _, lbl := range lbls {
					s := r.st.clone()
					if obj := se.info.Implicits[cc]; obj != nil {
						s.vars[obj] = r.v
						se.nameByDesc(obj, r.v)
					}
					s.conds = append(s.conds, se.canon(operand)+".(type)=="+lbl)
					f, rr := se.execStmts(cc.Body, []*sstate{s})
					fall = append(fall, f...)
					rets = append(rets, rr...)
				}
			}
			if !hasDefault {
				fall = append(fall, r.st)
			}
		}
	}
	fall = append(fall, lc.breaks...)
	return
}

// assignedIn lists variables assigned anywhere in a node.
func (se *symExec) assignedIn(n ast.Node) []types.Object {
	var out []types.Object
	add := func(e ast.Expr) {
		if id := identOf(e); id != nil {
			if o := se.info.Uses[id]; o != nil {
				out = append(out, o)
			} else if o := se.info.Defs[id]; o != nil {
				out = append(out, o)
			}
		}
	}
	ast.Inspect(n, func(m ast.Node) bool {
		switch y := m.(type) {
		case *ast.AssignStmt:
			for _, l := range y.Lhs {
				add(l)
			}
		case *ast.IncDecStmt:
			add(y.X)
		}
		return true
	})
	return out
}

// loopTrips recognises the enumerated counting-loop idioms and returns the trip count.
func (se *symExec) loopTrips(x *ast.ForStmt, st *sstate) *lin {
	varOf := func(e ast.Expr) types.Object {
		if id := identOf(e); id != nil {
			if o := se.info.Uses[id]; o != nil {
				return o
			}
			return se.info.Defs[id]
		}
		return nil
	}
	cond, _ := unparen(x.Cond).(*ast.BinaryExpr)
	if cond == nil {
		return nil
	}
	cv := varOf(cond.X)
	if cv == nil {
		return nil
	}
	bound := se.evalInt(cond.Y, st)
	if bound == nil {
		return nil
	}
	post, _ := x.Post.(*ast.IncDecStmt)
	// (1) for x--; x >= 0; x--      trips = x before init
	if init, ok := x.Init.(*ast.IncDecStmt); ok && init.Tok == token.DEC && varOf(init.X) == cv &&
		post != nil && post.Tok == token.DEC && varOf(post.X) == cv && cond.Op == token.GEQ && bound.isZero() {
		if v, ok := st.vars[cv]; ok && v.kind == vInt {
			return v.lin
		}
		return nil
	}
	// (2) for i := a; i < b; i++    trips = b - a
	if init, ok := x.Init.(*ast.AssignStmt); ok && len(init.Lhs) == 1 && varOf(init.Lhs[0]) == cv && post != nil && varOf(post.X) == cv {
		a := se.evalInt(init.Rhs[0], st)
		if a == nil {
			return nil
		}
		if post.Tok == token.INC && cond.Op == token.LSS {
			return bound.sub(a)
		}
		// (4) for j := n; j > 0; j--   trips = n
		if post.Tok == token.DEC && cond.Op == token.GTR {
			return a.sub(bound)
		}
		// (5) for i := n-1; i >= 0; i--   trips = n
		if post.Tok == token.DEC && cond.Op == token.GEQ {
			return a.sub(bound).add(linConst(1))
		}
	}
	// (3) for x > 0 { x-- … }        trips = x
	if x.Init == nil && x.Post == nil && cond.Op == token.GTR && bound.isZero() {
		decs := 0
		ast.Inspect(x.Body, func(n ast.Node) bool {
			if d, ok := n.(*ast.IncDecStmt); ok && d.Tok == token.DEC && varOf(d.X) == cv {
				decs++
			}
			return true
		})
		if decs == 1 {
			if v, ok := st.vars[cv]; ok && v.kind == vInt {
				return v.lin
			}
		}
	}
	return nil
}

// loopCounter: the variable stepped by the post statement of a three-clause loop.
func (se *symExec) loopCounter(x *ast.ForStmt) types.Object {
	var e ast.Expr
	switch p := x.Post.(type) {
	case *ast.IncDecStmt:
		e = p.X
	case *ast.AssignStmt:
		if len(p.Lhs) == 1 {
			e = p.Lhs[0]
		}
	}
	if id := identOf(e); id != nil {
		if o := se.info.Uses[id]; o != nil {
			return o
		}
		return se.info.Defs[id]
	}
	return nil
}

func (se *symExec) execFor(x *ast.ForStmt, st *sstate) (fall []*sstate, rets []pathResult) {
	// the counter of a counting loop is shown under a canonical name (k1 for the outermost loop, k2 inside it, …)
	if o := se.loopCounter(x); o != nil && se.tableMode {
		if _, named := se.params[o]; !named {
			se.params[o] = fmt.Sprintf("k%d", len(loopStack)+1)
			if se.pinned == nil {
				se.pinned = map[types.Object]bool{}
			}
			se.pinned[o] = true
		}
	}
	trips := se.loopTrips(x, st)
	entry := st
	if x.Init != nil {
		f, r := se.execStmt(x.Init, st)
		rets = append(rets, r...)
		if len(f) != 1 {
			st.undecided(x.Pos(), "loop initialiser forks")
			return []*sstate{st}, rets
		}
		entry = f[0]
	}
	return se.loopCommon(x.Pos(), x.Body, x, entry, trips, rets)
}

func (se *symExec) execRange(x *ast.RangeStmt, st *sstate) (fall []*sstate, rets []pathResult) {
	rs := se.eval(x.X, st)
	if len(rs) != 1 {
		st.undecided(x.Pos(), "range operand forks")
		return []*sstate{st}, nil
	}
	entry := rs[0].st
	se.rangeBind = nil
	if se.emitMode {
		// bind key and value variables: key = loop index, value = element "X[*]"
		xd := rs[0].v.desc
		if rs[0].v.kind != vUnknown || xd == "" {
			xd = se.canon(x.X)
		}
		bind := map[types.Object]val{}
		if id := identOf(x.Key); id != nil && id.Name != "_" {
			if o := se.info.Defs[id]; o != nil {
				bind[o] = val{kind: vInt, lin: linSym("idx(" + xd + ")")}
			}
		}
		if id := identOf(x.Value); id != nil && id.Name != "_" {
			if o := se.info.Defs[id]; o != nil {
				bind[o] = unk(xd + "[*]")
			}
		}
		se.rangeBind = bind
	}
	return se.loopCommon(x.Pos(), x.Body, x, entry, nil, nil)
}

func (se *symExec) loopCommon(pos token.Pos, body *ast.BlockStmt, whole ast.Node, entry *sstate, trips *lin, rets []pathResult) ([]*sstate, []pathResult) {
	// havoc every variable assigned in the loop
	hav := entry.clone()
	for _, o := range se.assignedIn(whole) {
		nm := o.Name()
		if p, ok := se.params[o]; ok {
			nm = p
		}
		hav.vars[o] = unk("loop:" + nm)
	}
	for _, o := range se.assignedIn(whole) {
		hav.forget(o.Name())
	}
	for o, v := range se.rangeBind {
		hav.vars[o] = v
		se.nameByDesc(o, v)
		if se.tableMode {
			// the key and the element of a range loop are shown as idx(X) and X[*], whatever the loop calls them
			if se.pinned == nil {
				se.pinned = map[types.Object]bool{}
			}
			se.params[o] = v.String()
			se.pinned[o] = true
		} else if se.emitMode && v.kind == vUnknown && strings.HasSuffix(v.desc, "[*]") {
			// the value variable of a range statement is shown as the element in rendered call texts too, exactly as
			// `name := X[i]` inside `for i := range X` is (see execAssign)
			if _, taken := se.params[o]; !taken {
				se.params[o] = v.desc
			}
		}
		hav.forget(o.Name())
		hav.forget(v.desc)
	}
	se.rangeBind = nil
	nCallsEntry := len(entry.calls)
	nAssignsEntry := len(entry.assigns)
	nCondsEntry := len(entry.conds)
	wasConc := hav.conc
	h0 := hav.h.clone()
	lc := &loopCtl{}
	loopStack = append(loopStack, lc)
	f, r := se.execStmts(body.List, []*sstate{hav})
	loopStack = loopStack[:len(loopStack)-1]
	ends := append(append([]*sstate{}, f...), lc.continues...)
	// per-iteration delta
	var d *lin
	for _, e := range ends {
		dd := e.h.sub(h0)
		if d == nil {
			d = dd
		} else if !d.equal(dd) {
			entry.undecided(pos, "loop body has path-dependent stack effect (%s vs %s)", d, dd)
			return []*sstate{entry}, append(rets, r...)
		}
	}
	if d == nil {
		d = linConst(0)
	}
	for _, rr := range r {
		if !d.isZero() {
			rr.st.undecided(pos, "return from inside a loop whose body changes the stack height")
		}
	}
	rets = append(rets, r...)
	after := entry.clone()
	after.forgetText("has(") // the body may have changed the containers
	for _, o := range se.assignedIn(whole) {
		after.vars[o] = unk("after-loop:" + o.Name())
	}
	if se.emitMode {
		var alts []loopAlt
		add := func(e *sstate, exit string) {
			la := loopAlt{conds: append([]string{}, e.conds[nCondsEntry:]...), calls: append([]callRec{}, e.calls[nCallsEntry:]...), exit: exit}
			if len(e.assigns) >= nAssignsEntry {
				la.assigns = append([]assignRec{}, e.assigns[nAssignsEntry:]...)
			}
			alts = append(alts, la)
		}
		for _, e := range ends {
			add(e, "")
		}
		for _, b := range lc.breaks {
			add(b, "break")
		}
		for _, rr := range r {
			add(rr.st, "return")
		}
		after.seq++
		after.calls = append(after.calls, callRec{callee: "<loop>", pos: pos, seq: after.seq, loop: alts, args: []val{unk(se.loopHeader(whole))}})
		for _, e := range ends {
			after.und = append(after.und, e.und[len(entry.und):]...)
			after.undPos = append(after.undPos, e.undPos[len(entry.undPos):]...)
		}
		return []*sstate{after}, rets
	}
	// keep the records of one representative iteration so that operand roles inside loops are visible
	if len(ends) > 0 {
		after.calls = ends[0].calls
		after.assigns = ends[0].assigns
		after.und = append(after.und, ends[0].und[len(entry.und):]...)
		after.undPos = append(after.undPos, ends[0].undPos[len(entry.undPos):]...)
		if ends[0].maxSlot > after.maxSlot {
			after.maxSlot = ends[0].maxSlot
		}
	}
	if !d.isZero() {
		if !d.isConst() {
			after.undecided(pos, "loop body stack effect %s is not constant", d)
		} else if trips == nil {
			after.undecided(pos, "loop body changes the stack height by %s per iteration and the trip count is not one of the enumerated counting idioms", d)
		} else {
			after.h = after.h.add(trips.scale(d.c))
			after.conc = false
		}
	} else if !wasConc {
		after.conc = false
	}
	for _, e := range ends {
		if !e.conc {
			after.conc = false
		}
	}
	out := []*sstate{after}
	for _, b := range lc.breaks {
		if !b.h.sub(h0).isZero() {
			b.undecided(pos, "break with a changed stack height")
		}
		_ = b
	}
	return out, rets
}

// loopHeader renders what a loop iterates over.
func (se *symExec) loopHeader(n ast.Node) string {
	switch x := n.(type) {
	case *ast.RangeStmt:
		return "range " + se.canon(x.X)
	case *ast.ForStmt:
		h := "for"
		if x.Cond != nil {
			h = "for " + se.canon(x.Cond)
		}
		if se.tableMode {
			// decision tables: the whole loop control (initialisation; condition; step) is part of the decision
			ini, post := "", ""
			if x.Init != nil {
				ini = strings.Join(strings.Fields(fullStmt(x.Init)), " ")
			}
			if x.Post != nil {
				post = strings.Join(strings.Fields(fullStmt(x.Post)), " ")
			}
			if o := se.loopCounter(x); o != nil {
				if nm, ok := se.params[o]; ok && nm != o.Name() {
					ini = replaceIdent(ini, o.Name(), nm)
					post = replaceIdent(post, o.Name(), nm)
					// `k := a` and `k = a` initialise the counter alike
					ini = strings.Replace(ini, nm+" := ", nm+" = ", 1)
				}
			}
			return "for " + ini + "; " + strings.TrimPrefix(h, "for ") + "; " + post
		}
		return h
	}
	return "for"
}

// evalCallMulti evaluates a call and returns, per path, the state and the result values.
func (se *symExec) evalCallMulti(call *ast.CallExpr, st *sstate) []pathResult {
	info := se.info
	// conversion
	if tv, ok := info.Types[call.Fun]; ok && tv.IsType() && len(call.Args) == 1 {
		var out []pathResult
		for _, r := range se.eval(call.Args[0], st) {
			out = append(out, pathResult{r.st, []val{r.v}})
		}
		return out
	}
	// builtins
	if id := identOf(call.Fun); id != nil {
		if _, ok := info.Uses[id].(*types.Builtin); ok {
			return se.evalBuiltin(id.Name, call, st)
		}
	}
	fn := Callee(info, call)
	if fn == nil {
		// a call through a variable that holds a named function (`op(a, b)` with op bound to py.Add by the caller)
		if id := identOf(call.Fun); id != nil {
			if fv, ok := st.vars[info.Uses[id]]; ok && fv.fnv != nil {
				fn = fv.fnv
			}
		}
	}
	// receiver + args in evaluation order
	var recvExpr ast.Expr
	if sel, ok := unparen(call.Fun).(*ast.SelectorExpr); ok {
		if s, ok := info.Selections[sel]; ok && (s.Kind() == types.MethodVal) {
			recvExpr = sel.X
		}
	}
	type acc struct {
		st   *sstate
		recv *val
		args []val
	}
	cur := []acc{{st: st}}
	if recvExpr != nil {
		var next []acc
		for _, r := range se.eval(recvExpr, st) {
			v := r.v
			next = append(next, acc{st: r.st, recv: &v})
		}
		cur = next
	}
	for _, a := range call.Args {
		var next []acc
		for _, c := range cur {
			for _, r := range se.eval(a, c.st) {
				next = append(next, acc{st: r.st, recv: c.recv, args: append(append([]val{}, c.args...), r.v)})
			}
		}
		cur = next
	}
	nres := 1
	if fn != nil {
		nres = fn.Type().(*types.Signature).Results().Len()
	} else if tv, ok := info.Types[call]; ok {
		if tup, ok := tv.Type.(*types.Tuple); ok {
			nres = tup.Len()
		}
	}
	var out []pathResult
	for _, c := range cur {
		// inline functions of package vm
		if fn == nil {
			// a call of a local function literal: inline it
			if id := identOf(call.Fun); id != nil {
				if fv, ok := c.st.vars[se.info.Uses[id]]; ok && fv.lit != nil && len(se.inStack) < 8 {
					out = append(out, se.inlineLit(fv.lit, c.args, c.st, call)...)
					continue
				}
			}
		}
		if fn != nil && se.neverReturns(fn) {
			name := FuncID(fn)
			c.st.seq++
			c.st.calls = append(c.st.calls, callRec{callee: name, args: c.args, recv: c.recv, pos: call.Pos(), seq: c.st.seq})
			if se.keepRaised {
				se.raised = append(se.raised, c.st)
			}
			continue // the path ends here (panics)
		}
		if fn != nil && fn.Pkg() == se.p.Types && !se.primitive[fn] && !se.primByID[FuncID(fn)] && se.worthInlining(fn) {
			if fd := se.c.Decl(fn); fd != nil && fd.Body != nil && len(se.inStack) < 8 && !se.onStack(fn) {
				out = append(out, se.inline(fn, fd, c.recv, c.args, c.st, call)...)
				continue
			}
		}
		if fn != nil && se.stackWriters[fn] && se.passesFrame(call) {
			c.st.undecided(call.Pos(), "call to %s, which assigns the evaluation stack of the frame it is given", FuncID(fn))
		}
		name := "<dynamic>"
		if fn != nil {
			name = FuncID(fn)
		} else {
			name = "dyn:" + se.canon(call.Fun)
		}
		c.st.forgetText("has(") // an opaque call may change the containers
		c.st.seq++
		c.st.calls = append(c.st.calls, callRec{callee: name, args: c.args, recv: c.recv, pos: call.Pos(), seq: c.st.seq})
		// a trivial getter of another package: `func (l *List) Len() int { return len(l.Items) }`
		// the results of the k-th call of one callee on this path are told apart from those of the first
		ord := 0
		for _, prev := range c.st.calls[:len(c.st.calls)-1] {
			if prev.callee == name {
				ord++
			}
		}
		var rets []val
		for i := 0; i < nres; i++ {
			if ord > 0 {
				rets = append(rets, unk(fmt.Sprintf("%s#%d'%d", name, i, ord+1)))
			} else {
				rets = append(rets, unk(fmt.Sprintf("%s#%d", name, i)))
			}
		}
		if ov, ok := se.callOverride[name]; ok && nres >= 1 {
			rets[0] = ov
			out = append(out, pathResult{c.st, rets})
			continue
		}
		if fn != nil && se.emitMode && fn.Name() == "NewLabel" && nres == 1 {
			se.labelN++
			rets[0] = unk(fmt.Sprintf("L%d", se.labelN))
			c.st.calls[len(c.st.calls)-1].ret = rets[0].desc
		}
		if fn != nil {
			sig := fn.Type().(*types.Signature)
			for i := 0; i < nres; i++ {
				rt := sig.Results().At(i).Type()
				if fn.Name() == "ExceptionNewf" && fn.Pkg() != nil && fn.Pkg().Path() == modPath+"/py" {
					rets[i] = val{kind: vErrNonNil}
				} else if b, ok := rt.Underlying().(*types.Basic); ok && b.Info()&types.IsInteger != 0 {
					sym := se.getterSym(fn, call, c.recv)
					if nres > 1 && strings.HasPrefix(sym, "ret:") {
						sym = fmt.Sprintf("ret#%d:%s", i, strings.TrimPrefix(sym, "ret:"))
					}
					rets[i] = val{kind: vInt, lin: linSym(sym)}
				}
			}
		}
		out = append(out, pathResult{c.st, rets})
	}
	return out
}

// getterSym names the integer result of an external call; a trivial `return len(recv.F)` getter is
// named like the len() of that field so that it unifies with len(x.F) written directly.
func (se *symExec) getterSym(fn *types.Func, call *ast.CallExpr, recv *val) string {
	if fd := se.c.Decl(fn); fd != nil && fd.Body != nil && len(fd.Body.List) == 1 && fd.Recv != nil {
		if rs, ok := fd.Body.List[0].(*ast.ReturnStmt); ok && len(rs.Results) == 1 {
			if lc, ok := rs.Results[0].(*ast.CallExpr); ok && len(lc.Args) == 1 {
				if id := identOf(lc.Fun); id != nil && id.Name == "len" {
					if sel, ok := lc.Args[0].(*ast.SelectorExpr); ok {
						if recv != nil && recv.kind == vSlot {
							return fmt.Sprintf("len(slot%d.%s)", recv.slot, sel.Sel.Name)
						}
						if sx, ok := unparen(call.Fun).(*ast.SelectorExpr); ok {
							return "len(" + se.canon(sx.X) + "." + sel.Sel.Name + ")"
						}
					}
				}
			}
		}
	}
	return "ret:" + se.canon(call)
}

// worthInlining: a same-package function is inlined when it (transitively) mentions the evaluation stack,
// or is small (helpers that compute operands / errors); others are treated as opaque calls.
func (se *symExec) worthInlining(fn *types.Func) bool {
	if se.inlineMemo == nil {
		se.inlineMemo = map[*types.Func]bool{}
	}
	if v, ok := se.inlineMemo[fn]; ok {
		return v
	}
	se.inlineMemo[fn] = false
	fd := se.c.Decl(fn)
	if fd == nil || fd.Body == nil {
		return false
	}
	res := se.inlineAll // the compiler's table helpers are all inlined
	if isNewFunc(FuncID(fn)) {
		res = true // a helper introduced since the reference was written: look through it
	}
	if !res {
		res = se.mentionsStackShallow(fd)
	}
	if !res {
		ast.Inspect(fd.Body, func(n ast.Node) bool {
			if call, ok := n.(*ast.CallExpr); ok && !res {
				if g := Callee(se.info, call); g != nil && g != fn && g.Pkg() == se.p.Types && se.worthInlining(g) {
					res = true
				}
			}
			return true
		})
	}
	if !res {
		// small helper: at most 6 statements and no loops
		small := len(fd.Body.List) <= 6
		ast.Inspect(fd.Body, func(n ast.Node) bool {
			switch n.(type) {
			case *ast.ForStmt, *ast.RangeStmt, *ast.SwitchStmt, *ast.TypeSwitchStmt:
				small = false
			}
			return true
		})
		res = small
	}
	se.inlineMemo[fn] = res
	return res
}

// passesFrame: the call hands a *py.Frame (receiver or argument) to the callee.
func (se *symExec) passesFrame(call *ast.CallExpr) bool {
	isFrame := func(e ast.Expr) bool {
		tv, ok := se.info.Types[e]
		if !ok {
			return false
		}
		return strings.HasSuffix(namedTypeName(tv.Type), "py.Frame")
	}
	if sel, ok := unparen(call.Fun).(*ast.SelectorExpr); ok && isFrame(sel.X) {
		return true
	}
	for _, a := range call.Args {
		if isFrame(a) {
			return true
		}
	}
	return false
}

func (se *symExec) onStack(fn *types.Func) bool {
	for _, f := range se.inStack {
		if f == fn {
			return true
		}
	}
	return false
}

func (se *symExec) inline(fn *types.Func, fd *ast.FuncDecl, recv *val, args []val, st *sstate, call *ast.CallExpr) []pathResult {
	// bind
	bind := func(id *ast.Ident, v val) {
		obj := se.info.Defs[id]
		if obj == nil {
			return
		}
		st.vars[obj] = v
	}
	// a parameter that the callee never assigns is rendered as the caller's argument when that is a plain
	// access path (x, x.f, x.f.g): the texts inside a helper then read as if it had been written in place
	assigned := map[types.Object]bool{}
	for _, o := range se.assignedIn(fd.Body) {
		assigned[o] = true
	}
	purePath := isPurePath
	alias := func(id *ast.Ident, arg ast.Expr) {
		obj := se.info.Defs[id]
		if obj == nil || assigned[obj] || arg == nil || !purePath(arg) {
			return
		}
		if _, isConst := se.info.Types[arg]; isConst && se.info.Types[arg].Value != nil {
			return
		}
		se.params[obj] = se.canon(arg)
	}
	if fd.Recv != nil && len(fd.Recv.List) == 1 && len(fd.Recv.List[0].Names) == 1 && recv != nil {
		bind(fd.Recv.List[0].Names[0], *recv)
		if sel, ok := unparen(call.Fun).(*ast.SelectorExpr); ok {
			alias(fd.Recv.List[0].Names[0], sel.X)
		}
		// a *Vm receiver keeps the canonical name "vm"
		if nm := se.recvCanon(call); nm != "" {
			se.params[se.info.Defs[fd.Recv.List[0].Names[0]]] = nm
		}
	}
	i := 0
	for _, f := range fd.Type.Params.List {
		for _, id := range f.Names {
			if i < len(args) {
				bind(id, args[i])
				if i < len(call.Args) && len(call.Args) == len(args) {
					alias(id, call.Args[i])
					// an argument that holds a described value (the result of a call) is shown as that value, not
					// under the name of the caller's local
					if v := args[i]; v.kind == vUnknown && strings.Contains(v.desc, "#") && v.lit == nil && !strings.Contains(v.desc, " ") {
						if obj := se.info.Defs[id]; obj != nil && !assigned[obj] {
							se.params[obj] = v.desc
						}
					}
				}
				se.nameByDesc(se.info.Defs[id], args[i])
				if i < len(call.Args) {
					if aid := identOf(call.Args[i]); aid != nil {
						if nm, ok := se.params[se.info.Uses[aid]]; ok {
							se.params[se.info.Defs[id]] = nm
						}
					}
				}
			}
			i++
		}
	}
	// named results start at zero values
	if fd.Type.Results != nil {
		for _, f := range fd.Type.Results.List {
			for _, id := range f.Names {
				bind(id, unk("result"))
			}
		}
	}
	se.inStack = append(se.inStack, fn)
	saveLoops := loopStack
	loopStack = nil
	res := se.execBody(fd.Body, st)
	loopStack = saveLoops
	se.inStack = se.inStack[:len(se.inStack)-1]
	return res
}

// nameByDesc: in emission mode a local that holds an access path into the AST is rendered as that path.
func (se *symExec) nameByDesc(obj types.Object, v val) {
	if !se.emitMode || obj == nil {
		return
	}
	if v.kind == vUnknown && v.desc != "" && v.lit == nil && (strings.HasPrefix(v.desc, "node") || strings.HasPrefix(v.desc, "{node")) {
		se.params[obj] = v.desc
	} else if _, ok := se.params[obj]; ok && v.kind != vUnknown && !se.pinned[obj] {
		delete(se.params, obj)
	}
}

// neverReturns: the function has no return statement and its body ends in panic (e.g. panicSyntaxErrorf).
func (se *symExec) neverReturns(fn *types.Func) bool {
	if se.noRet == nil {
		se.noRet = map[*types.Func]int{}
	}
	if v, ok := se.noRet[fn]; ok {
		return v == 1
	}
	se.noRet[fn] = 2
	fd := se.c.Decl(fn)
	if fd == nil || fd.Body == nil || len(fd.Body.List) == 0 {
		return false
	}
	hasRet := false
	ast.Inspect(fd.Body, func(n ast.Node) bool {
		if _, ok := n.(*ast.ReturnStmt); ok {
			hasRet = true
		}
		if _, ok := n.(*ast.FuncLit); ok {
			return false
		}
		return true
	})
	info := se.c.DeclPkg(fn).TypesInfo
	last := fd.Body.List[len(fd.Body.List)-1]
	if es, ok := last.(*ast.ExprStmt); ok && !hasRet {
		if call, ok := es.X.(*ast.CallExpr); ok && isBuiltinCall(info, call, "panic") {
			se.noRet[fn] = 1
			return true
		}
	}
	return false
}

// inlineLit runs a local function literal with the given argument values.
func (se *symExec) inlineLit(fl *ast.FuncLit, args []val, st *sstate, call *ast.CallExpr) []pathResult {
	i := 0
	for _, f := range fl.Type.Params.List {
		for _, id := range f.Names {
			if obj := se.info.Defs[id]; obj != nil && i < len(args) {
				v := args[i]
				if _, variadic := f.Type.(*ast.Ellipsis); variadic && !call.Ellipsis.IsValid() {
					// individual arguments gathered into the variadic slice
					var ds []string
					for _, a := range args[i:] {
						ds = append(ds, a.String())
					}
					v = unk("{" + strings.Join(ds, ",") + "}")
				}
				st.vars[obj] = v
				se.nameByDesc(obj, v)
			}
			i++
		}
	}
	saveLoops := loopStack
	loopStack = nil
	se.inStack = append(se.inStack, nil)
	res := se.execBody(fl.Body, st)
	se.inStack = se.inStack[:len(se.inStack)-1]
	loopStack = saveLoops
	return res
}

func (se *symExec) recvCanon(call *ast.CallExpr) string {
	if sel, ok := unparen(call.Fun).(*ast.SelectorExpr); ok {
		if id := identOf(sel.X); id != nil {
			if nm, ok := se.params[se.info.Uses[id]]; ok {
				return nm
			}
		}
	}
	return ""
}

func (se *symExec) evalBuiltin(name string, call *ast.CallExpr, st *sstate) []pathResult {
	switch name {
	case "len":
		var out []pathResult
		for _, r := range se.eval(call.Args[0], st) {
			switch {
			case r.v.kind == vStack && r.v.lin == nil:
				out = append(out, pathResult{r.st, []val{{kind: vInt, lin: r.st.h.clone()}}})
			case r.v.lin != nil && r.v.kind == vUnknown:
				out = append(out, pathResult{r.st, []val{{kind: vInt, lin: r.v.lin}}})
			default:
				sym := "len(" + se.canon(call.Args[0]) + ")"
				if r.v.kind == vSlot {
					sym = fmt.Sprintf("len(slot%d)", r.v.slot)
				} else if id := identOf(call.Args[0]); id != nil {
					// a local bound to a described value
					if r.v.desc != "" && r.v.desc != "lit" {
						sym = "len(" + r.v.desc + ")"
					}
				}
				out = append(out, pathResult{r.st, []val{{kind: vInt, lin: linSym(sym)}}})
			}
		}
		return out
	case "make":
		// make(T, n): value with known length n
		if len(call.Args) >= 2 {
			var out []pathResult
			for _, r := range se.eval(call.Args[1], st) {
				v := unk("make")
				if r.v.kind == vInt {
					v.lin = r.v.lin
				}
				out = append(out, pathResult{r.st, []val{v}})
			}
			return out
		}
		if se.tableMode {
			st.nmake++
			return []pathResult{{st, []val{unk(fmt.Sprintf("make#%d", st.nmake))}}}
		}
		return []pathResult{{st, []val{unk("make")}}}
	case "append":
		// append(stack, v) / append(stack, items...)
		if len(call.Args) >= 1 && se.isStack(call.Args[0]) {
			if call.Ellipsis.IsValid() && len(call.Args) == 2 {
				var out []pathResult
				for _, r := range se.eval(call.Args[1], st) {
					var n *lin
					switch {
					case r.v.lin != nil && (r.v.kind == vUnknown):
						n = r.v.lin
					case r.v.kind == vSlot:
						n = linSym(fmt.Sprintf("len(slot%d)", r.v.slot))
					default:
						d := se.canon(call.Args[1])
						if r.v.desc != "" && r.v.desc != "lit" {
							d = r.v.desc
						}
						n = linSym("len(" + d + ")")
					}
					nv := val{kind: vStack, lin: r.st.h.add(n), desc: "append..."}
					out = append(out, pathResult{r.st, []val{nv}})
				}
				return out
			}
			var out []pathResult
			for _, r := range se.evalList(call.Args[1:], st) {
				nv := val{kind: vStack, desc: "append", lin: nil}
				// encode pushes directly
				for _, v := range r.vs {
					r.st.push(v)
				}
				nv.desc = "append-done"
				out = append(out, pathResult{r.st, []val{nv}})
			}
			return out
		}
		var out []pathResult
		for _, r := range se.evalList(call.Args, st) {
			d := "append"
			if se.emitMode {
				var as []string
				for _, a := range r.vs {
					as = append(as, a.String())
				}
				d = "append(" + strings.Join(as, ", ") + ")"
				// appending to a literal is the longer literal: T{a, b} followed by append(x, c) is T{a, b, c}
				if len(as) >= 2 && strings.HasPrefix(as[0], "composite[") && strings.HasSuffix(as[0], "]") && !call.Ellipsis.IsValid() {
					d = strings.TrimSuffix(as[0], "]") + "," + strings.Join(as[1:], ",") + "]"
				}
			}
			out = append(out, pathResult{r.st, []val{unk(d)}})
		}
		return out
	case "panic":
		return nil
	case "new":
		se.labelN++
		return []pathResult{{st, []val{unk(fmt.Sprintf("L%d", se.labelN))}}}
	case "copy":
		// copy(dst, src): dst now holds src's elements
		var out []pathResult
		for _, r := range se.evalList(call.Args, st) {
			if id := identOf(call.Args[0]); id != nil && len(r.vs) == 2 {
				if obj := se.info.Uses[id]; obj != nil {
					nv := unk("copy-of[" + r.vs[1].String() + "]")
					nv.lin = r.vs[0].lin
					r.st.vars[obj] = nv
				}
			}
			out = append(out, pathResult{r.st, []val{unk("copy")}})
		}
		return out
	}
	var out []pathResult
	for _, r := range se.evalList(call.Args, st) {
		out = append(out, pathResult{r.st, []val{unk(name)}})
	}
	return out
}

type tableHit struct {
	st    *sstate
	v     val
	found bool
}

// tableLookup: `T[k]` on a read-only literal table of this package is the decision `switch k { case K1: V1 … }`:
// one state per entry, in the order of the literal, under the condition the switch would record, and the miss.
func (se *symExec) tableLookup(ix *ast.IndexExpr, st *sstate) []tableHit {
	t := tableLiteral(se.c, se.info, ix.X)
	if t == nil || t.info != se.info || len(t.entries) == 0 || len(t.entries) > 64 {
		return nil
	}
	ks := se.eval(ix.Index, st)
	if len(ks) != 1 {
		return nil
	}
	remaining := ks[0].st
	kv := ks[0].v
	tagS := se.canon(ix.Index)
	if kv.kind == vUnknown && kv.desc != "" && kv.lit == nil && se.emitMode {
		tagS = kv.desc
	}
	var out []tableHit
	for _, en := range t.entries {
		if remaining == nil {
			break
		}
		var hit *sstate
		cv := se.evalInt(en.key, remaining)
		if kv.kind == vInt && cv != nil {
			d := kv.lin.sub(cv)
			if d.isConst() {
				if d.c != 0 {
					continue
				}
				hit, remaining = remaining, nil
			} else {
				excluded := false
				for _, n := range remaining.nes {
					if n.equal(d) || n.equal(d.scale(-1)) {
						excluded = true
					}
				}
				if excluded {
					continue
				}
				red := reduceWith(d, remaining.eqs)
				if red.isConst() {
					if red.c != 0 {
						continue
					}
					hit, remaining = remaining, nil
				} else {
					hit = remaining.clone()
					hit.eqs = append(hit.eqs, d)
					cn := se.enumConst(en.key)
					hit.conds = append(hit.conds, linCondNamed(d, "==", cn))
					remaining.nes = append(remaining.nes, d)
					remaining.conds = append(remaining.conds, linCondNamed(d, "!=", cn))
				}
			}
		} else {
			hit = remaining.clone()
			hit.conds = append(hit.conds, tagS+" == "+se.canon(en.key))
			remaining.conds = append(remaining.conds, tagS+" != "+se.canon(en.key))
		}
		vs := se.eval(en.val, hit)
		if len(vs) != 1 {
			return nil
		}
		out = append(out, tableHit{vs[0].st, vs[0].v, true})
	}
	if remaining != nil {
		zero := unk("")
		if m, ok := t.v.Type().Underlying().(*types.Map); ok {
			if b, ok := m.Elem().Underlying().(*types.Basic); ok {
				switch {
				case b.Info()&types.IsInteger != 0:
					zero = val{kind: vInt, lin: linConst(0)}
				case b.Kind() == types.Bool:
					zero = val{kind: vBool, bk: true, b: false}
				}
			}
		}
		out = append(out, tableHit{remaining, zero, false})
	}
	return out
}
