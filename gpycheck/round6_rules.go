package main

// Rules written for the sixth seeding round ("two cooperating sites" / "a specific trigger"). Each decides one
// structural necessary condition; what it does not decide is said in its Doc.

import (
	"go/ast"
	"go/token"
	"go/types"
	"sort"
	"strings"

	"golang.org/x/tools/go/packages"
	"golang.org/x/tools/go/ssa"
)

// eachFuncDecl calls f for every function declaration with a body in the module's non-test files.
func eachFuncDecl(c *Ctx, f func(p *packages.Package, fd *ast.FuncDecl)) {
	for _, p := range c.ModulePkgs() {
		for _, file := range c.Files(p) {
			for _, d := range file.Decls {
				if fd, ok := d.(*ast.FuncDecl); ok && fd.Body != nil {
					f(p, fd)
				}
			}
		}
	}
}

// ---- C08.R13: the process-wide module registry is filled at package initialisation only ----
//
// py.RegisterModule publishes a ModuleImpl to every context of the process, present and future, under a bare name that
// ImportModuleLevelObject consults before a context's own sys.path. Called while programs run, it makes what one
// context imported decide what the same name means in all others. Every call of RegisterModule (function or Runtime
// method) therefore sits in an init function (or in the forwarding wrapper py.RegisterModule itself).
func runRegisterAtInitOnly(c *Ctx, r *Rep) {
	n := 0
	eachFuncDecl(c, func(p *packages.Package, fd *ast.FuncDecl) {
		info := p.TypesInfo
		self, _ := info.Defs[fd.Name].(*types.Func)
		ast.Inspect(fd.Body, func(nd ast.Node) bool {
			call, ok := nd.(*ast.CallExpr)
			if !ok {
				return true
			}
			callee := Callee(info, call)
			if callee == nil || callee.Name() != "RegisterModule" || callee.Pkg() == nil || callee.Pkg().Path() != modPath+"/py" {
				return true
			}
			n++
			r.analysed(declID(p, fd))
			key := "register|" + shortPkg(p.PkgPath) + "|" + declID(p, fd)
			switch {
			case fd.Recv == nil && fd.Name.Name == "init":
				r.ok(key, call.Pos(), "registered during package initialisation")
			case self != nil && self.Name() == "RegisterModule" && self.Pkg().Path() == modPath+"/py":
				r.okTrivial(key, call.Pos(), "the forwarding wrapper")
			default:
				r.bad(key, call.Pos(), "%s registers a module implementation in the process-wide registry while programs run: the registry is consulted by every context before its own sys.path, so what this context loaded now decides what the name means in all others (registrations belong in init functions)", declID(p, fd))
			}
			return true
		})
	})
	if n == 0 {
		r.undecided("register|anchor", token.NoPos, "no call of py.RegisterModule found")
	}
}

// ---- C05.R7: who may hold a frame ----
//
// A generator is resumable because it owns its frame: nothing else keeps a *py.Frame beyond the call it was made for.
// Decided by type: the struct fields and package-level variables of the module whose type contains *py.Frame
// (directly, or through pointer/slice/array/map/chan layers) are exactly the reviewed holders. A new holder — a
// free list on the code object, a cache, a "last frame" slot — lets two executions share one frame.
var frameHolders = map[string]string{
	"py.Generator.Frame": "the generator owns the frame it resumes",
	"py.Traceback.Frame": "a traceback entry names the frame it was raised in (read for reporting only)",
	"vm.Vm.frame":        "the frame the machine is executing; a Vm lives for one RunFrame",
}

func typeHoldsFrame(t types.Type, frame *types.Named, depth int) bool {
	if depth > 6 {
		return false
	}
	switch x := t.(type) {
	case *types.Pointer:
		if n, ok := x.Elem().(*types.Named); ok && n.Obj() == frame.Obj() {
			return true
		}
		return false // a pointer to some other struct: that struct's own fields are visited on their own
	case *types.Slice:
		return typeHoldsFrame(x.Elem(), frame, depth+1)
	case *types.Array:
		return typeHoldsFrame(x.Elem(), frame, depth+1)
	case *types.Map:
		return typeHoldsFrame(x.Elem(), frame, depth+1) || typeHoldsFrame(x.Key(), frame, depth+1)
	case *types.Chan:
		return typeHoldsFrame(x.Elem(), frame, depth+1)
	case *types.Named:
		if x.Obj() == frame.Obj() {
			return true // a Frame held by value
		}
		if x.Obj().Pkg() == nil || !strings.HasPrefix(x.Obj().Pkg().Path(), modPath) {
			return false
		}
		if _, isStruct := x.Underlying().(*types.Struct); isStruct {
			return false // visited on its own
		}
		return typeHoldsFrame(x.Underlying(), frame, depth+1)
	case *types.Struct: // an anonymous struct
		for i := 0; i < x.NumFields(); i++ {
			if typeHoldsFrame(x.Field(i).Type(), frame, depth+1) {
				return true
			}
		}
	}
	return false
}

func runFrameHolders(c *Ctx, r *Rep) {
	frame := c.Named("py", "Frame")
	if frame == nil {
		r.undecided("holders|anchor", token.NoPos, "type py.Frame not found")
		return
	}
	seen := map[string]bool{}
	for _, p := range c.ModulePkgs() {
		sc := p.Types.Scope()
		for _, name := range sc.Names() {
			switch o := sc.Lookup(name).(type) {
			case *types.TypeName:
				if c.Fset.Position(o.Pos()).Filename != "" && strings.HasSuffix(c.Fset.Position(o.Pos()).Filename, "_test.go") {
					continue
				}
				st, ok := o.Type().Underlying().(*types.Struct)
				if !ok || o.IsAlias() {
					continue
				}
				for i := 0; i < st.NumFields(); i++ {
					f := st.Field(i)
					if !typeHoldsFrame(f.Type(), frame, 0) {
						continue
					}
					id := shortPkg(p.PkgPath) + "." + o.Name() + "." + f.Name()
					seen[id] = true
					if why, ok := frameHolders[id]; ok {
						r.ok("holder|"+id, f.Pos(), "reviewed holder: %s", why)
					} else {
						r.bad("holder|"+id, f.Pos(), "field %s (%s) keeps a frame beyond the call it was made for: a frame parked here can be handed to another execution while a generator that owns it is still suspended (or finished) on it — the reviewed holders are Generator.Frame, Traceback.Frame and Vm.frame", id, f.Type())
					}
				}
			case *types.Var:
				if strings.HasSuffix(c.Fset.Position(o.Pos()).Filename, "_test.go") {
					continue
				}
				if typeHoldsFrame(o.Type(), frame, 0) {
					id := shortPkg(p.PkgPath) + "." + o.Name()
					r.bad("holder|"+id, o.Pos(), "package-level variable %s (%s) keeps frames between calls: two executions can end up on one frame", id, o.Type())
				}
			}
		}
	}
	for id := range frameHolders {
		if !seen[id] {
			r.undecided("holder|"+id, token.NoPos, "reviewed holder %s no longer exists: the ownership of frames has been reorganised and must be reviewed again", id)
		}
	}
}

// ---- C11.R16 (= C10.R8): no map keyed by an interface whose implementers include unhashable Go types ----
//
// py.Object is implemented by Tuple ([]Object), Bytes ([]byte), StringDict (a map) …: using such a value as a Go map key
// is a run-time panic ("hash of unhashable type"). In the compile pipeline a constant table, a cache or an interning map
// keyed by py.Object (or by ast.Expr and the like, all of whose implementers are pointers — those are fine) therefore
// turns some well-formed program into a crash. Decided by type over the pipeline packages: no map type written there
// has a key type that is an interface implemented by a non-comparable type of the module. The one such map of the
// module outside the pipeline (the item table of py.Set, §6.3) is the positive example the matcher must find.
func unhashableImplementers(c *Ctx, iface *types.Interface) []string {
	var out []string
	for _, p := range c.ModulePkgs() {
		sc := p.Types.Scope()
		for _, name := range sc.Names() {
			tn, ok := sc.Lookup(name).(*types.TypeName)
			if !ok || tn.IsAlias() {
				continue
			}
			t := tn.Type()
			if types.Comparable(t) {
				continue
			}
			if _, isIface := t.Underlying().(*types.Interface); isIface {
				continue
			}
			if types.Implements(t, iface) {
				out = append(out, shortPkg(p.PkgPath)+"."+name)
			}
		}
	}
	sort.Strings(out)
	return out
}

func runNoInterfaceKeyedMaps(c *Ctx, r *Rep) {
	pipeline := map[string]bool{"parser": true, "ast": true, "symtable": true, "compile": true}
	cache := map[*types.Interface][]string{}
	foundExample := false
	nMaps := 0
	for _, p := range c.ModulePkgs() {
		info := p.TypesInfo
		rel := shortPkg(p.PkgPath)
		for _, file := range c.Files(p) {
			ast.Inspect(file, func(nd ast.Node) bool {
				mt, ok := nd.(*ast.MapType)
				if !ok {
					return true
				}
				tv, ok := info.Types[mt.Key]
				if !ok {
					return true
				}
				nMaps++
				iface, ok := tv.Type.Underlying().(*types.Interface)
				if !ok || iface.NumMethods() == 0 && !pipeline[rel] {
					return true
				}
				impl, done := cache[iface]
				if !done {
					impl = unhashableImplementers(c, iface)
					cache[iface] = impl
				}
				if len(impl) == 0 {
					return true
				}
				if !pipeline[rel] {
					if rel == "py" {
						foundExample = true
					}
					return true
				}
				fn := "file " + c.Fset.Position(file.Pos()).Filename[strings.LastIndex(c.Fset.Position(file.Pos()).Filename, "/")+1:]
				r.bad("ifacekey|"+rel+"|"+fn+"|"+exprStr(mt), mt.Pos(), "map type %s in package %s is keyed by the interface %s, which %s implement: they are not hashable in Go, so storing or looking up such a value panics at run time (\"hash of unhashable type\") — a well-formed program whose constants include one crashes the compiler", exprStr(mt), rel, exprStr(mt.Key), strings.Join(clip(impl, 4), ", "))
				return true
			})
		}
	}
	if !foundExample {
		r.undecided("ifacekey|positive example", token.NoPos, "the matcher no longer recognises the item table of py.Set (map[Object]SetValue) as an interface-keyed map with unhashable implementers")
	} else {
		r.ok("ifacekey|positive example", token.NoPos, "py.Set's item table is recognised (outside the pipeline; see DESIGN §6.3)")
	}
	r.ok("ifacekey|pipeline", token.NoPos, "%d map types inspected; none in parser, ast, symtable, compile is keyed by an interface with unhashable implementers", nMaps)
}

// ---- C14.R10: the length handed to String.slice is the length of the string it is applied to ----
//
// String.slice(start, stop, length) takes the character length of its receiver as a hint (length == len(s) means
// "ASCII only: character positions are byte positions"). Handing it the length of another string makes the shortcut
// fire on a non-ASCII string whose byte length happens to equal that number, and the cut falls at byte offsets.
// Decided at every call: the third argument is X.len() for the very receiver expression X, or a local whose every
// definition is X.len(), with X not assigned in the function.
func runSliceLengthPairing(c *Ctx, r *Rep) {
	slice := c.Method("py", "String", "slice")
	lenM := c.Method("py", "String", "len")
	if slice == nil || lenM == nil {
		r.undecided("slicelen|anchor", token.NoPos, "py.String.slice / py.String.len not found")
		return
	}
	p := c.MustPkg("py")
	info := p.TypesInfo
	n := 0
	for _, file := range c.Files(p) {
		for _, d := range file.Decls {
			fd, ok := d.(*ast.FuncDecl)
			if !ok || fd.Body == nil {
				continue
			}
			assigned := map[types.Object]int{}
			defs := map[types.Object][]ast.Expr{}
			ast.Inspect(fd.Body, func(nd ast.Node) bool {
				switch x := nd.(type) {
				case *ast.AssignStmt:
					for i, l := range x.Lhs {
						id := identOf(l)
						if id == nil {
							continue
						}
						obj := info.ObjectOf(id)
						assigned[obj]++
						if len(x.Rhs) == len(x.Lhs) {
							defs[obj] = append(defs[obj], x.Rhs[i])
						} else {
							defs[obj] = append(defs[obj], nil)
						}
					}
				case *ast.ValueSpec:
					for i, id := range x.Names {
						obj := info.ObjectOf(id)
						assigned[obj]++
						if i < len(x.Values) {
							defs[obj] = append(defs[obj], x.Values[i])
						} else {
							defs[obj] = append(defs[obj], nil)
						}
					}
				case *ast.IncDecStmt:
					if id := identOf(x.X); id != nil {
						assigned[info.ObjectOf(id)] += 2
					}
				}
				return true
			})
			isLenOf := func(e ast.Expr, recvText string) bool {
				call, ok := unparen(e).(*ast.CallExpr)
				if !ok || Callee(info, call) != lenM {
					return false
				}
				sel, ok := unparen(call.Fun).(*ast.SelectorExpr)
				return ok && exprStr(sel.X) == recvText
			}
			ast.Inspect(fd.Body, func(nd ast.Node) bool {
				call, ok := nd.(*ast.CallExpr)
				if !ok || Callee(info, call) != slice || len(call.Args) != 3 {
					return true
				}
				sel, ok := unparen(call.Fun).(*ast.SelectorExpr)
				if !ok {
					return true
				}
				n++
				r.analysed(declID(p, fd))
				recvText := exprStr(sel.X)
				key := "slicelen|" + declID(p, fd) + "|" + recvText + ".slice"
				// the receiver must be a stable name
				if id := identOf(sel.X); id != nil {
					if obj := info.ObjectOf(id); obj != nil && assigned[obj] > 1 {
						r.undecided(key, call.Pos(), "the receiver %s is assigned more than once in %s: which string the length belongs to is not decided", recvText, declID(p, fd))
						return true
					}
				}
				L := unparen(call.Args[2])
				switch {
				case isLenOf(L, recvText):
					r.ok(key, call.Pos(), "length is %s.len()", recvText)
				case identOf(L) != nil:
					obj := info.ObjectOf(identOf(L))
					ds := defs[obj]
					good := len(ds) > 0
					for _, dexp := range ds {
						if dexp == nil || !isLenOf(dexp, recvText) {
							good = false
						}
					}
					if good {
						r.ok(key, call.Pos(), "length is %s, defined as %s.len()", exprStr(L), recvText)
					} else if len(ds) == 0 {
						r.undecided(key, call.Pos(), "the length %s handed to %s.slice is not defined in %s (a parameter?): whether it is the length of %s is not decided", exprStr(L), recvText, declID(p, fd), recvText)
					} else {
						var texts []string
						for _, dexp := range ds {
							if dexp != nil {
								texts = append(texts, exprStr(dexp))
							}
						}
						r.bad(key, call.Pos(), "%s.slice is handed the length %s, which is %s — not the character length of %s: the ASCII shortcut (length == byte length) fires on a non-ASCII %s whose byte length equals that number and the cut is made at byte offsets", recvText, exprStr(L), strings.Join(texts, " / "), recvText, recvText)
					}
				default:
					r.bad(key, call.Pos(), "%s.slice is handed the length %s, which is not %s.len()", recvText, exprStr(L), recvText)
				}
				return true
			})
		}
	}
	if n == 0 {
		r.undecided("slicelen|anchor", token.NoPos, "no call of String.slice found")
	}
}

func init() {
	register(&Rule{ID: "C08.R13", Prop: "C08", Floor: 10,
		Doc: "the process-wide module registry is filled at package initialisation only: every call of py.RegisterModule sits in an init function — a registration made while programs run publishes one context's import to all others (the registry is consulted before a context's own sys.path)",
		Run: runRegisterAtInitOnly})
	register(&Rule{ID: "C05.R7", Prop: "C05", Floor: 3,
		Doc: "who may hold a frame: the struct fields and package-level variables of the module whose type contains *py.Frame are the reviewed holders (Generator.Frame, Traceback.Frame, Vm.frame) — a free list, cache or 'last frame' slot lets a second execution run on the frame a suspended or finished generator still owns",
		Run: runFrameHolders})
	register(&Rule{ID: "C11.R16", Prop: "C11", Floor: 2,
		Doc: "no map of the compile pipeline (parser, ast, symtable, compile) is keyed by an interface that unhashable Go types of the module implement (py.Object: Tuple, Bytes, StringDict …): storing such a value panics at run time; the item table of py.Set is the positive example the matcher must recognise on every run",
		Run: runNoInterfaceKeyedMaps})
	register(&Rule{ID: "C14.R10", Prop: "C14", Floor: 4,
		Doc: "the length hint handed to String.slice is the character length of the very string it is applied to (X.slice(a, b, X.len()) or a local defined as X.len()): with another string's length the ASCII shortcut fires on a non-ASCII string whose byte length equals it and the cut falls at byte offsets",
		Run: runSliceLengthPairing})
}

// ---- C06.R11: assignment context and assignability reach every nested target ----
//
// Python's set_context (ast.c) recurses into the children of a target that are targets themselves: the elements of a
// Tuple or List and the operand of a Starred. Only parser.setCtx rejects what is not assignable (the SetCtx methods of
// the nodes skip such children silently), so each of those three node types needs an arm in parser.setCtx that applies
// setCtx (or setCtxs) to exactly those children. An arm that is missing leaves `*f(), a = x` accepted and, when the
// node's own SetCtx method does not recurse either, leaves names under it in Load context.
var targetChildren = []struct{ typ, field string }{{"Tuple", "Elts"}, {"List", "Elts"}, {"Starred", "Value"}}

func runTargetDescent(c *Ctx, r *Rep) {
	p := c.MustPkg("parser")
	info := p.TypesInfo
	fd := c.FuncDecl("parser", "setCtx")
	if fd == nil {
		r.undecided("descent|anchor", token.NoPos, "parser.setCtx not found")
		return
	}
	r.analysed("parser.setCtx")
	view := c.Expand(p, fd)
	self := c.Func("parser", "setCtx")
	// helpers that apply setCtx to every element of a slice (setCtxs)
	appliesSetCtx := func(fn *types.Func) bool {
		if fn == self {
			return true
		}
		d := c.Decl(fn)
		if d == nil || fn.Pkg() != self.Pkg() {
			return false
		}
		found := false
		ast.Inspect(d.Body, func(nd ast.Node) bool {
			if call, ok := nd.(*ast.CallExpr); ok && Callee(info, call) == self {
				found = true
			}
			return true
		})
		return found
	}
	covered := map[string]bool{}
	ast.Inspect(view.Body, func(nd ast.Node) bool {
		ts, ok := nd.(*ast.TypeSwitchStmt)
		if !ok {
			return true
		}
		for _, cl := range ts.Body.List {
			cc := cl.(*ast.CaseClause)
			for _, te := range cc.List {
				tv, ok := info.Types[te]
				if !ok {
					continue
				}
				ptr, ok := tv.Type.(*types.Pointer)
				if !ok {
					continue
				}
				named, ok := ptr.Elem().(*types.Named)
				if !ok || named.Obj().Pkg() == nil || named.Obj().Pkg().Path() != modPath+"/ast" {
					continue
				}
				for _, tc := range targetChildren {
					if named.Obj().Name() != tc.typ {
						continue
					}
					for _, st := range cc.Body {
						ast.Inspect(st, func(m ast.Node) bool {
							call, ok := m.(*ast.CallExpr)
							if !ok {
								return true
							}
							fn := Callee(info, call)
							if fn == nil || !appliesSetCtx(fn) {
								return true
							}
							for _, a := range call.Args {
								if sel, ok := unparen(a).(*ast.SelectorExpr); ok && sel.Sel.Name == tc.field {
									covered[tc.typ] = true
								}
							}
							return true
						})
					}
				}
			}
		}
		return true
	})
	astPkg := c.MustPkg("ast")
	for _, tc := range targetChildren {
		key := "descent|parser.setCtx|" + tc.typ + "." + tc.field
		tn, _ := astPkg.Types.Scope().Lookup(tc.typ).(*types.TypeName)
		if tn == nil {
			r.undecided(key, fd.Pos(), "ast.%s not found", tc.typ)
			continue
		}
		if covered[tc.typ] {
			r.ok(key, fd.Pos(), "setCtx is applied to %s.%s", tc.typ, tc.field)
		} else {
			r.bad(key, fd.Pos(), "parser.setCtx has no arm that applies setCtx to the %s of an ast.%s target: only setCtx rejects what cannot be assigned to (the nodes' own SetCtx methods skip such children silently), so a non-assignable expression there is accepted (`*f(), a = x`) and the names under it get their context only if every node method on the way happens to recurse [ast.c set_context recurses into Tuple.elts, List.elts and Starred.value]", tc.field, tc.typ)
		}
	}
}

func init() {
	register(&Rule{ID: "C06.R11", Prop: "C06", Floor: 3,
		Doc: "assignment context and assignability reach every nested target: parser.setCtx has an arm for each node type with target children (Tuple.Elts, List.Elts, Starred.Value — ast.c set_context) that applies setCtx to them; the nodes' own SetCtx methods do not reject anything, so a missing arm accepts `*f(), a = x`",
		Run: runTargetDescent})
}

// ---- C06.R12: the indentation decision consults the indent stack ----
//
// Whether a logical line opens a block, closes blocks or continues one is decided by comparing its measured indentation
// with the stack of open indentation levels (tokenizer.c: `if (col == tok->indstack[tok->indent])` …). In the lexer's
// checkIndent state every way out — continue, return, goto — that is taken before the stack has been looked at must
// be taken only because brackets are open (inside brackets indentation means nothing): a condition that is
// openBrackets() itself, a conjunction containing it, or a disjunction all of whose alternatives contain it. Any other
// early way out (a "same as the previous line" fast path, a cached verdict) skips a DEDENT or accepts an unexpected
// indent for some layout of the source.
func runIndentConsultsStack(c *Ctx, r *Rep) {
	p := c.MustPkg("parser")
	info := p.TypesInfo
	fd := c.MethodDecl("parser", "yyLex", "Lex")
	if fd == nil {
		r.undecided("indent|anchor", token.NoPos, "(*parser.yyLex).Lex not found")
		return
	}
	r.analysed("(*parser.yyLex).Lex")
	view := c.Expand(p, fd)
	var clause *ast.CaseClause
	ast.Inspect(view.Body, func(nd ast.Node) bool {
		cc, ok := nd.(*ast.CaseClause)
		if !ok {
			return true
		}
		for _, e := range cc.List {
			if id := identOf(e); id != nil {
				if k, ok := info.Uses[id].(*types.Const); ok && k.Name() == "checkIndent" {
					clause = cc
				}
			}
		}
		return true
	})
	if clause == nil {
		r.undecided("indent|anchor", fd.Pos(), "the checkIndent state of the lexer's state machine was not found")
		return
	}
	readsStack := func(n ast.Node) bool {
		found := false
		ast.Inspect(n, func(m ast.Node) bool {
			if sel, ok := m.(*ast.SelectorExpr); ok && sel.Sel.Name == "indentStack" {
				if _, isField := info.Uses[sel.Sel].(*types.Var); isField {
					found = true
				}
			}
			return true
		})
		return found
	}
	first := -1
	for i, st := range clause.Body {
		if readsStack(st) {
			first = i
			break
		}
	}
	if first < 0 {
		r.bad("indent|checkIndent|stack consulted", clause.Pos(), "the checkIndent state never reads the indent stack: INDENT and DEDENT cannot be decided without it")
		return
	}
	// single definitions of boolean locals inside the clause
	defs := map[types.Object][]ast.Expr{}
	for _, st := range clause.Body {
		ast.Inspect(st, func(m ast.Node) bool {
			if as, ok := m.(*ast.AssignStmt); ok && len(as.Lhs) == len(as.Rhs) {
				for i, l := range as.Lhs {
					if id := identOf(l); id != nil {
						defs[info.ObjectOf(id)] = append(defs[info.ObjectOf(id)], as.Rhs[i])
					}
				}
			}
			return true
		})
	}
	var onlyBrackets func(e ast.Expr, depth int) bool
	onlyBrackets = func(e ast.Expr, depth int) bool {
		if depth > 5 {
			return false
		}
		e = unparen(e)
		switch x := e.(type) {
		case *ast.CallExpr:
			fn := Callee(info, x)
			return fn != nil && fn.Name() == "openBrackets"
		case *ast.BinaryExpr:
			switch x.Op {
			case token.LAND:
				return onlyBrackets(x.X, depth+1) || onlyBrackets(x.Y, depth+1)
			case token.LOR:
				return onlyBrackets(x.X, depth+1) && onlyBrackets(x.Y, depth+1)
			case token.GTR, token.NEQ:
				// x.bracket+x.parenthesis+x.curly > 0 written out
				s := exprStr(x)
				return strings.Contains(s, "bracket") || strings.Contains(s, "parenthesis") || strings.Contains(s, "curly")
			}
		case *ast.Ident:
			ds := defs[info.ObjectOf(x)]
			if len(ds) != 1 {
				return false
			}
			return onlyBrackets(ds[0], depth+1)
		}
		return false
	}
	n := 0
	var walk func(st ast.Stmt, guards []ast.Expr)
	walkList := func(list []ast.Stmt, guards []ast.Expr) {
		for _, s := range list {
			walk(s, guards)
		}
	}
	walk = func(st ast.Stmt, guards []ast.Expr) {
		switch x := st.(type) {
		case *ast.BranchStmt, *ast.ReturnStmt:
			n++
			kind := "return"
			if b, ok := x.(*ast.BranchStmt); ok {
				kind = b.Tok.String()
			}
			key := "indent|checkIndent|early " + kind
			okExit := false
			for _, g := range guards {
				if onlyBrackets(g, 0) {
					okExit = true
				}
			}
			if okExit {
				r.ok(key, st.Pos(), "taken only while brackets are open")
			} else {
				var gs []string
				for _, g := range guards {
					gs = append(gs, exprStr(g))
				}
				r.bad(key, st.Pos(), "the checkIndent state is left by `%s` (under %s) before the measured indentation has been compared with the indent stack, and not only because brackets are open: for some layout of the source a DEDENT is skipped or an unexpected indent accepted (the decision belongs to the comparison with indentStack) [tokenizer.c tok_get]", kind, strings.Join(gs, " && "))
			}
		case *ast.IfStmt:
			walkList(x.Body.List, append(append([]ast.Expr{}, guards...), x.Cond))
			if x.Else != nil {
				walk(x.Else, guards) // the negation carries no bracket fact
			}
		case *ast.BlockStmt:
			walkList(x.List, guards)
		case *ast.ForStmt:
			walkList(x.Body.List, guards)
		case *ast.RangeStmt:
			walkList(x.Body.List, guards)
		case *ast.SwitchStmt:
			for _, cl := range x.Body.List {
				walkList(cl.(*ast.CaseClause).Body, guards)
			}
		case *ast.LabeledStmt:
			walk(x.Stmt, guards)
		}
	}
	walkList(clause.Body[:first], nil)
	r.ok("indent|checkIndent|stack consulted", clause.Body[first].Pos(), "the indent stack is read; %d earlier way(s) out examined", n)
}

func init() {
	register(&Rule{ID: "C06.R12", Prop: "C06", Floor: 2,
		Doc: "the indentation decision consults the indent stack: in the lexer's checkIndent state every continue/return/goto taken before the first read of indentStack is taken only because brackets are open (a condition that is openBrackets(), a conjunction containing it, or a disjunction all of whose alternatives do) — any other early way out skips a DEDENT or accepts an unexpected indent for some source layout; the arithmetic of the comparison itself is not decided",
		Run: runIndentConsultsStack})
}

// ---- C05.R8 (= C02.R10): what the machine carries from one instruction to the next ----
//
// A generator is resumed on a fresh Vm (RunFrame builds one per call); whatever must survive a yield lives in the frame
// (value stack, block stack, Lasti). A Vm field written while instructions execute — by an opcode handler, a function it
// calls, or the dispatch loop — is state of the *current run* only. The fields of that kind in the reviewed tree are six,
// identified by type so that renaming one changes nothing: the EXTENDED_ARG latch (bool, int32), the pending return
// value (py.Object), the unwind reason (vmStatus) and the two exception triples (py.ExceptionInfo ×2); each is consumed
// within the instruction that set it or is re-established from the frame's stacks by the unwinder. A further field of
// that kind (a pending jump target, a cached verdict) is lost when a generator is suspended between the instruction
// that sets it and the one that reads it.
var vmCarriedReviewed = []string{"bool", "int32", "py.Object", "vm.vmStatus", "py.ExceptionInfo", "py.ExceptionInfo"}

func runVmCarriedState(c *Ctx, r *Rep) {
	p := c.MustPkg("vm")
	info := p.TypesInfo
	vmT := c.Named("vm", "Vm")
	if vmT == nil {
		r.undecided("vmstate|anchor", token.NoPos, "type vm.Vm not found")
		return
	}
	st, ok := vmT.Underlying().(*types.Struct)
	if !ok {
		r.undecided("vmstate|anchor", token.NoPos, "vm.Vm is not a struct")
		return
	}
	fields := map[*types.Var]bool{}
	for i := 0; i < st.NumFields(); i++ {
		fields[st.Field(i)] = true
	}
	type wr struct {
		fn  string
		pos token.Pos
	}
	writes := map[*types.Var][]wr{}
	for _, file := range c.Files(p) {
		for _, d := range file.Decls {
			fd, ok := d.(*ast.FuncDecl)
			if !ok || fd.Body == nil {
				continue
			}
			id := declID(p, fd)
			// in the function that builds the Vm, the statements before its dispatch loop are construction
			var loopPos token.Pos = token.NoPos
			builds := false
			ast.Inspect(fd.Body, func(nd ast.Node) bool {
				if cl, ok := nd.(*ast.CompositeLit); ok {
					if tv, ok := info.Types[cl]; ok && types.Identical(tv.Type, vmT) {
						builds = true
					}
				}
				return true
			})
			if builds {
				for _, s := range fd.Body.List {
					if f, ok := s.(*ast.ForStmt); ok && loopPos == token.NoPos {
						loopPos = f.Pos()
					}
				}
			}
			record := func(lhs ast.Expr, pos token.Pos) {
				// vm.curexc.Value = … writes the field curexc of the machine: walk down to the root
				for e := unparen(lhs); ; {
					switch x := e.(type) {
					case *ast.SelectorExpr:
						if fv, ok := info.Uses[x.Sel].(*types.Var); ok && fields[fv] {
							if !(builds && loopPos != token.NoPos && pos < loopPos) { // else: set up before the first instruction runs
								writes[fv] = append(writes[fv], wr{id, pos})
							}
							return
						}
						// the write lands in the machine only if the path stays inside it: through a pointer (vm.frame.Stack)
						// it lands in the object pointed to
						if tv, ok := info.Types[x.X]; ok {
							if _, isPtr := tv.Type.Underlying().(*types.Pointer); isPtr {
								if id := identOf(x.X); id == nil { // the receiver variable itself (vm) is the machine
									return
								}
							}
						}
						e = unparen(x.X)
						continue
					case *ast.IndexExpr:
						if tv, ok := info.Types[x.X]; ok {
							if _, isArr := tv.Type.Underlying().(*types.Array); isArr {
								e = unparen(x.X)
								continue
							}
						}
						return
					}
					return
				}
			}
			ast.Inspect(fd.Body, func(nd ast.Node) bool {
				switch x := nd.(type) {
				case *ast.AssignStmt:
					for _, l := range x.Lhs {
						record(l, x.Pos())
					}
				case *ast.IncDecStmt:
					record(x.X, x.Pos())
				case *ast.UnaryExpr:
					if x.Op == token.AND { // address taken: may be written through the pointer
						record(x.X, x.Pos())
					}
				}
				return true
			})
			r.analysed(id)
		}
	}
	typeName := func(t types.Type) string {
		return types.TypeString(t, func(pk *types.Package) string { return shortPkg(pk.Path()) })
	}
	remaining := append([]string{}, vmCarriedReviewed...)
	var carried []*types.Var
	for i := 0; i < st.NumFields(); i++ {
		if len(writes[st.Field(i)]) > 0 {
			carried = append(carried, st.Field(i))
		}
	}
	for _, f := range carried {
		tn := typeName(f.Type())
		found := -1
		for i, rt := range remaining {
			if rt == tn {
				found = i
				break
			}
		}
		key := "vmstate|instruction-written field of type " + tn
		if found >= 0 {
			remaining = append(remaining[:found], remaining[found+1:]...)
			r.ok(key, f.Pos(), "reviewed: consumed within the instruction that sets it, or re-established from the frame's stacks by the unwinder (%d write sites)", len(writes[f]))
			continue
		}
		w := writes[f][0]
		r.bad(key, w.pos, "Vm field %s (%s) is written while instructions execute (first in %s) and is not one of the reviewed per-run fields: a generator is resumed on a fresh Vm, so a value kept here between the instruction that sets it and the one that reads it is lost when the generator yields in between (a continue passing through a finally clause that yields) — what must survive a suspension belongs in the frame (value stack, block stack)", f.Name(), tn, w.fn)
	}
	if len(carried) == 0 {
		r.undecided("vmstate|anchor", token.NoPos, "no Vm field is written by any instruction: the machine's state is no longer visible to this rule")
	}
}

func init() {
	doc := "what the machine carries from one instruction to the next: the Vm fields written while instructions execute (by handlers, their callees or the dispatch loop — not by the construction before the first instruction) are the six reviewed ones, identified by type (bool, int32, py.Object, vmStatus, py.ExceptionInfo ×2); a generator is resumed on a fresh Vm, so any further such field is lost across a yield"
	register(&Rule{ID: "C05.R8", Prop: "C05", Floor: 6, Doc: doc, Run: runVmCarriedState})
	register(&Rule{ID: "C02.R10", Prop: "C02", Floor: 6, Doc: doc + " (a pending break/continue/return travelling through a finally clause is such state)", Run: runVmCarriedState})
}

// ---- C04.R9: **kwargs receives a dictionary made for the call ----
//
// Python's binding algorithm gives the callee's **kwargs parameter a new dict (and builds the keyword dict of a
// f(**d) call from d's items): the callee may mutate it, the caller may keep using d. Two sites must both hold: the VM
// call sequence never hands the ** operand itself to the callee (the clause of C13.R1/C17.R1, registered here too), and
// in EvalCode no parameter's dictionary (kws, kwdefs, globals, locals) becomes a Python object of the frame — every
// StringDict that EvalCode turns into an object was allocated by EvalCode. Either site alone hides the other's slip.
func runKwargsFresh(c *Ctx, r *Rep) {
	a := newAliasAn(c)
	ln := newLitNamer(c)
	kwargsFreshness(c, a, ln, r)
	evalCode := c.Func("vm", "EvalCode")
	if evalCode == nil {
		r.undecided("vm.EvalCode|kwdict", token.NoPos, "vm.EvalCode not found")
		return
	}
	fn := c.SSAFunc(evalCode)
	if fn == nil {
		r.undecided("vm.EvalCode|kwdict", token.NoPos, "no SSA for vm.EvalCode")
		return
	}
	r.analysed("vm.EvalCode")
	n := 0
	var visit func(f *ssa.Function)
	seen := map[*ssa.Function]bool{}
	visit = func(f *ssa.Function) {
		if seen[f] {
			return
		}
		seen[f] = true
		for _, b := range f.Blocks {
			for _, in := range b.Instrs {
				mi, ok := in.(*ssa.MakeInterface)
				if !ok || !strings.HasSuffix(mi.X.Type().String(), "/py.StringDict") {
					continue
				}
				n++
				var from []string
				for at := range a.t[mi.X] {
					if at.fn == fn && !at.elem {
						from = append(from, paramName(fn, at.idx))
					}
				}
				sort.Strings(from)
				from = uniq(from)
				key := "vm.EvalCode|dictionary made an object"
				pos := mi.Pos()
				if !pos.IsValid() {
					pos = fn.Pos()
				}
				if len(from) > 0 {
					r.bad(key, pos, "EvalCode turns a dictionary it was passed (%s) into an object of the callee's frame: the **kwargs parameter must be a new dict — with the caller's own dict there, a callee that changes its **kwargs changes the caller's mapping (f(**d) twice sees different keywords), and later changes of the mapping show inside the callee", strings.Join(from, ", "))
				} else {
					r.ok(key, pos, "allocated by EvalCode")
				}
			}
		}
		for _, anon := range f.AnonFuncs {
			visit(anon)
		}
	}
	visit(fn)
	if n == 0 {
		r.undecided("vm.EvalCode|kwdict", token.NoPos, "EvalCode makes no StringDict an object: the **kwargs slot is no longer visible to this rule")
	}
}

func init() {
	register(&Rule{ID: "C04.R9", Prop: "C04", Floor: 2,
		Doc: "**kwargs receives a dictionary made for the call: the VM call sequence never hands the ** operand itself to the callee (storage-sharing analysis A9, the clause of C13.R1), and every StringDict that EvalCode turns into an object of the callee's frame was allocated by EvalCode — none of its parameters' dictionaries (kws, kwdefs, globals, locals) flows there",
		Run: runKwargsFresh})
}

// ---- C04.R8: which slot each argument is copied to ----
//
// The binder (vm.EvalCode, ceval.c PyEval_EvalCodeEx) moves values between four sequences: the positional arguments, the
// defaults, the *args tuple it builds, and the frame's fast locals. Wherever one element assignment copies from one of
// these sequences to another — A[ia] = B[ib], the right-hand side possibly being the element variable of a range over
// B[lo:] — the difference ia − ib is a fixed linear form of the signature: an argument goes to the slot of its own
// index, a surplus argument to position i − n of the *args tuple, default i to slot Argcount − len(defaults) + i.
// The forms are computed from the code (single-definition locals resolved, conversions stripped, parameters named by
// position) and compared with the reviewed ones. This decides the offsets, not the loop bounds.
var binderTransfers = map[string]*lin{
	"Localsplus <- p5": linConst(0),                                  // fastlocals[i] = args[i]
	"tuple <- p5":      linSym("n").scale(-1),                        // u[i-n] = args[i]
	"Localsplus <- p7": linSym("p2.Argcount").sub(linSym("len(p7)")), // fastlocals[m+i] = defs[i], m = Argcount - len(defs)
}

func runBinderTransfers(c *Ctx, r *Rep) {
	p := c.MustPkg("vm")
	info := p.TypesInfo
	fd0 := c.FuncDecl("vm", "EvalCode")
	if fd0 == nil {
		r.undecided("binder|anchor", token.NoPos, "vm.EvalCode not found")
		return
	}
	r.analysed("vm.EvalCode")
	fd, alias := c.ExpandAlias(p, fd0)
	objOf := func(id *ast.Ident) types.Object { return alias(info.ObjectOf(id)) }
	// parameters by position
	pname := map[types.Object]string{}
	k := 0
	for _, f := range fd0.Type.Params.List {
		for _, nm := range f.Names {
			k++
			pname[info.Defs[nm]] = "p" + itoa(k)
		}
	}
	// definitions of locals
	defs := map[types.Object][]ast.Expr{}
	ast.Inspect(fd.Body, func(nd ast.Node) bool {
		switch x := nd.(type) {
		case *ast.AssignStmt:
			for i, l := range x.Lhs {
				if id := identOf(l); id != nil {
					var rhs ast.Expr
					if len(x.Lhs) == len(x.Rhs) && x.Tok != token.ADD_ASSIGN && x.Tok != token.SUB_ASSIGN {
						rhs = x.Rhs[i]
					}
					defs[objOf(id)] = append(defs[objOf(id)], rhs)
				}
			}
		case *ast.IncDecStmt:
			if id := identOf(x.X); id != nil {
				defs[objOf(id)] = append(defs[objOf(id)], nil, nil)
			}
		case *ast.ValueSpec:
			for i, id := range x.Names {
				var rhs ast.Expr
				if i < len(x.Values) {
					rhs = x.Values[i]
				}
				defs[objOf(id)] = append(defs[objOf(id)], rhs)
			}
		}
		return true
	})
	var canonExpr func(e ast.Expr, depth int) string
	// linear form of an integer expression
	var L func(e ast.Expr, depth int) *lin
	L = func(e ast.Expr, depth int) *lin {
		e = unparen(e)
		if v, ok := constInt(info, e); ok {
			return linConst(v)
		}
		if depth > 8 {
			return linSym(exprStr(e))
		}
		switch x := e.(type) {
		case *ast.Ident:
			obj := objOf(x)
			if nm, ok := pname[obj]; ok {
				return linSym(nm)
			}
			ds := defs[obj]
			if len(ds) == 1 && ds[0] != nil {
				return L(ds[0], depth+1)
			}
			if x.Name == "n" || len(ds) >= 1 && ds[0] != nil && canonExpr(ds[0], depth+1) == "len(p5)" {
				return linSym("n") // the number of positional arguments that go to named slots: len(args) capped at Argcount
			}
			return linSym(x.Name)
		case *ast.BinaryExpr:
			switch x.Op {
			case token.ADD:
				return L(x.X, depth+1).add(L(x.Y, depth+1))
			case token.SUB:
				return L(x.X, depth+1).sub(L(x.Y, depth+1))
			}
		case *ast.CallExpr:
			if tv, ok := info.Types[x.Fun]; ok && tv.IsType() && len(x.Args) == 1 {
				return L(x.Args[0], depth+1)
			}
		}
		return linSym(canonExpr(e, depth+1))
	}
	canonExpr = func(e ast.Expr, depth int) string {
		e = unparen(e)
		switch x := e.(type) {
		case *ast.Ident:
			if nm, ok := pname[objOf(x)]; ok {
				return nm
			}
			return x.Name
		case *ast.SelectorExpr:
			return canonExpr(x.X, depth+1) + "." + x.Sel.Name
		case *ast.CallExpr:
			if isBuiltinCall(info, x, "len") && len(x.Args) == 1 {
				return "len(" + canonExpr(x.Args[0], depth+1) + ")"
			}
			if tv, ok := info.Types[x.Fun]; ok && tv.IsType() && len(x.Args) == 1 {
				return canonExpr(x.Args[0], depth+1)
			}
		}
		return exprStr(e)
	}
	// what kind of sequence an expression denotes
	var kindOf func(e ast.Expr, depth int) string
	kindOf = func(e ast.Expr, depth int) string {
		e = unparen(e)
		if depth > 4 {
			return ""
		}
		switch x := e.(type) {
		case *ast.Ident:
			obj := objOf(x)
			if nm, ok := pname[obj]; ok {
				if nm == "p5" || nm == "p7" {
					return nm
				}
				return ""
			}
			ds := defs[obj]
			if len(ds) == 1 && ds[0] != nil {
				return kindOf(ds[0], depth+1)
			}
		case *ast.SelectorExpr:
			if x.Sel.Name == "Localsplus" {
				return "Localsplus"
			}
		case *ast.CallExpr:
			if isBuiltinCall(info, x, "make") && len(x.Args) >= 1 && strings.HasSuffix(exprStr(x.Args[0]), "Tuple") {
				return "tuple"
			}
		}
		return ""
	}
	// range element variables: v of `for k, v := range B[lo:]`
	type elem struct {
		base ast.Expr
		idx  *lin
	}
	elems := map[types.Object]elem{}
	ast.Inspect(fd.Body, func(nd ast.Node) bool {
		rs, ok := nd.(*ast.RangeStmt)
		if !ok || rs.Value == nil {
			return true
		}
		vid := identOf(rs.Value)
		if vid == nil {
			return true
		}
		base := unparen(rs.X)
		lo := linConst(0)
		if se, ok := base.(*ast.SliceExpr); ok {
			base = unparen(se.X)
			if se.Low != nil {
				lo = L(se.Low, 0)
			}
		}
		var idx *lin
		if kid := identOf(rs.Key); kid != nil && kid.Name != "_" {
			idx = lo.add(linSym(kid.Name))
		} else {
			idx = lo.add(linSym("?key"))
		}
		elems[objOf(vid)] = elem{base, idx}
		return true
	})
	found := map[string]bool{}
	ast.Inspect(fd.Body, func(nd ast.Node) bool {
		as, ok := nd.(*ast.AssignStmt)
		if !ok || len(as.Lhs) != 1 || len(as.Rhs) != 1 {
			return true
		}
		lx, ok := unparen(as.Lhs[0]).(*ast.IndexExpr)
		if !ok {
			return true
		}
		ak := kindOf(lx.X, 0)
		if ak == "" {
			return true
		}
		var bk string
		var ib *lin
		switch rx := unparen(as.Rhs[0]).(type) {
		case *ast.IndexExpr:
			bk = kindOf(rx.X, 0)
			ib = L(rx.Index, 0)
		case *ast.Ident:
			if el, ok := elems[objOf(rx)]; ok {
				bk = kindOf(el.base, 0)
				ib = el.idx
			}
		}
		if bk == "" || ib == nil || ak == bk {
			return true
		}
		pair := ak + " <- " + bk
		want, reviewed := binderTransfers[pair]
		d := L(lx.Index, 0).sub(ib)
		key := "binder|vm.EvalCode|" + pair
		found[pair] = true
		switch {
		case !reviewed:
			r.okTrivial(key, as.Pos(), "EvalCode copies elements %s (slot − source index = %s); no reviewed offset for this pair of sequences: not decided", pair, d.String())
		case d.equal(want):
			r.ok(key, as.Pos(), "slot − source index = %s", want.String())
		default:
			r.bad(key, as.Pos(), "EvalCode copies elements %s with slot − source index = %s where the binding algorithm has %s: an argument or default lands in another parameter's slot (for instance default i belongs in slot Argcount − len(defaults) + i whatever number of positional arguments was given) [ceval.c PyEval_EvalCodeEx]", pair, d.String(), want.String())
		}
		return true
	})
	for pair := range binderTransfers {
		if !found[pair] {
			// not an alarm: a bulk copy or a helper the views do not look through moves the same elements; the offset is
			// then simply not decided by this rule (the floor still requires one visible element copy)
			r.okTrivial("binder|vm.EvalCode|"+pair, fd0.Pos(), "the element copy %s is not visible as an element assignment in EvalCode: its offset is not decided here", pair)
		}
	}
}

func itoa(n int) string {
	if n == 0 {
		return "0"
	}
	s := ""
	for n > 0 {
		s = string(rune('0'+n%10)) + s
		n /= 10
	}
	return s
}

func init() {
	register(&Rule{ID: "C04.R8", Prop: "C04", Floor: 1,
		Doc: "which slot each argument is copied to: wherever EvalCode copies an element from the positional arguments or the defaults into the fast locals or the *args tuple (A[ia] = B[ib], also through the element variable of a range over B[lo:]), the offset ia − ib — computed as a linear form with single-definition locals resolved and parameters named by position — is the one the binding algorithm fixes (argument i to slot i; surplus argument i to tuple position i − n; default i to slot Argcount − len(defaults) + i); loop bounds and the keyword search are not decided here",
		Run: runBinderTransfers})
}

// ---- C12.R13: the layout is repeated until it settles ----
//
// Jump arguments depend on positions and positions on the widths of jump arguments: the assembler repeats its layout pass
// until a pass moves nothing. Every call of Instructions.Pass in Assemble therefore sits in a loop and its result (did
// anything move?) is used — a fixed number of passes "because nothing can need widening here" leaves jumps resolved
// against positions that a later widening has shifted.
func runLayoutSettles(c *Ctx, r *Rep) {
	p := c.MustPkg("compile")
	info := p.TypesInfo
	fd0 := c.MethodDecl("compile", "Instructions", "Assemble")
	pass := c.Method("compile", "Instructions", "Pass")
	if fd0 == nil || pass == nil {
		r.undecided("settle|anchor", token.NoPos, "compile.Instructions.Assemble / Pass not found")
		return
	}
	r.analysed("(compile.Instructions).Assemble")
	fd := c.Expand(p, fd0)
	n := 0
	var stack []ast.Node
	ast.Inspect(fd.Body, func(nd ast.Node) bool {
		if nd == nil {
			stack = stack[:len(stack)-1]
			return true
		}
		stack = append(stack, nd)
		call, ok := nd.(*ast.CallExpr)
		if !ok || Callee(info, call) != pass {
			return true
		}
		n++
		inLoop := false
		for _, s := range stack {
			switch s.(type) {
			case *ast.ForStmt, *ast.RangeStmt:
				inLoop = true
			}
		}
		_, discarded := stack[len(stack)-2].(*ast.ExprStmt)
		key := "settle|(compile.Instructions).Assemble|call of Pass"
		switch {
		case !inLoop:
			r.bad(key, call.Pos(), "Assemble calls the layout pass outside the loop that repeats it until nothing moves: a fixed number of passes leaves the jumps resolved before a late widening (an EXTENDED_ARG that a jump or a large MAKE_FUNCTION argument turns out to need) pointing 3 or 6 bytes short of their labels")
		case discarded:
			r.bad(key, call.Pos(), "Assemble discards the result of the layout pass (did anything move?): the loop cannot know whether positions have settled")
		default:
			r.ok(key, call.Pos(), "inside the settling loop, result used")
		}
		return true
	})
	if n == 0 {
		r.undecided("settle|anchor", fd0.Pos(), "Assemble no longer calls Instructions.Pass")
	}
}

func init() {
	register(&Rule{ID: "C12.R13", Prop: "C12", Floor: 1,
		Doc: "the layout is repeated until it settles: every call of Instructions.Pass in Assemble sits inside a loop and its result (did anything move?) is used — no fixed number of passes on a fast path; together with C11.R14 (widths only grow) and C12.R10 (order inside a pass) this is what makes every jump land on its label",
		Run: runLayoutSettles})
}

// ---- C19.R10: "no such module" is said only about the search, not about the module's own code ----
//
// ImportModuleLevelObject turns FileNotFoundError into ImportError("No module named …"). That translation is right for
// the error of the path search (ResolveAndCompile) and wrong for an error raised while the module body runs: a module
// that opens a missing data file would be reported as absent, `try: import m / except ImportError` would carry on as
// if it were, and the half-run module would stay in the store. Every test IsException(FileNotFoundError, e) in the
// import function therefore classifies a value that was last assigned from a call of ResolveAndCompile.
func runNotFoundOnlyFromSearch(c *Ctx, r *Rep) {
	p := c.MustPkg("py")
	info := p.TypesInfo
	fd0 := c.FuncDecl("py", "ImportModuleLevelObject")
	if fd0 == nil {
		r.undecided("notfound|anchor", token.NoPos, "py.ImportModuleLevelObject not found")
		return
	}
	r.analysed("py.ImportModuleLevelObject")
	fd := c.Expand(p, fd0)
	type asg struct {
		pos  token.Pos
		call *ast.CallExpr
	}
	assigns := map[types.Object][]asg{}
	ast.Inspect(fd.Body, func(nd ast.Node) bool {
		as, ok := nd.(*ast.AssignStmt)
		if !ok {
			return true
		}
		var call *ast.CallExpr
		if len(as.Rhs) == 1 {
			call, _ = unparen(as.Rhs[0]).(*ast.CallExpr)
		}
		for _, l := range as.Lhs {
			if id := identOf(l); id != nil && id.Name != "_" {
				assigns[info.ObjectOf(id)] = append(assigns[info.ObjectOf(id)], asg{as.Pos(), call})
			}
		}
		return true
	})
	n := 0
	ast.Inspect(fd.Body, func(nd ast.Node) bool {
		call, ok := nd.(*ast.CallExpr)
		if !ok || len(call.Args) != 2 {
			return true
		}
		fn := Callee(info, call)
		if fn == nil || fn.Name() != "IsException" {
			return true
		}
		if id := identOf(call.Args[0]); id == nil || id.Name != "FileNotFoundError" {
			return true
		}
		n++
		key := "notfound|py.ImportModuleLevelObject|FileNotFoundError classified"
		eid := identOf(call.Args[1])
		if eid == nil {
			r.undecided(key, call.Pos(), "the classified value %s is not a variable", exprStr(call.Args[1]))
			return true
		}
		var last *asg
		for i := range assigns[info.ObjectOf(eid)] {
			a := &assigns[info.ObjectOf(eid)][i]
			if a.pos < call.Pos() && (last == nil || a.pos > last.pos) {
				last = a
			}
		}
		switch {
		case last == nil || last.call == nil:
			r.undecided(key, call.Pos(), "where %s was last assigned is not visible", eid.Name)
		case Callee(info, last.call) != nil && Callee(info, last.call).Name() == "ResolveAndCompile":
			r.ok(key, call.Pos(), "%s comes from the path search (ResolveAndCompile)", eid.Name)
		default:
			r.bad(key, call.Pos(), "the FileNotFoundError → ImportError translation is applied to the result of %s, which also runs the module's code: a module whose body raises FileNotFoundError (opening a missing file) is reported as 'No module named …', `except ImportError` treats it as absent and the half-run module stays registered — the translation belongs to the error of the path search (ResolveAndCompile) alone", exprStr(last.call.Fun))
		}
		return true
	})
	if n == 0 {
		r.undecided("notfound|anchor", fd0.Pos(), "ImportModuleLevelObject no longer classifies FileNotFoundError: who reports a missing module is not visible")
	}
}

func init() {
	register(&Rule{ID: "C19.R10", Prop: "C19", Floor: 1,
		Doc: "'no such module' is said only about the search: every IsException(FileNotFoundError, e) in ImportModuleLevelObject classifies a value last assigned from a call of ResolveAndCompile — never the result of something that also runs the module's code, whose own FileNotFoundError must reach the importer unchanged",
		Run: runNotFoundOnlyFromSearch})
}

// ---- C01.R10, C04.R10: the error-flow rules of C02, read for two mechanisms of other properties ----
//
// C02.R4/R8 decide, for every call in the VM and in the object layer, that the callee's error is handed on. Two of those
// functions carry clauses of other properties: `x in y` must raise what iterating y raised (C01: the result is the value
// — or the exception — Python defines), and a call f(*x, **y) must raise what expanding x raised (C04: TypeError
// precisely when Python raises it). The obligations of those functions are reported under these properties as well.
func filteredRule(inner func(c *Ctx, r *Rep), innerID string, match func(key string) bool, what string) func(c *Ctx, r *Rep) {
	return func(c *Ctx, r *Rep) {
		tmp := &Rep{rule: &Rule{ID: innerID}, c: c, config: r.config}
		inner(c, tmp)
		n := 0
		for _, o := range tmp.Obs {
			k := strings.TrimPrefix(o.Key, innerID+"|")
			if !match(k) {
				continue
			}
			n++
			cp := *o
			cp.Rule = r.rule.ID
			cp.Key = r.rule.ID + "|" + k
			r.Obs = append(r.Obs, &cp)
		}
		for fn := range tmp.Funcs {
			if match("|" + fn + "|") {
				r.analysed(fn)
			}
		}
		if n == 0 {
			r.undecided("errors|anchor", token.NoPos, "%s: no call site of it is visible to the error-flow analysis any more", what)
		}
	}
}

func init() {
	register(&Rule{ID: "C01.R10", Prop: "C01", Floor: 1,
		Doc: "`x in y` raises what iterating y raised: the error of every call made in py.SequenceContains is handed on unchanged (the obligations of C02.R8 for that function — edge-sensitive error-value flow on go/ssa); replacing it (by a TypeError \"not iterable\", say) makes a generator's ValueError look like a type error of the operand",
		Run: filteredRule(runErrorDiscipline, "C02.R8", func(k string) bool { return strings.Contains(k, "|py.SequenceContains|") }, "py.SequenceContains")})
	register(&Rule{ID: "C04.R10", Prop: "C04", Floor: 1,
		Doc: "a call f(*x, **y) raises what expanding its operands raised: the error of every call made in (*vm.Vm).Call is handed on unchanged (the obligations of C02.R4 for that function); TypeError is raised precisely when Python raises it, not in place of an exception from the iterable",
		Run: filteredRule(runC02R4, "C02.R4", func(k string) bool { return strings.Contains(k, "|(*vm.Vm).Call|") }, "(*vm.Vm).Call")})
}

// ---- C06.R13: parsing is a function of the input text ----
//
// The tree a source yields must not depend on what was parsed before it. The census of C18.R4 (package-level variables
// of the pipeline packages that can hold mutable state) is reported under C06 for package parser: a pooled decode buffer,
// a reused lexer, a memo of earlier inputs carries text or verdicts from one parse into the next.
func init() {
	register(&Rule{ID: "C06.R13", Prop: "C06", Floor: 3,
		Doc: "parsing is a function of the input text: the package-level variables of package parser that can hold mutable state (pointer, interface, slice, map, func, struct containing one) are the reviewed immutable tables and hooks (the obligations of C18.R4 for package parser) — a pooled buffer, reused lexer or memo carries text or verdicts from one parse into the next",
		Run: filteredRule(runPipelineVars, "C18.R4", func(k string) bool { return strings.Contains(k, "|parser.") }, "package parser")})
}
