package main

func init() { registerTableRules() }
