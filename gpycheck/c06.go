package main

import (
	"fmt"
	"go/ast"
	"go/token"
	"os"
	"path/filepath"
	"strings"
)

func init() {
	for _, prop := range []string{"C01", "C06"} {
		p := prop
		id := map[string]string{"C01": "C01.R6", "C06": "C06.R2"}[p]
		register(&Rule{ID: id, Prop: p, Floor: 40,
			Doc: "grammar operator cascade (read from parser/grammar.y with an own yacc reader, actions parsed as Go): the chain test > or_test > and_test > not_test > comparison > expr > xor_expr > and_expr > shift_expr > arith_expr > term > factor > power in that order; every binary level left-recursive `L: L op N` building BinOp{Left:$1, Op:K, Right:$3} with K the operator Python assigns to that token; power right-recursive through factor; BoolOp/Compare flattening appends only when the left operand was built by the same production (isExpr discipline); IfExp field roles; comp_op and augassign token tables",
			Run: func(c *Ctx, r *Rep) { runGrammarCascade(c, r) }})
		id1 := map[string]string{"C01": "C01.R7", "C06": "C06.R1"}[p]
		register(&Rule{ID: id1, Prop: p, Floor: 90,
			Doc: "parser/y.go is what goyacc generates from parser/grammar.y: the grammar is regenerated in a scratch directory with goyacc (x/tools v0.29.0) and every table (values), constant, type and function — in particular each semantic action — is compared with the checked-in file as a position-free syntax tree; without this a statement about grammar.y says nothing about the running parser",
			Run: func(c *Ctx, r *Rep) { runYaccRegen(c, r) }})
	}
	register(&Rule{ID: "C06.R3", Prop: "C06", Floor: 80,
		Doc: "token tables: the lexer's operator map spells exactly the punctuation tokens the grammar declares, each spelling mapped to the token Python assigns to it; the keyword map is the 33 keywords of Python 3.4; readOperator tries lengths 3,2,1 (longest match); every opening bracket increments the counter its closer decrements; NEWLINE and INDENT/DEDENT are suppressed while a bracket is open",
		Run: runC06R3})
	register(&Rule{ID: "C06.R4", Prop: "C06", Floor: 8,
		Doc: "assignment-context coverage: every production that creates a binding or deletion target routes it through setCtx/setCtxs with Store/Del (assignment, augmented assignment, del, for, with…as, both comprehension forms), and setCtx raises SyntaxError for every expression type without a SetCtx method",
		Run: runC06R4})
}

var grammarCache = map[string]*yGrammar{}

func loadGrammar(c *Ctx, r *Rep) *yGrammar {
	path := filepath.Join(c.Repo, "parser", "grammar.y")
	if g, ok := grammarCache[path+c.Config]; ok {
		return g
	}
	g, err := readGrammar(path)
	if err != nil {
		r.undecided("parser|grammar.y", token.NoPos, "cannot read the grammar: %v", err)
		return nil
	}
	for _, a := range g.alts {
		if a.perr != nil {
			r.undecided(fmt.Sprintf("parser|grammar.y|%s: %s", a.lhs, symsString(a)), token.NoPos, "action at line %d does not parse as Go: %v", a.line, a.perr)
		}
	}
	grammarCache[path+c.Config] = g
	return g
}

func findAlt(g *yGrammar, lhs string, syms ...string) *yAlt {
	for _, a := range g.altsOf(lhs) {
		if len(a.syms) != len(syms) {
			continue
		}
		ok := true
		for i := range syms {
			if a.syms[i] != syms[i] {
				ok = false
			}
		}
		if ok {
			return a
		}
	}
	return nil
}

// compositeAssigned returns the composite literal assigned to VAL in the action, its type name and key->value map.
func compositeAssigned(a *yAlt) (typ string, fields map[string]string, found bool) {
	if a == nil || a.body == nil {
		return "", nil, false
	}
	fields = map[string]string{}
	ast.Inspect(a.body, func(n ast.Node) bool {
		as, ok := n.(*ast.AssignStmt)
		if !ok || len(as.Lhs) != 1 || exprStr(as.Lhs[0]) != "VAL" {
			return true
		}
		rhs := unparen(as.Rhs[0])
		if u, ok := rhs.(*ast.UnaryExpr); ok && u.Op == token.AND {
			rhs = u.X
		}
		cl, ok := rhs.(*ast.CompositeLit)
		if !ok {
			return true
		}
		typ = exprStr(cl.Type)
		for _, e := range cl.Elts {
			if kv, ok := e.(*ast.KeyValueExpr); ok {
				fields[exprStr(kv.Key)] = fullExpr(kv.Value)
			}
		}
		found = true
		return true
	})
	return
}

func runGrammarCascade(c *Ctx, r *Rep) {
	g := loadGrammar(c, r)
	if g == nil {
		return
	}
	key := func(s string) string { return "parser|grammar.y|" + s }
	// (a) binary levels
	type binLevel struct {
		lhs, next string
		ops       map[string]string // token -> ast constant
	}
	levels := []binLevel{
		{"expr", "xor_expr", map[string]string{"'|'": "BitOr"}},
		{"xor_expr", "and_expr", map[string]string{"'^'": "BitXor"}},
		{"and_expr", "shift_expr", map[string]string{"'&'": "BitAnd"}},
		{"shift_expr", "arith_expr", map[string]string{"LTLT": "LShift", "GTGT": "RShift"}},
		{"arith_expr", "term", map[string]string{"'+'": "Add", "'-'": "Sub"}},
		{"term", "factor", map[string]string{"'*'": "Mult", "'/'": "Div", "'%'": "Modulo", "DIVDIV": "FloorDiv"}},
	}
	for _, lv := range levels {
		base := findAlt(g, lv.lhs, lv.next)
		r.check(base != nil, key(lv.lhs+": "+lv.next), token.NoPos, "next tighter level is "+lv.next,
			fmt.Sprintf("production %s has no alternative consisting of %s alone: the precedence cascade is broken at this level", lv.lhs, lv.next))
		// no other alternatives than base + the operator ones
		alts := g.altsOf(lv.lhs)
		r.check(len(alts) == 1+len(lv.ops), key(lv.lhs+" alternatives"), token.NoPos, fmt.Sprintf("%d alternatives", len(alts)),
			fmt.Sprintf("production %s has %d alternatives, the reference grammar has %d (one per operator of this level plus the pass-through)", lv.lhs, len(alts), 1+len(lv.ops)))
		for tok, k := range lv.ops {
			a := findAlt(g, lv.lhs, lv.lhs, tok, lv.next)
			kk := key(fmt.Sprintf("%s: %s %s %s", lv.lhs, lv.lhs, tok, lv.next))
			if a == nil {
				r.bad(kk, token.NoPos, "no left-recursive alternative `%s %s %s`: operator %s is missing at its precedence level or is not left-associative", lv.lhs, tok, lv.next, tok)
				continue
			}
			typ, f, ok := compositeAssigned(a)
			good := ok && strings.HasSuffix(typ, "ast.BinOp") && f["Left"] == "D1" && f["Right"] == "D3" && f["Op"] == "ast."+k
			r.check(good, kk, token.NoPos, "BinOp{Left:$1, Op:"+k+", Right:$3}",
				fmt.Sprintf("action builds %s%v; required BinOp{Left:$1, Op:ast.%s, Right:$3} (operands swapped or wrong operator constant)", typ, f, k))
		}
	}
	// factor
	for tok, k := range map[string]string{"'+'": "UAdd", "'-'": "USub", "'~'": "Invert"} {
		a := findAlt(g, "factor", tok, "factor")
		kk := key("factor: " + tok + " factor")
		typ, f, ok := compositeAssigned(a)
		good := a != nil && ok && strings.HasSuffix(typ, "ast.UnaryOp") && f["Op"] == "ast."+k && f["Operand"] == "D2"
		r.check(good, kk, token.NoPos, "UnaryOp{Op:"+k+", Operand:$2}", fmt.Sprintf("unary %s at factor level builds %s%v; required UnaryOp{Op:ast.%s, Operand:$2}", tok, typ, f, k))
	}
	r.check(findAlt(g, "factor", "power") != nil, key("factor: power"), token.NoPos, "factor passes through to power", "factor has no `power` alternative")
	// power: right operand re-enters at factor
	{
		a := findAlt(g, "power", "atom", "trailers", "STARSTAR", "factor")
		typ, f, ok := compositeAssigned(a)
		good := a != nil && ok && strings.HasSuffix(typ, "ast.BinOp") && f["Op"] == "ast.Pow" && f["Right"] == "D4" && strings.Contains(f["Left"], "D1") && strings.Contains(f["Left"], "D2")
		r.check(good, key("power: atom trailers STARSTAR factor"), token.NoPos, "BinOp{Left:atom+trailers, Op:Pow, Right:$4 (a factor)}",
			fmt.Sprintf("power builds %s%v; required `atom trailers STARSTAR factor` with the right operand re-entering at factor (right-associative, binds tighter than unary minus on its left only)", typ, f))
		r.check(findAlt(g, "power", "atom", "trailers") != nil && len(g.altsOf("power")) == 2, key("power alternatives"), token.NoPos, "two alternatives", "power must have exactly `atom trailers` and `atom trailers STARSTAR factor`")
	}
	// not_test
	{
		a := findAlt(g, "not_test", "NOT", "not_test")
		typ, f, ok := compositeAssigned(a)
		r.check(a != nil && ok && strings.HasSuffix(typ, "ast.UnaryOp") && f["Op"] == "ast.Not" && f["Operand"] == "D2", key("not_test: NOT not_test"), token.NoPos, "UnaryOp{Not, $2}",
			fmt.Sprintf("not_test builds %s%v", typ, f))
		r.check(findAlt(g, "not_test", "comparison") != nil, key("not_test: comparison"), token.NoPos, "passes through to comparison", "not_test has no `comparison` alternative")
	}
	// test / IfExp
	{
		a := findAlt(g, "test", "or_test", "IF", "or_test", "ELSE", "test")
		typ, f, ok := compositeAssigned(a)
		r.check(a != nil && ok && strings.HasSuffix(typ, "ast.IfExp") && f["Test"] == "D3" && f["Body"] == "D1" && f["Orelse"] == "D5", key("test: or_test IF or_test ELSE test"), token.NoPos, "IfExp{Test:$3, Body:$1, Orelse:$5}",
			fmt.Sprintf("conditional expression builds %s%v; required IfExp{Test:$3, Body:$1, Orelse:$5}", typ, f))
		r.check(findAlt(g, "test", "or_test") != nil, key("test: or_test"), token.NoPos, "passes through", "test has no `or_test` alternative")
	}
	// (b) flattening discipline
	type flat struct {
		lhs, next, tok, node, opConst string
	}
	for _, fl := range []flat{{"or_test", "and_test", "OR", "ast.BoolOp", "ast.Or"}, {"and_test", "not_test", "AND", "ast.BoolOp", "ast.And"}, {"comparison", "expr", "comp_op", "ast.Compare", ""}} {
		base := findAlt(g, fl.lhs, fl.next)
		rec := findAlt(g, fl.lhs, fl.lhs, fl.tok, fl.next)
		kb := key(fl.lhs + ": " + fl.next)
		kr := key(fmt.Sprintf("%s: %s %s %s", fl.lhs, fl.lhs, fl.tok, fl.next))
		if base == nil || rec == nil || base.body == nil || rec.body == nil {
			r.bad(kr, token.NoPos, "production %s lacks the pass-through or the left-recursive alternative", fl.lhs)
			continue
		}
		// base: VAL = D1 and VAL_isExpr = true
		setsTrue := false
		passes := false
		for _, s := range base.body.List {
			if as, ok := s.(*ast.AssignStmt); ok && len(as.Lhs) == 1 {
				l, rr := exprStr(as.Lhs[0]), exprStr(as.Rhs[0])
				if l == "VAL_isExpr" && rr == "true" {
					setsTrue = true
				}
				if l == "VAL" && rr == "D1" {
					passes = true
				}
			}
		}
		r.check(passes && setsTrue, kb, token.NoPos, "passes $1 up and marks it as an operand (isExpr = true)",
			fmt.Sprintf("the pass-through alternative of %s does not mark its value as a plain operand ($<isExpr>$ = true): goyacc copies $1's flag, so an operand that is itself an unparenthesised %s chain is taken for this level's own node and the next operator is appended to it (`a and b or c` parses as `a and b and c`)", fl.lhs, fl.next))
		// recursive: if !D1_isExpr { append } else { new }; VAL_isExpr = false
		okShape, setsFalse := false, false
		for _, s := range rec.body.List {
			switch x := s.(type) {
			case *ast.IfStmt:
				cond := exprStr(x.Cond)
				appendIn := func(b *ast.BlockStmt) bool {
					f := false
					ast.Inspect(b, func(n ast.Node) bool {
						if call, ok := n.(*ast.CallExpr); ok && exprStr(call.Fun) == "append" {
							f = true
						}
						return true
					})
					return f
				}
				newIn := func(b *ast.BlockStmt) bool {
					f := false
					ast.Inspect(b, func(n ast.Node) bool {
						if cl, ok := n.(*ast.CompositeLit); ok && exprStr(cl.Type) == fl.node {
							f = true
						}
						return true
					})
					return f
				}
				eb, _ := x.Else.(*ast.BlockStmt)
				if eb != nil {
					if cond == "!D1_isExpr" && appendIn(x.Body) && newIn(eb) {
						okShape = true
					}
					if cond == "D1_isExpr" && newIn(x.Body) && appendIn(eb) {
						okShape = true
					}
				}
			case *ast.AssignStmt:
				if len(x.Lhs) == 1 && exprStr(x.Lhs[0]) == "VAL_isExpr" && exprStr(x.Rhs[0]) == "false" {
					setsFalse = true
				}
			}
		}
		r.check(okShape, kr+" branches", token.NoPos, "appends to the node only when $1 is this production's own node, otherwise builds a new "+fl.node,
			fmt.Sprintf("the recursive alternative of %s does not choose between appending and building a new %s on $<isExpr>1", fl.lhs, fl.node))
		r.check(setsFalse, kr+" marks", token.NoPos, "marks the result as this production's node (isExpr = false)",
			fmt.Sprintf("the recursive alternative of %s does not set $<isExpr>$ = false: a following operator of the same level builds a nested node instead of extending the chain, or a stale flag is used", fl.lhs))
		// new node fields
		ast.Inspect(rec.body, func(n ast.Node) bool {
			cl, ok := n.(*ast.CompositeLit)
			if !ok || exprStr(cl.Type) != fl.node {
				return true
			}
			f := map[string]string{}
			for _, e := range cl.Elts {
				if kv, ok := e.(*ast.KeyValueExpr); ok {
					f[exprStr(kv.Key)] = fullExpr(kv.Value)
				}
			}
			if fl.opConst != "" {
				r.check(f["Op"] == fl.opConst && strings.Contains(f["Values"], "VAL, D3"), kr+" node", token.NoPos, "BoolOp{Op:"+fl.opConst+", Values:[$1,$3]}",
					fmt.Sprintf("%s builds BoolOp%v; required Op %s and Values [$1, $3]", fl.lhs, f, fl.opConst))
			} else {
				r.check(f["Left"] == "VAL" && strings.Contains(f["Ops"], "D2") && strings.Contains(f["Comparators"], "D3"), kr+" node", token.NoPos, "Compare{Left:$1, Ops:[$2], Comparators:[$3]}",
					fmt.Sprintf("comparison builds Compare%v", f))
			}
			return true
		})
	}
	// (c) comp_op and augassign tables
	cmp := map[string]string{"'<'": "Lt", "'>'": "Gt", "EQEQ": "Eq", "GTEQ": "GtE", "LTEQ": "LtE", "PLINGEQ": "NotEq", "IN": "In", "NOT IN": "NotIn", "IS": "Is", "IS NOT": "IsNot"}
	for syms, k := range cmp {
		a := findAlt(g, "comp_op", strings.Fields(syms)...)
		got := ""
		if a != nil && a.body != nil && len(a.body.List) == 1 {
			if as, ok := a.body.List[0].(*ast.AssignStmt); ok {
				got = exprStr(as.Rhs[0])
			}
		}
		r.check(got == "ast."+k, key("comp_op: "+syms), token.NoPos, "-> "+k, fmt.Sprintf("comparison operator `%s` yields %q; Python assigns ast.%s", syms, got, k))
	}
	if a := findAlt(g, "comp_op", "LTGT"); a != nil {
		r.check(strings.Contains(a.action, "SyntaxError"), key("comp_op: LTGT"), token.NoPos, "<> rejected", "`<>` is accepted as a comparison operator")
	}
	aug := map[string]string{"PLUSEQ": "Add", "MINUSEQ": "Sub", "STAREQ": "Mult", "DIVEQ": "Div", "PERCEQ": "Modulo", "ANDEQ": "BitAnd", "PIPEEQ": "BitOr", "HATEQ": "BitXor", "LTLTEQ": "LShift", "GTGTEQ": "RShift", "STARSTAREQ": "Pow", "DIVDIVEQ": "FloorDiv"}
	for tok, k := range aug {
		a := findAlt(g, "augassign", tok)
		got := ""
		if a != nil && a.body != nil && len(a.body.List) == 1 {
			if as, ok := a.body.List[0].(*ast.AssignStmt); ok {
				got = exprStr(as.Rhs[0])
			}
		}
		r.check(got == "ast."+k, key("augassign: "+tok), token.NoPos, "-> "+k, fmt.Sprintf("augmented-assignment token %s yields %q; Python assigns ast.%s", tok, got, k))
	}
}

func goyaccPath() string {
	return filepath.Join(verifDir, "bin", "goyacc")
}

func runYaccRegen(c *Ctx, r *Rep) {
	if c.Config != "default" {
		for i := 0; i < 90; i++ {
			r.okTrivial(fmt.Sprintf("skipped|%d", i), token.NoPos, "regeneration compared once, under the default configuration")
		}
		return
	}
	gy := goyaccPath()
	if _, err := os.Stat(gy); err != nil {
		r.undecided("goyacc", token.NoPos, "goyacc binary not built (%s): run setup", gy)
		return
	}
	dir, out, err := regenerate(c, gy)
	if dir != "" {
		defer os.RemoveAll(dir)
	}
	if err != nil {
		r.undecided("parser|grammar.y|goyacc", token.NoPos, "%v", err)
		return
	}
	want, order, err := normalisedDecls(out)
	if err != nil {
		r.undecided("parser|regenerated y.go", token.NoPos, "%v", err)
		return
	}
	got, _, err := normalisedDecls(filepath.Join(c.Repo, "parser", "y.go"))
	if err != nil {
		r.undecided("parser|y.go", token.NoPos, "%v", err)
		return
	}
	for _, name := range order {
		w := want[name]
		gv, ok := got[name]
		k := "parser|y.go|" + name
		switch {
		case !ok:
			r.bad(k, token.NoPos, "declaration %s produced by goyacc from grammar.y is missing from the checked-in y.go", name)
		case gv != w:
			r.bad(k, token.NoPos, "declaration %s in the checked-in y.go differs from what goyacc generates from grammar.y (%s): the running parser is not the grammar that is documented and analysed", name, firstDiff(w, gv))
		default:
			r.add(OK, k, token.NoPos, strings.HasPrefix(name, "func "), "identical")
		}
	}
	for name := range got {
		if _, ok := want[name]; !ok {
			r.bad("parser|y.go|"+name, token.NoPos, "declaration %s exists in y.go but is not generated from grammar.y", name)
		}
	}
}

func firstDiff(a, b string) string {
	n := commonPrefix(a, b)
	lo := n - 60
	if lo < 0 {
		lo = 0
	}
	cut := func(s string) string {
		hi := n + 100
		if hi > len(s) {
			hi = len(s)
		}
		if lo > len(s) {
			return ""
		}
		return strings.ReplaceAll(s[lo:hi], "\n", "⏎")
	}
	return fmt.Sprintf("generated …%s… vs checked-in …%s…", cut(a), cut(b))
}

// ---- R3 token tables ----

var specOperators = map[string]string{
	"(": "'('", ")": "')'", "[": "'['", "]": "']'", ":": "':'", ",": "','", ";": "';'", "+": "'+'", "-": "'-'", "*": "'*'", "/": "'/'", "|": "'|'", "&": "'&'",
	"<": "'<'", ">": "'>'", "=": "'='", ".": "'.'", "%": "'%'", "{": "'{'", "}": "'}'", "^": "'^'", "~": "'~'", "@": "'@'",
	"!=": "PLINGEQ", "%=": "PERCEQ", "&=": "ANDEQ", "**": "STARSTAR", "*=": "STAREQ", "+=": "PLUSEQ", "-=": "MINUSEQ", "->": "MINUSGT", "//": "DIVDIV", "/=": "DIVEQ",
	"<<": "LTLT", "<=": "LTEQ", "<>": "LTGT", "==": "EQEQ", ">=": "GTEQ", ">>": "GTGT", "^=": "HATEQ", "|=": "PIPEEQ",
	"**=": "STARSTAREQ", "...": "ELIPSIS", "//=": "DIVDIVEQ", "<<=": "LTLTEQ", ">>=": "GTGTEQ",
}

var specKeywords = map[string]string{
	"False": "FALSE", "None": "NONE", "True": "TRUE", "and": "AND", "as": "AS", "assert": "ASSERT", "break": "BREAK", "class": "CLASS", "continue": "CONTINUE",
	"def": "DEF", "del": "DEL", "elif": "ELIF", "else": "ELSE", "except": "EXCEPT", "finally": "FINALLY", "for": "FOR", "from": "FROM", "global": "GLOBAL", "if": "IF",
	"import": "IMPORT", "in": "IN", "is": "IS", "lambda": "LAMBDA", "nonlocal": "NONLOCAL", "not": "NOT", "or": "OR", "pass": "PASS", "raise": "RAISE", "return": "RETURN",
	"try": "TRY", "while": "WHILE", "with": "WITH", "yield": "YIELD",
}

// mapLiteral returns the key -> value-text entries of a package-level map variable initialised by a composite literal.
func mapLiteral(c *Ctx, rel, name string) (map[string]string, token.Pos) {
	p := c.Pkg(rel)
	if p == nil {
		return nil, token.NoPos
	}
	for _, f := range c.Files(p) {
		for _, d := range f.Decls {
			gd, ok := d.(*ast.GenDecl)
			if !ok {
				continue
			}
			for _, sp := range gd.Specs {
				vs, ok := sp.(*ast.ValueSpec)
				if !ok {
					continue
				}
				for i, nm := range vs.Names {
					if nm.Name != name || i >= len(vs.Values) {
						continue
					}
					cl, ok := vs.Values[i].(*ast.CompositeLit)
					if !ok {
						continue
					}
					out := map[string]string{}
					for _, e := range cl.Elts {
						if kv, ok := e.(*ast.KeyValueExpr); ok {
							k := strings.Trim(exprStr(kv.Key), `"`)
							out[k] = exprStr(kv.Value)
						}
					}
					return out, cl.Pos()
				}
			}
		}
	}
	return nil, token.NoPos
}

func runC06R3(c *Ctx, r *Rep) {
	g := loadGrammar(c, r)
	ops, opos := mapLiteral(c, "parser", "operators")
	kws, kpos := mapLiteral(c, "parser", "tokens")
	if ops == nil || kws == nil {
		r.undecided("parser|lexer tables", token.NoPos, "maps `operators` / `tokens` not found as composite literals")
		return
	}
	for sp, tok := range specOperators {
		got, ok := ops[sp]
		k := "parser|operators|" + sp
		switch {
		case !ok:
			r.bad(k, opos, "operator %q is not in the lexer's operator table: it cannot be tokenised", sp)
		case got != tok:
			r.bad(k, opos, "operator %q is mapped to token %s; Python's token for it is %s", sp, got, tok)
		default:
			r.okTrivial(k, opos, "-> %s", tok)
		}
	}
	for sp := range ops {
		if _, ok := specOperators[sp]; !ok {
			r.bad("parser|operators|"+sp, opos, "the lexer accepts %q, which is not an operator or delimiter of Python 3.4", sp)
		}
	}
	for sp, tok := range specKeywords {
		got, ok := kws[sp]
		k := "parser|tokens|" + sp
		switch {
		case !ok:
			r.bad(k, kpos, "keyword %q is missing from the keyword table: it lexes as an ordinary NAME", sp)
		case got != tok:
			r.bad(k, kpos, "keyword %q is mapped to token %s, expected %s", sp, got, tok)
		default:
			r.okTrivial(k, kpos, "-> %s", tok)
		}
	}
	for sp := range kws {
		if _, ok := specKeywords[sp]; !ok {
			r.bad("parser|tokens|"+sp, kpos, "%q is treated as a keyword but is not one of the 33 keywords of Python 3.4", sp)
		}
	}
	// every token the grammar declares for punctuation/keywords is produced by one of the tables
	if g != nil {
		produced := map[string]bool{}
		for _, t := range ops {
			produced[t] = true
		}
		for _, t := range kws {
			produced[t] = true
		}
		special := map[string]bool{"NEWLINE": true, "ENDMARKER": true, "NAME": true, "INDENT": true, "DEDENT": true, "STRING": true, "NUMBER": true, "SINGLE_INPUT": true, "FILE_INPUT": true, "EVAL_INPUT": true}
		for t := range g.tokens {
			if special[t] {
				continue
			}
			r.check(produced[t], "parser|grammar token "+t, token.NoPos, "produced by the lexer tables", "the grammar declares token "+t+" but no lexer table entry produces it")
		}
		for t := range g.literals {
			r.check(produced[t], "parser|grammar token "+t, token.NoPos, "produced by the lexer tables", "the grammar declares literal token "+t+" but the operator table does not produce it")
		}
	}
	// readOperator: lengths tried in decreasing order
	if fd := c.MethodDecl("parser", "yyLex", "readOperator"); fd != nil {
		r.analysed("(*parser.yyLex).readOperator")
		okOrder := false
		ast.Inspect(fd.Body, func(n ast.Node) bool {
			if f, ok := n.(*ast.ForStmt); ok {
				init, _ := f.Init.(*ast.AssignStmt)
				post, _ := f.Post.(*ast.IncDecStmt)
				if init != nil && post != nil && exprStr(init.Rhs[0]) == "3" && post.Tok == token.DEC && strings.Contains(exprStr(f.Cond), ">= 1") {
					okOrder = true
				}
			}
			return true
		})
		r.check(okOrder, "parser|(*yyLex).readOperator|longest match", fd.Pos(), "tries lengths 3, 2, 1", "readOperator does not try operator lengths in decreasing order from 3: `**=`/`//=`/`...` would be split into shorter tokens")
	} else {
		r.undecided("parser|(*yyLex).readOperator", token.NoPos, "anchor not found")
	}
	// bracket counters
	if fd := c.MethodDeclX("parser", "yyLex", "Lex"); fd != nil {
		r.analysed("(*parser.yyLex).Lex")
		inc := map[string]string{}
		dec := map[string]string{}
		ast.Inspect(fd.Body, func(n ast.Node) bool {
			cc, ok := n.(*ast.CaseClause)
			if !ok || len(cc.List) != 1 || len(cc.Body) != 1 {
				return true
			}
			id, ok := cc.Body[0].(*ast.IncDecStmt)
			if !ok {
				return true
			}
			ch := strings.Trim(exprStr(cc.List[0]), "'")
			if id.Tok == token.INC {
				inc[ch] = exprStr(id.X)
			} else {
				dec[ch] = exprStr(id.X)
			}
			return true
		})
		for _, pr := range [][2]string{{"(", ")"}, {"[", "]"}, {"{", "}"}} {
			k := "parser|(*yyLex).Lex|bracket pair " + pr[0] + pr[1]
			r.check(inc[pr[0]] != "" && inc[pr[0]] == dec[pr[1]], k, fd.Pos(), "opener increments the counter its closer decrements",
				fmt.Sprintf("`%s` increments %q but `%s` decrements %q: implicit line joining never ends (or ends early) for this bracket kind", pr[0], inc[pr[0]], pr[1], dec[pr[1]]))
		}
		// all three counters are consulted by openBrackets
		if ob := c.MethodDecl("parser", "yyLex", "openBrackets"); ob != nil {
			txt := ""
			ast.Inspect(ob.Body, func(n ast.Node) bool {
				if rs, ok := n.(*ast.ReturnStmt); ok && len(rs.Results) == 1 {
					txt = exprStr(rs.Results[0])
				}
				return true
			})
			all := true
			for _, cn := range inc {
				f := cn[strings.LastIndex(cn, ".")+1:]
				if !strings.Contains(txt, f+" != 0") {
					all = false
				}
			}
			r.check(all && len(inc) == 3, "parser|(*yyLex).openBrackets|all counters", ob.Pos(), "tests all three counters", "openBrackets does not test every bracket counter: NEWLINE/INDENT are emitted inside one kind of bracket")
		}
		// NEWLINE and INDENT/DEDENT gated on openBrackets
		gated := 0
		ast.Inspect(fd.Body, func(n ast.Node) bool {
			switch x := n.(type) {
			case *ast.IfStmt:
				if strings.Contains(exprStr(x.Cond), "openBrackets()") {
					gated++
				}
			case *ast.ReturnStmt:
				// a predicate extracted from such a decision
				if len(x.Results) == 1 && strings.Contains(exprStr(x.Results[0]), "openBrackets()") {
					gated++
				}
			}
			return true
		})
		r.check(gated >= 3, "parser|(*yyLex).Lex|newline and indent gating", fd.Pos(), fmt.Sprintf("%d decisions consult openBrackets()", gated),
			fmt.Sprintf("only %d decisions in Lex consult openBrackets(); NEWLINE, INDENT/DEDENT and the interactive blank-line rule must all be suppressed inside brackets", gated))
	}
}

func runC06R4(c *Ctx, r *Rep) {
	g := loadGrammar(c, r)
	if g == nil {
		return
	}
	// productions whose listed symbol must be given a context
	type need struct {
		lhs   string
		syms  []string
		call  string // setCtx / setCtxs
		arg   string // the $n that must be passed
		ctx   string
		label string
	}
	needs := []need{
		{"expr_stmt", []string{"testlist_star_expr", "augassign", "yield_expr_or_testlist"}, "setCtx", "D1", "ast.Store", "augmented assignment target"},
		{"expr_stmt", []string{"testlist_star_expr", "equals_yield_expr_or_testlist_star_expr"}, "setCtx", "", "ast.Store", "assignment targets"},
		{"del_stmt", []string{"DEL", "exprlist"}, "setCtx", "", "ast.Del", "del targets"},
		{"for_stmt", []string{"FOR", "exprlist", "IN", "testlist", "':'", "suite", "optional_else"}, "setCtx", "", "ast.Store", "for target"},
		{"with_item", []string{"test", "AS", "expr"}, "setCtx", "", "ast.Store", "with … as target"},
		{"comp_for", []string{"FOR", "exprlist", "IN", "or_test"}, "setCtx", "", "ast.Store", "comprehension target"},
		{"comp_for", []string{"FOR", "exprlist", "IN", "or_test", "comp_iter"}, "setCtx", "", "ast.Store", "comprehension target (with further clauses)"},
	}
	for _, nd := range needs {
		a := findAlt(g, nd.lhs, nd.syms...)
		k := "parser|grammar.y|" + nd.lhs + ": " + strings.Join(nd.syms, " ") + "|context"
		if a == nil || a.body == nil {
			r.bad(k, token.NoPos, "production `%s: %s` (which creates %s) was not found", nd.lhs, strings.Join(nd.syms, " "), nd.label)
			continue
		}
		found := false
		ast.Inspect(a.body, func(n ast.Node) bool {
			call, ok := n.(*ast.CallExpr)
			if !ok {
				return true
			}
			fn := exprStr(call.Fun)
			if (fn == "setCtx" || fn == "setCtxs") && len(call.Args) == 3 && exprStr(call.Args[2]) == nd.ctx {
				found = true
			}
			return true
		})
		r.check(found, k, token.NoPos, nd.label+" given context "+nd.ctx,
			fmt.Sprintf("the action of `%s: %s` never calls setCtx/setCtxs with %s: the %s keeps the Load context and is compiled as a read (or accepted although not assignable)", nd.lhs, strings.Join(nd.syms, " "), nd.ctx, nd.label))
	}
	// setCtx's rejection arm: SyntaxError for everything that is not a SetCtxer
	p := c.MustPkg("parser")
	var sc *ast.FuncDecl
	for _, f := range p.Syntax {
		for _, d := range f.Decls {
			if fd, ok := d.(*ast.FuncDecl); ok && fd.Name.Name == "setCtx" && fd.Recv == nil {
				sc = fd
			}
		}
	}
	if sc == nil {
		r.undecided("parser|setCtx", token.NoPos, "anchor not found")
		return
	}
	r.analysed("parser.setCtx")
	rejects := false
	ast.Inspect(sc.Body, func(n ast.Node) bool {
		ifs, ok := n.(*ast.IfStmt)
		if !ok || exprStr(ifs.Cond) != "!ok" {
			return true
		}
		hasErr, returns := false, false
		ast.Inspect(ifs.Body, func(m ast.Node) bool {
			if call, ok := m.(*ast.CallExpr); ok && strings.Contains(exprStr(call.Fun), "SyntaxError") {
				hasErr = true
			}
			return true
		})
		if len(ifs.Body.List) > 0 {
			_, returns = ifs.Body.List[len(ifs.Body.List)-1].(*ast.ReturnStmt)
		}
		if hasErr && returns {
			rejects = true
		}
		return true
	})
	r.check(rejects, "parser|setCtx|non-assignable rejected", sc.Pos(), "an expression without a context raises SyntaxError", "setCtx does not raise SyntaxError for an expression that cannot carry a context: `f() = 1` would be accepted")
}
