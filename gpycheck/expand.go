package main

import (
	"go/ast"
	"go/types"

	"golang.org/x/tools/go/packages"
)

// Expand gives a view of fd for the rules that look for constructs inside one function: a copy of its
// statement structure in which every statement that calls a helper introduced since the reference was
// written (knownfuncs.go) is preceded by a block holding that helper's statements (expanded in turn).
// The expression and statement nodes themselves are shared with the original trees, so positions and type
// information stay valid. The view is not executable — it only puts what an extracted helper does back
// where it was extracted from, so that "the loop calling X lies inside the loop over Y" or "Z is assigned
// under this lock" are still visible after the refactoring.
func (c *Ctx) Expand(p *packages.Package, fd *ast.FuncDecl) *ast.FuncDecl {
	if fd == nil || fd.Body == nil || len(knownFuncs) == 0 {
		return fd
	}
	e := &expander{c: c, p: p, on: map[*ast.FuncDecl]bool{fd: true}}
	body := e.block(fd.Body)
	if !e.changed {
		return fd
	}
	cp := *fd
	cp.Body = body
	return &cp
}

type expander struct {
	c       *Ctx
	p       *packages.Package
	on      map[*ast.FuncDecl]bool
	changed bool
	alias   map[types.Object]types.Object // parameter of a put-back helper -> the variable handed to it
}

// ExpandAlias is Expand together with a function that maps a parameter of a put-back helper to the caller's
// variable that was passed for it (when the argument is a plain variable), so that a rule can ask "is this
// the function's parameter `name`?" of an identifier inside the helper.
func (c *Ctx) ExpandAlias(p *packages.Package, fd *ast.FuncDecl) (*ast.FuncDecl, func(types.Object) types.Object) {
	id := func(o types.Object) types.Object { return o }
	if fd == nil || fd.Body == nil || len(knownFuncs) == 0 {
		return fd, id
	}
	e := &expander{c: c, p: p, on: map[*ast.FuncDecl]bool{fd: true}, alias: map[types.Object]types.Object{}}
	body := e.block(fd.Body)
	if !e.changed {
		return fd, id
	}
	cp := *fd
	cp.Body = body
	return &cp, func(o types.Object) types.Object {
		for i := 0; i < 8; i++ {
			n, ok := e.alias[o]
			if !ok {
				break
			}
			o = n
		}
		return o
	}
}

// helpersIn: the new same-package functions called in the expressions of n (not inside nested statements'
// bodies, which are expanded on their own; function literals are looked into).
func (e *expander) helpersIn(n ast.Node) []*ast.FuncDecl {
	var out []*ast.FuncDecl
	if n == nil {
		return nil
	}
	ast.Inspect(n, func(m ast.Node) bool {
		switch x := m.(type) {
		case *ast.BlockStmt:
			if m != n {
				return false // nested bodies are handled by the statement copier
			}
		case *ast.CallExpr:
			var fn *types.Func
			if cal := Callee(e.p.TypesInfo, x); cal != nil {
				fn = cal
			}
			if fn != nil && fn.Pkg() == e.p.Types && isNewFunc(FuncID(fn)) {
				if d := e.c.Decl(fn); d != nil && d.Body != nil && !e.on[d] {
					out = append(out, d)
					if e.alias != nil && d.Type.Params != nil {
						i := 0
						for _, f := range d.Type.Params.List {
							for _, nm := range f.Names {
								if i < len(x.Args) {
									if aid, ok := unparen(x.Args[i]).(*ast.Ident); ok {
										if po, ao := e.p.TypesInfo.Defs[nm], e.p.TypesInfo.Uses[aid]; po != nil && ao != nil {
											e.alias[po] = ao
										}
									}
								}
								i++
							}
						}
					}
				}
			}
			// a method value or function name handed over as an argument: once.Do(ctx.shutdown)
			for _, a := range x.Args {
				var id *ast.Ident
				switch y := unparen(a).(type) {
				case *ast.Ident:
					id = y
				case *ast.SelectorExpr:
					id = y.Sel
				}
				if id == nil {
					continue
				}
				if f, ok := e.p.TypesInfo.Uses[id].(*types.Func); ok && f.Pkg() == e.p.Types && isNewFunc(FuncID(f)) {
					if d := e.c.Decl(f); d != nil && d.Body != nil && !e.on[d] {
						out = append(out, d)
					}
				}
			}
		}
		return true
	})
	return out
}

func (e *expander) block(b *ast.BlockStmt) *ast.BlockStmt {
	if b == nil {
		return nil
	}
	return &ast.BlockStmt{Lbrace: b.Lbrace, List: e.stmts(b.List), Rbrace: b.Rbrace}
}

func (e *expander) stmts(list []ast.Stmt) []ast.Stmt {
	var out []ast.Stmt
	for _, s := range list {
		// the helpers called by the statement's own expressions
		var hs []*ast.FuncDecl
		switch x := s.(type) {
		case *ast.IfStmt:
			hs = append(e.helpersIn(x.Init), e.helpersIn(x.Cond)...)
		case *ast.ForStmt:
			hs = append(append(e.helpersIn(x.Init), e.helpersIn(x.Cond)...), e.helpersIn(x.Post)...)
		case *ast.RangeStmt:
			hs = e.helpersIn(x.X)
		case *ast.SwitchStmt:
			hs = append(e.helpersIn(x.Init), e.helpersIn(x.Tag)...)
		case *ast.TypeSwitchStmt:
			hs = append(e.helpersIn(x.Init), e.helpersIn(x.Assign)...)
		case *ast.BlockStmt, *ast.LabeledStmt, *ast.CaseClause, *ast.SelectStmt, *ast.CommClause:
		default:
			hs = e.helpersIn(s)
		}
		for _, h := range hs {
			e.changed = true
			e.on[h] = true
			out = append(out, e.block(h.Body))
			delete(e.on, h)
		}
		out = append(out, e.stmt(s))
	}
	return out
}

func (e *expander) stmt(s ast.Stmt) ast.Stmt {
	switch x := s.(type) {
	case *ast.BlockStmt:
		return e.block(x)
	case *ast.IfStmt:
		cp := *x
		cp.Body = e.block(x.Body)
		if x.Else != nil {
			if ei, ok := x.Else.(*ast.IfStmt); ok {
				// `else if h(…)`: the helpers of the else-if's own header are put back inside the else branch
				cp.Else = &ast.BlockStmt{Lbrace: ei.Pos(), List: e.stmts([]ast.Stmt{ei}), Rbrace: ei.End()}
				if b := cp.Else.(*ast.BlockStmt); len(b.List) == 1 {
					cp.Else = b.List[0]
				}
			} else {
				cp.Else = e.stmt(x.Else)
			}
		}
		return &cp
	case *ast.ForStmt:
		cp := *x
		cp.Body = e.block(x.Body)
		return &cp
	case *ast.RangeStmt:
		cp := *x
		cp.Body = e.block(x.Body)
		return &cp
	case *ast.SwitchStmt:
		cp := *x
		cp.Body = e.block(x.Body)
		return &cp
	case *ast.TypeSwitchStmt:
		cp := *x
		cp.Body = e.block(x.Body)
		return &cp
	case *ast.SelectStmt:
		cp := *x
		cp.Body = e.block(x.Body)
		return &cp
	case *ast.CaseClause:
		cp := *x
		cp.Body = e.stmts(x.Body)
		return &cp
	case *ast.CommClause:
		cp := *x
		cp.Body = e.stmts(x.Body)
		return &cp
	case *ast.LabeledStmt:
		cp := *x
		cp.Stmt = e.stmt(x.Stmt)
		return &cp
	}
	return s
}

// Flatten gives the body of fd with every statement that only calls a function of the same package (or hands
// one over as a method value, as in once.Do(ctx.shutdown)) replaced by that function's body, recursively and
// in nested statements too. For the rules that follow the order of events through one lifecycle method: the
// sequence of events is the same whether it is written in one function or split over helpers.
func (c *Ctx) Flatten(p *packages.Package, fd *ast.FuncDecl) *ast.BlockStmt {
	f := &flattener{c: c, p: p, on: map[*ast.FuncDecl]bool{fd: true}}
	return f.block(fd.Body, 0)
}

type flattener struct {
	c       *Ctx
	p       *packages.Package
	on      map[*ast.FuncDecl]bool
	newOnly bool // splice only helpers written since the reference
}

// FlattenNew is Flatten restricted to helpers written since the reference (the others keep being analysed on their own).
func (c *Ctx) FlattenNew(p *packages.Package, fd *ast.FuncDecl) *ast.BlockStmt {
	f := &flattener{c: c, p: p, on: map[*ast.FuncDecl]bool{fd: true}, newOnly: true}
	return f.block(fd.Body, 0)
}

// onlyStatementCalls: every use of the function in its package is a call standing alone as a statement.
func onlyStatementCalls(c *Ctx, p *packages.Package, fd *ast.FuncDecl) bool {
	self := p.TypesInfo.Defs[fd.Name]
	if self == nil {
		return false
	}
	uses, stmts := 0, 0
	for _, f := range c.Files(p) {
		ast.Inspect(f, func(n ast.Node) bool {
			switch x := n.(type) {
			case *ast.Ident:
				if p.TypesInfo.Uses[x] == self {
					uses++
				}
			case *ast.ExprStmt:
				if call, ok := x.X.(*ast.CallExpr); ok {
					if fn := Callee(p.TypesInfo, call); fn != nil && types.Object(fn) == self {
						stmts++
					}
				}
			}
			return true
		})
	}
	return uses > 0 && uses == stmts
}

func (f *flattener) calleeBody(call *ast.CallExpr) *ast.FuncDecl {
	info := f.p.TypesInfo
	if fn := Callee(info, call); fn != nil && fn.Pkg() == f.p.Types && (!f.newOnly || isNewFunc(FuncID(fn))) {
		if d := f.c.Decl(fn); d != nil && d.Body != nil && !f.on[d] {
			return d
		}
	}
	if f.newOnly {
		return nil
	}
	// X.Do(recv.method): the method's body runs here
	if len(call.Args) == 1 {
		if sel, ok := unparen(call.Args[0]).(*ast.SelectorExpr); ok {
			if fn, ok := info.Uses[sel.Sel].(*types.Func); ok && fn.Pkg() == f.p.Types {
				if d := f.c.Decl(fn); d != nil && d.Body != nil && !f.on[d] {
					return d
				}
			}
		}
	}
	return nil
}

func (f *flattener) block(b *ast.BlockStmt, depth int) *ast.BlockStmt {
	if b == nil {
		return nil
	}
	out := &ast.BlockStmt{Lbrace: b.Lbrace, Rbrace: b.Rbrace}
	for _, s := range b.List {
		if es, ok := s.(*ast.ExprStmt); ok && depth < 4 {
			if call, ok := es.X.(*ast.CallExpr); ok {
				if d := f.calleeBody(call); d != nil {
					f.on[d] = true
					out.List = append(out.List, f.block(d.Body, depth+1).List...)
					delete(f.on, d)
					continue
				}
			}
		}
		out.List = append(out.List, f.stmt(s, depth))
	}
	return out
}

func (f *flattener) stmt(s ast.Stmt, depth int) ast.Stmt {
	switch x := s.(type) {
	case *ast.ExprStmt:
		// a call that is handed a function literal (once.Do(func() {…})): the literal's body is flattened too
		if call, ok := x.X.(*ast.CallExpr); ok {
			changed := false
			args := make([]ast.Expr, len(call.Args))
			for i, a := range call.Args {
				args[i] = a
				if fl, ok := a.(*ast.FuncLit); ok {
					args[i] = &ast.FuncLit{Type: fl.Type, Body: f.block(fl.Body, depth)}
					changed = true
				}
			}
			if changed {
				cc := *call
				cc.Args = args
				return &ast.ExprStmt{X: &cc}
			}
		}
		return s
	case *ast.BlockStmt:
		return f.block(x, depth)
	case *ast.IfStmt:
		cp := *x
		cp.Body = f.block(x.Body, depth)
		if x.Else != nil {
			cp.Else = f.stmt(x.Else, depth)
		}
		return &cp
	case *ast.ForStmt:
		cp := *x
		cp.Body = f.block(x.Body, depth)
		return &cp
	case *ast.RangeStmt:
		cp := *x
		cp.Body = f.block(x.Body, depth)
		return &cp
	}
	return s
}
