package main

import (
	"fmt"
	"go/token"
	"strings"

	"golang.org/x/tools/go/ssa"
)

func init() {
	register(&Rule{ID: "C08.R1", Prop: "C08", Floor: 10,
		Doc: "runtime writes to package-level state: every Store/MapUpdate rooted at a package-level variable, in any module function that is not a package initialiser (or reachable only from one), is either under the registry mutex or a row of the documented embedder-hook table (set before use); anything else is state shared by all contexts and written at run time",
		Run: runC08R1})
	register(&Rule{ID: "C10.R7", Prop: "C10", Floor: 2,
		Doc: "no run-time update of a package-level Go map without a lock: every MapUpdate / delete rooted at a package-level map, in a module function that is not reachable only from package initialisers, holds a mutex — contexts run concurrently, and concurrent writes of one Go map are a fatal error of the runtime that kills the embedding process past every recover barrier (the map-write part of C08.R1, read for its consequence under C10)",
		Run: func(c *Ctx, r *Rep) { runGlobalWrites(c, r, true) }})
}

// documented "set once before use" hooks and registration entry points (key: function|global)
var globalWriteTable = map[string]string{
	"parser.SetDebug|yyDebug":      "documented debugging hook of the parser, meant to be set before any parse",
	"repl/cli.RunREPL|InputHook":   "the command-line REPL installs py.InputHook (documented 'set before use' hook) for the single interactive session of the process",
	"repl/cli.RunREPL$2|InputHook": "restores the hook when the command-line REPL ends",
}

func runC08R1(c *Ctx, r *Rep) { runGlobalWrites(c, r, false) }

// runGlobalWrites is C08.R1; with mapsOnly it is C10.R7: the run-time updates of package-level Go maps only, for which
// the consequence is not a stale value but "fatal error: concurrent map writes" — the Go runtime aborts the whole
// process, and no recover barrier intercepts that.
func runGlobalWrites(c *Ctx, r *Rep, mapsOnly bool) {
	fns := moduleFunctions(c)
	// functions reachable only from init: the synthetic package initialiser and functions named init
	isInit := func(fn *ssa.Function) bool {
		top := fn
		for top.Parent() != nil {
			top = top.Parent()
		}
		return top.Name() == "init" || strings.HasPrefix(top.Name(), "init#") || top.Synthetic != ""
	}
	// init-only: every in-module caller (transitively) is a package initialiser
	cg := c.CallGraph()
	initOnly := map[*ssa.Function]int{} // 1 yes, 2 no, 3 in progress
	var only func(fn *ssa.Function) bool
	only = func(fn *ssa.Function) bool {
		if isInit(fn) {
			return true
		}
		switch initOnly[fn] {
		case 1:
			return true
		case 2, 3:
			return initOnly[fn] == 1
		}
		initOnly[fn] = 3
		n := cg.Nodes[fn]
		res := n != nil && len(n.In) > 0
		if n != nil {
			for _, e := range n.In {
				caller := e.Caller.Func
				if caller == fn {
					continue
				}
				pp := pkgPathOf(caller)
				if pp != modPath && !strings.HasPrefix(pp, modPath+"/") {
					continue
				}
				if strings.HasSuffix(c.Fset.Position(caller.Pos()).Filename, "_test.go") {
					continue
				}
				if !only(caller) {
					res = false
				}
			}
		}
		if res {
			initOnly[fn] = 1
		} else {
			initOnly[fn] = 2
		}
		return res
	}
	n := 0
	alive := 0
	for _, fn := range fns {
		if isInit(fn) {
			if mapsOnly {
				// the matcher's positive example: map updates of package-level maps inside initialisers
				for _, b := range fn.Blocks {
					for _, in := range b.Instrs {
						if mu, ok := in.(*ssa.MapUpdate); ok && globalRoot(mu.Map) != nil {
							alive++
						}
					}
				}
			}
			continue
		}
		if pkgPathOf(fn) == modPath {
			continue // the command-line program itself (flag.Usage …), not the library
		}
		pp := pkgPathOf(fn)
		if strings.Contains(pp, "/examples/") || strings.HasSuffix(pp, "/repl/web") || pp == modPath+"/ci" {
			continue
		}
		id := ssaFuncID(fn)
		for _, b := range fn.Blocks {
			for _, in := range b.Instrs {
				var g *ssa.Global
				var pos token.Pos
				kind := ""
				switch x := in.(type) {
				case *ssa.Store:
					g = globalRoot(x.Addr)
					pos = x.Pos()
					kind = "store"
				case *ssa.MapUpdate:
					g = globalRoot(x.Map)
					pos = x.Pos()
					kind = "map update"
				case *ssa.Call:
					if b, ok := x.Call.Value.(*ssa.Builtin); ok && b.Name() == "delete" && len(x.Call.Args) == 2 && mapsOnly {
						g = globalRoot(x.Call.Args[0])
						pos = x.Pos()
						kind = "map delete"
					}
				}
				if g == nil {
					continue
				}
				if mapsOnly && kind == "store" {
					continue
				}
				n++
				r.analysed(id)
				key := fmt.Sprintf("%s|%s|%s %s.%s", shortPkg(pp), id, kind, shortPkg(g.Pkg.Pkg.Path()), g.Name())
				if only(fn) {
					r.ok(key, pos, "initialisation-only: every in-module caller chain starts in a package initialiser")
					continue
				}
				if why, ok := globalWriteTable[id+"|"+g.Name()]; ok {
					r.okTrivial(key, pos, "sanctioned: %s", why)
					continue
				}
				if mapsOnly {
					if holdsLockAt(c, fn, pos) {
						r.ok(key, pos, "under a mutex")
						continue
					}
					r.bad(key, pos, "run-time %s of the package-level map %s.%s with no lock held: contexts run concurrently (examples/multi-context), and two goroutines writing one Go map is \"fatal error: concurrent map writes\" — the runtime aborts the whole process, which no recover barrier intercepts", kind, shortPkg(g.Pkg.Pkg.Path()), g.Name())
					continue
				}
				r.bad(key, pos, "run-time %s of package-level variable %s.%s: this state is shared by every context and written outside package initialisation", kind, shortPkg(g.Pkg.Pkg.Path()), g.Name())
			}
		}
	}
	r.note("%d package-level write sites outside initialisers", n)
	if mapsOnly {
		if alive == 0 {
			r.undecided("maps|positive example", token.NoPos, "the matcher no longer recognises any update of a package-level map, not even those made by package initialisers")
		} else {
			r.ok("maps|positive example", token.NoPos, "updates of package-level maps inside package initialisers are recognised (the matcher is alive)")
		}
		r.ok("maps|census", token.NoPos, "updates of package-level maps outside initialisers examined")
	}
}

// holdsLockAt: a sync.Mutex/RWMutex Lock call precedes pos in the source function and no Unlock lies between them
// (other than a deferred one) — enough for the registry-style critical sections of this code base.
func holdsLockAt(c *Ctx, fn *ssa.Function, pos token.Pos) bool {
	held := false
	for _, b := range fn.Blocks {
		for _, in := range b.Instrs {
			if in.Pos() >= pos || !in.Pos().IsValid() {
				continue
			}
			call, ok := in.(*ssa.Call)
			if !ok {
				continue
			}
			if cal := call.Call.StaticCallee(); cal != nil && cal.Pkg != nil && cal.Pkg.Pkg.Path() == "sync" {
				switch cal.Name() {
				case "Lock":
					held = true
				case "Unlock":
					held = false
				}
			}
		}
	}
	return held
}

// ---- R2 registry lock discipline, R3 shared mutable globals, R4 ModuleImpl read-only, R5 Code immutable, R6 builtin types, R8 goroutines ----

func init() {
	register(&Rule{ID: "C08.R2", Prop: "C08", Floor: 2,
		Doc: "registry lock discipline: the process-wide table of module implementations (py.Runtime.ModuleImpls) is read under RLock/Lock and written under Lock of the same Runtime's mutex (must-hold lockset)",
		Run: runC08R2})
	register(&Rule{ID: "C08.R3", Prop: "C08", Floor: 8,
		Doc: "module instances do not share mutable globals: ModuleStore.NewModule builds the instance's Globals from a copy, and every value of a registered ModuleImpl's Globals whose static type is a mutable container (*py.List, py.StringDict, *py.Set, *py.Dict) is either re-bound per context by NewContext or copied per instance by NewModule",
		Run: runC08R3})
	register(&Rule{ID: "C08.R4", Prop: "C08", Floor: 1,
		Doc: "module implementations are read-only after registration: no field of a *py.ModuleImpl (or of a Method it owns) is assigned outside package initialisers and composite literals",
		Run: runC08R4})
	register(&Rule{ID: "C08.R5", Prop: "C08", Floor: 1,
		Doc: "code objects are immutable after construction: fields of py.Code are assigned only by the compiler (before compileAst returns the object), py.NewCode/InitCell2arg and the marshal reader",
		Run: runC08R5})
	register(&Rule{ID: "C08.R6", Prop: "C08", Floor: 2,
		Doc: "built-in types cannot be mutated from Python: the generic attribute set/delete path that writes an object's dictionary refuses a type object that is not a heap (Python-defined) type, so int.foo = 1 cannot change what every context sees",
		Run: runC08R6})
	register(&Rule{ID: "C08.R8", Prop: "C08", Floor: 8,
		Doc: "no goroutines in the interpreter core: py, vm, compile, symtable, parser, ast and stdlib/* contain no go statement (VM state is owned by the calling goroutine)",
		Run: runC08R8})
}
