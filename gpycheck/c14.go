package main

import (
	"fmt"
	"go/ast"
	"go/constant"
	"go/token"
	"go/types"
	"regexp"
	"sort"
	"strings"

	"golang.org/x/tools/go/packages"
)

// C14: strings are sequences of code points stored as UTF-8. What can be decided statically is the
// discipline that keeps the two index spaces apart (DESIGN.md §4 C14):
//   R1  units: every integer in the string code is a code-point count/index (CP), a byte offset (BYTE) or
//       neutral; a Go string is sliced/indexed only with BYTE values (or under a proof that the string is ASCII),
//       String.pos/String.slice receive only CP values, CP and BYTE are never added, a position handed back to
//       Python is CP
//   R2  a one-byte slice x[i:i+1] of a string stands for a character only under an ASCII guard
//   R3  every escape form the repr writer (StringEscape) can emit is decoded by the literal reader
//       (DecodeEscape) with the same number of hex digits
//   R4  chr() accepts exactly 0 <= x < 0x110000 and its buffer holds any UTF-8 sequence
//   R5  the repr of a one-element tuple carries the trailing comma

type unit int

const (
	uNeutral unit = iota
	uCP
	uByte
	uMixed
)

func (u unit) String() string {
	return [...]string{"neutral", "code points", "bytes", "mixed"}[u]
}

func joinUnit(a, b unit) unit {
	switch {
	case a == uNeutral:
		return b
	case b == uNeutral:
		return a
	case a == b:
		return a
	}
	return uMixed
}

type unitAn struct {
	info    *types.Info
	vars    map[types.Object]unit
	ascii   map[types.Object]bool // boolean variables that hold "this string is ASCII only"
	changed bool
	summ    map[*types.Func][]unit // units of the integer results of the functions of the analysed file
}

func isStringy(t types.Type) bool {
	if t == nil {
		return false
	}
	b, ok := t.Underlying().(*types.Basic)
	return ok && b.Info()&types.IsString != 0
}

func isRuneSlice(t types.Type) bool {
	if s, ok := t.Underlying().(*types.Slice); ok {
		if b, ok := s.Elem().Underlying().(*types.Basic); ok {
			return b.Kind() == types.Int32
		}
	}
	return false
}

func (u *unitAn) typeOf(e ast.Expr) types.Type {
	if tv, ok := u.info.Types[e]; ok {
		return tv.Type
	}
	return nil
}

func (u *unitAn) objOf(e ast.Expr) types.Object {
	if id, ok := unparen(e).(*ast.Ident); ok {
		if o := u.info.Uses[id]; o != nil {
			return o
		}
		return u.info.Defs[id]
	}
	return nil
}

// unitOf classifies an integer expression.
func (u *unitAn) unitOf(e ast.Expr) unit {
	e = unparen(e)
	if tv, ok := u.info.Types[e]; ok && tv.Value != nil {
		return uNeutral
	}
	switch x := e.(type) {
	case *ast.Ident:
		if o := u.objOf(x); o != nil {
			return u.vars[o]
		}
	case *ast.BinaryExpr:
		switch x.Op {
		case token.ADD, token.SUB:
			return joinUnit(u.unitOf(x.X), u.unitOf(x.Y))
		}
		return uNeutral
	case *ast.TypeAssertExpr:
		// obj.(py.Int): a Python-level integer; in the string code that is a character index
		if x.Type != nil {
			if t := u.typeOf(x.Type); t != nil && strings.HasSuffix(t.String(), "/py.Int") {
				return uCP
			}
		}
	case *ast.CallExpr:
		// conversion
		if tv, ok := u.info.Types[x.Fun]; ok && tv.IsType() && len(x.Args) == 1 {
			return u.unitOf(x.Args[0])
		}
		if id, ok := x.Fun.(*ast.Ident); ok && id.Name == "len" && len(x.Args) == 1 {
			if _, isB := u.info.Uses[id].(*types.Builtin); isB {
				t := u.typeOf(x.Args[0])
				switch {
				case isStringy(t):
					return uByte
				case isRuneSlice(t):
					return uCP
				}
				return uNeutral
			}
		}
		if fn := Callee(u.info, x); fn != nil {
			pk := ""
			if fn.Pkg() != nil {
				pk = fn.Pkg().Path()
			}
			switch {
			case pk == "unicode/utf8" && (fn.Name() == "RuneCountInString" || fn.Name() == "RuneCount"):
				return uCP
			case pk == "strings" && strings.Contains(fn.Name(), "Index"):
				return uByte
			case pk == "bytes" && strings.Contains(fn.Name(), "Index"):
				return uByte
			case strings.HasSuffix(pk, "/py") && fn.Name() == "len" && fn.Type().(*types.Signature).Recv() != nil:
				return uCP
			case strings.HasSuffix(pk, "/py") && fn.Name() == "pos":
				return uByte
			}
			if su := u.summ[fn]; len(su) == 1 {
				return su[0]
			}
		}
	}
	return uNeutral
}

func (u *unitAn) set(o types.Object, v unit) {
	if o == nil || v == uNeutral {
		return
	}
	n := joinUnit(u.vars[o], v)
	if n != u.vars[o] {
		u.vars[o] = n
		u.changed = true
	}
}

// isAsciiCond: the condition establishes that code points and bytes coincide (len in CP == len in bytes of one string).
func (u *unitAn) isAsciiCond(e ast.Expr) bool {
	e = unparen(e)
	switch x := e.(type) {
	case *ast.Ident:
		return u.ascii[u.objOf(x)]
	case *ast.BinaryExpr:
		if x.Op == token.EQL {
			a, b := u.unitOf(x.X), u.unitOf(x.Y)
			if a == uCP && b == uByte || a == uByte && b == uCP {
				return true
			}
			// String.slice: `length == len(s)` with length a parameter documented as the length in characters
			if (b == uByte && a == uNeutral && exprStr(x.X) == "length") || (a == uByte && b == uNeutral && exprStr(x.Y) == "length") {
				return true
			}
		}
		if x.Op == token.LAND {
			return u.isAsciiCond(x.X) || u.isAsciiCond(x.Y)
		}
	}
	return false
}

func (u *unitAn) infer(body *ast.BlockStmt) {
	for iter := 0; iter < 6; iter++ {
		u.changed = false
		ast.Inspect(body, func(n ast.Node) bool {
			switch x := n.(type) {
			case *ast.AssignStmt:
				if len(x.Lhs) == len(x.Rhs) {
					for i, l := range x.Lhs {
						if o := u.objOf(l); o != nil {
							if x.Tok == token.ADD_ASSIGN || x.Tok == token.SUB_ASSIGN {
								u.set(o, u.unitOf(x.Rhs[i]))
								continue
							}
							u.set(o, u.unitOf(x.Rhs[i]))
							if u.isAsciiCond(x.Rhs[i]) && !u.ascii[o] {
								u.ascii[o] = true
								u.changed = true
							}
						}
					}
				} else if len(x.Rhs) == 1 {
					if call, ok := x.Rhs[0].(*ast.CallExpr); ok {
						if fn := Callee(u.info, call); fn != nil && fn.Pkg() != nil {
							switch {
							case fn.Pkg().Path() == "unicode/utf8" && strings.HasPrefix(fn.Name(), "DecodeRune") || fn.Pkg().Path() == "unicode/utf8" && strings.HasPrefix(fn.Name(), "DecodeLastRune"):
								if len(x.Lhs) == 2 {
									u.set(u.objOf(x.Lhs[1]), uByte)
								}
							case fn.Name() == "GetIndices" && len(call.Args) == 1 && len(x.Lhs) == 5:
								lu := u.unitOf(call.Args[0])
								for _, k := range []int{0, 1, 3} {
									u.set(u.objOf(x.Lhs[k]), lu)
								}
							case (fn.Name() == "IndexIntCheck") && len(call.Args) == 2 && len(x.Lhs) == 2:
								u.set(u.objOf(x.Lhs[0]), u.unitOf(call.Args[1]))
							default:
								// a helper of the analysed file: the units its results were found to carry
								if su := u.summ[fn]; len(su) == len(x.Lhs) {
									for k, l := range x.Lhs {
										u.set(u.objOf(l), su[k])
									}
								}
							}
						}
					}
					if ta, ok := x.Rhs[0].(*ast.TypeAssertExpr); ok && len(x.Lhs) == 2 {
						u.set(u.objOf(x.Lhs[0]), u.unitOf(ta))
					}
				}
			case *ast.ValueSpec:
				for i, nm := range x.Names {
					if i < len(x.Values) {
						o := u.info.Defs[nm]
						u.set(o, u.unitOf(x.Values[i]))
						if u.isAsciiCond(x.Values[i]) && o != nil && !u.ascii[o] {
							u.ascii[o] = true
							u.changed = true
						}
					}
				}
			case *ast.RangeStmt:
				if x.Key != nil {
					t := u.typeOf(x.X)
					switch {
					case isStringy(t):
						u.set(u.objOf(x.Key), uByte)
					case isRuneSlice(t):
						u.set(u.objOf(x.Key), uCP)
					}
				}
			case *ast.IncDecStmt:
				// a counter incremented once per iteration of `for range <string>` counts characters
			}
			return true
		})
		// counters: `n++` directly inside `for … range <string>` bodies count code points
		ast.Inspect(body, func(n ast.Node) bool {
			rs, ok := n.(*ast.RangeStmt)
			if !ok || !isStringy(u.typeOf(rs.X)) {
				return true
			}
			for _, s := range rs.Body.List {
				if inc, ok := s.(*ast.IncDecStmt); ok && inc.Tok == token.INC {
					u.set(u.objOf(inc.X), uCP)
				}
			}
			return true
		})
		if !u.changed {
			break
		}
	}
}

type unitFinding struct {
	key string
	pos token.Pos
	msg string
}

// check walks the body tracking ASCII guards and reports unit violations.
func (u *unitAn) check(body *ast.BlockStmt, visibleReturn bool) (finds []unitFinding, sites int) {
	var walk func(n ast.Node, asciiOK bool, sentinel map[types.Object]bool)
	report := func(key string, pos token.Pos, msg string) {
		finds = append(finds, unitFinding{key, pos, msg})
	}
	var exprs func(e ast.Node, asciiOK bool, sentinel map[types.Object]bool)
	exprs = func(e ast.Node, asciiOK bool, sentinel map[types.Object]bool) {
		ast.Inspect(e, func(n ast.Node) bool {
			switch x := n.(type) {
			case *ast.FuncLit:
				return false
			case *ast.BinaryExpr:
				if x.Op == token.ADD || x.Op == token.SUB {
					a, b := u.unitOf(x.X), u.unitOf(x.Y)
					if (a == uCP && b == uByte || a == uByte && b == uCP) && !asciiOK {
						sites++
						report("mixed|"+exprStr(x), x.Pos(), fmt.Sprintf("`%s` combines a count of %s (%s) with a count of %s (%s): for any string with a multi-byte character before that point the sum is neither a character position nor a byte offset", exprStr(x), a, exprStr(x.X), b, exprStr(x.Y)))
					}
				}
				// an ordering test between a byte count and a character count (`len(sub) > end-beg`): equality is the ASCII
				// test (characters == bytes) and is fine, but "does it fit" decided across units answers wrongly as soon as the
				// byte count exceeds the character count it is compared with
				if x.Op == token.LSS || x.Op == token.LEQ || x.Op == token.GTR || x.Op == token.GEQ {
					a, b := u.unitOf(x.X), u.unitOf(x.Y)
					if a == uCP && b == uByte || a == uByte && b == uCP {
						sites++
						if !asciiOK {
							report("compare|"+exprStr(x), x.Pos(), fmt.Sprintf("`%s` orders a count of %s (%s) against a count of %s (%s): a string with a multi-byte character has more bytes than characters, so a \"too long / fits\" decision taken across the two units is wrong for it (a needle with one two-byte character is longer in bytes than a one-character window)", exprStr(x), a, exprStr(x.X), b, exprStr(x.Y)))
						}
					}
				}
			case *ast.SliceExpr:
				if isStringy(u.typeOf(x.X)) {
					for _, b := range []ast.Expr{x.Low, x.High} {
						if b == nil {
							continue
						}
						sites++
						if bu := u.unitOf(b); (bu == uCP || bu == uMixed) && !asciiOK {
							report("slice|"+exprStr(x), x.Pos(), fmt.Sprintf("the Go string slice `%s` uses `%s`, a count of %s, as a byte offset: correct only while every character before it is one byte long (use String.pos / String.slice, or test that the string is ASCII)", exprStr(x), exprStr(b), bu))
						}
					}
					// R2: one-byte window standing for a character
					if x.Low != nil && x.High != nil && exprStr(x.High) == exprStr(x.Low)+" + 1" && !asciiOK {
						report("onebyte|"+exprStr(x), x.Pos(), fmt.Sprintf("`%s` takes exactly one byte of a string as if it were one character: a multi-byte character is cut to its first byte (decode a rune, or establish that the string is ASCII first)", exprStr(x)))
					}
				}
			case *ast.IndexExpr:
				if isStringy(u.typeOf(x.X)) {
					sites++
					if bu := u.unitOf(x.Index); (bu == uCP || bu == uMixed) && !asciiOK {
						report("index|"+exprStr(x), x.Pos(), fmt.Sprintf("the Go string index `%s` uses `%s`, a count of %s, as a byte offset", exprStr(x), exprStr(x.Index), bu))
					}
				}
			case *ast.CallExpr:
				if fn := Callee(u.info, x); fn != nil && fn.Pkg() != nil && strings.HasSuffix(fn.Pkg().Path(), "/py") {
					switch fn.Name() {
					case "pos", "slice":
						if fn.Type().(*types.Signature).Recv() != nil {
							for i, a := range x.Args {
								if fn.Name() == "slice" && i == 2 {
									continue
								}
								sites++
								if au := u.unitOf(a); au == uByte || au == uMixed {
									report("cparg|"+exprStr(x), x.Pos(), fmt.Sprintf("`%s` passes `%s`, a count of %s, where String.%s expects a character position", exprStr(x), exprStr(a), au, fn.Name()))
								}
							}
						}
					}
				}
			}
			return true
		})
	}
	walk = func(n ast.Node, asciiOK bool, sentinel map[types.Object]bool) {
		switch x := n.(type) {
		case nil:
		case *ast.BlockStmt:
			for _, s := range x.List {
				walk(s, asciiOK, sentinel)
			}
		case *ast.IfStmt:
			if x.Init != nil {
				walk(x.Init, asciiOK, sentinel)
			}
			exprs(x.Cond, asciiOK, sentinel)
			sen := sentinel
			// `if idx < 0 { return Int(idx) }`: a negative value is the not-found sentinel, not a position
			if be, ok := unparen(x.Cond).(*ast.BinaryExpr); ok && be.Op == token.LSS {
				if o := u.objOf(be.X); o != nil {
					sen = map[types.Object]bool{o: true}
				}
			}
			walk(x.Body, asciiOK || u.isAsciiCond(x.Cond), sen)
			if x.Else != nil {
				walk(x.Else, asciiOK, sentinel)
			}
			// `if ascii { … return }`: nothing learnt after it
		case *ast.ForStmt:
			if x.Init != nil {
				walk(x.Init, asciiOK, sentinel)
			}
			if x.Cond != nil {
				exprs(x.Cond, asciiOK, sentinel)
			}
			if x.Post != nil {
				walk(x.Post, asciiOK, sentinel)
			}
			walk(x.Body, asciiOK, sentinel)
		case *ast.RangeStmt:
			exprs(x.X, asciiOK, sentinel)
			walk(x.Body, asciiOK, sentinel)
		case *ast.SwitchStmt:
			if x.Init != nil {
				walk(x.Init, asciiOK, sentinel)
			}
			if x.Tag != nil {
				exprs(x.Tag, asciiOK, sentinel)
			}
			for _, cl := range x.Body.List {
				cc := cl.(*ast.CaseClause)
				for _, s := range cc.Body {
					walk(s, asciiOK, sentinel)
				}
			}
		case *ast.TypeSwitchStmt:
			for _, cl := range x.Body.List {
				cc := cl.(*ast.CaseClause)
				for _, s := range cc.Body {
					walk(s, asciiOK, sentinel)
				}
			}
		case *ast.ReturnStmt:
			for _, res := range x.Results {
				exprs(res, asciiOK, sentinel)
				if visibleReturn {
					// Int(E) handed back to Python is a character position
					if call, ok := unparen(res).(*ast.CallExpr); ok && len(call.Args) == 1 {
						if tv, ok := u.info.Types[call.Fun]; ok && tv.IsType() && strings.HasSuffix(tv.Type.String(), "/py.Int") {
							sites++
							if o := u.objOf(call.Args[0]); o != nil && sentinel[o] {
								continue
							}
							if ru := u.unitOf(call.Args[0]); (ru == uByte || ru == uMixed) && !asciiOK {
								report("result|"+exprStr(res), res.Pos(), fmt.Sprintf("the position `%s` returned to Python is a count of %s; Python positions count characters", exprStr(call.Args[0]), ru))
							}
						}
					}
				}
			}
		case ast.Stmt:
			exprs(x, asciiOK, sentinel)
		}
	}
	walk(body, false, nil)
	return
}

// functions whose Int results are positions in the string
var positionResults = map[string]bool{"find": true, "rfind": true, "index": true, "rindex": true}

func runC14R1(c *Ctx, r *Rep) {
	ln := (*litNamerAST)(nil)
	_ = ln
	nf := 0
	type target struct {
		rel  string
		file string
		only map[string]bool
	}
	for _, tg := range []target{{"py", "string.go", nil}, {"py", "sequence.go", map[string]bool{"Iterate": true}}, {"stdlib/builtin", "builtin.go", map[string]bool{"builtin_ord": true, "builtin_chr": true}}} {
		p := c.Pkg(tg.rel)
		if p == nil {
			continue
		}
		for _, file := range c.Files(p) {
			if fileOf(c, file.Pos()) != tg.file {
				continue
			}
			// named functions and the method closures registered in init()
			var bodies []struct {
				id   string
				body *ast.BlockStmt
				vis  bool
				pos  token.Pos
			}
			for _, d := range file.Decls {
				fd, ok := d.(*ast.FuncDecl)
				if !ok || fd.Body == nil {
					continue
				}
				if tg.only != nil && !tg.only[fd.Name.Name] {
					continue
				}
				id := declID(p, fd)
				bodies = append(bodies, struct {
					id   string
					body *ast.BlockStmt
					vis  bool
					pos  token.Pos
				}{id, fd.Body, positionResults[fd.Name.Name], fd.Pos()})
				if fd.Name.Name == "init" {
					ast.Inspect(fd.Body, func(n ast.Node) bool {
						call, ok := n.(*ast.CallExpr)
						if !ok || len(call.Args) < 2 {
							return true
						}
						lit, ok := call.Args[0].(*ast.BasicLit)
						fl, ok2 := call.Args[1].(*ast.FuncLit)
						if ok && ok2 && lit.Kind == token.STRING {
							name := strings.Trim(lit.Value, "\"`")
							bodies = append(bodies, struct {
								id   string
								body *ast.BlockStmt
								vis  bool
								pos  token.Pos
							}{id + "$" + name, fl.Body, positionResults[name], fl.Pos()})
						}
						return true
					})
				}
			}
			// result units of the file's own functions (a helper that hands a byte count back to find() must not
			// launder it): joined over the return statements, two rounds so that helpers of helpers are covered
			summ := map[*types.Func][]unit{}
			if tg.only == nil {
				for round := 0; round < 2; round++ {
					for _, d := range file.Decls {
						fd, ok := d.(*ast.FuncDecl)
						if !ok || fd.Body == nil || fd.Type.Results == nil {
							continue
						}
						fn, _ := p.TypesInfo.Defs[fd.Name].(*types.Func)
						if fn == nil || fn.Name() == "len" || fn.Name() == "pos" {
							continue
						}
						nres := fn.Type().(*types.Signature).Results().Len()
						su := &unitAn{info: p.TypesInfo, vars: map[types.Object]unit{}, ascii: map[types.Object]bool{}, summ: summ}
						su.infer(fd.Body)
						res := make([]unit, nres)
						any := false
						ast.Inspect(fd.Body, func(n ast.Node) bool {
							if _, ok := n.(*ast.FuncLit); ok {
								return false
							}
							if rs, ok := n.(*ast.ReturnStmt); ok && len(rs.Results) == nres {
								for k, e := range rs.Results {
									if tv, ok := p.TypesInfo.Types[e]; ok {
										if b, ok := tv.Type.Underlying().(*types.Basic); ok && b.Info()&types.IsInteger != 0 {
											res[k] = joinUnit(res[k], su.unitOf(e))
											any = any || res[k] != uNeutral
										}
									}
								}
							}
							return true
						})
						if any {
							summ[fn] = res
						}
					}
				}
			}
			for _, b := range bodies {
				if strings.HasSuffix(b.id, ".init") {
					continue // its closures are analysed one by one
				}
				u := &unitAn{info: p.TypesInfo, vars: map[types.Object]unit{}, ascii: map[types.Object]bool{}, summ: summ}
				u.infer(b.body)
				finds, sites := u.check(b.body, b.vis)
				if sites == 0 {
					continue
				}
				nf++
				r.analysed(b.id)
				seen := map[string]bool{}
				for _, f := range finds {
					if seen[f.key] {
						continue
					}
					seen[f.key] = true
					r.bad("units|"+b.id+"|"+f.key, f.pos, "%s", f.msg)
				}
				if len(finds) == 0 {
					r.ok("units|"+b.id, b.pos, "%d slicing/indexing/position sites: byte offsets and character positions are kept apart", sites)
				}
			}
		}
	}
	if nf == 0 {
		r.undecided("units|sites", token.NoPos, "no function with string slicing or position arithmetic found")
	}
}

type litNamerAST struct{}

// ---- R3 escape writer/reader agreement ----

var escFmtRe = regexp.MustCompile(`^\\\\?([a-zA-Z])(?:%0(\d)x)?$`)

func runC14R3(c *Ctx, r *Rep) {
	w := c.FuncDecl("py", "StringEscape")
	rd := c.FuncDecl("parser", "DecodeEscape")
	if w == nil || rd == nil {
		r.undecided("escape|anchors", token.NoPos, "py.StringEscape or parser.DecodeEscape not found")
		return
	}
	r.analysed("py.StringEscape")
	r.analysed("parser.DecodeEscape")
	pw, pr := c.MustPkg("py"), c.MustPkg("parser")
	// writer: string literals beginning with a backslash
	type form struct {
		letter string
		width  string
		pos    token.Pos
	}
	var forms []form
	quotesEscaped := false
	ast.Inspect(w.Body, func(n ast.Node) bool {
		lit, ok := n.(*ast.BasicLit)
		if !ok {
			return true
		}
		tv, ok := pw.TypesInfo.Types[lit]
		if !ok || tv.Value == nil {
			return true
		}
		switch tv.Value.Kind() {
		case constant.String:
			s := constant.StringVal(tv.Value)
			if m := escFmtRe.FindStringSubmatch(strings.Replace(s, `\`, `\\`, 1)); m != nil && strings.HasPrefix(s, `\`) {
				forms = append(forms, form{m[1], m[2], lit.Pos()})
			}
		case constant.Int:
			if lit.Kind == token.CHAR && constant.StringVal(constant.MakeString(string(rune(mustInt(tv.Value))))) == `\` {
				quotesEscaped = true // out.WriteRune('\\') before a quote or backslash
			}
		}
		return true
	})
	// reader: case labels of the switch on the escape character, and decodeHex widths
	labels := map[string]bool{}
	widths := map[string]string{}
	ast.Inspect(rd.Body, func(n ast.Node) bool {
		switch x := n.(type) {
		case *ast.IndexExpr:
			// the single-character escapes held in a read-only table literal: its keys are the letters decoded
			if tl := tableLiteral(c, pr.TypesInfo, x.X); tl != nil {
				for _, en := range tl.entries {
					if tv, ok := tl.info.Types[en.key]; ok && tv.Value != nil && tv.Value.Kind() == constant.Int {
						labels[string(rune(mustInt(tv.Value)))] = true
					}
				}
			}
		case *ast.CaseClause:
			for _, e := range x.List {
				if tv, ok := pr.TypesInfo.Types[e]; ok && tv.Value != nil && tv.Value.Kind() == constant.Int {
					labels[string(rune(mustInt(tv.Value)))] = true
				}
			}
			// decodeHex('x', i, 2) inside the clause
			for _, s := range x.Body {
				ast.Inspect(s, func(m ast.Node) bool {
					call, ok := m.(*ast.CallExpr)
					if !ok || len(call.Args) < 3 {
						return true
					}
					// the hex decoder: a closure or a named function, the number of digits is its last argument
					if id, ok := call.Fun.(*ast.Ident); ok && strings.Contains(strings.ToLower(id.Name), "hex") {
						call = &ast.CallExpr{Fun: call.Fun, Args: []ast.Expr{call.Args[0], call.Args[1], call.Args[len(call.Args)-1]}}
						if tv, ok := pr.TypesInfo.Types[call.Args[2]]; ok && tv.Value != nil {
							for _, e := range x.List {
								if lv, ok := pr.TypesInfo.Types[e]; ok && lv.Value != nil {
									widths[string(rune(mustInt(lv.Value)))] = tv.Value.ExactString()
								}
							}
						} else if wid := identOf(call.Args[2]); wid != nil {
							// one clause for several letters, the width held in a local: `w := 4; if c == 'U' { w = 8 }`
							wobj := pr.TypesInfo.Uses[wid]
							dflt := ""
							per := map[string]string{}
							for _, bs := range x.Body {
								switch y := bs.(type) {
								case *ast.AssignStmt:
									if len(y.Lhs) == 1 && len(y.Rhs) == 1 {
										if lid := identOf(y.Lhs[0]); lid != nil && (pr.TypesInfo.Defs[lid] == wobj || pr.TypesInfo.Uses[lid] == wobj) {
											if v, ok := pr.TypesInfo.Types[y.Rhs[0]]; ok && v.Value != nil {
												dflt = v.Value.ExactString()
											}
										}
									}
								case *ast.IfStmt:
									be, ok := unparen(y.Cond).(*ast.BinaryExpr)
									if !ok || be.Op != token.EQL || len(y.Body.List) != 1 {
										continue
									}
									lv, ok := pr.TypesInfo.Types[be.Y]
									as, ok2 := y.Body.List[0].(*ast.AssignStmt)
									if !ok || lv.Value == nil || !ok2 || len(as.Lhs) != 1 || len(as.Rhs) != 1 {
										continue
									}
									if lid := identOf(as.Lhs[0]); lid != nil && pr.TypesInfo.Uses[lid] == wobj {
										if v, ok := pr.TypesInfo.Types[as.Rhs[0]]; ok && v.Value != nil {
											per[string(rune(mustInt(lv.Value)))] = v.Value.ExactString()
										}
									}
								}
							}
							for _, e := range x.List {
								if lv, ok := pr.TypesInfo.Types[e]; ok && lv.Value != nil {
									l := string(rune(mustInt(lv.Value)))
									if w, ok := per[l]; ok {
										widths[l] = w
									} else if dflt != "" {
										widths[l] = dflt
									}
								}
							}
						}
					}
					return true
				})
			}
		}
		return true
	})
	if len(forms) == 0 || len(labels) == 0 {
		r.undecided("escape|tables", w.Pos(), "could not extract the escape forms of the writer (%d) or the case labels of the reader (%d)", len(forms), len(labels))
		return
	}
	sort.Slice(forms, func(i, j int) bool { return forms[i].letter+forms[i].width < forms[j].letter+forms[j].width })
	seen := map[string]bool{}
	for _, f := range forms {
		k := f.letter + "/" + f.width
		if seen[k] {
			continue
		}
		seen[k] = true
		switch {
		case !labels[f.letter]:
			r.bad("escape|\\"+f.letter, f.pos, "repr writes the escape \\%s but the literal reader has no case for it: eval(repr(s)) fails or differs for strings containing that character", f.letter)
		case f.width != "" && widths[f.letter] != f.width:
			r.bad("escape|\\"+f.letter, f.pos, "repr writes \\%s with %s hex digits, the literal reader decodes %s digits", f.letter, f.width, widths[f.letter])
		default:
			r.ok("escape|\\"+f.letter+f.width, f.pos, "written by repr, decoded by the literal reader with the same width")
		}
	}
	for _, q := range []string{`\`, `'`, `"`} {
		r.check(labels[q] && quotesEscaped, "escape|quote "+q, w.Pos(), "repr escapes it with a backslash and the reader decodes \\"+q, "repr/reader disagree on \\"+q)
	}
}

func mustInt(v constant.Value) int64 {
	i, _ := constant.Int64Val(constant.ToInt(v))
	return i
}

// ---- R4 chr range ----

func runC14R4(c *Ctx, r *Rep) {
	fd := c.FuncDecl("stdlib/builtin", "builtin_chr")
	if fd == nil {
		r.undecided("chr|anchor", token.NoPos, "builtin_chr not found")
		return
	}
	p := c.MustPkg("stdlib/builtin")
	info := p.TypesInfo
	r.analysed("stdlib/builtin.builtin_chr")
	// upper bound
	found := false
	ast.Inspect(fd.Body, func(n ast.Node) bool {
		be, ok := n.(*ast.BinaryExpr)
		if !ok || (be.Op != token.GEQ && be.Op != token.GTR) {
			return true
		}
		tv, ok := info.Types[be.Y]
		if !ok || tv.Value == nil {
			return true
		}
		k := mustInt(tv.Value)
		if k < 0x10000 {
			return true
		}
		found = true
		firstRejected := k
		if be.Op == token.GTR {
			firstRejected = k + 1
		}
		r.check(firstRejected == 0x110000, "chr|upper bound", be.Pos(), "chr rejects exactly the values from 0x110000 upwards",
			fmt.Sprintf("chr rejects values from %#x upwards (`%s`); the code point range is 0..0x10FFFF, so the first rejected value must be 0x110000", firstRejected, exprStr(be)))
		return true
	})
	if !found {
		r.undecided("chr|upper bound", fd.Pos(), "no upper-bound comparison found in builtin_chr")
	}
	// buffer for EncodeRune
	ast.Inspect(fd.Body, func(n ast.Node) bool {
		call, ok := n.(*ast.CallExpr)
		if !ok || len(call.Args) != 2 {
			return true
		}
		if id, ok := call.Fun.(*ast.Ident); ok && id.Name == "make" {
			if tv, ok := info.Types[call.Args[1]]; ok && tv.Value != nil {
				r.check(mustInt(tv.Value) >= 4, "chr|buffer", call.Pos(), "the encode buffer holds the longest UTF-8 sequence (4 bytes)",
					fmt.Sprintf("the encode buffer has %d bytes; utf8.EncodeRune needs up to 4 and panics on a shorter slice", mustInt(tv.Value)))
			}
		}
		return true
	})
}

// ---- R5 tuple repr ----

func runC14R5(c *Ctx, r *Rep) {
	m := c.MethodDecl("py", "Tuple", "M__repr__")
	if m == nil {
		r.undecided("tuplerepr|anchor", token.NoPos, "Tuple.M__repr__ not found")
		return
	}
	p := c.MustPkg("py")
	// the repr code: M__repr__ and the same-package functions it calls directly
	bodies := []*ast.FuncDecl{m}
	ast.Inspect(m.Body, func(n ast.Node) bool {
		if call, ok := n.(*ast.CallExpr); ok {
			if fn := Callee(p.TypesInfo, call); fn != nil {
				if d := c.Decl(fn); d != nil && c.DeclPkg(fn) == p {
					bodies = append(bodies, d)
				}
			}
		}
		return true
	})
	r.analysed("(py.Tuple).M__repr__")
	ok := false
	for _, fd := range bodies {
		ast.Inspect(fd.Body, func(n ast.Node) bool {
			is, isIf := n.(*ast.IfStmt)
			if !isIf {
				return true
			}
			c := exprStr(is.Cond)
			if strings.Contains(c, "len(") && strings.Contains(c, "== 1") {
				ast.Inspect(is.Body, func(m ast.Node) bool {
					if lit, isLit := m.(*ast.BasicLit); isLit && lit.Kind == token.STRING && strings.Contains(lit.Value, ",") {
						ok = true
					}
					if lit, isLit := m.(*ast.BasicLit); isLit && lit.Kind == token.CHAR && strings.Contains(lit.Value, ",") {
						ok = true
					}
					return true
				})
			}
			return true
		})
	}
	r.check(ok, "tuplerepr|singleton comma", m.Pos(), "the repr of a one-element tuple writes the trailing comma",
		"no branch of the tuple repr distinguishes length 1 and writes a trailing comma: repr((1,)) is '(1)', which the compiler evaluates back to the int 1, not to the tuple")
}

func init() {
	_ = packages.NeedName
	register(&Rule{ID: "C14.R1", Prop: "C14", Floor: 4,
		Doc: "index-space discipline in the string code (typed AST, per-function unit inference): integers are classified as character counts (String.len, RuneCount, Python-level ints, results of GetIndices/IndexIntCheck over a character length, counters of range-over-string loops), byte offsets (len() of a string, strings.Index*, String.pos, range-over-string keys, utf8.DecodeRune sizes) or neutral; Go string slices and indexes use byte offsets only, unless inside a branch guarded by a proof that the string is ASCII (character length == byte length); String.pos/String.slice receive character positions only; the two are never added; a position returned to Python counts characters. Includes: a one-byte window x[i:i+1] stands for a character only under such a guard",
		Run: runC14R1})
	register(&Rule{ID: "C14.R3", Prop: "C14", Floor: 6,
		Doc: "repr writer / literal reader agreement: every backslash form py.StringEscape can write (\\t \\n \\r \\xHH \\uHHHH \\UHHHHHHHH and backslash-quoted \\\\ \\' \\\") has a case in parser.DecodeEscape decoding the same number of hex digits",
		Run: runC14R3})
	register(&Rule{ID: "C14.R4", Prop: "C14", Floor: 2,
		Doc: "chr(): the first rejected argument is 0x110000 (constants evaluated by the type checker, so named constants such as utf8.MaxRune are compared by value) and the encode buffer is at least utf8.UTFMax bytes",
		Run: runC14R4})
	register(&Rule{ID: "C14.R5", Prop: "C14", Floor: 1,
		Doc: "tuple repr: a branch on length 1 writes the trailing comma, without which repr((x,)) does not evaluate back to a tuple",
		Run: runC14R5})
}
