package main

import (
	"fmt"
	"go/ast"
	"go/constant"
	"go/token"
	"go/types"
	"math/big"
	"sort"
	"strings"
)

// ---- C15.R4: a numeric binary method answers NotImplemented for an operand it cannot convert ----

var binaryDunders = map[string]bool{}

func init() {
	for _, op := range []string{"add", "sub", "mul", "truediv", "floordiv", "mod", "divmod", "pow", "lshift", "rshift", "and", "or", "xor"} {
		binaryDunders["M__"+op+"__"] = true
		binaryDunders["M__r"+op+"__"] = true
		binaryDunders["M__i"+op+"__"] = true
	}
}

func runNotImplementedDiscipline(c *Ctx, r *Rep, typeFilter func(string) bool) {
	p := c.MustPkg("py")
	info := p.TypesInfo
	n := 0
	for _, file := range c.Files(p) {
		for _, d := range file.Decls {
			fd, ok := d.(*ast.FuncDecl)
			if !ok || fd.Body == nil || fd.Recv == nil || !binaryDunders[fd.Name.Name] {
				continue
			}
			tname := strings.TrimPrefix(exprStr(fd.Recv.List[0].Type), "*")
			if !typeFilter(tname) || fd.Type.Params == nil || len(fd.Type.Params.List) == 0 || len(fd.Type.Params.List[0].Names) == 0 {
				continue
			}
			other := fd.Type.Params.List[0].Names[0].Name
			id := declID(p, fd)
			// calls Make*(other) whose error is handed back
			for i, st := range fd.Body.List {
				as, ok := st.(*ast.AssignStmt)
				if !ok || len(as.Rhs) != 1 || len(as.Lhs) != 2 {
					continue
				}
				call, ok := as.Rhs[0].(*ast.CallExpr)
				if !ok || len(call.Args) != 1 || exprStr(call.Args[0]) != other {
					continue
				}
				callee := Callee(info, call)
				if callee == nil || !strings.HasPrefix(callee.Name(), "Make") {
					continue
				}
				n++
				r.analysed(id)
				errName := exprStr(as.Lhs[1])
				answered := false
				if i+1 < len(fd.Body.List) {
					if is, ok := fd.Body.List[i+1].(*ast.IfStmt); ok && exprStr(is.Cond) == errName+" != nil" {
						ast.Inspect(is.Body, func(m ast.Node) bool {
							if rs, ok := m.(*ast.ReturnStmt); ok && len(rs.Results) > 0 && exprStr(rs.Results[0]) == "NotImplemented" {
								answered = true
							}
							return true
						})
					}
				}
				r.check(answered, "notimplemented|"+id+"|"+callee.Name(), call.Pos(),
					"a TypeError from converting the other operand is answered with NotImplemented",
					fmt.Sprintf("%s converts its operand with %s and hands the TypeError back: the binary-operator protocol needs NotImplemented here so that the other operand's reflected method is tried (1 / (1+1j) must reach complex.__rtruediv__)", id, callee.Name()))
			}
		}
	}
	if n == 0 {
		r.okTrivial("notimplemented|sites", token.NoPos, "no numeric binary method converts its operand with a raising Make* helper")
	}
}

// ---- C15.R5: numeric tower coverage ----

func switchArms(c *Ctx, rel, fn string) (map[string]bool, token.Pos) {
	fd := c.FuncDecl(rel, fn)
	if fd == nil || fd.Body == nil {
		return nil, token.NoPos
	}
	p := c.MustPkg(rel)
	arms := map[string]bool{}
	ast.Inspect(fd.Body, func(n ast.Node) bool {
		ts, ok := n.(*ast.TypeSwitchStmt)
		if !ok {
			return true
		}
		for _, cl := range ts.Body.List {
			cc := cl.(*ast.CaseClause)
			for _, te := range cc.List {
				if tv, ok := p.TypesInfo.Types[te]; ok && tv.IsType() {
					arms[types.TypeString(tv.Type, func(*types.Package) string { return "" })] = true
				}
			}
		}
		return false
	})
	return arms, fd.Pos()
}

func runTowerCoverage(c *Ctx, r *Rep) {
	chain := []string{"convertToInt", "ConvertToBigInt", "convertToFloat", "convertToComplex"}
	var prev map[string]bool
	prevName := ""
	for _, fn := range chain {
		arms, pos := switchArms(c, "py", fn)
		if arms == nil {
			r.undecided("tower|"+fn, token.NoPos, "function py.%s not found or has no type switch; confirm how operands are converted and update the rule", fn)
			return
		}
		r.analysed("py." + fn)
		if prev != nil {
			var missing []string
			for t := range prev {
				if !arms[t] {
					missing = append(missing, t)
				}
			}
			sort.Strings(missing)
			r.check(len(missing) == 0, "tower|"+prevName+" <= "+fn, pos,
				fmt.Sprintf("every operand type accepted by %s is accepted by %s", prevName, fn),
				fmt.Sprintf("%s does not accept %s, which %s accepts: the wider numeric type cannot take part in arithmetic with every narrower one (e.g. 2**70 + 1j)", fn, strings.Join(missing, ", "), prevName))
		}
		prev, prevName = arms, fn
	}
}

// ---- C15.R6: float text conversion handles the non-finite values itself ----

func runNonFiniteText(c *Ctx, r *Rep) {
	p := c.MustPkg("py")
	info := p.TypesInfo
	for _, m := range []string{"M__str__", "M__repr__"} {
		fd := c.MethodDecl("py", "Float", m)
		if fd == nil {
			r.undecided("text|(py.Float)."+m, token.NoPos, "method not found")
			continue
		}
		// follow one level of delegation inside the type (repr -> str)
		target := fd
		if len(fd.Body.List) == 1 {
			if rs, ok := fd.Body.List[0].(*ast.ReturnStmt); ok && len(rs.Results) == 1 {
				if call, ok := rs.Results[0].(*ast.CallExpr); ok {
					if cal := Callee(info, call); cal != nil && c.Decl(cal) != nil {
						target = c.Decl(cal)
					}
				}
			}
		}
		var firstFormat token.Pos
		tests := map[string]token.Pos{}
		ast.Inspect(target.Body, func(n ast.Node) bool {
			call, ok := n.(*ast.CallExpr)
			if !ok {
				return true
			}
			cal := Callee(info, call)
			if cal == nil || cal.Pkg() == nil {
				return true
			}
			switch cal.Pkg().Path() + "." + cal.Name() {
			case "math.IsNaN", "math.IsInf":
				if _, seen := tests[cal.Name()]; !seen {
					tests[cal.Name()] = call.Pos()
				}
			case "strconv.FormatFloat", "fmt.Sprintf", "strconv.AppendFloat", "fmt.Sprint":
				if firstFormat == token.NoPos {
					firstFormat = call.Pos()
				}
			}
			return true
		})
		id := "(py.Float)." + m
		r.analysed(id)
		if firstFormat == token.NoPos {
			r.undecided("text|"+id, target.Pos(), "no strconv/fmt formatting call found; confirm how floats are turned into text and update the rule")
			continue
		}
		okNaN := tests["IsNaN"] != token.NoPos && tests["IsNaN"] < firstFormat
		okInf := tests["IsInf"] != token.NoPos && tests["IsInf"] < firstFormat
		r.check(okNaN && okInf, "text|"+id+"|non-finite first", firstFormat,
			"NaN and the infinities are tested before any Go formatting verb is applied",
			"the float is formatted by Go's strconv/fmt without math.IsNaN and math.IsInf being tested first: every Go verb spells these values NaN, +Inf, -Inf, Python spells them nan, inf, -inf")
		// the integral shortcut through an integer conversion loses the sign of zero and is undefined beyond int64
		lossy := token.NoPos
		ast.Inspect(target.Body, func(n ast.Node) bool {
			call, ok := n.(*ast.CallExpr)
			if !ok || len(call.Args) != 1 {
				return true
			}
			if tv, ok := info.Types[call.Fun]; ok && tv.IsType() && isWordInt(tv.Type) {
				if at, ok := info.Types[call.Args[0]]; ok && isFloatT(at.Type) && at.Value == nil {
					lossy = call.Pos()
				}
			}
			return true
		})
		r.check(lossy == token.NoPos, "text|"+id+"|no integer detour", target.Pos(),
			"the text is produced from the float itself",
			"the float is converted to a machine integer on the way to its text form: -0.0 loses its sign and values beyond int64 are implementation-defined")
	}
}

// ---- C15.R7: an integer limit used as a float bound must be exactly representable ----

func runInexactBounds(c *Ctx, r *Rep) {
	n := 0
	for _, rel := range []string{"py", "stdlib/builtin", "stdlib/math"} {
		p := c.Pkg(rel)
		if p == nil {
			continue
		}
		info := p.TypesInfo
		for _, file := range c.Files(p) {
			for _, d := range file.Decls {
				fd, ok := d.(*ast.FuncDecl)
				if !ok || fd.Body == nil {
					continue
				}
				id := declID(p, fd)
				ast.Inspect(fd.Body, func(nd ast.Node) bool {
					be, ok := nd.(*ast.BinaryExpr)
					if !ok {
						return true
					}
					switch be.Op {
					case token.LSS, token.LEQ, token.GTR, token.GEQ, token.EQL, token.NEQ:
					default:
						return true
					}
					for _, side := range []struct {
						k, v ast.Expr
						op   token.Token
					}{{be.Y, be.X, be.Op}, {be.X, be.Y, flipOp(be.Op)}} {
						ktv, ok := info.Types[side.k]
						vtv, ok2 := info.Types[side.v]
						if !ok || !ok2 || ktv.Value == nil || vtv.Value != nil || !isFloatT(ktv.Type) {
							continue
						}
						// the constant as written: an integer constant object?
						var obj *types.Const
						switch k := unparen(side.k).(type) {
						case *ast.Ident:
							obj, _ = info.Uses[k].(*types.Const)
						case *ast.SelectorExpr:
							obj, _ = info.Uses[k.Sel].(*types.Const)
						}
						if obj == nil || obj.Val().Kind() != constant.Int {
							continue
						}
						n++
						exact, _ := new(big.Int).SetString(obj.Val().ExactString(), 10)
						f, _ := new(big.Float).SetInt(exact).Float64()
						back, acc := new(big.Float).SetFloat64(f).Int(nil)
						_ = acc
						key := fmt.Sprintf("%s|%s %s %s", id, exprStr(side.v), side.op, obj.Name())
						if back.Cmp(exact) == 0 {
							r.ok("bound|"+key, be.Pos(), "%s = %s is exactly representable as a float64", obj.Name(), exact)
							continue
						}
						// rounded bound: which way, and does the comparison admit the extra values?
						up := back.Cmp(exact) > 0
						admits := up && (side.op == token.LEQ) || !up && (side.op == token.GEQ)
						if admits || side.op == token.EQL || side.op == token.NEQ {
							r.bad("bound|"+key, be.Pos(), "the float %s is compared with the integer constant %s = %s, which is not representable as a float64 and is rounded to %s: `%s` therefore admits %s, outside the integer range the test is meant to delimit", exprStr(side.v), obj.Name(), exact, back, side.op, back)
						} else {
							r.ok("bound|"+key, be.Pos(), "%s is rounded to %s as a float but `%s` keeps the test on the safe side", obj.Name(), back, side.op)
						}
					}
					return true
				})
			}
		}
	}
	r.ok("bound|census", token.NoPos, "%d comparisons of a float value with an integer constant examined", n)
}

func init() {
	floatTypes := func(t string) bool {
		return t == "Float" || t == "Complex" || t == "Int" || t == "BigInt" || t == "Bool"
	}
	register(&Rule{ID: "C15.R4", Prop: "C15", Floor: 4,
		Doc: "binary-operator protocol in the numeric types: a method that converts its operand with a raising Make* helper answers a TypeError with NotImplemented, so that mixed int/float/complex arithmetic reaches the reflected method of the wider type",
		Run: func(c *Ctx, r *Rep) { runNotImplementedDiscipline(c, r, floatTypes) }})
	register(&Rule{ID: "C15.R5", Prop: "C15", Floor: 3,
		Doc: "numeric tower coverage: the operand types accepted by convertToInt are accepted by ConvertToBigInt, those by convertToFloat, those by convertToComplex (type-switch arms compared as sets)",
		Run: runTowerCoverage})
	register(&Rule{ID: "C15.R6", Prop: "C15", Floor: 4,
		Doc: "float text form: Float.M__str__/M__repr__ test NaN and the infinities before any strconv/fmt formatting (Go spells them NaN/+Inf/-Inf) and do not detour through a machine integer (sign of zero, range)",
		Run: runNonFiniteText})
	register(&Rule{ID: "C15.R7", Prop: "C15", Floor: 1,
		Doc: "an integer constant used as a bound in a float comparison is exactly representable as float64, or the comparison operator excludes the value it is rounded to (IntMax rounds up to 2**63)",
		Run: runInexactBounds})
}

// ---- remainder fix-up depends on the sign of the divisor (C07.R7 / C15.R8) ----

// Python's % and divmod give a remainder with the sign of the divisor; Go's %, math.Mod and big.Int.QuoRem give
// the sign of the dividend. Code that starts from the Go operation has to adjust remainder and quotient, and the
// decision to adjust must look at the sign of the divisor (directly or through a flag computed from it).

func mentionsAny(e ast.Node, names map[string]bool) bool {
	found := false
	ast.Inspect(e, func(n ast.Node) bool {
		if id, ok := n.(*ast.Ident); ok && names[id.Name] {
			found = true
		}
		return true
	})
	return found
}

// isSignTest: e contains `d < 0`, `d > 0`, `d.Sign()`, `Signbit(d)` for the divisor d (conversions ignored).
func isSignTest(info *types.Info, e ast.Node, div string) bool {
	found := false
	ast.Inspect(e, func(n ast.Node) bool {
		switch x := n.(type) {
		case *ast.BinaryExpr:
			switch x.Op {
			case token.LSS, token.GTR, token.LEQ, token.GEQ:
				l, r := normStr(info, x.X), normStr(info, x.Y)
				if (l == div && r == "0") || (r == div && l == "0") {
					found = true
				}
			}
		case *ast.CallExpr:
			s := normStr(info, x)
			if s == div+".Sign()" || strings.HasSuffix(s, "Signbit("+div+")") {
				found = true
			}
		}
		return true
	})
	return found
}

func runRemainderFixup(c *Ctx, r *Rep, funcs [][2]string) {
	p := c.MustPkg("py")
	info := p.TypesInfo
	n := 0
	for _, f := range funcs {
		var fd *ast.FuncDecl
		if f[0] == "" {
			fd = c.FuncDecl("py", f[1])
		} else {
			fd = c.MethodDecl("py", f[0], f[1])
		}
		name := f[1]
		if f[0] != "" {
			name = f[0] + "." + f[1]
		}
		if fd == nil || fd.Body == nil {
			r.undecided("fixup|py."+name, token.NoPos, "function not found; confirm where floor division/modulo is implemented and update the rule")
			continue
		}
		r.analysed("py." + name)
		// divisor: the last parameter
		params := fd.Type.Params.List
		last := params[len(params)-1]
		div := last.Names[len(last.Names)-1].Name
		normAlias = nil
		normAlias = aliasesOf(info, fd.Body, div)
		defer func() { normAlias = nil }()
		// flags computed from the sign of the divisor
		signVars := map[string]bool{}
		for pass := 0; pass < 3; pass++ {
			var walk func(stmts []ast.Stmt, underSign bool)
			walk = func(stmts []ast.Stmt, underSign bool) {
				for _, s := range stmts {
					switch x := s.(type) {
					case *ast.AssignStmt:
						dep := underSign
						for _, rh := range x.Rhs {
							if isSignTest(info, rh, div) || mentionsAny(rh, signVars) {
								dep = true
							}
						}
						if dep {
							for _, l := range x.Lhs {
								if id, ok := l.(*ast.Ident); ok {
									signVars[id.Name] = true
								}
							}
						}
					case *ast.IfStmt:
						us := underSign || isSignTest(info, x.Cond, div) || mentionsAny(x.Cond, signVars)
						walk(x.Body.List, us)
						if eb, ok := x.Else.(*ast.BlockStmt); ok {
							walk(eb.List, us)
						}
					case *ast.BlockStmt:
						walk(x.List, underSign)
					}
				}
			}
			walk(fd.Body.List, false)
		}
		// fix-ups: statements adding the divisor to something, inside an if
		found := 0
		var walk2 func(stmts []ast.Stmt, conds []ast.Expr)
		walk2 = func(stmts []ast.Stmt, conds []ast.Expr) {
			for _, s := range stmts {
				switch x := s.(type) {
				case *ast.IfStmt:
					walk2(x.Body.List, append(append([]ast.Expr(nil), conds...), x.Cond))
					if eb, ok := x.Else.(*ast.BlockStmt); ok {
						walk2(eb.List, append(append([]ast.Expr(nil), conds...), x.Cond))
					}
				case *ast.BlockStmt:
					walk2(x.List, conds)
				case *ast.AssignStmt:
					if x.Tok == token.ADD_ASSIGN && len(x.Rhs) == 1 && normStr(info, x.Rhs[0]) == div && len(conds) > 0 {
						found++
						checkFixup(r, info, name, x.Pos(), conds, div, signVars)
					}
				case *ast.ExprStmt:
					if call, ok := x.X.(*ast.CallExpr); ok && len(call.Args) == 2 && len(conds) > 0 {
						if sel, ok := call.Fun.(*ast.SelectorExpr); ok && sel.Sel.Name == "Add" && normStr(info, call.Args[1]) == div {
							found++
							checkFixup(r, info, name, x.Pos(), conds, div, signVars)
						}
					}
				}
			}
		}
		walk2(fd.Body.List, nil)
		n++
		if found == 0 {
			// no fix-up: the remainder must then be computed from the floored quotient (a - q*b), not by a truncating operation
			trunc := token.NoPos
			ast.Inspect(fd.Body, func(nd ast.Node) bool {
				switch x := nd.(type) {
				case *ast.BinaryExpr:
					if x.Op == token.REM {
						trunc = x.Pos()
					}
				case *ast.CallExpr:
					if cal := Callee(info, x); cal != nil && cal.Pkg() != nil {
						switch cal.Pkg().Path() + "." + cal.Name() {
						case "math.Mod", "math.Remainder", "math/big.QuoRem", "math/big.Rem", "math/big.Quo":
							trunc = x.Pos()
						}
					}
				}
				return true
			})
			r.check(trunc == token.NoPos, "fixup|py."+name+"|no truncating remainder", fd.Pos(),
				"the remainder is derived from the floored quotient; no truncating remainder operation is used",
				"a truncating remainder operation (Go %, math.Mod, big Rem/QuoRem) is used without any adjustment by the divisor: the result has the sign of the dividend, Python defines the sign of the divisor")
		}
	}
	if n == 0 {
		r.undecided("fixup|sites", token.NoPos, "no divmod implementation analysed")
	}
}

func checkFixup(r *Rep, info *types.Info, name string, pos token.Pos, conds []ast.Expr, div string, signVars map[string]bool) {
	dep := false
	for _, cd := range conds {
		if isSignTest(info, cd, div) || mentionsAny(cd, signVars) {
			dep = true
		}
	}
	var cs []string
	for _, cd := range conds {
		cs = append(cs, exprStr(cd))
	}
	r.check(dep, "fixup|py."+name+"|adjustment by the divisor", pos,
		"the adjustment of the remainder is decided by a test involving the sign of the divisor",
		fmt.Sprintf("the remainder is adjusted by the divisor %s under the condition `%s`, which does not involve the sign of %s: the remainder must take the sign of the divisor, so whether to adjust depends on it (the adjustment is wrong for one sign of %s)", div, strings.Join(cs, " && "), div, div))
}

// ---- C15.R9: BigInt.Float overflow threshold ----

func runBigFloatThreshold(c *Ctx, r *Rep) {
	p := c.MustPkg("py")
	info := p.TypesInfo
	fr := c.MethodDecl("py", "BigInt", "Frexp")
	fl := c.MethodDecl("py", "BigInt", "Float")
	if fr == nil || fl == nil {
		r.undecided("bigfloat|anchors", token.NoPos, "BigInt.Frexp / BigInt.Float not found")
		return
	}
	r.analysed("(*py.BigInt).Float")
	// mantissa bits kept by Frexp: exp = bits - K
	K := int64(-1)
	ast.Inspect(fr.Body, func(n ast.Node) bool {
		as, ok := n.(*ast.AssignStmt)
		if !ok || len(as.Lhs) != 1 || len(as.Rhs) != 1 || exprStr(as.Lhs[0]) != "exp" {
			return true
		}
		if be, ok := as.Rhs[0].(*ast.BinaryExpr); ok && be.Op == token.SUB {
			if tv, ok := info.Types[be.Y]; ok && tv.Value != nil {
				if v, ok := constant.Int64Val(constant.ToInt(tv.Value)); ok {
					K = v
				}
			}
		}
		return true
	})
	if K < 0 {
		r.undecided("bigfloat|mantissa", fr.Pos(), "could not read the number of mantissa bits Frexp keeps (exp = bits - K)")
		return
	}
	// guard in Float: exp (+ c1) > c2 -> overflow
	var guard *ast.IfStmt
	for _, s := range fl.Body.List {
		if is, ok := s.(*ast.IfStmt); ok {
			guard = is
			break
		}
	}
	if guard == nil {
		r.undecided("bigfloat|guard", fl.Pos(), "no overflow guard found in BigInt.Float")
		return
	}
	be, ok := unparen(guard.Cond).(*ast.BinaryExpr)
	if !ok || (be.Op != token.GTR && be.Op != token.GEQ) {
		r.undecided("bigfloat|guard", guard.Pos(), "guard `%s` is not of the form exp [+ c] > c", exprStr(guard.Cond))
		return
	}
	cval := func(e ast.Expr) (int64, bool) {
		if tv, ok := info.Types[e]; ok && tv.Value != nil {
			return constant.Int64Val(constant.ToInt(tv.Value))
		}
		return 0, false
	}
	rhs, ok := cval(be.Y)
	if !ok {
		r.undecided("bigfloat|guard", guard.Pos(), "right side of `%s` is not constant", exprStr(guard.Cond))
		return
	}
	add := int64(0)
	switch l := unparen(be.X).(type) {
	case *ast.Ident:
	case *ast.BinaryExpr:
		v, ok := cval(l.Y)
		if !ok || (l.Op != token.ADD && l.Op != token.SUB) {
			r.undecided("bigfloat|guard", guard.Pos(), "left side of `%s` is not exp ± constant", exprStr(guard.Cond))
			return
		}
		if l.Op == token.ADD {
			add = v
		} else {
			add = -v
		}
	default:
		r.undecided("bigfloat|guard", guard.Pos(), "left side of `%s` not recognised", exprStr(guard.Cond))
		return
	}
	// overflow branch taken iff exp > thr (GTR) or exp >= thr (GEQ); largest exp let through:
	maxPass := rhs - add
	if be.Op == token.GEQ {
		maxPass--
	}
	// frac < 2**K and float64(frac) may round up to 2**K, so Ldexp(frac, exp) <= 2**(K+exp); finite needs K+exp <= 1023
	limit := int64(1023) - K
	r.check(maxPass <= limit, "bigfloat|(*py.BigInt).Float|threshold", guard.Pos(),
		fmt.Sprintf("the largest exponent let through is %d <= %d = 1023 - %d mantissa bits: Ldexp cannot reach +Inf", maxPass, limit, K),
		fmt.Sprintf("the guard `%s` lets exp = %d through; Frexp keeps %d bits whose float64 value can round up to 2**%d, so Ldexp(frac, %d) can be 2**%d = +Inf: an int just below 2**1024 converts to inf instead of raising OverflowError (largest safe exponent is %d)", exprStr(guard.Cond), maxPass, K, K, maxPass, K+maxPass, limit))
}

func init() {
	register(&Rule{ID: "C07.R7", Prop: "C07", Floor: 2,
		Doc: "floor semantics of integer // and %: where divMod starts from a truncating Go operation (/, %, big.QuoRem), the adjustment of quotient and remainder is decided by a test that involves the sign of the divisor",
		Run: func(c *Ctx, r *Rep) { runRemainderFixup(c, r, [][2]string{{"Int", "divMod"}, {"BigInt", "divMod"}}) }})
	register(&Rule{ID: "C15.R8", Prop: "C15", Floor: 1,
		Doc: "floor semantics of float // and %: floatDivMod derives the remainder from the floored quotient, or adjusts a truncating remainder by a test involving the sign of the divisor",
		Run: func(c *Ctx, r *Rep) { runRemainderFixup(c, r, [][2]string{{"", "floatDivMod"}}) }})
	register(&Rule{ID: "C15.R9", Prop: "C15", Floor: 1,
		Doc: "int-to-float overflow threshold: BigInt.Float lets through only exponents e with (mantissa bits kept by Frexp) + e <= 1023, so that math.Ldexp cannot produce +Inf (constants evaluated by the type checker, linear normalisation of the guard)",
		Run: runBigFloatThreshold})
}

// ---- C15.R10: decimal rounding of a float never computes with an inexact power of ten ----
//
// A float64 cannot hold 10**n exactly for n > 22 or n < 0. Float.M__round__ therefore goes through
// correctly rounded decimal text (strconv) and exact big.Float comparison; a float64 obtained from
// decimal text or from math.Pow/Pow10 may only be returned, never be an operand of float arithmetic or of
// an ordered comparison.
func runRoundExact(c *Ctx, r *Rep) {
	p := c.MustPkg("py")
	info := p.TypesInfo
	root := c.MethodDecl("py", "Float", "M__round__")
	if root == nil {
		r.undecided("roundexact|(py.Float).M__round__", token.NoPos, "method not found")
		return
	}
	// the method and the same-package plain functions it calls (two levels)
	decls := []*ast.FuncDecl{root}
	seen := map[*ast.FuncDecl]bool{root: true}
	for depth := 0; depth < 2; depth++ {
		for _, fd := range append([]*ast.FuncDecl(nil), decls...) {
			ast.Inspect(fd.Body, func(n ast.Node) bool {
				call, ok := n.(*ast.CallExpr)
				if !ok {
					return true
				}
				cal := Callee(info, call)
				if cal == nil || cal.Pkg() != p.Types {
					return true
				}
				if sig, _ := cal.Type().(*types.Signature); sig == nil || sig.Recv() != nil {
					return true
				}
				if d := c.Decl(cal); d != nil && d.Body != nil && !seen[d] {
					seen[d] = true
					decls = append(decls, d)
				}
				return true
			})
		}
	}
	sources := 0
	for _, fd := range decls {
		id := declID(p, fd)
		r.analysed(id)
		inexact := func(e ast.Expr) string {
			call, ok := unparen(e).(*ast.CallExpr)
			if !ok {
				return ""
			}
			cal := Callee(info, call)
			if cal == nil || cal.Pkg() == nil {
				return ""
			}
			switch n := cal.Pkg().Path() + "." + cal.Name(); n {
			case "strconv.ParseFloat", "math.Pow", "math.Pow10":
				return n
			}
			return ""
		}
		tainted := map[types.Object]string{}
		ast.Inspect(fd.Body, func(n ast.Node) bool {
			switch s := n.(type) {
			case *ast.AssignStmt:
				if len(s.Rhs) >= 1 {
					if src := inexact(s.Rhs[0]); src != "" && len(s.Lhs) >= 1 {
						sources++
						if id, ok := s.Lhs[0].(*ast.Ident); ok && id.Name != "_" {
							if o := info.ObjectOf(id); o != nil {
								tainted[o] = src
							}
						}
					}
				}
			case *ast.ValueSpec:
				if len(s.Values) >= 1 && len(s.Names) >= 1 {
					if src := inexact(s.Values[0]); src != "" {
						sources++
						if o := info.ObjectOf(s.Names[0]); o != nil {
							tainted[o] = src
						}
					}
				}
			}
			return true
		})
		from := func(e ast.Expr) string {
			e = unparen(e)
			if src := inexact(e); src != "" {
				return src
			}
			if id, ok := e.(*ast.Ident); ok {
				return tainted[info.ObjectOf(id)]
			}
			if call, ok := e.(*ast.CallExpr); ok && len(call.Args) == 1 {
				// math.Abs(x), float64(x): same value up to sign/type
				if tv, ok := info.Types[call.Fun]; ok && tv.IsType() {
					if id, ok := unparen(call.Args[0]).(*ast.Ident); ok {
						return tainted[info.ObjectOf(id)]
					}
				}
				if cal := Callee(info, call); cal != nil && cal.Pkg() != nil && cal.Pkg().Path() == "math" && cal.Name() == "Abs" {
					if id, ok := unparen(call.Args[0]).(*ast.Ident); ok {
						return tainted[info.ObjectOf(id)]
					}
				}
			}
			return ""
		}
		bad := 0
		ast.Inspect(fd.Body, func(n ast.Node) bool {
			be, ok := n.(*ast.BinaryExpr)
			if !ok {
				return true
			}
			switch be.Op {
			case token.ADD, token.SUB, token.MUL, token.QUO, token.LSS, token.LEQ, token.GTR, token.GEQ:
			default:
				return true
			}
			if tv, ok := info.Types[be.X]; !ok || !isFloatT(tv.Type) {
				return true
			}
			for _, side := range []ast.Expr{be.X, be.Y} {
				if src := from(side); src != "" {
					bad++
					r.bad("roundexact|"+id+"|"+exprStr(be), be.Pos(), "`%s` computes with `%s`, a float64 obtained from %s: powers of ten above 10**22 and below 1 are not exact in float64, so a decimal rounding decided this way is wrong for operands at the boundary (round(5e24, -25) must be 1e25); compare exactly (big.Float) or round through decimal text", exprStr(be), exprStr(side), src)
				}
			}
			return true
		})
		if bad == 0 {
			r.ok("roundexact|"+id, fd.Pos(), "no float arithmetic or ordered comparison on a value obtained from strconv.ParseFloat / math.Pow / math.Pow10")
		}
	}
	r.check(sources >= 1, "roundexact|sources", root.Pos(),
		fmt.Sprintf("%d decimal-to-float64 conversions in float rounding, each only returned", sources),
		"float rounding no longer goes through strconv.ParseFloat or math.Pow; confirm how the rounded value is produced and update the rule")
}

func init() {
	register(&Rule{ID: "C15.R10", Prop: "C15", Floor: 2,
		Doc: "float round(): a float64 obtained from decimal text or math.Pow/Pow10 (inexact beyond 10**22) is only returned, never an operand of float arithmetic or ordered comparison; the half-unit test is exact",
		Run: runRoundExact})
}

// ---- C15.R11: a comparison of a float with an int never goes through a lossy int-to-float conversion ----
//
// An int beyond 2**53 is in general not a float64. The six comparison methods of Float therefore must not
// convert an Int or *BigInt operand to a float and compare the floats: the function that prepares the
// operands has arms of its own for Int and *BigInt, and a conversion of the operand to a float inside them
// lies under a magnitude test against constants within +-2**53.
func runExactMixedCompare(c *Ctx, r *Rep) {
	p := c.MustPkg("py")
	info := p.TypesInfo
	lim := new(big.Int).Lsh(big.NewInt(1), 53)
	named := func(t types.Type) string {
		if pt, ok := t.(*types.Pointer); ok {
			t = pt.Elem()
		}
		if nt, ok := t.(*types.Named); ok && nt.Obj().Pkg() == p.Types {
			return nt.Obj().Name()
		}
		return ""
	}
	// constant value of e, if any, as a big.Int
	constInt := func(e ast.Expr) *big.Int {
		tv, ok := info.Types[e]
		if !ok || tv.Value == nil {
			return nil
		}
		v := constant.ToInt(tv.Value)
		if v.Kind() != constant.Int {
			return nil
		}
		z, ok := new(big.Int).SetString(v.ExactString(), 10)
		if !ok {
			return nil
		}
		return z
	}
	// does cond bound obj on both sides within +-2**53?
	bounded := func(cond ast.Expr, obj types.Object) bool {
		lo, hi := false, false
		var walk func(e ast.Expr)
		walk = func(e ast.Expr) {
			be, ok := unparen(e).(*ast.BinaryExpr)
			if !ok {
				return
			}
			if be.Op == token.LAND {
				walk(be.X)
				walk(be.Y)
				return
			}
			for _, s := range []struct {
				v, k ast.Expr
				op   token.Token
			}{{be.X, be.Y, be.Op}, {be.Y, be.X, flipOp(be.Op)}} {
				id, ok := unparen(s.v).(*ast.Ident)
				if !ok || info.ObjectOf(id) != obj {
					continue
				}
				k := constInt(s.k)
				if k == nil || new(big.Int).Abs(k).Cmp(lim) > 0 {
					continue
				}
				switch s.op {
				case token.GEQ, token.GTR:
					lo = true
				case token.LEQ, token.LSS:
					hi = true
				}
			}
		}
		walk(cond)
		return lo && hi
	}
	// is cond true exactly when obj lies outside bounds within +-2**53?  (b < -K || b > K)
	outside := func(cond ast.Expr, obj types.Object) bool {
		lo, hi := false, false
		var walk func(e ast.Expr)
		walk = func(e ast.Expr) {
			be, ok := unparen(e).(*ast.BinaryExpr)
			if !ok {
				return
			}
			if be.Op == token.LOR {
				walk(be.X)
				walk(be.Y)
				return
			}
			for _, s := range []struct {
				v, k ast.Expr
				op   token.Token
			}{{be.X, be.Y, be.Op}, {be.Y, be.X, flipOp(be.Op)}} {
				id, ok := unparen(s.v).(*ast.Ident)
				if !ok || info.ObjectOf(id) != obj {
					continue
				}
				k := constInt(s.k)
				if k == nil || new(big.Int).Abs(k).Cmp(lim) > 0 {
					continue
				}
				switch s.op {
				case token.LSS, token.LEQ:
					lo = true // leaves below: what remains is >= -K
				case token.GTR, token.GEQ:
					hi = true
				}
			}
		}
		walk(cond)
		return lo && hi
	}
	// the conversions of obj to a float inside body that are not under a bounding if
	var unguarded func(n ast.Node, obj types.Object, guarded bool, out *[]ast.Node)
	unguarded = func(n ast.Node, obj types.Object, guarded bool, out *[]ast.Node) {
		if n == nil {
			return
		}
		if is, ok := n.(*ast.IfStmt); ok {
			unguarded(is.Init, obj, guarded, out)
			unguarded(is.Cond, obj, guarded, out)
			unguarded(is.Body, obj, guarded || bounded(is.Cond, obj), out)
			if is.Else != nil {
				unguarded(is.Else, obj, guarded || outside(is.Cond, obj), out)
			}
			return
		}
		// statement lists: what follows `if <outside the bounds> { leave }` is inside them
		var list []ast.Stmt
		switch b := n.(type) {
		case *ast.BlockStmt:
			list = b.List
		case *ast.CaseClause:
			for _, e := range b.List {
				unguarded(e, obj, guarded, out)
			}
			list = b.Body
		}
		if list != nil {
			g := guarded
			for _, st := range list {
				unguarded(st, obj, g, out)
				if is, ok := st.(*ast.IfStmt); ok && is.Else == nil && blockTerminates(is.Body) && outside(is.Cond, obj) {
					g = true
				}
			}
			return
		}
		if call, ok := n.(*ast.CallExpr); ok {
			uses := func(e ast.Expr) bool {
				id, ok := unparen(e).(*ast.Ident)
				return ok && info.ObjectOf(id) == obj
			}
			conv := false
			if tv, ok := info.Types[call.Fun]; ok && tv.IsType() && isFloatT(tv.Type) && len(call.Args) == 1 && uses(call.Args[0]) {
				conv = true // Float(b), float64(b)
			} else if sel, ok := call.Fun.(*ast.SelectorExpr); ok && uses(sel.X) {
				if tv, ok := info.Types[call]; ok {
					t := tv.Type
					if tup, ok := t.(*types.Tuple); ok && tup.Len() > 0 {
						t = tup.At(0).Type()
					}
					conv = isFloatT(t) // b.Float()
				}
			} else if cal := Callee(info, call); cal != nil && cal.Pkg() == p.Types {
				for _, a := range call.Args {
					if uses(a) {
						if sig, _ := cal.Type().(*types.Signature); sig != nil && sig.Results().Len() > 0 && isFloatT(sig.Results().At(0).Type()) {
							conv = true // convertToFloat(b)
						}
					}
				}
			}
			if conv && !guarded {
				*out = append(*out, call)
			}
		}
		// children
		var kids []ast.Node
		first := true
		ast.Inspect(n, func(m ast.Node) bool {
			if first {
				first = false
				return true
			}
			if m != nil {
				kids = append(kids, m)
			}
			return false
		})
		for _, k := range kids {
			unguarded(k, obj, guarded, out)
		}
	}
	// examine a preparing function: arms for Int and *BigInt of its type switch on the operand
	examine := func(fn *types.Func) (ok bool, why string, pos token.Pos) {
		fd := c.Decl(fn)
		if fd == nil || fd.Body == nil {
			return false, "no source", token.NoPos
		}
		var ts *ast.TypeSwitchStmt
		ast.Inspect(fd.Body, func(n ast.Node) bool {
			if t, ok := n.(*ast.TypeSwitchStmt); ok && ts == nil {
				ts = t
			}
			return ts == nil
		})
		if ts == nil {
			return false, "it has no type switch on the operand", fd.Pos()
		}
		seen := map[string]bool{}
		for _, cl := range ts.Body.List {
			cc := cl.(*ast.CaseClause)
			for _, e := range cc.List {
				tv, ok := info.Types[e]
				if !ok || !tv.IsType() {
					continue
				}
				nm := named(tv.Type)
				if nm != "Int" && nm != "BigInt" {
					continue
				}
				seen[nm] = true
				obj := info.Implicits[cc]
				if obj == nil {
					continue
				}
				var bad []ast.Node
				unguarded(&ast.BlockStmt{List: cc.Body}, obj, false, &bad)
				if len(bad) > 0 {
					return false, fmt.Sprintf("its %s arm converts the operand to a float (`%s`) outside a magnitude test against constants within +-2**53", nm, nodeStr(bad[0])), bad[0].Pos()
				}
			}
		}
		if !seen["Int"] || !seen["BigInt"] {
			return false, "its type switch has no arm of its own for Int and for *BigInt", ts.Pos()
		}
		return true, "", fd.Pos()
	}
	for _, m := range []string{"M__lt__", "M__le__", "M__eq__", "M__ne__", "M__gt__", "M__ge__"} {
		fd := c.MethodDecl("py", "Float", m)
		id := "(py.Float)." + m
		if fd == nil || fd.Body == nil || fd.Type.Params == nil || len(fd.Type.Params.List) != 1 || len(fd.Type.Params.List[0].Names) != 1 {
			r.undecided("exactcmp|"+id, token.NoPos, "method not found or of an unexpected shape")
			continue
		}
		r.analysed(id)
		other := info.ObjectOf(fd.Type.Params.List[0].Names[0])
		var prep *types.Func
		var at token.Pos
		ast.Inspect(fd.Body, func(n ast.Node) bool {
			call, ok := n.(*ast.CallExpr)
			if !ok || prep != nil {
				return prep == nil
			}
			cal := Callee(info, call)
			if cal == nil || cal.Pkg() != p.Types {
				return true
			}
			for _, a := range call.Args {
				if id, ok := unparen(a).(*ast.Ident); ok && info.ObjectOf(id) == other {
					prep, at = cal, call.Pos()
				}
			}
			return prep == nil
		})
		if prep == nil {
			r.undecided("exactcmp|"+id, fd.Pos(), "no call handing the operand to a function of the package; confirm how the operand is prepared and update the rule")
			continue
		}
		// a delegation to another comparison method of the same type is decided there
		if sig, _ := prep.Type().(*types.Signature); sig != nil && sig.Recv() != nil && strings.HasPrefix(prep.Name(), "M__") {
			r.ok("exactcmp|"+id, at, "delegates to %s", prep.Name())
			continue
		}
		ok, why, pos := examine(prep)
		if pos == token.NoPos {
			pos = at
		}
		r.check(ok, "exactcmp|"+id, pos,
			fmt.Sprintf("the operand is prepared by %s, whose Int and *BigInt arms do not convert it to a float except within +-2**53", prep.Name()),
			fmt.Sprintf("the operand is prepared by %s, but %s: an int beyond 2**53 is rounded before it is compared, so 2**53+1 == float(2**53) answers True", prep.Name(), why))
	}
}

func init() {
	register(&Rule{ID: "C15.R11", Prop: "C15", Floor: 6,
		Doc: "exact int/float comparison: the function preparing the operand of each Float comparison method has Int and *BigInt arms of its own, in which the operand is converted to a float only under a magnitude test against constants within +-2**53 (evaluated by the type checker)",
		Run: runExactMixedCompare})
}
