package main

import (
	"fmt"
	"go/token"
	"strings"
)

// C01.R2 operand roles. Source: CPython 3.4 ceval.c (TARGET(BINARY_*): right = POP(); left = TOP(); …),
// Library Reference "dis" module descriptions ("Implements TOS = TOS1 - TOS", "TOS1[TOS] = TOS2", …).
// slotN = the value that was N below the top of the evaluation stack when the instruction started.

type roleSpec struct {
	callee string   // FuncID of the API function
	args   []string // "slot0", "slot1", "*" (don't care), "None"
}

var roleSpecs = map[string][]roleSpec{
	"BINARY_SUBSCR": {{"py.GetItem", []string{"slot1", "slot0"}}},
	"STORE_SUBSCR":  {{"py.SetItem", []string{"slot1", "slot0", "slot2"}}},
	"DELETE_SUBSCR": {{"py.DelItem", []string{"slot1", "slot0"}}},
	"STORE_ATTR":    {{"py.SetAttrString", []string{"slot0", "*", "slot1"}}},
	"DELETE_ATTR":   {{"py.DeleteAttrString", []string{"slot0", "*"}}},
	"LOAD_ATTR":     {{"py.GetAttrString", []string{"slot0", "*"}}},
	"GET_ITER":      {{"py.Iter", []string{"slot0"}}},
	"STORE_MAP":     {{"py.DictCheckExact", []string{"slot2"}}, {"(py.StringDict).M__setitem__", []string{"slot0", "slot1"}}},
	"MAP_ADD":       {{"(py.StringDict).M__setitem__", []string{"slot0", "slot1"}}},
	"LIST_APPEND":   {{"(*py.List).Append", []string{"slot0"}}},
	"SET_ADD":       {{"(*py.Set).Add", []string{"slot0"}}},
	"COMPARE_OP": {
		{"py.Lt", []string{"slot1", "slot0"}}, {"py.Le", []string{"slot1", "slot0"}}, {"py.Eq", []string{"slot1", "slot0"}},
		{"py.Ne", []string{"slot1", "slot0"}}, {"py.Gt", []string{"slot1", "slot0"}}, {"py.Ge", []string{"slot1", "slot0"}},
		{"py.SequenceContains", []string{"slot0", "slot1"}},
		{"py.ExceptionGivenMatches", []string{"slot1", "slot0"}},
	},
	"BUILD_SLICE": {{"py.NewSlice", []string{"slot1|slot2", "slot0|slot1", "*"}}},
	"YIELD_FROM":  {{"py.Next", []string{"slot1"}}, {"py.Send", []string{"slot1", "slot0"}}},
	"FOR_ITER":    {{"py.Next", []string{"slot0"}}},
	"PRINT_EXPR":  {{"py.Repr", []string{"slot0"}}},
}

func init() {
	for _, s := range binSpecs {
		a := []string{"slot1", "slot0"}
		if s.ternary {
			a = []string{"slot1", "slot0", "*"}
		}
		roleSpecs[s.binOp] = []roleSpec{{"py." + s.api, a}}
		roleSpecs[s.inOp] = []roleSpec{{"py." + s.iapi, a}}
	}
	for _, s := range unarySpecs {
		roleSpecs[s.op] = []roleSpec{{"py." + s.api, []string{"slot0"}}}
	}
	register(&Rule{ID: "C01.R2", Prop: "C01", Floor: 50,
		Doc: "handler operand roles: for every opcode with operands, the value passed in each argument position of the py API call is the stack slot Python's instruction definition assigns to it (binary: f(TOS1, TOS); `in`: SequenceContains(container=TOS, item=TOS1); STORE_SUBSCR: SetItem(TOS1, TOS, TOS2); …), traced through the interpreted stack primitives",
		Run: runC01R2})
}

func runC01R2(c *Ctx, r *Rep) {
	m := getVMModel(c)
	se := newSymExec(c, "vm")
	var ops []string
	for op := range roleSpecs {
		ops = append(ops, op)
	}
	ops = uniq(ops)
	for _, op := range ops {
		h := m.handlers[op]
		if h == nil {
			r.bad("vm|jumpTable|"+op, token.NoPos, "opcode %s has no handler", op)
			continue
		}
		fd := c.Decl(h)
		r.analysed(FuncID(h))
		paths, und, undPos := analyseHandler(se, fd)
		if len(und) > 0 {
			r.undecided("vm|"+h.Name()+"|operand roles", undPos[0], "handler not interpretable: %s", strings.Join(uniq(und), "; "))
			continue
		}
		for _, spec := range roleSpecs[op] {
			key := fmt.Sprintf("vm|%s|%s operands", h.Name(), spec.callee)
			found := false
			var badMsg string
			var pos token.Pos
			for _, p := range paths {
				for _, cr := range p.st.calls {
					if cr.callee != spec.callee {
						continue
					}
					found = true
					pos = cr.pos
					if len(cr.args) < len(spec.args) {
						badMsg = fmt.Sprintf("%s called with %d arguments", spec.callee, len(cr.args))
						continue
					}
					for i, want := range spec.args {
						if want == "*" {
							continue
						}
						got := cr.args[i].String()
						ok := false
						for _, w := range strings.Split(want, "|") {
							if got == w {
								ok = true
							}
						}
						if !ok {
							badMsg = fmt.Sprintf("argument %d of %s is %s; the instruction definition requires %s (slotN = N below the top of stack at instruction start): operands are swapped or taken from the wrong depth", i, spec.callee, got, want)
						}
					}
				}
			}
			switch {
			case !found:
				r.bad(key, fd.Pos(), "handler of %s never calls %s", op, spec.callee)
			case badMsg != "":
				r.bad(key, pos, "%s", badMsg)
			default:
				r.ok(key, pos, "%s(%s)", spec.callee, strings.Join(spec.args, ", "))
			}
		}
	}
}

// ---- C01.R5 (VM half): conditional-jump polarity and value preservation ----

func init() {
	register(&Rule{ID: "C01.R5", Prop: "C01", Floor: 12,
		Doc: "conditional jumps: each of the four conditional-jump handlers tests the truth value of TOS (py.MakeBool(slot0)), jumps exactly when that truth value has the polarity its opcode names, the *_OR_POP pair leaves the original operand (not its truth value) on the stack when jumping and pops it otherwise, the POP_* pair pops on both arms",
		Run: runC01R5})
}

func runC01R5(c *Ctx, r *Rep) {
	m := getVMModel(c)
	se := newSymExec(c, "vm")
	specs := []struct {
		op       string
		jumpWhen bool // jump when truth value is …
		orPop    bool
	}{
		{"POP_JUMP_IF_TRUE", true, false},
		{"POP_JUMP_IF_FALSE", false, false},
		{"JUMP_IF_TRUE_OR_POP", true, true},
		{"JUMP_IF_FALSE_OR_POP", false, true},
	}
	for _, s := range specs {
		h := m.handlers[s.op]
		if h == nil {
			r.bad("vm|jumpTable|"+s.op, token.NoPos, "no handler")
			continue
		}
		fd := c.Decl(h)
		r.analysed(FuncID(h))
		paths, und, undPos := analyseHandler(se, fd)
		key := "vm|" + h.Name() + "|"
		if len(und) > 0 {
			r.undecided(key+"shape", undPos[0], "%s", strings.Join(und, "; "))
			continue
		}
		nj, nf := 0, 0
		for _, p := range paths {
			if p.errPath {
				continue
			}
			// the truth test
			var truth *callRec
			for i := range p.st.calls {
				if p.st.calls[i].callee == "py.MakeBool" {
					truth = &p.st.calls[i]
				}
			}
			if truth == nil || len(truth.args) != 1 || truth.args[0].String() != "slot0" {
				r.bad(key+"truth test", fd.Pos(), "path does not take py.MakeBool of the top of stack")
				continue
			}
			// polarity: the path condition mentioning the bool result
			pol, found := false, false
			for _, cnd := range p.conds {
				if strings.Contains(cnd, ".(py.Bool)") {
					found = true
					pol = !strings.HasPrefix(cnd, "!(")
				}
			}
			if !found {
				r.undecided(key+"polarity", fd.Pos(), "no branch on the truth value found on a successful path (conds %v)", p.conds)
				continue
			}
			if p.jump {
				nj++
				r.check(pol == s.jumpWhen, key+"jump polarity", fd.Pos(), fmt.Sprintf("jumps when truth is %v", pol),
					fmt.Sprintf("%s jumps when the truth value is %v", s.op, pol))
				if s.orPop {
					intact := p.st.conc && p.st.base == 0 && len(p.st.pushed) == 0
					r.check(intact && p.delta.isZero(), key+"jump keeps operand", fd.Pos(), "operand left untouched on the jump arm",
						fmt.Sprintf("on the jump arm of %s the stack is not left as it was (delta %s, %d slots consumed, %d values pushed): the expression's value must be the operand itself, not a converted copy", s.op, p.delta, p.st.base, len(p.st.pushed)))
				} else {
					r.check(p.delta.String() == "-1", key+"jump pops", fd.Pos(), "pops on jump", "POP_JUMP must pop the tested value on the jump arm")
				}
			} else {
				nf++
				r.check(pol != s.jumpWhen, key+"fall-through polarity", fd.Pos(), fmt.Sprintf("falls through when truth is %v", pol),
					fmt.Sprintf("%s falls through when the truth value is %v", s.op, pol))
				r.check(p.delta.String() == "-1" && p.st.base == 1 && len(p.st.pushed) == 0, key+"fall-through pops", fd.Pos(), "tested value popped on fall-through",
					fmt.Sprintf("fall-through arm of %s must pop exactly the tested value (delta %s)", s.op, p.delta))
			}
		}
		r.check(nj >= 1 && nf >= 1, key+"both arms", fd.Pos(), "has a jump arm and a fall-through arm", fmt.Sprintf("%s has %d jump and %d fall-through arms", s.op, nj, nf))
	}
}
