package main

import (
	"fmt"
	"go/ast"
	"go/parser"
	"go/token"
	"go/types"
	"sort"
	"strings"
)

// C13: slice normalisation. What is decided here is structural (see DESIGN.md §4 C13):
//   R2  inside Slice.GetIndices the treatment of start and of stop is the same code modulo renaming, and an
//       out-of-range bound is clipped to the default of the same step sign (sliceobject.c: both halves are
//       one macro-like block; the clip values are the defaults)
//   R3  no consumer of GetIndices walks an extended slice with an index-vs-bound comparison whose direction
//       assumes a positive step
//   R4  nobody but Slice's own methods interprets Slice.Start/Stop/Step: one normalisation point

// guarded assignment rows: (conditions) -> lhs = rhs
type gaRow struct {
	conds []string
	lhs   string
	rhs   string
}

func (g gaRow) String() string {
	return "[" + strings.Join(g.conds, " && ") + "] " + g.lhs + " = " + g.rhs
}

func negate(s string) string {
	// comparison operators are flipped so that rows do not depend on if/else orientation
	for _, p := range [][2]string{{" >= ", " < "}, {" < ", " >= "}, {" <= ", " > "}, {" > ", " <= "}, {" == ", " != "}, {" != ", " == "}} {
		if i := strings.Index(s, p[0]); i >= 0 && !strings.Contains(s, "&&") && !strings.Contains(s, "||") {
			return s[:i] + p[1] + s[i+len(p[0]):]
		}
	}
	return "!(" + s + ")"
}

// gaHelper, when set by a rule, resolves a call to the declaration of a helper of the package introduced since
// the reference was written; `v = helper(v, a, b)` then stands for the helper's statements with its parameters
// renamed to v, a, b (the helper's final `return <first parameter>` is the assignment back to v).
var gaHelper func(call *ast.CallExpr) *ast.FuncDecl

func guardedAssigns(stmts []ast.Stmt, conds []string, ren func(string) string, out *[]gaRow) {
	for _, s := range stmts {
		switch x := s.(type) {
		case *ast.AssignStmt:
			if gaHelper != nil && len(x.Lhs) == 1 && len(x.Rhs) == 1 {
				if call, ok := x.Rhs[0].(*ast.CallExpr); ok && len(call.Args) >= 1 && exprStr(call.Args[0]) == exprStr(x.Lhs[0]) {
					if hd := gaHelper(call); hd != nil && hd.Type.Params != nil {
						var pairs []string
						i := 0
						for _, f := range hd.Type.Params.List {
							for _, nm := range f.Names {
								if i < len(call.Args) {
									pairs = append(pairs, nm.Name, exprStr(call.Args[i]))
								}
								i++
							}
						}
						inner := renamer(pairs...)
						var rows []gaRow
						guardedAssigns(hd.Body.List, conds, func(t string) string { return ren(inner(t)) }, &rows)
						for _, row := range rows {
							if row.lhs != "return" {
								*out = append(*out, row)
							}
						}
						continue
					}
				}
			}
			for i, l := range x.Lhs {
				rhs := ""
				if len(x.Rhs) == len(x.Lhs) {
					rhs = ren(exprStr(x.Rhs[i]))
				} else if len(x.Rhs) == 1 {
					rhs = ren(exprStr(x.Rhs[0]))
				}
				op := ""
				if x.Tok != token.ASSIGN && x.Tok != token.DEFINE {
					op = strings.TrimSuffix(x.Tok.String(), "=")
					rhs = ren(exprStr(l)) + " " + op + " " + rhs
				}
				*out = append(*out, gaRow{append([]string(nil), conds...), ren(exprStr(l)), rhs})
			}
		case *ast.IfStmt:
			c := ren(exprStr(x.Cond))
			if x.Init != nil {
				guardedAssigns([]ast.Stmt{x.Init}, conds, ren, out)
			}
			guardedAssigns(x.Body.List, append(append([]string(nil), conds...), c), ren, out)
			if x.Else != nil {
				nc := append(append([]string(nil), conds...), negate(c))
				switch e := x.Else.(type) {
				case *ast.BlockStmt:
					guardedAssigns(e.List, nc, ren, out)
				case *ast.IfStmt:
					guardedAssigns([]ast.Stmt{e}, nc, ren, out)
				}
			}
		case *ast.BlockStmt:
			guardedAssigns(x.List, conds, ren, out)
		case *ast.ReturnStmt:
			*out = append(*out, gaRow{append([]string(nil), conds...), "return", ""})
		}
	}
}

func renamer(pairs ...string) func(string) string {
	return func(s string) string {
		// identifier-wise replacement
		var b strings.Builder
		i := 0
		isId := func(c byte) bool {
			return c == '_' || c >= 'a' && c <= 'z' || c >= 'A' && c <= 'Z' || c >= '0' && c <= '9'
		}
		for i < len(s) {
			if isId(s[i]) {
				j := i
				for j < len(s) && isId(s[j]) {
					j++
				}
				w := s[i:j]
				for k := 0; k+1 < len(pairs); k += 2 {
					if w == pairs[k] {
						w = pairs[k+1]
						break
					}
				}
				b.WriteString(w)
				i = j
			} else {
				b.WriteByte(s[i])
				i++
			}
		}
		return b.String()
	}
}

// topLevelOn finds the top-level if statement of body whose condition is `r.<field> == None`.
func topLevelOn(body *ast.BlockStmt, field string) *ast.IfStmt {
	for _, s := range body.List {
		if is, ok := s.(*ast.IfStmt); ok {
			c := exprStr(is.Cond)
			if strings.HasSuffix(c, "."+field+" == None") {
				return is
			}
		}
	}
	return nil
}

func rowsOf(is *ast.IfStmt, ren func(string) string) []string {
	var rows []gaRow
	guardedAssigns([]ast.Stmt{is}, nil, ren, &rows)
	var out []string
	for _, r := range rows {
		out = append(out, r.String())
	}
	return out
}

func signOf(cond string) string {
	switch cond {
	case "step < 0":
		return "neg"
	case "step >= 0", "step > 0":
		return "pos"
	}
	return ""
}

// ---- R3: direction-agnostic walking of extended slices ----

// directedLoops finds, in a function body, for-loops whose condition compares an index advanced by `+= step`
// against a bound, without the sign of step being established by an enclosing condition.
func directedLoops(body *ast.BlockStmt, stepNames map[string]bool) (bad []*ast.ForStmt, all int) {
	var walk func(n ast.Node, signKnown bool)
	walk = func(n ast.Node, signKnown bool) {
		switch x := n.(type) {
		case nil:
			return
		case *ast.IfStmt:
			c := exprStr(x.Cond)
			known := signKnown
			for sn := range stepNames {
				if strings.Contains(c, sn+" > 0") || strings.Contains(c, sn+" < 0") || strings.Contains(c, sn+" == 1") || strings.Contains(c, sn+" >= 0") {
					known = true
				}
			}
			walk(x.Body, known)
			// else branch of `step == 1` does not fix the sign; of `step > 0` / `step < 0` it does
			elseKnown := signKnown
			for sn := range stepNames {
				if strings.Contains(c, sn+" > 0") || strings.Contains(c, sn+" < 0") || strings.Contains(c, sn+" >= 0") {
					elseKnown = true
				}
			}
			if x.Else != nil {
				walk(x.Else, elseKnown)
			}
			return
		case *ast.ForStmt:
			if x.Post != nil && x.Cond != nil {
				adv := ""
				switch p := x.Post.(type) {
				case *ast.AssignStmt:
					if len(p.Lhs) == 1 && len(p.Rhs) == 1 && (p.Tok == token.ADD_ASSIGN) {
						if id, ok := p.Rhs[0].(*ast.Ident); ok && stepNames[id.Name] {
							adv = exprStr(p.Lhs[0])
						}
					}
					if p.Tok == token.ASSIGN {
						for i := range p.Lhs {
							if i < len(p.Rhs) {
								rs := exprStr(p.Rhs[i])
								for sn := range stepNames {
									if rs == exprStr(p.Lhs[i])+" + "+sn || rs == exprStr(p.Lhs[i])+"+"+sn {
										adv = exprStr(p.Lhs[i])
									}
								}
							}
						}
					}
				}
				if adv != "" {
					all++
					if be, ok := x.Cond.(*ast.BinaryExpr); ok {
						l, rr := exprStr(be.X), exprStr(be.Y)
						if (l == adv || rr == adv) && (be.Op == token.LSS || be.Op == token.LEQ || be.Op == token.GTR || be.Op == token.GEQ) && !signKnown {
							bad = append(bad, x)
						}
					}
				}
			}
			walk(x.Body, signKnown)
			return
		}
		// generic descent
		ast.Inspect(n, func(m ast.Node) bool {
			if m == n || m == nil {
				return true
			}
			switch m.(type) {
			case *ast.IfStmt, *ast.ForStmt:
				walk(m, signKnown)
				return false
			case *ast.FuncLit:
				return false
			}
			return true
		})
	}
	walk(body, false)
	return
}

const directedLoopExample = `package p
func f(l []int, start, stop, step int) {
	for i := start; i < stop; i += step {
		l[i] = 0
	}
	if step > 0 {
		for i := start; i < stop; i += step {
			l[i] = 1
		}
	}
	for i, j := start, 0; j < 10; i, j = i+step, j+1 {
		l[i] = 2
	}
}`

func runC13R3(c *Ctx, r *Rep) {
	// positive example: the matcher must find exactly the first loop
	f, err := parser.ParseFile(token.NewFileSet(), "example.go", directedLoopExample, 0)
	if err != nil {
		r.undecided("selftest", token.NoPos, "example does not parse: %v", err)
		return
	}
	bad, all := directedLoops(f.Decls[0].(*ast.FuncDecl).Body, map[string]bool{"step": true})
	if len(bad) != 1 || all != 3 {
		r.undecided("selftest", token.NoPos, "the matcher finds %d/%d loops in its own example, expected 1/3", len(bad), all)
		return
	}
	r.okTrivial("selftest", token.NoPos, "the matcher flags the directed loop of its built-in example and accepts the guarded and the counted one")
	getIdx := c.Method("py", "Slice", "GetIndices")
	n := 0
	for _, p := range c.All {
		for _, file := range c.Files(p) {
			for _, d := range file.Decls {
				fd, ok := d.(*ast.FuncDecl)
				if !ok || fd.Body == nil {
					continue
				}
				stepNames := map[string]bool{}
				ast.Inspect(fd.Body, func(nd ast.Node) bool {
					as, ok := nd.(*ast.AssignStmt)
					if !ok || len(as.Rhs) != 1 || len(as.Lhs) != 5 {
						return true
					}
					call, ok := as.Rhs[0].(*ast.CallExpr)
					if !ok || Callee(p.TypesInfo, call) != getIdx || getIdx == nil {
						return true
					}
					if id, ok := as.Lhs[2].(*ast.Ident); ok && id.Name != "_" {
						stepNames[id.Name] = true
					}
					return true
				})
				if len(stepNames) == 0 {
					continue
				}
				n++
				id := declID(p, fd)
				r.analysed(id)
				goSliceBounds(r, id, fd, p.TypesInfo, getIdx)
				bad, all := directedLoops(fd.Body, stepNames)
				for i, fs := range bad {
					r.bad(fmt.Sprintf("%s|directed loop %d", id, i+1), fs.Pos(), "loop `for …; %s; %s` advances by the slice step but stops on an ordered comparison with a bound although the sign of the step is not established: with a negative step it runs zero times (or forever); walk extended slices by counting slicelength elements", exprStr(fs.Cond), stmtStr(fs.Post))
				}
				if len(bad) == 0 {
					r.ok(id+"|slice walks", fd.Pos(), "%d loop(s) advancing by the slice step, none stops on a directed comparison with unknown step sign", all)
				}
			}
		}
	}
	if n == 0 {
		r.undecided("consumers", token.NoPos, "no consumer of Slice.GetIndices found")
	}
}

func stmtStr(s ast.Stmt) string {
	switch x := s.(type) {
	case *ast.AssignStmt:
		var l, rr []string
		for _, e := range x.Lhs {
			l = append(l, exprStr(e))
		}
		for _, e := range x.Rhs {
			rr = append(rr, exprStr(e))
		}
		return strings.Join(l, ", ") + " " + x.Tok.String() + " " + strings.Join(rr, ", ")
	case *ast.IncDecStmt:
		return exprStr(x.X) + x.Tok.String()
	}
	return fmt.Sprintf("%T", s)
}

// ---- R4: one normalisation point ----

var sanctionedSliceReaders = map[string]string{
	"py.NewSlice":              "constructor",
	"py.SliceNew":              "constructor (slice(...) builtin)",
	"(*py.Slice).GetIndices":   "the normalisation point",
	"(*py.Slice).M__eq__":      "compares the three fields for identity, does not interpret them",
	"(*py.Slice).M__ne__":      "as M__eq__",
	"(*py.Slice).M__repr__":    "prints the fields",
	"(*py.Slice).M__str__":     "prints the fields",
	"py.init":                  "attribute table of the slice type (start/stop/step getters)",
	"(*py.Slice).M__getattr__": "attribute access",
}

func runC13R4(c *Ctx, r *Rep) {
	sl := c.Named("py", "Slice")
	if sl == nil {
		r.undecided("py.Slice", token.NoPos, "type not found")
		return
	}
	st, ok := sl.Underlying().(*types.Struct)
	if !ok {
		r.undecided("py.Slice", token.NoPos, "not a struct")
		return
	}
	fields := map[*types.Var]bool{}
	for i := 0; i < st.NumFields(); i++ {
		switch st.Field(i).Name() {
		case "Start", "Stop", "Step":
			fields[st.Field(i)] = true
		}
	}
	if len(fields) != 3 {
		r.undecided("py.Slice", token.NoPos, "fields Start/Stop/Step not found")
		return
	}
	readers := map[string]token.Pos{}
	var order []string
	for _, p := range c.All {
		for _, file := range c.Files(p) {
			for _, d := range file.Decls {
				fd, ok := d.(*ast.FuncDecl)
				if !ok || fd.Body == nil {
					continue
				}
				ast.Inspect(fd.Body, func(nd ast.Node) bool {
					se, ok := nd.(*ast.SelectorExpr)
					if !ok {
						return true
					}
					if sel := p.TypesInfo.Selections[se]; sel != nil {
						if v, ok := sel.Obj().(*types.Var); ok && fields[v] {
							id := declID(p, fd)
							if _, seen := readers[id]; !seen {
								readers[id] = se.Pos()
								order = append(order, id)
							}
						}
					}
					return true
				})
			}
		}
	}
	sort.Strings(order)
	for _, id := range order {
		if why, ok := sanctionedSliceReaders[id]; ok {
			r.ok("slice fields|"+id, readers[id], "sanctioned: %s", why)
		} else {
			r.bad("slice fields|"+id, readers[id], "%s interprets Slice.Start/Stop/Step itself instead of going through Slice.GetIndices: a second normalisation re-derives defaults by step sign, negative offsets and clipping (the per-type re-derivation this property is about)", id)
		}
	}
	if _, ok := readers["(*py.Slice).GetIndices"]; !ok {
		r.undecided("slice fields|(*py.Slice).GetIndices", token.NoPos, "the normalisation point does not read the fields?")
	}
}

func init() {
	register(&Rule{ID: "C13.R2", Prop: "C13", Floor: 12,
		Doc: "slice normalisation structure in Slice.GetIndices: start and stop are normalised by the same guarded assignments modulo renaming; defaults by step sign are (len-1, -1) for negative and (0, len) for positive steps; each out-of-range clip equals the default of that end for that step sign [sliceobject.c PySlice_GetIndicesEx]",
		Run: runC13R2})
	register(&Rule{ID: "C13.R3", Prop: "C13", Floor: 4,
		Doc: "every consumer of Slice.GetIndices walks an extended slice direction-agnostically: no loop advancing by the slice step stops on an ordered comparison with a bound unless the step sign is established by an enclosing condition",
		Run: runC13R3})
	register(&Rule{ID: "C13.R4", Prop: "C13", Floor: 3,
		Doc: "one normalisation point: only Slice's constructors, GetIndices and its comparison/printing methods read Slice.Start/Stop/Step (type-resolved field selections over the whole module)",
		Run: runC13R4})
}

// goSliceBounds: a consumer that uses the normalised start and stop as Go slice bounds (x[:start], x[stop:]) must
// first establish stop >= start — GetIndices may return stop < start for an empty simple slice (x[3:1]), and
// Go happily evaluates x[:3] and x[1:], duplicating the items in between.
func goSliceBounds(r *Rep, id string, fd *ast.FuncDecl, info *types.Info, getIdx *types.Func) {
	ast.Inspect(fd.Body, func(nd ast.Node) bool {
		blk, ok := nd.(*ast.BlockStmt)
		if !ok {
			return true
		}
		for i, st := range blk.List {
			as, ok := st.(*ast.AssignStmt)
			if !ok || len(as.Rhs) != 1 || len(as.Lhs) != 5 {
				continue
			}
			call, ok := as.Rhs[0].(*ast.CallExpr)
			if !ok || Callee(info, call) != getIdx {
				continue
			}
			start, stop := exprStr(as.Lhs[0]), exprStr(as.Lhs[1])
			if start == "_" || stop == "_" {
				continue
			}
			usesLow, usesHigh, clamped := false, false, false
			var at, atBoth token.Pos
			usesBoth, guarded := false, false
			for _, later := range blk.List[i+1:] {
				ast.Inspect(later, func(m ast.Node) bool {
					switch x := m.(type) {
					case *ast.SliceExpr:
						if x.Low != nil && exprStr(x.Low) == stop {
							usesLow = true
							at = x.Pos()
						}
						if x.High != nil && exprStr(x.High) == start {
							usesHigh = true
						}
						if x.Low != nil && x.High != nil && exprStr(x.Low) == start && exprStr(x.High) == stop {
							usesBoth = true
							atBoth = x.Pos()
						}
					case *ast.IfStmt:
						c := exprStr(x.Cond)
						for _, g := range []string{stop + " < " + start, start + " > " + stop, start + " >= " + stop, stop + " <= " + start} {
							if c == g {
								guarded = true
							}
						}
						if c == stop+" < "+start || c == start+" > "+stop {
							for _, bs := range x.Body.List {
								if a2, ok := bs.(*ast.AssignStmt); ok && len(a2.Lhs) == 1 && exprStr(a2.Lhs[0]) == stop && exprStr(a2.Rhs[0]) == start {
									clamped = true
								}
							}
						}
					}
					return true
				})
			}
			if usesBoth {
				r.check(guarded, id+"|go slice bounds "+start+":"+stop, atBoth,
					"the order of start and stop is tested before x[start:stop] is evaluated",
					"x["+start+":"+stop+"] is evaluated without testing "+stop+" >= "+start+": GetIndices returns stop < start for an empty slice such as x[5:2] and Go panics on inverted bounds")
			}
			if usesLow && usesHigh {
				r.check(clamped, id+"|go slice bounds "+start+"/"+stop, at,
					"stop is raised to start before both are used as Go slice bounds",
					"x[:"+start+"] and x["+stop+":] are combined without establishing "+stop+" >= "+start+": for an empty simple slice such as x[3:1] the items between stop and start are duplicated (list_ass_slice clamps ihigh to ilow)")
			}
		}
		return true
	})
}

// ---- R5: concatenation layout ----

type copyCall struct {
	base string
	low  string
	src  string
	pos  token.Pos
}

func runC13R5(c *Ctx, r *Rep) {
	n := 0
	for _, rel := range []string{"py", "vm", "stdlib/builtin"} {
		p := c.Pkg(rel)
		if p == nil {
			continue
		}
		for _, file := range c.Files(p) {
			for _, d := range file.Decls {
				fd, ok := d.(*ast.FuncDecl)
				if !ok || fd.Body == nil {
					continue
				}
				var calls []copyCall
				ast.Inspect(fd.Body, func(nd ast.Node) bool {
					call, ok := nd.(*ast.CallExpr)
					if !ok || len(call.Args) != 2 {
						return true
					}
					if id, ok := call.Fun.(*ast.Ident); !ok || id.Name != "copy" || p.TypesInfo.Uses[id] != types.Universe.Lookup("copy") {
						return true
					}
					cc := copyCall{src: exprStr(call.Args[1]), pos: call.Pos()}
					switch dst := call.Args[0].(type) {
					case *ast.SliceExpr:
						cc.base = exprStr(dst.X)
						if dst.Low != nil {
							cc.low = exprStr(dst.Low)
						}
					default:
						cc.base = exprStr(dst)
					}
					calls = append(calls, cc)
					return true
				})
				byBase := map[string][]copyCall{}
				var order []string
				for _, cc := range calls {
					if _, ok := byBase[cc.base]; !ok {
						order = append(order, cc.base)
					}
					byBase[cc.base] = append(byBase[cc.base], cc)
				}
				for _, b := range order {
					g := byBase[b]
					if len(g) < 2 {
						continue
					}
					n++
					id := declID(p, fd)
					r.analysed(id)
					okAll := true
					var want []string
					for k, cc := range g {
						exp := strings.Join(want, " + ")
						got := cc.low
						if k == 0 {
							if got != "" && got != "0" {
								okAll = false
								r.bad(fmt.Sprintf("%s|copy layout %s #%d", id, b, k+1), cc.pos, "the first copy into %s starts at %s, not at 0", b, got)
							}
						} else if got != exp {
							okAll = false
							r.bad(fmt.Sprintf("%s|copy layout %s #%d", id, b, k+1), cc.pos, "copy #%d into %s starts at offset %s; the parts copied before it occupy %s, so items of the earlier part are overwritten and the tail is left unset (concatenation places each operand after the ones before it)", k+1, b, got, exp)
						}
						want = append(want, "len("+cc.src+")")
					}
					if okAll {
						r.ok(fmt.Sprintf("%s|copy layout %s", id, b), g[0].pos, "%d successive copies into %s, each starting where the previous operands end", len(g), b)
					}
				}
			}
		}
	}
	if n == 0 {
		r.undecided("copy layout", token.NoPos, "no function with successive copies into one destination found (expected the concatenations of list, tuple and bytes)")
	}
}

func init() {
	register(&Rule{ID: "C13.R5", Prop: "C13", Floor: 3,
		Doc: "concatenation layout: where a function fills one destination by successive copy() calls, each copy starts at the summed lengths of the sources copied before it (list, tuple and bytes concatenation)",
		Run: runC13R5})
}

// ---- C13.R10: conversions of slice bounds and subscripts decide ints beyond the machine word themselves ----
//
// py.Index answers a machine-word Int and raises OverflowError for anything larger. A slice bound of
// any magnitude is legal and is clipped (x[:2**70] is x[:]), and a subscript beyond the word raises
// IndexError, not OverflowError; so the function converting them has to look at *BigInt before it
// calls Index.
func runC13R10(c *Ctx, r *Rep) {
	p := c.MustPkg("py")
	info := p.TypesInfo
	bigT := p.Types.Scope().Lookup("BigInt")
	if bigT == nil {
		r.undecided("bigbound|py.BigInt", token.NoPos, "type not found")
		return
	}
	mentionsBig := func(fd *ast.FuncDecl) bool {
		found := false
		ast.Inspect(fd.Body, func(n ast.Node) bool {
			var te ast.Expr
			switch x := n.(type) {
			case *ast.TypeAssertExpr:
				te = x.Type
			case *ast.CaseClause:
				for _, e := range x.List {
					if tv, ok := info.Types[e]; ok && tv.IsType() {
						if pt, ok := tv.Type.(*types.Pointer); ok {
							if nt, ok := pt.Elem().(*types.Named); ok && nt.Obj() == bigT {
								found = true
							}
						}
					}
				}
			}
			if te != nil {
				if tv, ok := info.Types[te]; ok {
					if pt, ok := tv.Type.(*types.Pointer); ok {
						if nt, ok := pt.Elem().(*types.Named); ok && nt.Obj() == bigT {
							found = true
						}
					}
				}
			}
			return !found
		})
		return found
	}
	var decides func(fn *types.Func, depth int) bool
	decides = func(fn *types.Func, depth int) bool {
		fd := c.Decl(fn)
		if fd == nil || fd.Body == nil {
			return false
		}
		if mentionsBig(fd) {
			return true
		}
		if depth == 0 {
			return false
		}
		// a wrapper: the first same-package plain function it hands the operand to
		ok := false
		ast.Inspect(fd.Body, func(n ast.Node) bool {
			call, isCall := n.(*ast.CallExpr)
			if !isCall || ok {
				return !ok
			}
			cal := Callee(info, call)
			if cal == nil || cal.Pkg() != p.Types || cal.Name() == "Index" {
				return true
			}
			if sig, _ := cal.Type().(*types.Signature); sig != nil && sig.Recv() == nil && decides(cal, depth-1) {
				ok = true
			}
			return !ok
		})
		return ok
	}
	// 1. the three bounds of GetIndices
	gi := c.MethodDecl("py", "Slice", "GetIndices")
	if gi == nil {
		r.undecided("bigbound|(*py.Slice).GetIndices", token.NoPos, "method not found")
		return
	}
	r.analysed("(*py.Slice).GetIndices")
	recv := ""
	if gi.Recv != nil && len(gi.Recv.List) == 1 && len(gi.Recv.List[0].Names) == 1 {
		recv = gi.Recv.List[0].Names[0].Name
	}
	seen := map[string]bool{}
	ast.Inspect(gi.Body, func(n ast.Node) bool {
		call, ok := n.(*ast.CallExpr)
		if !ok || len(call.Args) < 1 {
			return true
		}
		sel, ok := unparen(call.Args[0]).(*ast.SelectorExpr)
		if !ok {
			return true
		}
		if id, ok := sel.X.(*ast.Ident); !ok || id.Name != recv {
			return true
		}
		f := sel.Sel.Name
		if f != "Start" && f != "Stop" && f != "Step" {
			return true
		}
		cal := Callee(info, call)
		if cal == nil || cal.Pkg() != p.Types {
			return true
		}
		seen[f] = true
		r.check(decides(cal, 1), "bigbound|(*py.Slice).GetIndices|"+f, call.Pos(),
			fmt.Sprintf("%s is converted by %s, which decides *BigInt operands itself before going through Index", f, cal.Name()),
			fmt.Sprintf("the slice bound %s is converted by %s, which hands every operand to Index: Index answers a machine Int and raises OverflowError for an int beyond it, so x[:2**70] raises instead of being clipped to the sequence", f, cal.Name()))
		return true
	})
	for _, f := range []string{"Start", "Stop", "Step"} {
		if !seen[f] {
			r.undecided("bigbound|(*py.Slice).GetIndices|"+f, gi.Pos(), "no conversion call on the receiver's %s found; confirm how the bound is converted and update the rule", f)
		}
	}
	// 2. the subscript conversion
	ic := c.Func("py", "IndexIntCheck")
	if ic == nil {
		r.undecided("bigbound|py.IndexIntCheck", token.NoPos, "function not found")
		return
	}
	r.analysed("py.IndexIntCheck")
	r.check(decides(ic, 1), "bigbound|py.IndexIntCheck", c.Decl(ic).Pos(),
		"the subscript conversion decides *BigInt operands itself (IndexError) before going through Index",
		"IndexIntCheck hands every operand to Index: for an int beyond the machine word the subscript raises OverflowError where the sequence model raises IndexError (cannot fit 'int' into an index-sized integer)")
}

func init() {
	register(&Rule{ID: "C13.R10", Prop: "C13", Floor: 4,
		Doc: "ints beyond the machine word: the functions converting the three bounds in Slice.GetIndices and the subscript in IndexIntCheck test for *BigInt themselves before calling Index (which answers a machine Int and raises OverflowError): far out-of-range slice bounds are clipped, a far out-of-range subscript is an IndexError",
		Run: runC13R10})
}
