package main

import (
	"go/ast"
	"go/constant"
	"go/token"
	"strings"
)

// C10.R4: recursion is bounded before the Go stack is. A Go stack overflow is a fatal error that no recover
// barrier can hold back, so every cycle Python code can drive (a function calling itself, __str__ returning an
// object whose __str__ is called again, …) must pass a depth check that raises a Python exception. All such cycles
// pass through the frame evaluator; the rule looks for the check there: a function among vm.RunFrame, vm.EvalCode,
// py.Call, Function.M__call__ must raise RuntimeError/RecursionError with "recursion" in its message.
func runRecursionBound(c *Ctx, r *Rep) {
	cands := [][3]string{{"vm", "", "RunFrame"}, {"vm", "", "EvalCode"}, {"py", "", "Call"}, {"py", "Function", "M__call__"}, {"py", "", "NewFrame"}}
	found := token.NoPos
	seen := 0
	for _, cd := range cands {
		var fd *ast.FuncDecl
		if cd[1] == "" {
			fd = c.FuncDecl(cd[0], cd[2])
		} else {
			fd = c.MethodDecl(cd[0], cd[1], cd[2])
		}
		if fd == nil || fd.Body == nil {
			continue
		}
		seen++
		p := c.MustPkg(cd[0])
		r.analysed(cd[0] + "." + cd[2])
		ast.Inspect(fd.Body, func(n ast.Node) bool {
			call, ok := n.(*ast.CallExpr)
			if !ok || len(call.Args) < 2 {
				return true
			}
			fn := Callee(p.TypesInfo, call)
			if fn == nil || fn.Name() != "ExceptionNewf" {
				return true
			}
			typ := exprStr(call.Args[0])
			if !(strings.HasSuffix(typ, "RuntimeError") || strings.HasSuffix(typ, "RecursionError")) {
				return true
			}
			if tv, ok := p.TypesInfo.Types[call.Args[1]]; ok && tv.Value != nil && tv.Value.Kind() == constant.String && strings.Contains(strings.ToLower(constant.StringVal(tv.Value)), "recursion") {
				found = call.Pos()
			}
			return true
		})
	}
	if seen < 3 {
		r.undecided("recursion|anchors", token.NoPos, "the frame evaluator's entry points were not found")
		return
	}
	pos := token.NoPos
	if fd := c.FuncDecl("vm", "RunFrame"); fd != nil {
		pos = fd.Pos()
	}
	if found != token.NoPos {
		pos = found
	}
	r.check(found != token.NoPos, "vm|RunFrame|recursion depth bounded", pos,
		"the frame evaluator raises a Python exception at a recursion limit",
		"no function on the call cycle of the frame evaluator (RunFrame, EvalCode, py.Call, Function.M__call__) raises a RuntimeError/RecursionError for too deep a recursion: `def f(): return f()` grows the Go stack until the runtime aborts the process with 'fatal error: stack overflow', which the recover barriers cannot intercept")
}

func init() {
	register(&Rule{ID: "C10.R4", Prop: "C10", Floor: 1,
		Doc: "recursion is bounded by a Python exception before the Go stack overflows (a fatal error no barrier can recover): the frame evaluator's call cycle contains a depth check raising RuntimeError/RecursionError",
		Run: runRecursionBound})
}
