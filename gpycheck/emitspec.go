package main

// emitSpec is filled by emitspec_data.go (reviewed reference schemes).
var emitSpec = map[string][]string{}
