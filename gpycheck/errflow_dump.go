package main

import (
	"fmt"
	"go/types"
	"sort"
	"strings"

	"golang.org/x/tools/go/ssa"
)

// errorDiscipline classifies, for every call in the given packages whose callee belongs to the module and returns an
// error, what happens to that error.
type errRow struct {
	key, kind, detail string
	site              *errSite
	verdictClasses    []string
	storedTo          ssa.Value
}

func errorRows(c *Ctx, pkgs map[string]bool) []errRow {
	a := newErrAnalyzer(c)
	a.maxPaths = 60000
	sites := sitesCalling(c, func(callee *types.Func, ci ssa.CallInstruction) bool { return true })
	var rows []errRow
	for _, s := range sites {
		rel := strings.TrimPrefix(strings.TrimPrefix(pkgPathOf(s.fn), modPath), "/")
		if !pkgs[rel] {
			continue
		}
		if s.callee != nil && !inModule(s.callee) {
			continue
		}
		// a module helper whose errors all come from the standard library (strconv, os, …) raises no exception
		if sc := s.call.Common().StaticCallee(); sc != nil && goErrorsOnly(c, sc) {
			continue
		}
		cn := "<dynamic>"
		if s.callee != nil {
			cn = FuncID(s.callee)
		} else if v := s.call.Common().Value; v != nil {
			cn = "dyn:" + v.Name()
			if g := globalName(v); g != "" {
				cn = "dyn:" + g
			}
		}
		v := a.analyse(s)
		rows = append(rows, errRow{key: fmt.Sprintf("%s|%s|call %s", rel, ssaFuncID(s.fn), cn), kind: v.kind, detail: v.detail, site: s, verdictClasses: v.classes, storedTo: v.storedTo})
	}
	sort.Slice(rows, func(i, j int) bool { return rows[i].key < rows[j].key })
	return rows
}

// goErrorsOnly: every error the function returns is nil, the error of a call to a function outside the module,
// or the error of a module function of which the same holds. Such a helper (a wrapper around strconv.Atoi, say)
// hands back Go errors, not Python exceptions; what its caller does with them is not an exception being lost.
// Only functions introduced since the reference was written are looked at: for the others the reviewed rows stand.
var goErrMemo = map[*ssa.Function]int{} // 1 yes, 2 no, 3 in progress

func goErrorsOnly(c *Ctx, fn *ssa.Function) bool {
	if fn == nil || fn.Blocks == nil || fn.Object() == nil {
		return false
	}
	if f, ok := fn.Object().(*types.Func); !ok || !isNewFunc(FuncID(f)) {
		return false
	}
	switch goErrMemo[fn] {
	case 1:
		return true
	case 2, 3:
		return false
	}
	goErrMemo[fn] = 3
	ok := true
	seen := map[ssa.Value]bool{}
	var fromGo func(v ssa.Value) bool
	fromGo = func(v ssa.Value) bool {
		if seen[v] {
			return true
		}
		seen[v] = true
		switch x := v.(type) {
		case *ssa.Const:
			return x.IsNil()
		case *ssa.Phi:
			for _, e := range x.Edges {
				if !fromGo(e) {
					return false
				}
			}
			return true
		case *ssa.Extract:
			return fromGo(x.Tuple)
		case *ssa.ChangeInterface:
			return fromGo(x.X)
		case *ssa.Call:
			callee := x.Common().StaticCallee()
			if callee == nil {
				return false
			}
			if f, isF := callee.Object().(*types.Func); isF && !inModule(f) {
				return true
			}
			return goErrorsOnly(c, callee)
		}
		return false
	}
	nret := 0
	for _, b := range fn.Blocks {
		for _, in := range b.Instrs {
			ret, isRet := in.(*ssa.Return)
			if !isRet {
				continue
			}
			for _, res := range ret.Results {
				if isErrorType(res.Type()) {
					nret++
					if !fromGo(res) {
						ok = false
					}
				}
			}
		}
	}
	if nret == 0 {
		ok = false
	}
	if ok {
		goErrMemo[fn] = 1
	} else {
		goErrMemo[fn] = 2
	}
	return ok
}

func init() {
	debugHooks["errflow"] = func(c *Ctx) {
		rows := errorRows(c, map[string]bool{"py": true, "stdlib/builtin": true})
		cnt := map[string]int{}
		for _, r := range rows {
			cnt[r.kind]++
		}
		fmt.Println(cnt)
		for _, r := range rows {
			if r.kind != "propagated" {
				d := r.detail
				if len(d) > 110 {
					d = d[:110]
				}
				fmt.Printf("%-12s %s  %s  -- %s\n", r.kind, r.key, c.Pos(r.site.pos), d)
			}
		}
	}
}

// sanctionedErrSites: sites in py / stdlib/builtin where an error of a module callee is deliberately not
// returned, confirmed by reading. Key: "<pkg>|<function>|call <callee>".
var sanctionedErrSites = map[string]string{
	"py|(*py.BigInt).MaybeInt|call (*py.BigInt).Int":                      "the error means 'does not fit a word': the BigInt itself is returned — classification by design",
	"py|(*py.Exception).Error|call py.ReprAsString":                       "Go's error interface: Error() cannot fail, falls back to a fixed text",
	"py|(*py.File).Read|call (py.Int).GoInt64":                            "Int to int64 cannot fail",
	"py|(*py.File).ReadLine|call (py.Int).GoInt64":                        "Int to int64 cannot fail",
	"py|(*py.Filter).M__next__|call py.ObjectIsTrue":                      "ObjectIsTrue returns false together with any error, and the error is returned right after the `if ok` test",
	"py|(*py.ModuleStore).MustGetModule|call (*py.ModuleStore).GetModule": "Must*: panics on error by contract",
	"py|(*py.Slice).M__ne__|call (*py.Slice).M__eq__":                     "Slice.M__eq__ never returns an error",
	"follow-up py.BytesFromObject":                                        "the loop error is returned after the iteration error; both cannot be set at once (the callback stops the iteration without an error of its own)",
	"py|py.DebugRepr|call py.Repr":                                        "debugging helper returning a string",
	"py|py.FloatAsFloat64|call py.FloatCheck":                             "first attempt (exact float); on failure the generic conversion follows and its error is returned",
	"py|py.ImportModuleLevelObject|call (py.Context).GetModule":           "a miss in the module store is not an error: the import proceeds to load the module",
	"py|py.LoadAttr|call py.loadValue":                                    "Go-level sentinel ErrUnsupportedObjType of the embedding helpers, not a Python exception",
	"py|py.LoadTuple|call py.loadValue":                                   "Go-level sentinel ErrUnsupportedObjType of the embedding helpers, not a Python exception",
	"py|py.MustNewMethod|call py.NewMethod":                               "Must*: panics on error by contract (package initialisation)",
	"py|py.Println|call (py.Context).GetModule":                           "Go-side printing helper that reports success as a bool",
	"py|py.Println|call py.GetAttrString":                                 "Go-side printing helper that reports success as a bool",
	"py|py.Println|call (py.I__call__).M__call__":                         "Go-side printing helper that reports success as a bool",
	"py|py.TypeMakeReady|call (*py.Type).Ready":                           "package initialisation: the error is wrapped with the type's name",
	"py|py.XImportModuleLevelObject|call (py.Context).GetModule":          "disabled port of import.c (X prefix, not called)",
	"py|py.XImportModuleLevelObject|call py.GetAttrString":                "disabled port of import.c (X prefix, not called)",
	"py|py.convertToComplex|call (*py.BigInt).Float":                      "conversion protocol: failure is reported as ok=false (the operand is 'not convertible')",
	"py|py.convertToFloat|call (*py.BigInt).Float":                        "conversion protocol: failure is reported as ok=false (the operand is 'not convertible')",
	"py|py.init|call (*py.Type).Ready":                                    "package initialisation: failure is logged/fatal",
	"py|py.init|call py.ExceptionNew":                                     "package initialisation of the exception hierarchy",
	"py|py.init|call py.TypeMakeReady":                                    "package initialisation: failure is fatal",
	"stdlib/builtin|stdlib/builtin.builtin_input|call dyn:InputHook":      "the embedder's hook error is reported as the input() error",
	"stdlib/builtin|stdlib/builtin.builtin_input|call py.Call":            "flushing the prompt is best effort (CPython clears the error too)",
	"stdlib/builtin|stdlib/builtin.builtin_input|call py.GetAttrString":   "flushing the prompt is best effort (CPython clears the error too)",
	"stdlib/builtin|stdlib/builtin.builtin_print|call py.GetAttrString":   "a stream without flush() is not an error for print(flush=True) in gpython",
	"stdlib/builtin|stdlib/builtin.builtin_print|call py.MakeBool":        "truth of the flush argument: an error counts as false",
}

var sanctionedErrClassify = map[string]string{
	"py|py.ImportModuleLevelObject|call (py.Context).ResolveAndCompile": "FileNotFoundError",
	"py|(*py.Iterator).M__next__|call (py.I__getitem__).M__getitem__":   "IndexError",
	"py|(*py.Iterator).M__next__|call py.TypeCall1":                     "IndexError",
	"py|py.ZipTypeNew|call py.Iter":                                     "TypeError",
	"py|(*py.BigInt).M__truediv__|call py.MakeFloat":                    "TypeError",
	"py|(*py.BigInt).M__rtruediv__|call py.MakeFloat":                   "TypeError",
	"py|(py.Int).M__truediv__|call py.MakeFloat":                        "TypeError",
	"py|(py.Int).M__rtruediv__|call py.MakeFloat":                       "TypeError",
	"stdlib/builtin|stdlib/builtin.builtin_getattr|call py.GetAttr":     "AttributeError",
	"stdlib/builtin|stdlib/builtin.builtin_hasattr|call py.GetAttr":     "AttributeError",
}

func runErrorDiscipline(c *Ctx, r *Rep) {
	rows := errorRows(c, map[string]bool{"py": true, "stdlib/builtin": true})
	var followUps []*errSite
	seen := map[string]bool{}
	n := 0
	for _, row := range rows {
		n++
		r.analysed(ssaFuncID(row.site.fn))
		key := row.key
		// a site that sits in a helper extracted from a function whose row was reviewed keeps that review
		if _, listed := sanctionedErrSites[key]; !listed {
			if _, listed2 := sanctionedErrClassify[key]; !listed2 {
				if f, ok := row.site.fn.Object().(*types.Func); ok && isNewFunc(FuncID(f)) {
					if fd := c.Decl(f); fd != nil {
						if p := c.DeclPkg(f); p != nil {
							parts := strings.SplitN(key, "|", 3)
							for _, from := range knownCallers(c, p, fd) {
								k2 := parts[0] + "|" + from + "|" + parts[2]
								_, a1 := sanctionedErrSites[k2]
								_, a2 := sanctionedErrClassify[k2]
								if a1 || a2 {
									key = k2
									break
								}
							}
						}
					}
				}
			}
		}
		if why, ok := sanctionedErrSites[key]; ok && row.kind != "propagated" {
			if !seen[key] {
				r.ok("errors|"+key, row.site.pos, "reviewed (%s): %s", row.kind, why)
				seen[key] = true
			}
			continue
		}
		switch row.kind {
		case "propagated":
			r.okTrivial("errors|"+key, row.site.pos, "%s", row.detail)
		case "classified":
			v := row.verdictClasses
			want, ok := sanctionedErrClassify[key]
			if ok && len(v) == 1 && v[0] == want {
				r.ok("errors|"+key, row.site.pos, "sanctioned classification: only %s is absorbed, every other error is returned", want)
			} else if isStopIterationOnly(v) {
				r.okTrivial("errors|"+key, row.site.pos, "StopIteration ends an iteration (C05.R1 decides these sites)")
			} else {
				r.bad("errors|"+key, row.site.pos, "the error of this call is classified with %v and absorbed here; the site is not on the reviewed list (an exception of that class raised by the callee never reaches the program)", v)
			}
		case "stored":
			loads := capturedLoads(row.site.fn, row.storedTo)
			if len(loads) == 0 {
				r.bad("errors|"+key, row.site.pos, "the error is stored into a captured variable that the enclosing function never reads")
			} else {
				r.ok("errors|"+key, row.site.pos, "handed to the enclosing function through a captured variable")
				followUps = append(followUps, loads...)
			}
		case "undecided":
			r.undecided("errors|"+key, row.site.pos, "%s", row.detail)
		default:
			r.bad("errors|"+key, row.site.pos, "an exception raised by the callee is lost here (%s): %s. Builtins and object-protocol helpers must hand every error they do not deliberately classify back to the interpreter", row.kind, row.detail)
		}
	}
	a := newErrAnalyzer(c)
	for _, fu := range followUps {
		v := a.analyse(fu)
		key := fmt.Sprintf("errors|follow-up %s", ssaFuncID(fu.fn))
		if v.kind == "propagated" || v.kind == "classified" {
			r.ok(key, fu.pos, "the handed-over error is %s", v.kind)
		} else if why, ok := sanctionedErrSites["follow-up "+ssaFuncID(fu.fn)]; ok {
			r.ok(key, fu.pos, "reviewed (%s): %s", v.kind, why)
		} else {
			r.bad(key, fu.pos, "the error handed over from the closure is %s: %s", v.kind, v.detail)
		}
	}
	if n == 0 {
		r.undecided("errors|sites", 0, "no error-returning call found in py / stdlib/builtin")
	}
}

func isStopIterationOnly(v []string) bool {
	if len(v) == 0 {
		return false
	}
	for _, x := range v {
		if !strings.Contains(x, "StopIteration") {
			return false
		}
	}
	return true
}

func init() {
	register(&Rule{ID: "C02.R8", Prop: "C02", Floor: 400,
		Doc: "no exception swallowed or replaced below the VM: the error of every call to a module function made in package py or stdlib/builtin is (edge-sensitively, on go/ssa) returned on every path where it can be non-nil, classified by a sanctioned IsException test, recorded in the adaptor's error field, or a reviewed row (package initialisation, Must* helpers, Go-side helpers, best-effort flushes); the (value, found, err) protocol of TypeCall is understood",
		Run: runErrorDiscipline})
}
