package main

import (
	"fmt"
	"go/token"
	"go/types"
	"sort"
	"strings"

	"golang.org/x/tools/go/ssa"
	"golang.org/x/tools/go/ssa/ssautil"
)

// Error-value discipline on go/ssa (A3 of DESIGN.md).
//
// For a call whose callee returns an error, the analysis follows the error value
// edge-sensitively (φ-nodes are resolved along each explored path) and answers:
//   - is it compared by identity with anything other than nil            (identity)
//   - on the paths where it is known non-nil (or, when a classifier such as
//     py.IsException(T, err) is applied, on the classifier's "no" edge), does every
//     path end in a Return that carries this error                      (propagated)
//   - or is there a path on which it is non-nil and the function goes on / returns
//     something else                                                    (swallowed)

type errSite struct {
	fn     *ssa.Function
	start  ssa.Instruction // analysis starts after this instruction (the call, or a load of a captured error variable)
	call   ssa.CallInstruction
	callee *types.Func // static callee or interface method
	errVal ssa.Value   // the error result
	pos    token.Pos
}

type errVerdict struct {
	kind   string // propagated | classified | passthrough-direct | swallowed | identity | dropped | replaced | undecided
	detail string
	pos    token.Pos
	// the classifier's exception types, if any (names of globals passed as first arg)
	classes []string
	// captured variable (address value) the error was stored into, when kind == "stored"
	storedTo ssa.Value
}

// moduleFunctions returns every SSA function (including closures) of the module's packages.
func moduleFunctions(c *Ctx) []*ssa.Function {
	prog := c.SSA()
	var out []*ssa.Function
	for fn := range ssautil.AllFunctions(prog) {
		if fn.Pkg == nil && fn.Parent() == nil {
			continue
		}
		root := fn
		for root.Parent() != nil {
			root = root.Parent()
		}
		if root.Pkg == nil || root.Pkg.Pkg == nil {
			continue
		}
		p := root.Pkg.Pkg.Path()
		if p != modPath && !strings.HasPrefix(p, modPath+"/") {
			continue
		}
		if fn.Synthetic != "" {
			continue
		}
		if fn.Blocks == nil {
			continue
		}
		if pos := fn.Pos(); pos.IsValid() && strings.HasSuffix(c.Fset.Position(pos).Filename, "_test.go") {
			continue
		}
		out = append(out, fn)
	}
	sort.Slice(out, func(i, j int) bool {
		if out[i].Pos() != out[j].Pos() {
			return out[i].Pos() < out[j].Pos()
		}
		return out[i].String() < out[j].String()
	})
	return out
}

func ssaFuncID(fn *ssa.Function) string {
	if fn.Parent() != nil {
		return ssaFuncID(fn.Parent()) + "$" + strings.TrimPrefix(fn.Name(), fn.Parent().Name()+"$")
	}
	if obj, ok := fn.Object().(*types.Func); ok {
		return FuncID(obj)
	}
	return fn.String()
}

// calleeOf returns the static callee or the interface method of a call.
func calleeOf(ci ssa.CallInstruction) *types.Func {
	cc := ci.Common()
	if cc.IsInvoke() {
		return cc.Method
	}
	if f := cc.StaticCallee(); f != nil {
		if obj, ok := f.Object().(*types.Func); ok {
			return obj
		}
	}
	return nil
}

func isErrorType(t types.Type) bool {
	return t != nil && t.String() == "error"
}

// errResult finds the SSA value of the error result of a call (the call itself or an Extract).
func errResult(ci ssa.CallInstruction) ssa.Value {
	v := ci.Value()
	if v == nil {
		return nil
	}
	switch t := v.Type().(type) {
	case *types.Tuple:
		idx := -1
		for i := 0; i < t.Len(); i++ {
			if isErrorType(t.At(i).Type()) {
				idx = i
			}
		}
		if idx < 0 {
			return nil
		}
		for _, ref := range *v.Referrers() {
			if ex, ok := ref.(*ssa.Extract); ok && ex.Index == idx {
				return ex
			}
		}
		return nil // error component never extracted: dropped
	default:
		if isErrorType(v.Type()) {
			return v
		}
	}
	return nil
}

func hasErrResult(ci ssa.CallInstruction) bool {
	sig := ci.Common().Signature()
	for i := 0; i < sig.Results().Len(); i++ {
		if isErrorType(sig.Results().At(i).Type()) {
			return true
		}
	}
	return false
}

func isNilConst(v ssa.Value) bool {
	c, ok := v.(*ssa.Const)
	return ok && c.Value == nil
}

// pathEnv resolves φ-nodes along one explored path.
type pathEnv map[ssa.Value]ssa.Value

func (e pathEnv) resolve(v ssa.Value) ssa.Value {
	for i := 0; i < 20; i++ {
		switch x := v.(type) {
		case *ssa.Phi:
			if r, ok := e[x]; ok {
				v = r
				continue
			}
			return v
		case *ssa.ChangeInterface:
			v = x.X
			continue
		case *ssa.UnOp:
			// load of a named result spilled to memory (functions with a deferred closure): the value last stored on this path
			if x.Op == token.MUL {
				if a, ok := x.X.(*ssa.Alloc); ok {
					if r, ok := e[a]; ok {
						v = r
						continue
					}
				}
			}
			return v
		}
		return v
	}
	return v
}

type errAnalyzer struct {
	c *Ctx
	// classifier: py.IsException
	isException *types.Func
	// constructors whose result replaces an error legitimately when listed in the sanctioned table
	maxPaths int
}

func newErrAnalyzer(c *Ctx) *errAnalyzer {
	return &errAnalyzer{c: c, isException: c.Func("py", "IsException"), maxPaths: 4000}
}

// globalName returns the name of the package-level variable a value loads, if any.
func globalName(v ssa.Value) string {
	switch x := v.(type) {
	case *ssa.UnOp:
		if x.Op == token.MUL {
			if g, ok := x.X.(*ssa.Global); ok {
				return g.Name()
			}
		}
	case *ssa.MakeInterface:
		return globalName(x.X)
	case *ssa.ChangeInterface:
		return globalName(x.X)
	case *ssa.Global:
		return x.Name()
	}
	return ""
}

// analyse classifies the use of the error produced at a site.
func (a *errAnalyzer) analyse(s *errSite) errVerdict {
	if s.errVal == nil {
		return errVerdict{kind: "dropped", detail: "the error result is never read", pos: s.pos}
	}
	fn := s.fn
	// direct return of the call's results:  return f(x)
	// identity comparisons anywhere (flow-insensitive over the φ-closure)
	carriers := map[ssa.Value]bool{s.errVal: true}
	for changed := true; changed; {
		changed = false
		for _, b := range fn.Blocks {
			for _, in := range b.Instrs {
				switch x := in.(type) {
				case *ssa.Phi:
					if !carriers[x] {
						for _, e := range x.Edges {
							if carriers[e] {
								carriers[x] = true
								changed = true
							}
						}
					}
				case *ssa.ChangeInterface:
					if !carriers[x] && carriers[x.X] {
						carriers[x] = true
						changed = true
					}
				}
			}
		}
	}
	// forwarding helpers: a call f(…, err, …) to a module function all of whose returns hand back that
	// parameter (e.g. vm.setTopAndCheckErr) yields the same error
	alias := map[ssa.Value]bool{}
	for _, b := range fn.Blocks {
		for _, in := range b.Instrs {
			call, ok := in.(*ssa.Call)
			if !ok {
				continue
			}
			callee := call.Common().StaticCallee()
			if callee == nil || callee.Blocks == nil {
				continue
			}
			// the error result of the helper: the call itself, or the error component of its result tuple
			var errResults []ssa.Value
			if isErrorType(call.Type()) {
				errResults = append(errResults, call)
			} else if tup, ok := call.Type().(*types.Tuple); ok {
				if refs := call.Referrers(); refs != nil {
					for _, ref := range *refs {
						if ex, ok := ref.(*ssa.Extract); ok && ex.Index < tup.Len() && isErrorType(tup.At(ex.Index).Type()) {
							errResults = append(errResults, ex)
						}
					}
				}
			}
			if len(errResults) == 0 {
				continue
			}
			for ai, arg := range call.Common().Args {
				if !carriers[arg] || ai >= len(callee.Params) {
					continue
				}
				if returnsParam(callee, callee.Params[ai]) {
					for _, er := range errResults {
						alias[er] = true
						carriers[er] = true
					}
				}
			}
		}
	}
	// (value, found bool, err error) protocol: when the callee reports "not found" the error is nil by contract
	// (py.TypeCall0/1/2, Type.CallMethod); the error only matters on the branch where the flag is true
	okVals := map[ssa.Value]bool{}
	if ex, ok := s.errVal.(*ssa.Extract); ok {
		if tup, ok := ex.Tuple.Type().(*types.Tuple); ok && tup.Len() == 3 && flagFalseMeansNoError(ex.Tuple) {
			if bt, ok := tup.At(1).Type().Underlying().(*types.Basic); ok && bt.Kind() == types.Bool {
				if refs := ex.Tuple.Referrers(); refs != nil {
					for _, ref := range *refs {
						if e2, ok := ref.(*ssa.Extract); ok && e2.Index == 1 {
							okVals[e2] = true
						}
					}
				}
			}
		}
	}
	// a function that cannot return an error (sort.Interface's Less/Swap) and records the error in an error-typed
	// field of its adaptor object ("first error wins") delivers it through that object
	hasErrResult := false
	if res := fn.Signature.Results(); res != nil {
		for i := 0; i < res.Len(); i++ {
			if isErrorType(res.At(i).Type()) {
				hasErrResult = true
			}
		}
	}
	if !hasErrResult {
		for _, b := range fn.Blocks {
			for _, in := range b.Instrs {
				if st, ok := in.(*ssa.Store); ok && carriers[st.Val] {
					if fa, ok := st.Addr.(*ssa.FieldAddr); ok && isErrorType(fa.Type().(*types.Pointer).Elem()) {
						return errVerdict{kind: "propagated", pos: s.pos, detail: "recorded in an error field of the adaptor object (the function itself cannot return an error); delivered by the owner of that object"}
					}
				}
				// the same through a helper of the adaptor: s.recordErr(err)
				if call, ok := in.(*ssa.Call); ok {
					if callee := call.Common().StaticCallee(); callee != nil && callee.Blocks != nil {
						for ai, arg := range call.Common().Args {
							if carriers[arg] && ai < len(callee.Params) && storesParamToErrField(callee, callee.Params[ai]) {
								return errVerdict{kind: "propagated", pos: s.pos, detail: "recorded in an error field of the adaptor object through " + ssaFuncID(callee) + " (the function itself cannot return an error); delivered by the owner of that object"}
							}
						}
					}
				}
			}
		}
	}
	var v errVerdict
	for _, b := range fn.Blocks {
		for _, in := range b.Instrs {
			if bo, ok := in.(*ssa.BinOp); ok && (bo.Op == token.EQL || bo.Op == token.NEQ) {
				var other ssa.Value
				if carriers[bo.X] {
					other = bo.Y
				} else if carriers[bo.Y] {
					other = bo.X
				}
				if other != nil && !isNilConst(other) {
					return errVerdict{kind: "identity", pos: bo.Pos(),
						detail: fmt.Sprintf("the error is compared by identity with %s: an exception of that class raised as an instance (e.g. from a Python-level method) is not recognised", describe(other))}
				}
			}
		}
	}
	// path exploration from the instruction after the call
	startInstr := s.start
	if startInstr == nil {
		startInstr = s.call.(ssa.Instruction)
	}
	startBlock := startInstr.Block()
	startIdx := 0
	for i, in := range startBlock.Instrs {
		if in == startInstr {
			startIdx = i + 1
		}
	}
	type result struct {
		kind string
		pos  token.Pos
		why  string
	}
	var results []result
	var storedTo ssa.Value
	fieldStored := false
	paths := 0
	var classes []string
	sawClassifier := false
	// known: 0 unknown, 1 known non-nil & not stop-class ("must propagate"), 2 nil or stop-class (free)
	var walk func(b *ssa.BasicBlock, idx int, env pathEnv, visited map[*ssa.BasicBlock]int, state int, depth int)
	walk = func(b *ssa.BasicBlock, idx int, env pathEnv, visited map[*ssa.BasicBlock]int, state int, depth int) {
		if paths > a.maxPaths {
			return
		}
		for i := idx; i < len(b.Instrs); i++ {
			in := b.Instrs[i]
			switch x := in.(type) {
			case *ssa.Return:
				paths++
				carries := false
				for _, r := range x.Results {
					if rr := env.resolve(r); rr == s.errVal || alias[rr] {
						carries = true
					}
				}
				otherErr := false
				for _, r := range x.Results {
					if isErrorType(r.Type()) {
						if rr := env.resolve(r); !isNilConst(rr) && rr != s.errVal && !alias[rr] {
							otherErr = true
						}
					}
				}
				switch {
				case carries:
					results = append(results, result{"returns-err", x.Pos(), ""})
				case state == 1 && otherErr:
					results = append(results, result{"replaced", x.Pos(), "a different error is returned in its place"})
				case state == 1:
					results = append(results, result{"swallowed", x.Pos(), "returns without the error on a path where it is a non-nil, non-terminating exception"})
				case state == 0:
					results = append(results, result{"unchecked", x.Pos(), "returns without ever testing the error"})
				default:
					results = append(results, result{"free", x.Pos(), ""})
				}
				return
			case *ssa.Panic:
				paths++
				results = append(results, result{"free", x.Pos(), ""})
				return
			case *ssa.Store:
				if a, ok := x.Addr.(*ssa.Alloc); ok {
					env[a] = env.resolve(x.Val)
				}
				if vv := env.resolve(x.Val); (vv == s.errVal || alias[vv]) && state != 2 {
					if _, isFree := x.Addr.(*ssa.FreeVar); isFree {
						storedTo = x.Addr
						paths++
						results = append(results, result{"stored", x.Pos(), ""})
						state = 2
					} else if fa, isField := x.Addr.(*ssa.FieldAddr); isField && isErrorType(fa.Type().(*types.Pointer).Elem()) {
						// recorded in an error-typed field of an object for later delivery (e.g. the sort adaptor's firstErr)
						paths++
						results = append(results, result{"free", x.Pos(), ""})
						fieldStored = true
						state = 2
					} else if pa, isParam := x.Addr.(*ssa.Parameter); isParam {
						// *err = e through a parameter of type *error: handed to the caller through its out-parameter
						if pt, ok := pa.Type().(*types.Pointer); ok && isErrorType(pt.Elem()) {
							paths++
							results = append(results, result{"returns-err", x.Pos(), ""})
							state = 2
						}
					}
				}
			case *ssa.Jump:
				a.enter(b, b.Succs[0], env, visited, state, depth, s, walk)
				return
			case *ssa.If:
				cond := x.Cond
				neg := false
				for {
					if u, ok := cond.(*ssa.UnOp); ok && u.Op == token.NOT {
						cond = u.X
						neg = !neg
						continue
					}
					break
				}
				tState, fState := state, state
				if bo, ok := cond.(*ssa.BinOp); ok && (bo.Op == token.NEQ || bo.Op == token.EQL) {
					xx, yy := env.resolve(bo.X), env.resolve(bo.Y)
					if (xx == s.errVal && isNilConst(yy)) || (yy == s.errVal && isNilConst(xx)) {
						nonNilOnTrue := bo.Op == token.NEQ
						if neg {
							nonNilOnTrue = !nonNilOnTrue
						}
						if nonNilOnTrue {
							if state == 0 {
								tState = 1
							}
							fState = 2
						} else {
							tState = 2
							if state == 0 {
								fState = 1
							}
						}
					}
				}
				if okVals[env.resolve(cond)] || okVals[cond] {
					// found flag: on the "not found" edge the error is nil by the protocol
					if neg {
						tState = 2
					} else {
						fState = 2
					}
				}
				if call, ok := cond.(*ssa.Call); ok && a.isException != nil {
					if f := call.Common().StaticCallee(); f != nil && f.Object() == a.isException && len(call.Common().Args) == 2 {
						if env.resolve(call.Common().Args[1]) == s.errVal {
							sawClassifier = true
							classes = append(classes, globalName(call.Common().Args[0]))
							stopOnTrue := !neg
							if stopOnTrue {
								tState, fState = 2, 1
							} else {
								tState, fState = 1, 2
							}
						}
					}
				}
				a.enter(b, b.Succs[0], env, visited, tState, depth, s, walk)
				a.enter(b, b.Succs[1], env, visited, fState, depth, s, walk)
				return
			case ssa.CallInstruction:
				if s.call != nil && x == s.call && !(b == startBlock && i < startIdx) {
					// came back to the producing call
					paths++
					switch state {
					case 1:
						results = append(results, result{"swallowed", x.Pos(), "iteration continues (the producing call is reached again) on a path where the error is a non-nil, non-terminating exception"})
					case 0:
						results = append(results, result{"unchecked", x.Pos(), "the producing call is reached again without the error having been tested"})
					default:
						results = append(results, result{"free", x.Pos(), ""})
					}
					return
				}
			}
		}
	}
	walk(startBlock, startIdx, pathEnv{}, map[*ssa.BasicBlock]int{}, 0, 0)
	if paths > a.maxPaths {
		return errVerdict{kind: "undecided", detail: "too many paths", pos: s.pos}
	}
	nRet, nSw, nUn, nFree, nRepl, nStored := 0, 0, 0, 0, 0, 0
	var first, firstRepl result
	for _, r := range results {
		switch r.kind {
		case "replaced":
			if nRepl == 0 {
				firstRepl = r
			}
			nRepl++
		case "stored":
			nStored++
		case "returns-err":
			nRet++
		case "swallowed":
			if nSw == 0 {
				first = r
			}
			nSw++
		case "unchecked":
			if nUn == 0 && nSw == 0 {
				first = r
			}
			nUn++
		default:
			nFree++
		}
	}
	v.classes = uniq(classes)
	v.storedTo = storedTo
	switch {
	case nSw > 0:
		v.kind, v.detail, v.pos = "swallowed", first.why, first.pos
	case nRepl > 0:
		v.kind, v.detail, v.pos = "replaced", firstRepl.why, firstRepl.pos
	case nStored > 0 && nUn == 0:
		v.kind, v.detail, v.pos = "stored", "stored into a variable of the enclosing function", s.pos
	case nUn > 0 && nRet == 0:
		v.kind, v.detail, v.pos = "dropped", first.why, first.pos
	case nUn > 0:
		v.kind, v.detail, v.pos = "swallowed", first.why+" (on some path)", first.pos
	case sawClassifier:
		v.kind, v.pos = "classified", s.pos
		v.detail = fmt.Sprintf("classified with IsException(%s, err); every other non-nil error is returned", strings.Join(v.classes, "/"))
	case nRet > 0:
		v.kind, v.detail, v.pos = "propagated", "returned on every path where it can be non-nil", s.pos
	case fieldStored:
		v.kind, v.detail, v.pos = "propagated", "recorded in an error field of the adaptor object for delivery by its owner", s.pos
	default:
		v.kind, v.detail, v.pos = "dropped", "never returned", s.pos
	}
	return v
}

// enter moves along an edge, resolving the successor's φ-nodes for this predecessor.
func (a *errAnalyzer) enter(from, to *ssa.BasicBlock, env pathEnv, visited map[*ssa.BasicBlock]int, state, depth int, s *errSite,
	walk func(b *ssa.BasicBlock, idx int, env pathEnv, visited map[*ssa.BasicBlock]int, state int, depth int)) {
	if depth > 60 {
		return
	}
	// allow each block at most twice per path (once is enough to see a loop back to the call)
	if visited[to] >= 1 && (s.call == nil || to != s.call.Block()) {
		return
	}
	if visited[to] >= 2 {
		return
	}
	pi := -1
	for i, p := range to.Preds {
		if p == from {
			pi = i
		}
	}
	nenv := pathEnv{}
	for k, v := range env {
		nenv[k] = v
	}
	for _, in := range to.Instrs {
		phi, ok := in.(*ssa.Phi)
		if !ok {
			break
		}
		if pi >= 0 && pi < len(phi.Edges) {
			nenv[phi] = env.resolve(phi.Edges[pi])
		}
	}
	nv := map[*ssa.BasicBlock]int{}
	for k, v := range visited {
		nv[k] = v
	}
	nv[to]++
	walk(to, 0, nenv, nv, state, depth+1)
}

// returnsParam: every Return of fn returns the given parameter as its (single) error result.
// flagFalseMeansNoError: the (value, found, err) contract is the callee's to keep — it holds for a call whose callee
// is known and has, on every return where the flag is the constant false, the constant nil as its error. A callee
// that can hand back `false` together with a real error (a helper that reports "no more items" and the error of the
// producer in one return) does not have the contract, and the error matters whatever the flag says.
func flagFalseMeansNoError(tuple ssa.Value) bool {
	call, ok := tuple.(*ssa.Call)
	if !ok {
		return false
	}
	callee := call.Common().StaticCallee()
	if callee == nil || callee.Blocks == nil {
		// dynamic or bodiless: keep the convention of the object protocol (TypeCall through an interface value)
		return true
	}
	for _, b := range callee.Blocks {
		for _, in := range b.Instrs {
			ret, isRet := in.(*ssa.Return)
			if !isRet || len(ret.Results) != 3 {
				continue
			}
			if k, isConst := ret.Results[1].(*ssa.Const); isConst && k.Value != nil && k.Value.String() == "false" {
				if e, isC := ret.Results[2].(*ssa.Const); !isC || !e.IsNil() {
					return false
				}
			}
		}
	}
	return true
}

// storesParamToErrField: the function stores its parameter p into an error-typed field (on some path).
func storesParamToErrField(fn *ssa.Function, p *ssa.Parameter) bool {
	for _, b := range fn.Blocks {
		for _, in := range b.Instrs {
			if st, ok := in.(*ssa.Store); ok && st.Val == ssa.Value(p) {
				if fa, ok := st.Addr.(*ssa.FieldAddr); ok && isErrorType(fa.Type().(*types.Pointer).Elem()) {
					return true
				}
			}
		}
	}
	return false
}

func returnsParam(fn *ssa.Function, p *ssa.Parameter) bool {
	// every return hands the parameter back, or lies on a path where the parameter was tested to be nil
	if len(fn.Blocks) == 0 {
		return false
	}
	nret := 0
	okAll := true
	type st struct {
		b     *ssa.BasicBlock
		isNil bool
	}
	seen := map[st]bool{}
	var walk func(b *ssa.BasicBlock, isNil bool)
	walk = func(b *ssa.BasicBlock, isNil bool) {
		k := st{b, isNil}
		if seen[k] || !okAll {
			return
		}
		seen[k] = true
		for _, in := range b.Instrs {
			switch x := in.(type) {
			case *ssa.Return:
				nret++
				found := false
				for _, r := range x.Results {
					if r == p {
						found = true
					}
				}
				if !found && !isNil {
					okAll = false
				}
				return
			case *ssa.If:
				tNil, fNil := isNil, isNil
				if bo, ok := x.Cond.(*ssa.BinOp); ok && (bo.Op == token.NEQ || bo.Op == token.EQL) {
					if (bo.X == p && isNilConst(bo.Y)) || (bo.Y == p && isNilConst(bo.X)) {
						if bo.Op == token.EQL {
							tNil = true
						} else {
							fNil = true
						}
					}
				}
				walk(b.Succs[0], tNil)
				walk(b.Succs[1], fNil)
				return
			case *ssa.Jump:
				walk(b.Succs[0], isNil)
				return
			}
		}
	}
	walk(fn.Blocks[0], false)
	return okAll && nret > 0
}

func describe(v ssa.Value) string {
	if n := globalName(v); n != "" {
		return "the package-level value " + n
	}
	return v.String()
}

// sitesCalling lists the call sites in module functions whose callee satisfies pred and returns an error.
func sitesCalling(c *Ctx, pred func(callee *types.Func, ci ssa.CallInstruction) bool) []*errSite {
	var out []*errSite
	for _, fn := range moduleFunctions(c) {
		for _, b := range fn.Blocks {
			for _, in := range b.Instrs {
				ci, ok := in.(ssa.CallInstruction)
				if !ok {
					continue
				}
				if _, isDefer := in.(*ssa.Defer); isDefer {
					continue
				}
				if _, isGo := in.(*ssa.Go); isGo {
					continue
				}
				if !hasErrResult(ci) {
					continue
				}
				callee := calleeOf(ci)
				if !pred(callee, ci) {
					continue
				}
				out = append(out, &errSite{fn: fn, call: ci, callee: callee, errVal: errResult(ci), pos: ci.Pos()})
			}
		}
	}
	return out
}

// capturedLoads returns, for an error stored by a closure into a captured variable, the loads of that
// variable in the enclosing function (each is a new error source to be analysed there).
func capturedLoads(closure *ssa.Function, fv ssa.Value) []*errSite {
	free, ok := fv.(*ssa.FreeVar)
	if !ok || closure.Parent() == nil {
		return nil
	}
	idx := -1
	for i, f := range closure.FreeVars {
		if f == free {
			idx = i
		}
	}
	if idx < 0 {
		return nil
	}
	parent := closure.Parent()
	var out []*errSite
	for _, b := range parent.Blocks {
		for _, in := range b.Instrs {
			mc, ok := in.(*ssa.MakeClosure)
			if !ok || mc.Fn != closure || idx >= len(mc.Bindings) {
				continue
			}
			cell := mc.Bindings[idx]
			// loads of the cell after the closure was created
			for _, ref := range *cell.Referrers() {
				if ld, ok := ref.(*ssa.UnOp); ok && ld.Op == token.MUL && isErrorType(ld.Type()) {
					out = append(out, &errSite{fn: parent, start: ld, errVal: ld, pos: ld.Pos()})
				}
			}
		}
	}
	return out
}
