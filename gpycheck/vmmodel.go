package main

import (
	"go/ast"
	"go/token"
	"go/types"
	"sort"

	"golang.org/x/tools/go/packages"
)

// vmModel is what the checker extracts from package vm: the opcode constants and
// the dispatch table, both read from the type-checked tree on every run.
type vmModel struct {
	pkg      *packages.Package
	opType   *types.Named
	ops      map[string]*types.Const // name -> const (HAVE_ARGUMENT excluded)
	opByVal  map[int64]string
	haveArg  int64
	handlers map[string]*types.Func // opcode name -> handler
	handPos  map[string]token.Pos
	dupAssn  []string // opcodes assigned twice
	defaultH *types.Func
	cmpOps   map[string]int64 // PyCmp_*
}

func (m *vmModel) opNames() []string {
	var out []string
	for n := range m.ops {
		out = append(out, n)
	}
	sort.Slice(out, func(i, j int) bool {
		a, _ := constToInt(types.TypeAndValue{Value: m.ops[out[i]].Val()})
		b, _ := constToInt(types.TypeAndValue{Value: m.ops[out[j]].Val()})
		return a < b
	})
	return out
}

func constVal(k *types.Const) int64 {
	v, _ := constToInt(types.TypeAndValue{Value: k.Val()})
	return v
}

func getVMModel(c *Ctx) *vmModel {
	p := c.MustPkg("vm")
	m := &vmModel{pkg: p, ops: map[string]*types.Const{}, opByVal: map[int64]string{}, handlers: map[string]*types.Func{},
		handPos: map[string]token.Pos{}, cmpOps: map[string]int64{}}
	m.opType = c.Named("vm", "OpCode")
	if m.opType == nil {
		panic("vm.OpCode not found")
	}
	scope := p.Types.Scope()
	for _, name := range scope.Names() {
		k, ok := scope.Lookup(name).(*types.Const)
		if !ok {
			continue
		}
		if types.Identical(k.Type(), m.opType) {
			if name == "HAVE_ARGUMENT" {
				m.haveArg = constVal(k)
				continue
			}
			m.ops[name] = k
			m.opByVal[constVal(k)] = name
		} else if len(name) > 6 && name[:6] == "PyCmp_" {
			m.cmpOps[name] = constVal(k)
		}
	}
	jt, _ := scope.Lookup("jumpTable").(*types.Var)
	if jt == nil {
		panic("vm.jumpTable not found")
	}
	// every assignment jumpTable[K] = f anywhere in the package
	for _, f := range c.Files(p) {
		ast.Inspect(f, func(n ast.Node) bool {
			as, ok := n.(*ast.AssignStmt)
			if !ok || len(as.Lhs) != 1 || len(as.Rhs) != 1 {
				return true
			}
			ix, ok := as.Lhs[0].(*ast.IndexExpr)
			if !ok {
				return true
			}
			id, ok := unparen(ix.X).(*ast.Ident)
			if !ok || p.TypesInfo.Uses[id] != jt {
				return true
			}
			var fn *types.Func
			if rid, ok := unparen(as.Rhs[0]).(*ast.Ident); ok {
				fn, _ = p.TypesInfo.Uses[rid].(*types.Func)
			}
			tv := p.TypesInfo.Types[ix.Index]
			if tv.Value == nil {
				// the default fill loop: jumpTable[i] = do_ILLEGAL
				m.defaultH = fn
				return true
			}
			v, _ := constToInt(tv)
			name := m.opByVal[v]
			if name == "" {
				name = "?"
			}
			if _, dup := m.handlers[name]; dup {
				m.dupAssn = append(m.dupAssn, name)
			}
			m.handlers[name] = fn
			m.handPos[name] = as.Pos()
			return true
		})
	}
	return m
}

// opcodeOf returns the opcode name if the expression is a constant of type vm.OpCode.
func (m *vmModel) opcodeOf(info *types.Info, e ast.Expr) (string, bool) {
	tv, ok := info.Types[e]
	if !ok || tv.Value == nil || !types.Identical(tv.Type, m.opType) {
		return "", false
	}
	v, _ := constToInt(tv)
	n, ok := m.opByVal[v]
	return n, ok
}
