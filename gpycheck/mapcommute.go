package main

import (
	"fmt"
	"go/ast"
	"go/token"
	"go/types"
	"strings"

	"golang.org/x/tools/go/packages"
)

// Map-iteration commutativity (A6 of DESIGN.md).
//
// Go randomises map iteration order. A `range` over a map is harmless when the
// effects of different iterations commute. The classifier accepts, per iteration:
//   - writes m[k] = … / delete(m, k) where k is the range key (or a value derived only from it),
//   - idempotent constant stores (x.f = true),
//   - commutative accumulation (++, +=, |= on numbers/bools),
//   - appends to a slice that is sorted after the loop and before it is used,
//   - anything done to variables local to the iteration,
//   - calls to module functions whose bodies satisfy the same rules with the key passed along
//     (inlined to depth 4), and calls to a small set of pure library functions.
// It rejects: non-keyed writes of non-constant values, reads of a map written in the loop under
// a different key, unsorted appends, `return`/`break` that pick "the first" element, and
// calls it cannot see through.

type commuteResult struct {
	problems []string
	notes    []string
	keyed    int
	calls    int
}

type commuteCtx struct {
	c        *Ctx
	res      *commuteResult
	needSort map[types.Object]token.Pos
	stack    []*types.Func
}

var pureExternal = map[string]bool{"fmt": true, "strings": true, "sort": true, "strconv": true, "unicode": true, "unicode/utf8": true, "math": true, "bytes": true, "errors": true}

// keyDerived: the expression is a range variable (or a parameter bound to one).
func isKeyDerived(info *types.Info, e ast.Expr, keys map[types.Object]bool) bool {
	e = unparen(e)
	switch x := e.(type) {
	case *ast.Ident:
		return keys[info.Uses[x]]
	case *ast.CallExpr: // conversion string(k), T(k)
		if tv, ok := info.Types[x.Fun]; ok && tv.IsType() && len(x.Args) == 1 {
			return isKeyDerived(info, x.Args[0], keys)
		}
	case *ast.SelectorExpr: // a field of the element value
		return isKeyDerived(info, x.X, keys)
	}
	return false
}

func isConstExpr(info *types.Info, e ast.Expr) bool {
	if tv, ok := info.Types[e]; ok && tv.Value != nil {
		return true
	}
	switch x := unparen(e).(type) {
	case *ast.Ident:
		return x.Name == "true" || x.Name == "false" || x.Name == "nil"
	case *ast.CompositeLit:
		return len(x.Elts) == 0 // struct{}{}
	case *ast.SelectorExpr:
		_, isConst := info.Uses[x.Sel].(*types.Const)
		return isConst
	}
	return false
}

func rootObj(info *types.Info, e ast.Expr) types.Object {
	for {
		switch x := unparen(e).(type) {
		case *ast.Ident:
			if o := info.Uses[x]; o != nil {
				return o
			}
			return info.Defs[x]
		case *ast.SelectorExpr:
			e = x.X
		case *ast.IndexExpr:
			e = x.X
		case *ast.StarExpr:
			e = x.X
		default:
			return nil
		}
	}
}

// stmts analyses a statement list executed once per iteration.
//
//	keys   – objects that are determined by the iteration's key
//	locals – objects that live only within one iteration
//	top    – true at the loop level (return/break are order-dependent there), false inside an inlined callee
func (cc *commuteCtx) stmts(p *packages.Package, list []ast.Stmt, keys, locals map[types.Object]bool, top bool, where string) {
	info := p.TypesInfo
	for _, s := range list {
		switch x := s.(type) {
		case *ast.AssignStmt:
			for i, l := range x.Lhs {
				var rhs ast.Expr
				if len(x.Rhs) == len(x.Lhs) {
					rhs = x.Rhs[i]
				} else if len(x.Rhs) == 1 {
					rhs = x.Rhs[0]
				}
				if x.Tok == token.DEFINE {
					if id := identOf(l); id != nil {
						if o := info.Defs[id]; o != nil {
							locals[o] = true
							// a local computed only from the key stays key-derived
							if rhs != nil && isKeyDerived(info, rhs, keys) {
								keys[o] = true
							}
							if ix, ok := unparen(rhs).(*ast.IndexExpr); ok && isKeyDerived(info, ix.Index, keys) {
								keys[o] = true // m[key]
							}
						}
					}
					continue
				}
				cc.write(p, l, rhs, x.Tok, keys, locals, where)
			}
			for _, r := range x.Rhs {
				cc.exprCalls(p, r, keys, locals, where)
			}
		case *ast.IncDecStmt:
			cc.write(p, x.X, nil, token.ADD_ASSIGN, keys, locals, where)
		case *ast.DeclStmt:
			ast.Inspect(x, func(n ast.Node) bool {
				if vs, ok := n.(*ast.ValueSpec); ok {
					for _, nm := range vs.Names {
						if o := info.Defs[nm]; o != nil {
							locals[o] = true
						}
					}
				}
				return true
			})
		case *ast.ExprStmt:
			cc.exprCalls(p, x.X, keys, locals, where)
		case *ast.IfStmt:
			if x.Init != nil {
				cc.stmts(p, []ast.Stmt{x.Init}, keys, locals, top, where)
			}
			cc.exprCalls(p, x.Cond, keys, locals, where)
			cc.stmts(p, x.Body.List, keys, locals, top, where)
			switch e := x.Else.(type) {
			case *ast.BlockStmt:
				cc.stmts(p, e.List, keys, locals, top, where)
			case *ast.IfStmt:
				cc.stmts(p, []ast.Stmt{e}, keys, locals, top, where)
			}
		case *ast.BlockStmt:
			cc.stmts(p, x.List, keys, locals, top, where)
		case *ast.SwitchStmt:
			if x.Tag != nil {
				cc.exprCalls(p, x.Tag, keys, locals, where)
			}
			for _, cl := range x.Body.List {
				cc.stmts(p, cl.(*ast.CaseClause).Body, keys, locals, top, where)
			}
		case *ast.TypeSwitchStmt:
			for _, cl := range x.Body.List {
				cc.stmts(p, cl.(*ast.CaseClause).Body, keys, locals, top, where)
			}
		case *ast.ForStmt:
			cc.stmts(p, x.Body.List, keys, locals, false, where)
		case *ast.RangeStmt:
			// a nested range over a slice is sequential; over a map it is its own obligation
			cc.stmts(p, x.Body.List, keys, locals, false, where)
		case *ast.ReturnStmt:
			if top {
				cc.res.problems = append(cc.res.problems, fmt.Sprintf("%s: `return` inside the map range: which element is reached first decides the result", p.Fset.Position(x.Pos())))
			}
			for _, r := range x.Results {
				cc.exprCalls(p, r, keys, locals, where)
			}
		case *ast.BranchStmt:
			if x.Tok == token.BREAK && top {
				cc.res.problems = append(cc.res.problems, fmt.Sprintf("%s: `break` out of the map range: the elements processed before it depend on iteration order", p.Fset.Position(x.Pos())))
			}
			if x.Tok == token.GOTO {
				cc.res.problems = append(cc.res.problems, fmt.Sprintf("%s: goto inside the map range", p.Fset.Position(x.Pos())))
			}
		case *ast.EmptyStmt:
		default:
			cc.res.problems = append(cc.res.problems, fmt.Sprintf("%s: statement form %T not classified", p.Fset.Position(s.Pos()), s))
		}
	}
}

func (cc *commuteCtx) write(p *packages.Package, lhs, rhs ast.Expr, tok token.Token, keys, locals map[types.Object]bool, where string) {
	info := p.TypesInfo
	lhs = unparen(lhs)
	if id := identOf(lhs); id != nil && id.Name == "_" {
		return
	}
	root := rootObj(info, lhs)
	if root != nil && locals[root] {
		return // iteration-local
	}
	pos := p.Fset.Position(lhs.Pos())
	switch l := lhs.(type) {
	case *ast.IndexExpr:
		if tv, ok := info.Types[l.X]; ok {
			if _, isMap := tv.Type.Underlying().(*types.Map); isMap {
				if isKeyDerived(info, l.Index, keys) {
					cc.res.keyed++
					return
				}
				cc.res.problems = append(cc.res.problems, fmt.Sprintf("%s: %s is written under a key that is not the iteration's key: two iterations can write the same entry, the last one in iteration order wins", pos, exprStr(lhs)))
				return
			}
		}
	}
	// commutative accumulation
	if tok == token.ADD_ASSIGN || tok == token.OR_ASSIGN || tok == token.AND_ASSIGN || tok == token.XOR_ASSIGN {
		if tv, ok := info.Types[lhs]; ok {
			if b, ok := tv.Type.Underlying().(*types.Basic); ok && b.Info()&(types.IsNumeric|types.IsBoolean) != 0 {
				return
			}
		}
	}
	if rhs != nil && isConstExpr(info, rhs) && tok == token.ASSIGN {
		return // idempotent
	}
	// x = append(x, …)
	if call, ok := unparen(rhs).(*ast.CallExpr); ok && tok == token.ASSIGN {
		if id := identOf(call.Fun); id != nil && id.Name == "append" && len(call.Args) > 0 {
			if rootObj(info, call.Args[0]) == root && root != nil {
				cc.needSort[root] = lhs.Pos()
				return
			}
		}
	}
	cc.res.problems = append(cc.res.problems, fmt.Sprintf("%s: %s %s … writes shared state with a value that is neither keyed by the iteration's key, constant, nor a commutative accumulation: the final value depends on iteration order", pos, exprStr(lhs), tok))
}

// exprCalls inspects the calls (and map reads) inside an expression.
func (cc *commuteCtx) exprCalls(p *packages.Package, e ast.Expr, keys, locals map[types.Object]bool, where string) {
	if e == nil {
		return
	}
	info := p.TypesInfo
	ast.Inspect(e, func(n ast.Node) bool {
		call, ok := n.(*ast.CallExpr)
		if !ok {
			if _, isLit := n.(*ast.FuncLit); isLit {
				return false
			}
			return true
		}
		pos := p.Fset.Position(call.Pos())
		if tv, ok := info.Types[call.Fun]; ok && tv.IsType() {
			return true
		}
		if id := identOf(call.Fun); id != nil {
			if _, isB := info.Uses[id].(*types.Builtin); isB {
				switch id.Name {
				case "delete":
					if len(call.Args) == 2 {
						root := rootObj(info, call.Args[0])
						if (root != nil && locals[root]) || isKeyDerived(info, call.Args[1], keys) {
							cc.res.keyed++
						} else {
							cc.res.problems = append(cc.res.problems, fmt.Sprintf("%s: delete under a key that is not the iteration's key", pos))
						}
					}
				case "panic":
					cc.res.notes = append(cc.res.notes, fmt.Sprintf("%s: panics inside the loop: when several elements are illegal, which one is reported depends on iteration order (the rejection itself does not)", pos))
				}
				return true
			}
		}
		fn := Callee(info, call)
		if fn == nil {
			cc.res.problems = append(cc.res.problems, fmt.Sprintf("%s: call through a function value inside the map range cannot be classified", pos))
			return true
		}
		if !inModule(fn) {
			pk := ""
			if fn.Pkg() != nil {
				pk = fn.Pkg().Path()
			}
			if !pureExternal[pk] {
				cc.res.problems = append(cc.res.problems, fmt.Sprintf("%s: call to %s inside the map range cannot be classified", pos, FuncID(fn)))
			}
			return true
		}
		fd := cc.c.Decl(fn)
		if fd == nil || fd.Body == nil {
			cc.res.problems = append(cc.res.problems, fmt.Sprintf("%s: call to %s (no body) inside the map range", pos, FuncID(fn)))
			return true
		}
		for _, f := range cc.stack {
			if f == fn {
				return true // recursion: already being classified
			}
		}
		if len(cc.stack) >= 4 {
			cc.res.problems = append(cc.res.problems, fmt.Sprintf("%s: call chain deeper than 4 inside the map range (%s)", pos, FuncID(fn)))
			return true
		}
		cp := cc.c.DeclPkg(fn)
		// never-returning helpers (panicSyntaxError…)
		se := &symExec{c: cc.c}
		if se.neverReturns(fn) {
			cc.res.notes = append(cc.res.notes, fmt.Sprintf("%s: %s raises from inside the loop: when several elements are illegal, which one is reported depends on iteration order (the rejection itself does not)", pos, fn.Name()))
			return true
		}
		cc.res.calls++
		ckeys := map[types.Object]bool{}
		clocals := map[types.Object]bool{}
		i := 0
		for _, f := range fd.Type.Params.List {
			for _, nm := range f.Names {
				if i < len(call.Args) && isKeyDerived(info, call.Args[i], keys) {
					ckeys[cp.TypesInfo.Defs[nm]] = true
				}
				i++
			}
		}
		// value receivers and by-value struct params are copies (local to the call)
		if fd.Recv != nil && len(fd.Recv.List) == 1 && len(fd.Recv.List[0].Names) == 1 {
			ro := cp.TypesInfo.Defs[fd.Recv.List[0].Names[0]]
			if sel, ok := unparen(call.Fun).(*ast.SelectorExpr); ok && isKeyDerived(info, sel.X, keys) {
				ckeys[ro] = true
			}
		}
		cc.stack = append(cc.stack, fn)
		cc.stmts(cp, fd.Body.List, ckeys, clocals, false, where+" → "+fn.Name())
		cc.stack = cc.stack[:len(cc.stack)-1]
		return true
	})
	// reads of maps under a non-key index are checked by the caller (readsOfWrittenMaps)
}

// mapRange describes one range over a map.
type mapRange struct {
	pkg  *packages.Package
	fd   *ast.FuncDecl
	rs   *ast.RangeStmt
	what string
}

func findMapRanges(c *Ctx, rels []string, reach map[*types.Func]bool) []mapRange {
	var out []mapRange
	for _, rel := range rels {
		p := c.Pkg(rel)
		if p == nil {
			continue
		}
		for _, f := range c.Files(p) {
			for _, d := range f.Decls {
				fd, ok := d.(*ast.FuncDecl)
				if !ok || fd.Body == nil {
					continue
				}
				if fo, ok := p.TypesInfo.Defs[fd.Name].(*types.Func); ok && reach != nil && !reach[fo] {
					continue
				}
				ast.Inspect(fd.Body, func(n ast.Node) bool {
					rs, ok := n.(*ast.RangeStmt)
					if !ok {
						return true
					}
					if tv, ok := p.TypesInfo.Types[rs.X]; ok {
						if _, isMap := tv.Type.Underlying().(*types.Map); isMap {
							out = append(out, mapRange{p, fd, rs, exprStr(rs.X)})
						}
					}
					return true
				})
			}
		}
	}
	return out
}

func classifyMapRange(c *Ctx, mr mapRange) *commuteResult {
	info := mr.pkg.TypesInfo
	res := &commuteResult{}
	cc := &commuteCtx{c: c, res: res, needSort: map[types.Object]token.Pos{}}
	keys := map[types.Object]bool{}
	locals := map[types.Object]bool{}
	for _, e := range []ast.Expr{mr.rs.Key, mr.rs.Value} {
		if id := identOf(e); id != nil {
			if o := info.Defs[id]; o != nil {
				keys[o] = true
				locals[o] = true
			}
		}
	}
	if fo, ok := info.Defs[mr.fd.Name].(*types.Func); ok {
		cc.stack = []*types.Func{fo}
	}
	cc.stmts(mr.pkg, mr.rs.Body.List, keys, locals, true, declID(mr.pkg, mr.fd))
	// reads of the ranged map itself (or maps written in the loop) under another key
	ranged := rootObj(info, mr.rs.X)
	ast.Inspect(mr.rs.Body, func(n ast.Node) bool {
		ix, ok := n.(*ast.IndexExpr)
		if !ok {
			return true
		}
		if rootObj(info, ix.X) == ranged && ranged != nil && exprStr(ix.X) == exprStr(mr.rs.X) && !isKeyDerived(info, ix.Index, keys) {
			res.problems = append(res.problems, fmt.Sprintf("%s: the ranged map is accessed under a key other than the iteration's while it is being modified", mr.pkg.Fset.Position(ix.Pos())))
		}
		return true
	})
	// appended slices must be sorted after the loop
	for obj, pos := range cc.needSort {
		sorted := false
		ast.Inspect(mr.fd.Body, func(n ast.Node) bool {
			call, ok := n.(*ast.CallExpr)
			if !ok || call.Pos() < mr.rs.End() {
				return true
			}
			if fn := Callee(info, call); fn != nil && fn.Pkg() != nil && fn.Pkg().Path() == "sort" && len(call.Args) > 0 {
				if rootObj(info, call.Args[0]) == obj {
					sorted = true
				}
			}
			return true
		})
		if !sorted {
			res.problems = append(res.problems, fmt.Sprintf("%s: %s is appended to in map-iteration order and not sorted afterwards", mr.pkg.Fset.Position(pos), obj.Name()))
		} else {
			res.notes = append(res.notes, obj.Name()+" is appended in iteration order and sorted after the loop")
		}
	}
	res.problems = uniq(res.problems)
	res.notes = uniq(res.notes)
	return res
}

func shortPos(s string, repo string) string { return strings.TrimPrefix(s, repo+"/") }
