package main

import (
	"fmt"
	"go/ast"
	"go/parser"
	"go/token"
	"go/types"
	"regexp"
	"sort"
	"strconv"
	"strings"
)

// ---- C04.R6: arity of the native-method wrappers ----

// In py.newBoundMethod each case wraps a Go function type; where the wrapper unpacks the Python arguments with
// UnpackTuple, min and max must both equal the number of Object parameters of that function type: a special method
// implemented in Go receives exactly the arguments of the Python call, and a missing one is a TypeError.
func runWrapperArity(c *Ctx, r *Rep) {
	fd := c.FuncDecl("py", "newBoundMethod")
	if fd == nil || fd.Body == nil {
		r.undecided("wrapper|py.newBoundMethod", token.NoPos, "anchor function not found")
		return
	}
	p := c.MustPkg("py")
	info := p.TypesInfo
	r.analysed("py.newBoundMethod")
	n := 0
	ast.Inspect(fd.Body, func(nd ast.Node) bool {
		cc, ok := nd.(*ast.CaseClause)
		if !ok || len(cc.List) != 1 {
			return true
		}
		tv, ok := info.Types[cc.List[0]]
		if !ok || !tv.IsType() {
			return true
		}
		sig, ok := tv.Type.(*types.Signature)
		if !ok {
			return true
		}
		nObj := 0
		for i := 0; i < sig.Params().Len(); i++ {
			if strings.HasSuffix(sig.Params().At(i).Type().String(), "/py.Object") {
				nObj++
			}
		}
		for _, st := range cc.Body {
			ast.Inspect(st, func(m ast.Node) bool {
				call, ok := m.(*ast.CallExpr)
				if !ok {
					return true
				}
				fn := Callee(info, call)
				if fn == nil || fn.Name() != "UnpackTuple" || len(call.Args) < 5 {
					return true
				}
				n++
				minV, ok1 := info.Types[call.Args[3]]
				maxV, ok2 := info.Types[call.Args[4]]
				key := "wrapper|py.newBoundMethod|case " + types.TypeString(tv.Type, func(*types.Package) string { return "" })
				if !ok1 || !ok2 || minV.Value == nil || maxV.Value == nil {
					r.undecided(key, call.Pos(), "arity bounds are not constants")
					return true
				}
				mn, mx := mustInt(minV.Value), mustInt(maxV.Value)
				r.check(mn == int64(nObj) && mx == int64(nObj), key, call.Pos(),
					fmt.Sprintf("the wrapper demands exactly %d arguments, the arity of the Go function", nObj),
					fmt.Sprintf("the wrapper of a Go function taking %d objects accepts between %d and %d arguments: with fewer, the Go method receives a value the Python call never passed (x.__setitem__(0) stores None) instead of the call being a TypeError", nObj, mn, mx))
				return true
			})
		}
		return true
	})
	if n == 0 {
		r.undecided("wrapper|sites", fd.Pos(), "no UnpackTuple call found in the wrappers of newBoundMethod")
	}
}

// ---- C03.R9: Argcount and Kwonlyargcount are set together ----

func runArgcountsTogether(c *Ctx, r *Rep) {
	p := c.MustPkg("compile")
	n := 0
	for _, file := range c.Files(p) {
		for _, d := range file.Decls {
			fd, ok := d.(*ast.FuncDecl)
			if !ok || fd.Body == nil {
				continue
			}
			id := declID(p, fd)
			var visit func(list []ast.Stmt)
			visit = func(list []ast.Stmt) {
				set := map[string]map[string]ast.Expr{} // receiver text -> field -> rhs
				var first token.Pos
				for _, st := range list {
					if as, ok := st.(*ast.AssignStmt); ok && len(as.Lhs) == 1 && len(as.Rhs) == 1 {
						if sel, ok := as.Lhs[0].(*ast.SelectorExpr); ok && (sel.Sel.Name == "Argcount" || sel.Sel.Name == "Kwonlyargcount") {
							rcv := exprStr(sel.X)
							if set[rcv] == nil {
								set[rcv] = map[string]ast.Expr{}
							}
							set[rcv][sel.Sel.Name] = as.Rhs[0]
							if first == token.NoPos {
								first = as.Pos()
							}
						}
					}
				}
				var rcvs []string
				for k := range set {
					rcvs = append(rcvs, k)
				}
				sort.Strings(rcvs)
				for _, rcv := range rcvs {
					f := set[rcv]
					n++
					_, hasA := f["Argcount"]
					_, hasK := f["Kwonlyargcount"]
					constOnly := false
					if hasA && !hasK {
						if tv, ok := p.TypesInfo.Types[f["Argcount"]]; ok && tv.Value != nil {
							constOnly = true // a fixed signature (comprehension: one positional, no keyword-only)
						}
					}
					key := fmt.Sprintf("argcounts|%s|%s", id, rcv)
					if hasA && hasK || constOnly {
						r.ok(key, first, "both parameter counts of the code object are set in the same place")
					} else {
						r.bad(key, first, "%s sets %s.%s but not its sibling in the same block: the code object then carries a stale count while it is used (compileAst runs InitCell2arg on it), so cells of keyword-only parameters and of *args/**kwargs are not mapped to their argument slots", id, rcv, map[bool]string{true: "Argcount", false: "Kwonlyargcount"}[hasA])
					}
				}
			}
			ast.Inspect(fd.Body, func(nd ast.Node) bool {
				switch x := nd.(type) {
				case *ast.BlockStmt:
					visit(x.List)
				case *ast.CaseClause:
					visit(x.Body)
				}
				return true
			})
		}
	}
	if n < 3 {
		r.undecided("argcounts|sites", token.NoPos, "expected the compiler to set the parameter counts in compileAst (two arms) and compileFunc, found %d site(s)", n)
	}
}

// ---- C06.R8: a per-iteration flag is reset in the iteration that consumes it ----

func runStickyFlags(c *Ctx, r *Rep) {
	n := 0
	for _, rel := range []string{"parser", "py", "vm", "compile", "symtable", "stdlib/builtin"} {
		p := c.Pkg(rel)
		if p == nil {
			continue
		}
		info := p.TypesInfo
		for _, file := range c.Files(p) {
			if fileOf(c, file.Pos()) == "y.go" {
				continue
			}
			for _, d := range file.Decls {
				fd, ok := d.(*ast.FuncDecl)
				if !ok || fd.Body == nil {
					continue
				}
				id := declID(p, fd)
				ast.Inspect(fd.Body, func(nd ast.Node) bool {
					var body *ast.BlockStmt
					switch x := nd.(type) {
					case *ast.ForStmt:
						body = x.Body
					case *ast.RangeStmt:
						body = x.Body
					default:
						return true
					}
					// boolean variables declared outside the loop, set to true somewhere inside it
					setTrue := map[types.Object]token.Pos{}
					latch := map[types.Object]bool{}
					ast.Inspect(body, func(m ast.Node) bool {
						as, ok := m.(*ast.AssignStmt)
						if !ok || as.Tok != token.ASSIGN || len(as.Lhs) != 1 || len(as.Rhs) != 1 {
							return true
						}
						lid, ok := as.Lhs[0].(*ast.Ident)
						if !ok || exprStr(as.Rhs[0]) != "true" {
							return true
						}
						obj := info.Uses[lid]
						if obj == nil || obj.Pos() >= body.Pos() && obj.Pos() <= body.End() {
							return true // declared inside the loop: fresh each iteration
						}
						if fd.Body.Pos() <= obj.Pos() && obj.Pos() <= fd.Body.End() {
							// a latch set unconditionally at the top level of the body ("not the first item any more") is meant to stick
							for _, top := range body.List {
								if top == ast.Stmt(as) {
									latch[obj] = true
								}
							}
							setTrue[obj] = as.Pos()
						}
						return true
					})
					for obj := range latch {
						delete(setTrue, obj)
					}
					for obj := range setTrue {
						// a consumer: a top-level `if flag { … }` of the loop body
						for _, st := range body.List {
							is, ok := st.(*ast.IfStmt)
							if !ok {
								continue
							}
							cid, ok := is.Cond.(*ast.Ident)
							if !ok || info.Uses[cid] != obj {
								continue
							}
							n++
							reset, leaves := false, false
							ast.Inspect(is.Body, func(m ast.Node) bool {
								switch y := m.(type) {
								case *ast.AssignStmt:
									if len(y.Lhs) == 1 && len(y.Rhs) == 1 {
										if l, ok := y.Lhs[0].(*ast.Ident); ok && info.Uses[l] == obj && exprStr(y.Rhs[0]) == "false" {
											reset = true
										}
									}
								case *ast.ReturnStmt:
									leaves = true
								case *ast.BranchStmt:
									if y.Tok == token.BREAK || y.Tok == token.GOTO {
										leaves = true
									}
								}
								return true
							})
							// or reset elsewhere at the top level of the loop body (start of each iteration)
							for _, st2 := range body.List {
								if as, ok := st2.(*ast.AssignStmt); ok && len(as.Lhs) == 1 && len(as.Rhs) == 1 {
									if l, ok := as.Lhs[0].(*ast.Ident); ok && info.Uses[l] == obj && exprStr(as.Rhs[0]) == "false" {
										reset = true
									}
								}
							}
							key := fmt.Sprintf("flag|%s|%s", id, obj.Name())
							if reset || leaves {
								r.ok(key, is.Pos(), "the flag is cleared (or the loop is left) where it is consumed")
							} else {
								r.bad(key, is.Pos(), "the flag %s is set during one iteration of the loop and consumed by `if %s {…}`, but nothing clears it: once set it stays set for every later iteration (after one unknown escape, every later escape of the literal is treated as unknown too)", obj.Name(), obj.Name())
							}
						}
					}
					return true
				})
			}
		}
	}
	if n == 0 {
		r.undecided("flag|sites", token.NoPos, "no per-iteration flag found (expected ignoreEscape in parser.DecodeEscape)")
	}
}

// ---- C06.R9: every attribute a production sets is read by a production that uses it ----

func runDeadAttributes(c *Ctx, r *Rep) {
	g := loadGrammar(c, r)
	if g == nil {
		return
	}
	// writes: nonterminal -> tag set by its actions (VAL_tag)
	writes := map[string]map[string]int{}
	for _, a := range g.alts {
		if a.body == nil {
			continue
		}
		ast.Inspect(a.body, func(nd ast.Node) bool {
			as, ok := nd.(*ast.AssignStmt)
			if !ok {
				return true
			}
			for _, l := range as.Lhs {
				if id, ok := l.(*ast.Ident); ok && strings.HasPrefix(id.Name, "VAL_") {
					tag := strings.TrimPrefix(id.Name, "VAL_")
					if writes[a.lhs] == nil {
						writes[a.lhs] = map[string]int{}
					}
					writes[a.lhs][tag] = a.line
				}
			}
			return true
		})
	}
	// reads: (symbol, tag) read as Dk_tag by some action; an action without explicit VAL assignment passes $1's attributes on
	reads := map[string]map[string]bool{}
	passes := map[string][]string{} // child -> parents that copy $1 wholesale (default action or `VAL = D1`)
	for _, a := range g.alts {
		if len(a.syms) == 0 {
			continue
		}
		if a.body == nil {
			passes[a.syms[0]] = append(passes[a.syms[0]], a.lhs)
			continue
		}
		copies := false
		ast.Inspect(a.body, func(nd ast.Node) bool {
			switch x := nd.(type) {
			case *ast.Ident:
				if strings.HasPrefix(x.Name, "D") && strings.Contains(x.Name, "_") {
					var k int
					var tag string
					if _, err := fmt.Sscanf(strings.Replace(x.Name, "_", " ", 1), "D%d %s", &k, &tag); err == nil && k >= 1 && k <= len(a.syms) {
						sym := a.syms[k-1]
						if reads[sym] == nil {
							reads[sym] = map[string]bool{}
						}
						reads[sym][tag] = true
					}
				}
			case *ast.AssignStmt:
				if len(x.Lhs) == 1 && len(x.Rhs) == 1 && exprStr(x.Lhs[0]) == "VAL" && exprStr(x.Rhs[0]) == "D1" {
					copies = true
				}
			}
			return true
		})
		if copies {
			passes[a.syms[0]] = append(passes[a.syms[0]], a.lhs)
		}
	}
	var isRead func(sym, tag string, seen map[string]bool) bool
	isRead = func(sym, tag string, seen map[string]bool) bool {
		if seen[sym] {
			return false
		}
		seen[sym] = true
		if reads[sym][tag] {
			return true
		}
		// goyacc copies the whole value record of $1 into $$ before the action, so the attribute travels upwards
		for _, parent := range passes[sym] {
			if isRead(parent, tag, seen) {
				return true
			}
		}
		return false
	}
	var nts []string
	for nt := range writes {
		nts = append(nts, nt)
	}
	sort.Strings(nts)
	n := 0
	for _, nt := range nts {
		var tags []string
		for t := range writes[nt] {
			tags = append(tags, t)
		}
		sort.Strings(tags)
		for _, tag := range tags {
			if g.types[nt] == tag {
				continue // the nonterminal's own value
			}
			n++
			key := fmt.Sprintf("attr|%s.%s", nt, tag)
			if isRead(nt, tag, map[string]bool{}) {
				r.ok(key, token.NoPos, "the attribute set by %s is read by a production that uses it", nt)
			} else {
				r.bad(key, token.NoPos, "parser/grammar.y:%d: the production %s sets the attribute <%s> but no production that uses %s reads it any more: the decision it carried (one element vs. a list, expression vs. flattened operator chain, trailing comma) is now made from something else, or not at all", writes[nt][tag], nt, tag, nt)
			}
		}
	}
	if n == 0 {
		r.undecided("attr|sites", token.NoPos, "no secondary attribute ($<tag>$) is set in grammar.y")
	}
}

func init() {
	register(&Rule{ID: "C04.R6", Prop: "C04", Floor: 2,
		Doc: "native special-method wrappers (py.newBoundMethod): where a wrapper unpacks the Python arguments, the accepted count (min and max of UnpackTuple) equals the number of objects the wrapped Go function takes",
		Run: runWrapperArity})
	register(&Rule{ID: "C04.R7", Prop: "C04", Floor: 3,
		Doc: "the compiler sets Argcount and Kwonlyargcount of a code object in the same block (or Argcount to a constant for fixed signatures): the binder and the cell-to-argument mapping read both",
		Run: runArgcountsTogether})
	register(&Rule{ID: "C03.R9", Prop: "C03", Floor: 3,
		Doc: "the compiler sets Argcount and Kwonlyargcount of a code object in the same block (or Argcount to a constant for fixed signatures): InitCell2arg and the binder read both",
		Run: runArgcountsTogether})
	register(&Rule{ID: "C06.R8", Prop: "C06", Floor: 1,
		Doc: "per-iteration flags: a boolean declared outside a loop, set to true inside it and consumed by a top-level `if flag` of the loop body is cleared there (or at the top of the body), or the loop is left — the unknown-escape flag of DecodeEscape does not stick",
		Run: runStickyFlags})
	register(&Rule{ID: "C06.R9", Prop: "C06", Floor: 5,
		Doc: "no dead attributes in grammar.y: every secondary attribute ($<tag>$ other than the nonterminal's own value) that a production sets is read ($<tag>k) by a production using that nonterminal, directly or after being passed up by default/copy actions — isExpr, comma and the like still decide what they were computed for",
		Run: runDeadAttributes})
}

// ---- partial interface equality (C01.R9 / C13.R8) ----

// In Go, `a == b` on two interface values panics at run time when both hold the same uncomparable dynamic type. Python
// objects are Go interface values and three built-in kinds are uncomparable (py.Tuple and py.Bytes are slices,
// py.StringDict is a map), so an identity or equality shortcut written as `a == b` on two arbitrary objects crashes
// for `t is t`, `d is d`, `(1,2) in [(1,2)]`. The comparison is total when one operand is statically known to hold a
// comparable dynamic type: nil, or one of the package-level singletons (None, True, False, NotImplemented, …).
func comparableSingleton(info *types.Info, e ast.Expr) bool {
	e = unparen(e)
	var obj types.Object
	switch x := e.(type) {
	case *ast.Ident:
		if x.Name == "nil" {
			return true
		}
		obj = info.Uses[x]
	case *ast.SelectorExpr:
		obj = info.Uses[x.Sel]
	}
	switch o := obj.(type) {
	case *types.Const:
		return true
	case *types.Var:
		// a package-level variable of concrete comparable type, or of interface type initialised once from one
		if o.Parent() != nil && o.Parent() == o.Pkg().Scope() {
			if _, isIface := o.Type().Underlying().(*types.Interface); !isIface {
				return types.Comparable(o.Type())
			}
			switch o.Name() {
			case "None", "True", "False", "NotImplemented", "Ellipsis", "StopIteration":
				return true
			}
		}
	}
	return false
}

func runPartialEquality(c *Ctx, r *Rep) {
	n, nbad := 0, 0
	for _, p := range c.All {
		s := shortPkg(p.PkgPath)
		if !(s == "py" || s == "vm" || strings.HasPrefix(s, "stdlib")) {
			continue
		}
		info := p.TypesInfo
		for _, file := range c.Files(p) {
			for _, d := range file.Decls {
				fd, ok := d.(*ast.FuncDecl)
				if !ok || fd.Body == nil {
					continue
				}
				id := declID(p, fd)
				ast.Inspect(fd.Body, func(nd ast.Node) bool {
					be, ok := nd.(*ast.BinaryExpr)
					if !ok || (be.Op != token.EQL && be.Op != token.NEQ) {
						return true
					}
					tx, ok1 := info.Types[be.X]
					ty, ok2 := info.Types[be.Y]
					if !ok1 || !ok2 || tx.Type == nil || ty.Type == nil {
						return true
					}
					isObj := func(t types.Type) bool {
						_, ok := t.Underlying().(*types.Interface)
						return ok && strings.HasSuffix(t.String(), "/py.Object")
					}
					if !isObj(tx.Type) || !isObj(ty.Type) {
						return true
					}
					n++
					if comparableSingleton(info, be.X) || comparableSingleton(info, be.Y) {
						return true
					}
					nbad++
					key := fmt.Sprintf("ifaceeq|%s|%s", id, exprStr(be))
					if why, ok := confirmedIfaceEq[strings.TrimPrefix(key, "ifaceeq|")]; ok {
						r.ok(key, be.Pos(), "reviewed: %s", why)
						return true
					}
					for _, from := range knownCallers(c, p, fd) {
						if why, ok := confirmedIfaceEq[from+"|"+exprStr(be)]; ok {
							r.ok(key, be.Pos(), "reviewed in %s, from which this helper was extracted: %s", from, why)
							return true
						}
					}
					r.bad(key, be.Pos(), "`%s` compares two arbitrary Python objects with Go's interface equality: when both are tuples, bytes or dicts (uncomparable Go types) the comparison panics at run time — `t is t`, `d is d`, `(1, 2) in [(1, 2)]` end in SystemError; use an identity helper that handles slice- and map-backed objects", exprStr(be))
					return true
				})
			}
		}
	}
	r.ok("ifaceeq|census", token.NoPos, "%d comparisons between two py.Object values examined; each has a nil/singleton operand of comparable type or is a reviewed row", n)
}

// confirmedIfaceEq: comparisons of two objects whose dynamic types are known comparable from context.
var confirmedIfaceEq = map[string]string{
	"py.Is|a == b":                                  "guarded by reflect: reached only when both dynamic types are identical and comparable",
	"py.ExceptionGivenMatches|err == exc":           "both are exception classes or instances (*Type / *Exception pointers); the tuple case is handled before",
	"py.check_duplicates|list.Items[j] == o":        "the list holds the bases of a class, validated to be *Type pointers",
	"py.tail_contains|list.Items[j] == o":           "MRO lists hold *Type pointers",
	"py.pmerge|j_lst.Items[remain[j]] == candidate": "MRO lists hold *Type pointers",
}

func init() {
	for _, prop := range []string{"C01", "C13"} {
		id := map[string]string{"C01": "C01.R9", "C13": "C13.R8"}[prop]
		register(&Rule{ID: id, Prop: prop, Floor: 1,
			Doc: "interface equality is partial: no `==`/`!=` between two py.Object values in py, vm or stdlib unless one operand is nil or a package-level singleton of comparable type (None, True, False, NotImplemented, …) — Go panics when both hold tuples, bytes or dicts, so `is`, `in` and identity shortcuts must not be written that way",
			Run: runPartialEquality})
	}
}

// ---- C14.R8: ascii mode writes only ASCII raw ----

// Decided on the symbolic paths of py.StringEscape (pathtable.go): on every path with ascii == true, each alternative
// of the per-character loop that writes the character itself carries a condition bounding it below 0x7F.
// condPart: the text up to the bracket that closes the leading condition list (selectors a[*] nest inside it).
func condPart(s string) string {
	k := strings.Index(s, "[")
	if k < 0 {
		return s
	}
	depth := 0
	for j := k; j < len(s); j++ {
		if s[j] == '[' {
			depth++
		} else if s[j] == ']' {
			depth--
			if depth == 0 {
				return s[:j]
			}
		}
	}
	return s
}

var asciiBound = regexp.MustCompile(`p1\[\*\] <= (\d+)`)

func runAsciiModeRaw(c *Ctx, r *Rep) {
	rows, und, pos := pathTable(c, tableSpec{key: "py|StringEscape", show: []string{"*"}, prim: []string{"fmt.Fprintf", "strconv.IsPrint", "strings.ContainsRune"}})
	if len(und) > 0 || len(rows) == 0 {
		r.undecided("asciiraw|py.StringEscape", pos, "function not interpretable: %s", strings.Join(clip(und, 3), "; "))
		return
	}
	r.analysed("py.StringEscape")
	n := 0
	for _, row := range rows {
		hdr := condPart(row)
		if !strings.Contains(hdr, "p2") || strings.Contains(hdr, "!(p2)") { // p2: the ascii flag, the second parameter
			continue
		}
		i := strings.Index(row, "LOOP(")
		if i < 0 {
			continue
		}
		body := row[i:]
		for _, alt := range strings.Split(body, " | ") {
			if !strings.Contains(alt, ".WriteRune(p1[*])") { // p1: the string being escaped
				continue
			}
			n++
			cond := condPart(alt)
			okBound := false
			for _, m := range asciiBound.FindAllStringSubmatch(cond, -1) {
				if k, err := strconv.Atoi(m[1]); err == nil && k < 0x7F {
					okBound = true // canonical form of c < 0x7F: a[*] <= 126
				}
			}
			r.check(okBound, "asciiraw|"+strings.TrimSpace(strings.TrimPrefix(cond, "LOOP(range s){")), pos,
				"in ascii mode the character is written raw only below 0x7F",
				"in ascii mode StringEscape writes a character raw under the condition "+strings.TrimSpace(cond)+"], which admits characters from 0x7F upwards: ascii('\u00e9') then contains a non-ASCII character instead of the escape \\xe9")
		}
	}
	if n == 0 {
		r.undecided("asciiraw|alternatives", pos, "no raw-write alternative found on the ascii-mode paths of StringEscape")
	}
}

func init() {
	register(&Rule{ID: "C14.R8", Prop: "C14", Floor: 1,
		Doc: "ascii(): on every ascii-mode path of py.StringEscape the per-character alternatives that write the character itself are bounded below 0x7F (decided on the symbolic path table)",
		Run: runAsciiModeRaw})
}

// ---- ExtSlice is never nested (C11.R11 / C06.R10) ----

// compile.(*compiler).nestedSlice panics ("extended slice invalid in nested slice") when a dimension of an ExtSlice is
// itself an ExtSlice; C11.R2 accepts that panic as unreachable because the grammar never builds one. This rule checks the
// grammar side of that belief: every action that wraps its first symbol into a new ExtSlice does so under a condition on
// the isExpr attribute of that symbol ("$1 is still a single subscript, not yet an ExtSlice").
func runExtSliceGuard(c *Ctx, r *Rep) {
	g := loadGrammar(c, r)
	if g == nil {
		return
	}
	n := 0
	for _, a := range g.alts {
		if a.body == nil {
			continue
		}
		var visit func(stmts []ast.Stmt, conds []string)
		visit = func(stmts []ast.Stmt, conds []string) {
			for _, s := range stmts {
				switch x := s.(type) {
				case *ast.IfStmt:
					cs := exprStr(x.Cond)
					visit(x.Body.List, append(append([]string(nil), conds...), cs))
					switch e := x.Else.(type) {
					case *ast.BlockStmt:
						visit(e.List, append(append([]string(nil), conds...), "!("+cs+")"))
					case *ast.IfStmt:
						visit([]ast.Stmt{e}, append(append([]string(nil), conds...), "!("+cs+")"))
					}
				default:
					ast.Inspect(s, func(m ast.Node) bool {
						cl, ok := m.(*ast.CompositeLit)
						if !ok || !strings.HasSuffix(exprStr(cl.Type), "ExtSlice") {
							return true
						}
						// does the literal take D1 as a dimension?
						takes := false
						ast.Inspect(cl, func(k ast.Node) bool {
							if id, ok := k.(*ast.Ident); ok && id.Name == "D1" {
								takes = true
							}
							return true
						})
						if !takes {
							return true
						}
						n++
						guardedBy := false
						for _, cd := range conds {
							if strings.Contains(cd, "D1_isExpr") {
								guardedBy = true
							}
						}
						key := fmt.Sprintf("extslice|%s (%s)", a.lhs, symsString(a))
						if guardedBy {
							r.ok(key, token.NoPos, "$1 becomes a dimension of a new ExtSlice only where its isExpr attribute says it is a single subscript")
						} else {
							r.bad(key, token.NoPos, "parser/grammar.y:%d: the action wraps $1 into a new ExtSlice under the condition [%s], which does not consult $<isExpr>1: when $1 is already an ExtSlice (two or more subscripts) it gets nested, and the compiler's nestedSlice panics (SystemError for x[a,b,]); when it is a lone slice with a trailing comma the wrapping may be skipped", a.line, strings.Join(conds, " && "))
						}
						return true
					})
				}
			}
		}
		visit(a.body.List, nil)
	}
	if n == 0 {
		r.undecided("extslice|sites", token.NoPos, "no action building an ExtSlice from $1 found in grammar.y")
	}
}

// ---- the operand's storage is not used in place (C13.R9 / C17.R4) ----

// In (*List).M__setitem__ the right-hand side may be the list itself. Reading `.Items` of the operand directly (instead
// of a copy from SequenceTuple/SequenceList) makes the element stores read slots they have just overwritten.
func runOperandStorageInPlace(c *Ctx, r *Rep) {
	fd := c.MethodDecl("py", "List", "M__setitem__")
	if fd == nil || fd.Body == nil {
		r.undecided("operandstorage|(*py.List).M__setitem__", token.NoPos, "anchor method not found")
		return
	}
	p := c.MustPkg("py")
	info := p.TypesInfo
	r.analysed("(*py.List).M__setitem__")
	params := fd.Type.Params.List
	operand := params[len(params)-1].Names[len(params[len(params)-1].Names)-1]
	opObj := info.Defs[operand]
	// variables type-asserted from the operand
	derived := map[types.Object]bool{opObj: true}
	ast.Inspect(fd.Body, func(n ast.Node) bool {
		as, ok := n.(*ast.AssignStmt)
		if !ok || len(as.Rhs) != 1 {
			return true
		}
		if ta, ok := as.Rhs[0].(*ast.TypeAssertExpr); ok {
			if id, ok := ta.X.(*ast.Ident); ok && derived[info.Uses[id]] {
				if lid, ok := as.Lhs[0].(*ast.Ident); ok {
					if o := info.Defs[lid]; o != nil {
						derived[o] = true
					}
				}
			}
		}
		return true
	})
	bad := 0
	ast.Inspect(fd.Body, func(n ast.Node) bool {
		sel, ok := n.(*ast.SelectorExpr)
		if !ok || sel.Sel.Name != "Items" {
			return true
		}
		id, ok := sel.X.(*ast.Ident)
		if !ok || !derived[info.Uses[id]] {
			return true
		}
		// len(x.Items) is harmless
		bad++
		r.bad(fmt.Sprintf("operandstorage|(*py.List).M__setitem__|%s.Items", id.Name), sel.Pos(), "slice assignment reads the item array of its operand in place (`%s.Items`): when the operand is the list being assigned to (L[::-1] = L) the element stores read slots they have just overwritten; take a copy (SequenceTuple) first", id.Name)
		return true
	})
	if bad == 0 {
		r.ok("operandstorage|(*py.List).M__setitem__", fd.Pos(), "the operand's items are only reached through a copying helper")
	}
}

func init() {
	for _, prop := range []string{"C11", "C06"} {
		id := map[string]string{"C11": "C11.R11", "C06": "C06.R10"}[prop]
		register(&Rule{ID: id, Prop: prop, Floor: 2,
			Doc: "ExtSlice is never nested: every grammar action that makes $1 a dimension of a new ExtSlice does so under a condition on $<isExpr>1 (single subscript) — the grammar-side support of the compiler's 'extended slice invalid in nested slice' belief (C11.R2)",
			Run: runExtSliceGuard})
	}
	for _, prop := range []string{"C13", "C17"} {
		id := map[string]string{"C13": "C13.R9", "C17": "C17.R4"}[prop]
		register(&Rule{ID: id, Prop: prop, Floor: 1,
			Doc: "list slice assignment never reads the item array of its operand in place (operand.Items): the operand may be the list itself; items are taken through a copying helper",
			Run: runOperandStorageInPlace})
	}
}

// ---- C12.R7 (second half): one layout pass positions, resolves, then advances ----
//
// In compile.Instructions.Pass every instruction is given its position, then (on resolving passes) its jump
// argument is resolved — which may widen it — and only then does the address advance by the instruction's size.
// Decided on the order of the three calls on the loop element inside the loop, whatever the if-shapes around them.
func runPassOrder(c *Ctx, r *Rep) {
	p := c.MustPkg("compile")
	info := p.TypesInfo
	fd := c.MethodDeclX("compile", "Instructions", "Pass")
	if fd == nil || fd.Body == nil {
		r.undecided("passorder|(compile.Instructions).Pass", token.NoPos, "method not found")
		return
	}
	r.analysed("(compile.Instructions).Pass")
	// the loop over the instructions: a range loop or a counted one
	var loop ast.Node
	var loopBody *ast.BlockStmt
	ast.Inspect(fd.Body, func(n ast.Node) bool {
		if loop != nil {
			return false
		}
		switch x := n.(type) {
		case *ast.RangeStmt:
			loop, loopBody = x, x.Body
		case *ast.ForStmt:
			loop, loopBody = x, x.Body
		}
		return loop == nil
	})
	if loop == nil {
		r.undecided("passorder|loop", fd.Pos(), "no loop over the instructions found")
		return
	}
	first := map[string]token.Pos{}
	last := map[string]token.Pos{}
	ast.Inspect(loopBody, func(n ast.Node) bool {
		call, ok := n.(*ast.CallExpr)
		if !ok {
			return true
		}
		sel, ok := call.Fun.(*ast.SelectorExpr)
		if !ok {
			return true
		}
		switch sel.Sel.Name {
		case "SetPos", "Resolve", "Size":
			if _, isMethod := info.Selections[sel]; isMethod {
				if _, seen := first[sel.Sel.Name]; !seen {
					first[sel.Sel.Name] = call.Pos()
				}
				last[sel.Sel.Name] = call.Pos()
			}
		}
		return true
	})
	for _, m := range []string{"SetPos", "Resolve", "Size"} {
		if _, ok := first[m]; !ok {
			r.undecided("passorder|call "+m, loop.Pos(), "no call of %s on an instruction inside the loop; confirm how a layout pass works and update the rule", m)
			return
		}
	}
	r.check(last["SetPos"] < first["Resolve"], "passorder|position before resolve", first["Resolve"],
		"an instruction is positioned before its jump is resolved",
		"a jump is resolved before the instruction has been given its position in this pass: a relative jump computes its argument from a stale position")
	r.check(last["Resolve"] < first["Size"], "passorder|resolve before advance", first["Size"],
		"the address advances by the instruction's size after the jump has been resolved",
		"the address advances by the instruction's size before the jump is resolved: a jump that Resolve widens (EXTENDED_ARG) is accounted with its old size, the following positions are not moved and every later jump target is off by three")
}

func init() {
	register(&Rule{ID: "C12.R10", Prop: "C12", Floor: 2,
		Doc: "one layout pass (compile.Instructions.Pass): inside the loop over the instructions SetPos comes before Resolve and Resolve before Size — the address advances by the size the instruction has after its jump was resolved",
		Run: runPassOrder})
}

// ---- C16.R8: the MRO lookup is a pure walk ----
//
// Type.Lookup walks the type's current MRO and answers the first dictionary hit. It keeps nothing between calls:
// a remembered answer would have to be dropped in every subclass whenever any class on their MROs changes, and
// the type has no list of its subclasses. Decided on the statements of Lookup (helpers put back): a range loop over
// the receiver's Mro, and no assignment to anything but the function's own locals.
func runLookupPure(c *Ctx, r *Rep) {
	p := c.MustPkg("py")
	info := p.TypesInfo
	fd := c.MethodDeclX("py", "Type", "Lookup")
	if fd == nil || fd.Body == nil {
		r.undecided("lookup|(*py.Type).Lookup", token.NoPos, "method not found")
		return
	}
	r.analysed("(*py.Type).Lookup")
	var recv types.Object
	if fd.Recv != nil && len(fd.Recv.List) == 1 && len(fd.Recv.List[0].Names) == 1 {
		recv = info.Defs[fd.Recv.List[0].Names[0]]
	}
	// (a) walks the MRO
	walks := false
	mroAlias := map[types.Object]bool{}
	ast.Inspect(fd.Body, func(n ast.Node) bool {
		switch x := n.(type) {
		case *ast.AssignStmt:
			for i, rh := range x.Rhs {
				if sel, ok := unparen(rh).(*ast.SelectorExpr); ok && sel.Sel.Name == "Mro" && i < len(x.Lhs) {
					if id := identOf(x.Lhs[i]); id != nil {
						if o := info.Defs[id]; o != nil {
							mroAlias[o] = true
						}
					}
				}
			}
		case *ast.RangeStmt:
			switch y := unparen(x.X).(type) {
			case *ast.SelectorExpr:
				if y.Sel.Name == "Mro" {
					if id := identOf(y.X); id != nil && info.Uses[id] == recv {
						walks = true
					}
				}
			case *ast.Ident:
				if mroAlias[info.Uses[y]] {
					walks = true
				}
			}
		}
		return true
	})
	r.check(walks, "lookup|walks the MRO", fd.Pos(), "Lookup ranges over the receiver's Mro",
		"Lookup does not range over the type's own Mro: an attribute is no longer looked for in the classes of the method resolution order, in that order")
	// (b) writes nothing but locals
	var bad ast.Node
	what := ""
	isLocal := func(e ast.Expr) bool {
		id := identOf(e)
		if id == nil {
			return false
		}
		o := info.Uses[id]
		if o == nil {
			o = info.Defs[id]
		}
		v, ok := o.(*types.Var)
		return ok && !v.IsField() && v.Pkg() != nil && v.Parent() != v.Pkg().Scope() && o != recv
	}
	ast.Inspect(fd.Body, func(n ast.Node) bool {
		switch x := n.(type) {
		case *ast.AssignStmt:
			for _, l := range x.Lhs {
				if id := identOf(l); id != nil && id.Name == "_" {
					continue
				}
				if !isLocal(l) && bad == nil {
					bad, what = x, exprStr(l)
				}
			}
		case *ast.IncDecStmt:
			if !isLocal(x.X) && bad == nil {
				bad, what = x, exprStr(x.X)
			}
		}
		return true
	})
	pos := fd.Pos()
	if bad != nil {
		pos = bad.Pos()
	}
	r.check(bad == nil, "lookup|keeps nothing between calls", pos, "Lookup assigns only its own locals",
		"Lookup assigns `"+what+"`: an answer remembered in the type (or anywhere outside the call) is not dropped when a base class changes later — a subclass has no way to be told — so attribute lookup can return a definition that is no longer the first on the MRO")
}

func init() {
	register(&Rule{ID: "C16.R8", Prop: "C16", Floor: 2,
		Doc: "the MRO lookup (py.Type.Lookup, helpers put back) ranges over the receiver's Mro and assigns nothing but its own locals: nothing is memoised across calls (a cache would need invalidation in every subclass, which the type does not track)",
		Run: runLookupPure})
}

// ---- C11.R12: a constant index is covered by the length test that guards it ----
//
// `if len(s) >= 2 && s[2] == 'x'`: the author tested the length, but one short. Where an index or slice bound with a
// constant K on a string or slice s is governed by tests of len(s) against constants — the left operands of the &&/||
// it sits in, the conditions of the ifs around it, earlier ifs that leave — the strongest of them must establish
// len(s) > K (for a slice bound: len(s) >= K). The rule says nothing about accesses without any length test (C11.R6
// decides those that exist in the reference); it decides the off-by-one between a test and the access it is there for.
func runLenGuardCovers(c *Ctx, r *Rep) {
	n := 0
	for _, rel := range pipelinePkgs {
		p := c.Pkg(rel)
		if p == nil {
			continue
		}
		info := p.TypesInfo
		for _, f := range c.Files(p) {
			if fn := fileOf(c, f.Pos()); fn == "y.go" {
				continue
			}
			for _, d := range f.Decls {
				fd, ok := d.(*ast.FuncDecl)
				if !ok || fd.Body == nil {
					continue
				}
				id := declID(p, fd)
				// lower bound on len(base) established by cond being true (neg=false) or false (neg=true); -1 = none
				var bound func(cond ast.Expr, base string, neg bool) int64
				bound = func(cond ast.Expr, base string, neg bool) int64 {
					cond = unparen(cond)
					if u, ok := cond.(*ast.UnaryExpr); ok && u.Op == token.NOT {
						return bound(u.X, base, !neg)
					}
					be, ok := cond.(*ast.BinaryExpr)
					if !ok {
						return -1
					}
					if be.Op == token.LAND && !neg || be.Op == token.LOR && neg {
						a, b := bound(be.X, base, neg), bound(be.Y, base, neg)
						if b > a {
							a = b
						}
						return a
					}
					if be.Op == token.LAND || be.Op == token.LOR {
						return -1
					}
					op := be.Op
					lenSide, kSide := be.X, be.Y
					if call, ok := unparen(be.Y).(*ast.CallExpr); ok && exprStr(call.Fun) == "len" {
						lenSide, kSide, op = be.Y, be.X, flipOp(op)
					}
					call, ok := unparen(lenSide).(*ast.CallExpr)
					if !ok || exprStr(call.Fun) != "len" || len(call.Args) != 1 || exprStr(call.Args[0]) != base {
						return -1
					}
					k, isK := constInt(info, kSide)
					if !isK {
						return -1
					}
					if neg {
						op = map[token.Token]token.Token{token.LSS: token.GEQ, token.LEQ: token.GTR, token.GTR: token.LEQ, token.GEQ: token.LSS, token.EQL: token.NEQ, token.NEQ: token.EQL}[op]
					}
					switch op {
					case token.GEQ:
						return k
					case token.GTR:
						return k + 1
					case token.EQL:
						return k
					case token.NEQ:
						if k == 0 {
							return 1
						}
					}
					return -1
				}
				var stack []ast.Node
				ast.Inspect(fd.Body, func(nd ast.Node) bool {
					if nd == nil {
						stack = stack[:len(stack)-1]
						return true
					}
					stack = append(stack, nd)
					var base ast.Expr
					var need int64 = -1
					var what string
					switch x := nd.(type) {
					case *ast.IndexExpr:
						if k, ok := constInt(info, x.Index); ok && k >= 0 {
							if tv, ok := info.Types[x.X]; ok {
								switch tv.Type.Underlying().(type) {
								case *types.Slice, *types.Basic:
									base, need, what = x.X, k+1, exprStr(x)
								}
							}
						}
					case *ast.SliceExpr:
						for _, bnd := range []ast.Expr{x.Low, x.High} {
							if bnd == nil {
								continue
							}
							if k, ok := constInt(info, bnd); ok && k > need-0 && k >= 1 {
								base, need, what = x.X, k, exprStr(x)
							}
						}
					}
					if base == nil {
						return true
					}
					bs := exprStr(base)
					// the tests that govern this access
					best := int64(-1)
					seen := false
					guardPos := nd.Pos()
					var curPos token.Pos
					note := func(b int64) {
						if b >= 0 {
							seen = true
							if b > best {
								best = b
							}
							if curPos < guardPos {
								guardPos = curPos
							}
						}
					}
					for i := len(stack) - 2; i >= 0; i-- {
						child := stack[i+1]
						switch par := stack[i].(type) {
						case *ast.BinaryExpr:
							curPos = par.Pos()
							if par.Y == child && par.Op == token.LAND {
								note(bound(par.X, bs, false))
							}
							if par.Y == child && par.Op == token.LOR {
								note(bound(par.X, bs, true))
							}
						case *ast.IfStmt:
							curPos = par.Cond.Pos()
							if par.Body == child {
								note(bound(par.Cond, bs, false))
							}
							if par.Else == child {
								note(bound(par.Cond, bs, true))
							}
						case *ast.BlockStmt:
							// earlier `if bad { leave }` statements of this block
							for _, st := range par.List {
								if st == child {
									break
								}
								if is, ok := st.(*ast.IfStmt); ok && is.Else == nil && blockTerminates(is.Body) {
									curPos = is.Pos()
									note(bound(is.Cond, bs, true))
								}
							}
						case *ast.FuncLit:
							i = -1
						}
					}
					if !seen {
						return true
					}
					// a test only speaks for the access if nothing in between can change the length
					if best < need && lenMayChangeBetween(fd.Body, bs, guardPos, nd.Pos()) {
						return true
					}
					n++
					key := fmt.Sprintf("lenguard|%s|%s", id, what)
					r.check(best >= need, key, nd.Pos(),
						fmt.Sprintf("the length tests around it establish len(%s) >= %d", bs, best),
						fmt.Sprintf("`%s` needs len(%s) >= %d, but the length tests that govern it only establish len(%s) >= %d: the test is one short, and for a source text of exactly that length the access panics (reported as SystemError by the stage barrier)", what, bs, need, bs, best))
					return true
				})
			}
		}
	}
	if n == 0 {
		r.undecided("lenguard|sites", token.NoPos, "no constant index governed by a length test found in the pipeline packages (expected the lexer's look-ahead tests)")
	}
}

func init() {
	register(&Rule{ID: "C11.R12", Prop: "C11", Floor: 3,
		Doc: "in the pipeline packages a constant index (or slice bound) K on s that is governed by tests of len(s) against constants — enclosing &&/||, enclosing ifs, earlier ifs that leave — is covered by the strongest of them (len(s) > K): the off-by-one between a length test and the access it guards",
		Run: runLenGuardCovers})
}

// lenMayChangeBetween: between two positions of a function body the string/slice `base` is assigned, or — for a field of
// a receiver — a method is called on that receiver (which may cut or extend it).
func lenMayChangeBetween(body *ast.BlockStmt, base string, from, to token.Pos) bool {
	root := base
	if i := strings.IndexAny(root, ".["); i >= 0 {
		root = root[:i]
	}
	changed := false
	ast.Inspect(body, func(n ast.Node) bool {
		if n == nil || changed {
			return false
		}
		if n.End() < from || n.Pos() > to {
			return n.Pos() <= to && n.End() >= from
		}
		switch x := n.(type) {
		case *ast.AssignStmt:
			if x.Pos() >= from && x.Pos() < to {
				for _, l := range x.Lhs {
					if s := exprStr(l); s == base || s == root {
						changed = true
					}
				}
			}
		case *ast.CallExpr:
			if x.Pos() >= from && x.End() <= to && root != base {
				if sel, ok := x.Fun.(*ast.SelectorExpr); ok && exprStr(sel.X) == root {
					changed = true
				}
			}
		}
		return true
	})
	return changed
}

// ---- C12.R11: the depth walk follows every jump ----
//
// compile.stackDepthWalk computes the declared stack size by walking the instruction stream and, at every jump
// instruction, walking the destination as well. Code that is reached only through a jump operand (the code after a loop
// whose else clause leaves by `continue`, a handler) is walked only by that recursion. The rule: in the loop over the
// instructions the recursive call is made for every jump instruction whatever its opcode — neither the call nor any
// exit from the iteration that precedes it (continue / break / goto / return) is governed by a condition that names an
// opcode. The opcode decides the depth at the target and whether the fall-through is dead, never whether the target is
// walked.
func runDepthWalkFollows(c *Ctx, r *Rep) {
	m := getVMModel(c)
	fd := c.MethodDeclX("compile", "Instructions", "stackDepthWalk")
	if fd == nil {
		r.undecided("compile|stackDepthWalk", token.NoPos, "function not found")
		return
	}
	p := c.MustPkg("compile")
	info := p.TypesInfo
	self := info.Defs[fd.Name]
	var loop *ast.RangeStmt
	ast.Inspect(fd.Body, func(n ast.Node) bool {
		if rs, ok := n.(*ast.RangeStmt); ok && loop == nil {
			loop = rs
		}
		return true
	})
	if loop == nil {
		r.undecided("compile|stackDepthWalk|loop", fd.Pos(), "no range loop over the instructions")
		return
	}
	// opcode constants named by a condition
	opsIn := func(e ast.Node) []string {
		var ops []string
		if e == nil {
			return nil
		}
		ast.Inspect(e, func(n ast.Node) bool {
			if x, ok := n.(ast.Expr); ok {
				if name, ok := m.opcodeOf(info, x); ok {
					if _, isLit := x.(*ast.BasicLit); !isLit {
						ops = append(ops, name)
					}
				}
			}
			return true
		})
		return ops
	}
	var stack []ast.Node
	var recPos token.Pos
	var recGov []string
	type exit struct {
		pos  token.Pos
		what string
		gov  []string
	}
	var exits []exit
	governing := func() []string {
		var ops []string
		for i := len(stack) - 2; i >= 0; i-- {
			child := stack[i+1]
			switch par := stack[i].(type) {
			case *ast.IfStmt:
				if par.Body == child || par.Else == child {
					ops = append(ops, opsIn(par.Cond)...)
				}
			case *ast.CaseClause:
				ops = append(ops, opsIn(&ast.CompositeLit{Elts: par.List})...)
				// a default arm of a switch over opcodes is governed by the other arms
				if par.List == nil && i > 1 {
					if sw, ok := stack[i-2].(*ast.SwitchStmt); ok {
						for _, cl := range sw.Body.List {
							ops = append(ops, opsIn(&ast.CompositeLit{Elts: cl.(*ast.CaseClause).List})...)
						}
					}
				}
			}
			if stack[i] == ast.Node(loop.Body) {
				break
			}
		}
		return uniq(ops)
	}
	ast.Inspect(loop.Body, func(n ast.Node) bool {
		if n == nil {
			stack = stack[:len(stack)-1]
			return true
		}
		stack = append(stack, n)
		switch x := n.(type) {
		case *ast.FuncLit:
			stack = stack[:len(stack)-1]
			return false
		case *ast.CallExpr:
			if sel, ok := x.Fun.(*ast.SelectorExpr); ok && info.Uses[sel.Sel] == self && recPos == token.NoPos {
				recPos = x.Pos()
				recGov = governing()
			}
		case *ast.BranchStmt:
			// a break that only leaves a switch/select is not an exit from the iteration
			if x.Tok == token.BREAK && x.Label == nil {
				for i := len(stack) - 2; i >= 0; i-- {
					switch stack[i].(type) {
					case *ast.SwitchStmt, *ast.TypeSwitchStmt, *ast.SelectStmt:
						return true
					case *ast.ForStmt, *ast.RangeStmt:
						i = -1
					}
				}
			}
			exits = append(exits, exit{x.Pos(), x.Tok.String(), governing()})
		case *ast.ReturnStmt:
			exits = append(exits, exit{x.Pos(), "return", governing()})
		}
		return true
	})
	if recPos == token.NoPos {
		r.bad("compile|stackDepthWalk|recursion", loop.Pos(), "the loop over the instructions never walks a jump's destination (no recursive call): code reached only through a jump is not accounted for in the declared stack size")
		return
	}
	r.check(len(recGov) == 0, "compile|stackDepthWalk|walk of the destination", recPos,
		"the recursive walk of the jump destination is made whatever the opcode",
		fmt.Sprintf("the recursive walk of the jump destination is governed by a test on the opcode (%s): for the opcodes it excludes, code reached only through the jump operand is never walked and its stack use is missing from the declared stack size", strings.Join(recGov, ", ")))
	bad := []string{}
	var badPos token.Pos
	for _, e := range exits {
		if e.pos < recPos && len(e.gov) > 0 {
			bad = append(bad, fmt.Sprintf("`%s` at %s under a test on %s", e.what, c.Pos(e.pos), strings.Join(e.gov, ", ")))
			if badPos == token.NoPos {
				badPos = e.pos
			}
		}
	}
	r.check(len(bad) == 0, "compile|stackDepthWalk|exits before the walk", badPos,
		"no exit from the iteration that precedes the walk of the destination depends on the opcode",
		fmt.Sprintf("the iteration is left before the jump destination is walked, depending on the opcode: %s; for those opcodes code reached only through the jump operand (e.g. what follows a loop whose else clause ends in `continue`) is never walked, so the declared stack size can be too small", strings.Join(bad, "; ")))
}

func init() {
	register(&Rule{ID: "C12.R11", Prop: "C12", Floor: 2,
		Doc: "compile.stackDepthWalk walks the destination of every jump instruction: neither the recursive call nor an exit from the iteration that precedes it is governed by a condition naming an opcode",
		Run: runDepthWalkFollows})
}

// ---- C03.R2: the symbol-table builder visits what the generic walk would have visited ----
//
// symtable.Parse drives ast.Walk and, for the nodes that open a scope, returns false — the walk stops and the arm visits
// the children by hand, some in the enclosing table and some in the new one. A child that the arm forgets is visited by
// nobody: its names never reach a symbol table and the compiler later fails on them (or resolves them in the wrong
// scope). The rule cross-checks the two siblings: for every arm of Parse that stops the walk, every field of the node
// that ast.Walk's arm for the same type walks is handed on by Parse's arm (as an argument of a call or the operand of a
// range).
func runSymtableVisitsAll(c *Ctx, r *Rep) {
	walkFd := c.FuncDeclX("ast", "Walk")
	parseFd := c.MethodDeclX("symtable", "SymTable", "Parse")
	if walkFd == nil || parseFd == nil {
		r.undecided("symtable|Parse|anchors", token.NoPos, "ast.Walk or symtable.(*SymTable).Parse not found")
		return
	}
	astInfo := c.MustPkg("ast").TypesInfo
	stInfo := c.MustPkg("symtable").TypesInfo
	// fields of the switched node selected anywhere in a clause / handed on in a clause
	fieldsOf := func(info *types.Info, cc *ast.CaseClause, sw *ast.TypeSwitchStmt, handedOnly bool) map[string]bool {
		out := map[string]bool{}
		obj := info.Implicits[cc]
		if obj == nil {
			return out
		}
		sel := func(e ast.Node) {
			ast.Inspect(e, func(n ast.Node) bool {
				if s, ok := n.(*ast.SelectorExpr); ok {
					if id := identOf(s.X); id != nil && info.Uses[id] == obj {
						out[s.Sel.Name] = true
					}
				}
				return true
			})
		}
		for _, st := range cc.Body {
			if !handedOnly {
				sel(st)
				continue
			}
			ast.Inspect(st, func(n ast.Node) bool {
				switch x := n.(type) {
				case *ast.CallExpr:
					if exprStr(x.Fun) == "len" {
						return false
					}
					for _, a := range x.Args {
						sel(a)
					}
				case *ast.RangeStmt:
					sel(x.X)
				}
				return true
			})
		}
		return out
	}
	typeSwitchOf := func(fd *ast.FuncDecl) *ast.TypeSwitchStmt {
		var ts *ast.TypeSwitchStmt
		ast.Inspect(fd.Body, func(n ast.Node) bool {
			if x, ok := n.(*ast.TypeSwitchStmt); ok && (ts == nil || len(x.Body.List) > len(ts.Body.List)) {
				ts = x
			}
			return true
		})
		return ts
	}
	wsw, psw := typeSwitchOf(walkFd), typeSwitchOf(parseFd)
	if wsw == nil || psw == nil {
		r.undecided("symtable|Parse|type switch", token.NoPos, "type switch over the node not found in ast.Walk or symtable.Parse")
		return
	}
	walked := map[string]map[string]bool{}
	for _, cl := range wsw.Body.List {
		cc := cl.(*ast.CaseClause)
		if len(cc.List) != 1 {
			continue
		}
		walked[types.ExprString(cc.List[0])] = fieldsOf(astInfo, cc, wsw, false)
	}
	n := 0
	for _, cl := range psw.Body.List {
		cc := cl.(*ast.CaseClause)
		stops := false
		for _, st := range cc.Body {
			ast.Inspect(st, func(nd ast.Node) bool {
				if _, ok := nd.(*ast.FuncLit); ok {
					return false
				}
				if rs, ok := nd.(*ast.ReturnStmt); ok && len(rs.Results) == 1 && exprStr(rs.Results[0]) == "false" {
					stops = true
				}
				return true
			})
		}
		if !stops {
			continue
		}
		if len(cc.List) != 1 {
			r.undecided("symtable|Parse|arm "+exprStr(&ast.CompositeLit{Elts: cc.List}), cc.Pos(), "an arm that stops the walk covers several node types: cannot compare its visits with ast.Walk's")
			continue
		}
		tn := strings.TrimPrefix(types.ExprString(cc.List[0]), "*ast.")
		want := walked["*"+tn]
		if want == nil {
			r.undecided("symtable|Parse|arm "+tn, cc.Pos(), "ast.Walk has no single-type arm for *%s to compare with", tn)
			continue
		}
		got := fieldsOf(stInfo, cc, psw, true)
		var missing []string
		for f := range want {
			if !got[f] {
				missing = append(missing, f)
			}
		}
		sort.Strings(missing)
		n++
		r.check(len(missing) == 0, "symtable|Parse|arm "+tn+" visits what ast.Walk walks", cc.Pos(),
			fmt.Sprintf("hands on every field ast.Walk walks for *ast.%s (%s)", tn, strings.Join(sortedKeys(want), ", ")),
			fmt.Sprintf("the arm for *ast.%s stops the generic walk (returns false) but does not hand on %s, which ast.Walk would have walked: the names in it reach no symbol table, so the compiler cannot resolve them (SystemError \"no symtable entry\" / wrong scope)", tn, strings.Join(missing, ", ")))
	}
	if n == 0 {
		r.undecided("symtable|Parse|arms", psw.Pos(), "no arm of symtable.Parse stops the walk: the scope-opening nodes are expected to")
	}
}

func init() {
	register(&Rule{ID: "C03.R2", Prop: "C03", Floor: 7,
		Doc: "sibling cross-check of the two traversals: every arm of symtable.Parse that stops ast.Walk (the scope-opening nodes) hands on — as a call argument or range operand — every field of the node that ast.Walk's arm for the same type walks",
		Run: runSymtableVisitsAll})
	// the same obligation under C11: a forgotten child surfaces as SystemError from the compiler, not SyntaxError
	register(&Rule{ID: "C11.R13", Prop: "C11", Floor: 7,
		Doc: "(= C03.R2) every arm of symtable.Parse that stops ast.Walk hands on every field ast.Walk walks for that node: a child nobody visits has no symbol-table entry and the compiler panics on it (SystemError for well-formed source)",
		Run: runSymtableVisitsAll})
}

func sortedKeys(m map[string]bool) []string {
	var o []string
	for k := range m {
		o = append(o, k)
	}
	sort.Strings(o)
	return o
}

// ---- C11.R14: instruction sizes never shrink while the assembler iterates ----
//
// Assemble repeats Pass until no address moves and panics ("positions did not settle" → SystemError) if that does not
// happen; the reviewed reason it cannot is that an instruction that once needed the EXTENDED_ARG prefix keeps it
// (OpArg.wide is a latch). The rule: every store to the field that records the width stores `true`, or a disjunction
// that contains the field's own previous value; it is never recomputed from the current argument alone.
func runWideLatch(c *Ctx, r *Rep) {
	p := c.MustPkg("compile")
	info := p.TypesInfo
	// the bool fields of compile.OpArg
	var fields []*types.Var
	if tn, ok := p.Types.Scope().Lookup("OpArg").(*types.TypeName); ok {
		if st, ok := tn.Type().Underlying().(*types.Struct); ok {
			for i := 0; i < st.NumFields(); i++ {
				if b, ok := st.Field(i).Type().Underlying().(*types.Basic); ok && b.Kind() == types.Bool {
					fields = append(fields, st.Field(i))
				}
			}
		}
	}
	if len(fields) == 0 {
		r.undecided("compile|OpArg|width latch", token.NoPos, "compile.OpArg has no boolean field recording that the instruction was widened (the assembler's termination argument rests on one)")
		return
	}
	isField := func(e ast.Expr) *types.Var {
		if sel, ok := unparen(e).(*ast.SelectorExpr); ok {
			if v, ok := info.Uses[sel.Sel].(*types.Var); ok {
				for _, f := range fields {
					if f == v {
						return v
					}
				}
			}
		}
		return nil
	}
	n := 0
	for _, f := range c.Files(p) {
		for _, d := range f.Decls {
			fd, ok := d.(*ast.FuncDecl)
			if !ok || fd.Body == nil {
				continue
			}
			ast.Inspect(fd.Body, func(nd ast.Node) bool {
				as, ok := nd.(*ast.AssignStmt)
				if !ok || len(as.Lhs) != len(as.Rhs) {
					return true
				}
				for i, l := range as.Lhs {
					fv := isField(l)
					if fv == nil {
						continue
					}
					n++
					rhs := unparen(as.Rhs[i])
					ok := false
					if tv, has := info.Types[rhs]; has && tv.Value != nil && tv.Value.String() == "true" {
						ok = true
					}
					// wide || …  (any disjunct is the field itself on the same base)
					var disj func(e ast.Expr) bool
					disj = func(e ast.Expr) bool {
						e = unparen(e)
						if be, isB := e.(*ast.BinaryExpr); isB && be.Op == token.LOR {
							return disj(be.X) || disj(be.Y)
						}
						return isField(e) == fv && exprStr(e) == exprStr(l)
					}
					if as.Tok == token.ASSIGN && disj(rhs) {
						ok = true
					}
					r.check(ok, fmt.Sprintf("compile|%s|store to %s", declID(p, fd), exprStr(l)), as.Pos(),
						"the width flag is only ever raised",
						fmt.Sprintf("`%s = %s` recomputes the width flag instead of latching it: an instruction that was widened can shrink again, sizes are no longer monotone and Assemble's fixpoint can oscillate until it panics \"positions did not settle\" (SystemError for a well-formed, large function)", exprStr(l), exprStr(rhs)))
				}
				return true
			})
		}
	}
	if n == 0 {
		r.undecided("compile|OpArg|width latch stores", token.NoPos, "no store to the width flag found")
	}
}

func init() {
	register(&Rule{ID: "C11.R14", Prop: "C11", Floor: 1,
		Doc: "assembler termination: every store to compile.OpArg's width flag stores true or a disjunction containing the flag's previous value (a latch), so instruction sizes never shrink between passes and Assemble's `positions did not settle` panic stays unreachable",
		Run: runWideLatch})
}

// ---- C16.R9: a walk over the MRO ends only on a hit ----
//
// Type.IsSubtype and Type.Lookup answer by walking the MRO tuple from the front. A C3 linearisation is not sorted by
// depth (a shallow base can precede a deep one), so nothing about an entry's position or size says the rest cannot
// match: the walk may end early only because it found what it was looking for. Decided on the statements (helpers put
// back): every exit from a range loop over an Mro (return, break, goto, continue to an outer loop) is governed, inside
// the loop, only by equality tests, found-flags and nil tests — no ordering comparison and no len().
func runMroWalkExhaustive(c *Ctx, r *Rep) {
	p := c.MustPkg("py")
	info := p.TypesInfo
	n := 0
	for _, name := range []string{"IsSubtype", "Lookup"} {
		fd := c.MethodDeclX("py", "Type", name)
		if fd == nil || fd.Body == nil {
			r.undecided("mrowalk|(*py.Type)."+name, token.NoPos, "method not found")
			continue
		}
		r.analysed("(*py.Type)." + name)
		mroAlias := map[types.Object]bool{}
		ast.Inspect(fd.Body, func(nd ast.Node) bool {
			if as, ok := nd.(*ast.AssignStmt); ok {
				for i, rh := range as.Rhs {
					if sel, ok := unparen(rh).(*ast.SelectorExpr); ok && sel.Sel.Name == "Mro" && i < len(as.Lhs) {
						if id := identOf(as.Lhs[i]); id != nil {
							if o := info.ObjectOf(id); o != nil {
								mroAlias[o] = true
							}
						}
					}
				}
			}
			return true
		})
		loops := 0
		ast.Inspect(fd.Body, func(nd ast.Node) bool {
			isMroExpr := func(e ast.Expr) bool {
				switch y := unparen(e).(type) {
				case *ast.SelectorExpr:
					return y.Sel.Name == "Mro"
				case *ast.Ident:
					return mroAlias[info.Uses[y]]
				}
				return false
			}
			var rs struct {
				Body *ast.BlockStmt
				pos  token.Pos
			}
			switch x := nd.(type) {
			case *ast.RangeStmt:
				if !isMroExpr(x.X) {
					return true
				}
				rs.Body, rs.pos = x.Body, x.Pos()
			case *ast.ForStmt:
				// the same walk written with an index: for i := 0; i < len(mro); i++
				over := false
				if x.Cond != nil {
					ast.Inspect(x.Cond, func(k ast.Node) bool {
						if call, ok := k.(*ast.CallExpr); ok && exprStr(call.Fun) == "len" && len(call.Args) == 1 && isMroExpr(call.Args[0]) {
							over = true
						}
						return true
					})
				}
				if !over {
					return true
				}
				rs.Body, rs.pos = x.Body, x.Pos()
			default:
				return true
			}
			loops++
			var stack []ast.Node
			var bad []string
			var badPos token.Pos
			ordering := func(e ast.Expr) string {
				why := ""
				ast.Inspect(e, func(m ast.Node) bool {
					switch x := m.(type) {
					case *ast.BinaryExpr:
						switch x.Op {
						case token.LSS, token.LEQ, token.GTR, token.GEQ:
							why = exprStr(x)
						}
					case *ast.CallExpr:
						if exprStr(x.Fun) == "len" {
							why = exprStr(x)
						}
					}
					return why == ""
				})
				return why
			}
			ast.Inspect(rs.Body, func(m ast.Node) bool {
				if m == nil {
					stack = stack[:len(stack)-1]
					return true
				}
				stack = append(stack, m)
				what := ""
				switch x := m.(type) {
				case *ast.FuncLit:
					stack = stack[:len(stack)-1]
					return false
				case *ast.ReturnStmt:
					what = "return"
				case *ast.BranchStmt:
					switch {
					case x.Tok == token.GOTO, x.Label != nil:
						what = x.Tok.String() + " " + x.Label.Name
					case x.Tok == token.BREAK:
						what = "break"
						for i := len(stack) - 2; i >= 0; i-- {
							switch stack[i].(type) {
							case *ast.SwitchStmt, *ast.TypeSwitchStmt, *ast.SelectStmt, *ast.ForStmt, *ast.RangeStmt:
								what = "" // leaves an inner statement only
								i = -1
							}
						}
					}
				}
				if what == "" {
					return true
				}
				for i := len(stack) - 2; i >= 0; i-- {
					child := stack[i+1]
					var conds []ast.Expr
					switch par := stack[i].(type) {
					case *ast.IfStmt:
						if par.Body == child || par.Else == child {
							conds = append(conds, par.Cond)
						}
					case *ast.CaseClause:
						conds = append(conds, par.List...)
						if i > 1 {
							if sw, ok := stack[i-2].(*ast.SwitchStmt); ok && sw.Tag == nil {
								for _, cl := range sw.Body.List {
									if cl.Pos() < par.Pos() {
										conds = append(conds, cl.(*ast.CaseClause).List...)
									}
								}
							}
						}
					}
					for _, cd := range conds {
						if why := ordering(cd); why != "" {
							bad = append(bad, fmt.Sprintf("`%s` at %s depends on `%s`", what, c.Pos(m.Pos()), why))
							if badPos == token.NoPos {
								badPos = m.Pos()
							}
						}
					}
				}
				return true
			})
			n++
			pos := rs.pos
			if badPos != token.NoPos {
				pos = badPos
			}
			r.check(len(bad) == 0, fmt.Sprintf("mrowalk|(*py.Type).%s|walk %d ends only on a hit", name, loops), pos,
				"every exit from the walk over the MRO is governed by equality / found tests only",
				fmt.Sprintf("the walk over the MRO in (*Type).%s can end before the tuple is exhausted for a reason other than a hit: %s. A C3 linearisation is not ordered by depth or size — a shallow base can precede a deep one — so entries after the exit can still match: issubclass/isinstance/except matching (or attribute lookup) miss a base that is on the MRO", name, strings.Join(bad, "; ")))
			return true
		})
		if loops == 0 {
			r.undecided("mrowalk|(*py.Type)."+name+"|loop", fd.Pos(), "no range loop over an Mro found (helpers put back)")
		}
	}
	_ = n
}

func init() {
	register(&Rule{ID: "C16.R9", Prop: "C16", Floor: 2,
		Doc: "the MRO walks of py.Type.IsSubtype and py.Type.Lookup (helpers put back) end early only on a hit: every return/break/goto inside the range loop over an Mro is governed by equality tests, found-flags and nil tests only — never by an ordering comparison or a len(): a C3 linearisation is not sorted by depth",
		Run: runMroWalkExhaustive})
}

// ---- C19.R8: nothing probed means not found ----
//
// stdlib's path search reports FileNotFoundError under a boolean local ("keep looking" / "found") that the probes
// assign. When sys.path offers nothing to probe the flag still has its initial value, so that value must select the
// not-found report — otherwise the search returns success without having found anything and `import missing` ends in
// the caller's "Missing code object" assertion instead of ImportError.
func runNotFoundDefault(c *Ctx, r *Rep) {
	p := c.MustPkg("stdlib")
	info := p.TypesInfo
	var fnf types.Object
	if pp := c.Pkg("py"); pp != nil {
		fnf = pp.Types.Scope().Lookup("FileNotFoundError")
	}
	if fnf == nil {
		r.undecided("notfound|py.FileNotFoundError", token.NoPos, "exception object not found")
		return
	}
	n := 0
	for _, f := range c.Files(p) {
		for _, d := range f.Decls {
			fd, ok := d.(*ast.FuncDecl)
			if !ok || fd.Body == nil {
				continue
			}
			var stack []ast.Node
			ast.Inspect(fd.Body, func(nd ast.Node) bool {
				if nd == nil {
					stack = stack[:len(stack)-1]
					return true
				}
				stack = append(stack, nd)
				rs, ok := nd.(*ast.ReturnStmt)
				if !ok {
					return true
				}
				mentions := false
				for _, res := range rs.Results {
					ast.Inspect(res, func(m ast.Node) bool {
						if id, ok := m.(*ast.Ident); ok && info.Uses[id] == fnf {
							mentions = true
						}
						return true
					})
				}
				if !mentions {
					return true
				}
				// flags that govern this return
				for i := len(stack) - 2; i >= 0; i-- {
					var cond ast.Expr
					pol := true
					switch par := stack[i].(type) {
					case *ast.IfStmt:
						if par.Body != stack[i+1] && par.Else != stack[i+1] {
							continue
						}
						pol = par.Body == stack[i+1]
						cond = unparen(par.Cond)
					case *ast.CaseClause:
						// `case flag:` of a switch without a tag
						if i < 2 || len(par.List) != 1 {
							continue
						}
						if sw, ok := stack[i-2].(*ast.SwitchStmt); !ok || sw.Tag != nil {
							continue
						}
						cond = unparen(par.List[0])
					default:
						continue
					}
					if u, ok := cond.(*ast.UnaryExpr); ok && u.Op == token.NOT {
						cond, pol = unparen(u.X), !pol
					}
					id, ok := cond.(*ast.Ident)
					if !ok {
						continue
					}
					v, ok := info.Uses[id].(*types.Var)
					if !ok || v.IsField() || v.Parent() == v.Pkg().Scope() {
						continue
					}
					// its initial value
					init, found := "false", false
					ast.Inspect(fd.Body, func(m ast.Node) bool {
						switch x := m.(type) {
						case *ast.ValueSpec:
							for k, nm := range x.Names {
								if info.Defs[nm] == v {
									found = true
									if k < len(x.Values) {
										init = exprStr(x.Values[k])
										if tv, ok := info.Types[x.Values[k]]; ok && tv.Value != nil {
											init = tv.Value.String()
										}
									}
								}
							}
						case *ast.AssignStmt:
							if x.Tok == token.DEFINE && len(x.Lhs) == len(x.Rhs) {
								for k, l := range x.Lhs {
									if lid := identOf(l); lid != nil && info.Defs[lid] == v {
										found = true
										init = exprStr(x.Rhs[k])
										if tv, ok := info.Types[x.Rhs[k]]; ok && tv.Value != nil {
											init = tv.Value.String()
										}
									}
								}
							}
						}
						return true
					})
					if !found || (init != "true" && init != "false") {
						continue // a parameter, a named result, or initialised from a computation: not this rule's shape
					}
					n++
					want := "false"
					if pol {
						want = "true"
					}
					r.check(init == want, fmt.Sprintf("notfound|%s|flag %s starts at the not-found value", declID(p, fd), id.Name), rs.Pos(),
						fmt.Sprintf("`%s` starts as %s, which selects the FileNotFoundError report when nothing is probed", id.Name, init),
						fmt.Sprintf("the FileNotFoundError report is made when `%s` is %s, but `%s` starts as %s: when the search path offers nothing to probe (empty sys.path, no str entries) the function returns success without having found anything, and the import ends in the caller's \"Missing code object\" assertion instead of ImportError", id.Name, want, id.Name, init))
				}
				return true
			})
		}
	}
	if n == 0 {
		r.ok("notfound|no flag-governed report", token.NoPos, "no FileNotFoundError report in stdlib is governed by a boolean local with a constant initial value: nothing to decide in this shape")
	}
}

func init() {
	register(&Rule{ID: "C19.R8", Prop: "C19", Floor: 1,
		Doc: "path search default: where stdlib returns FileNotFoundError under a boolean local with a constant initial value (the probes' keep-looking / found flag), the initial value is the one that selects the report — no probe at all means not found, never success",
		Run: runNotFoundDefault})
}

// ---- C07.R9: an arithmetic right shift never answers without looking at the sign ----
//
// Python's >> on integers is a floor shift: every bit shifted out leaves 0 for a non-negative operand and -1 for a
// negative one. Go's >> on a signed word does exactly that for any count, so the machine-word methods need no special
// case; a special case that answers with a constant (for "count >= 64") is right only if it distinguishes the sign.
// Decided on Int.M__rshift__/M__rrshift__ and the py functions they call that shift: every return that yields a result
// (not nil, not NotImplemented) either contains a >> of a signed operand, or hands on another such function's result,
// or is governed by a condition that mentions the shifted operand.
func runRshiftSign(c *Ctx, r *Rep) {
	p := c.MustPkg("py")
	info := p.TypesInfo
	decls := map[*types.Func]*ast.FuncDecl{}
	for _, f := range c.Files(p) {
		for _, d := range f.Decls {
			if fd, ok := d.(*ast.FuncDecl); ok && fd.Body != nil {
				if fn, ok := info.Defs[fd.Name].(*types.Func); ok {
					decls[fn] = fd
				}
			}
		}
	}
	hasShr := func(n ast.Node) (found bool, operands map[types.Object]bool) {
		operands = map[types.Object]bool{}
		ast.Inspect(n, func(m ast.Node) bool {
			if be, ok := m.(*ast.BinaryExpr); ok && be.Op == token.SHR {
				if tv, ok := info.Types[be.X]; ok {
					if b, ok := tv.Type.Underlying().(*types.Basic); ok && b.Info()&types.IsInteger != 0 && b.Info()&types.IsUnsigned == 0 {
						found = true
						ast.Inspect(be.X, func(k ast.Node) bool {
							if id, ok := k.(*ast.Ident); ok {
								if o := info.Uses[id]; o != nil {
									operands[o] = true
								}
							}
							return true
						})
					}
				}
			}
			return true
		})
		return
	}
	done := map[*types.Func]bool{}
	n := 0
	var analyse func(fn *types.Func, depth int)
	analyse = func(fn *types.Func, depth int) {
		fd := decls[fn]
		if fd == nil || done[fn] || depth > 3 {
			return
		}
		done[fn] = true
		id := declID(p, fd)
		_, operands := hasShr(fd.Body)
		// locals copied from an operand count as the operand (x := int64(a))
		for round := 0; round < 2; round++ {
			ast.Inspect(fd.Body, func(m ast.Node) bool {
				if as, ok := m.(*ast.AssignStmt); ok && len(as.Lhs) == len(as.Rhs) {
					for i, l := range as.Lhs {
						if lid := identOf(l); lid != nil && operands[info.ObjectOf(lid)] {
							ast.Inspect(as.Rhs[i], func(k ast.Node) bool {
								if rid, ok := k.(*ast.Ident); ok {
									if o, ok := info.Uses[rid].(*types.Var); ok {
										operands[o] = true
									}
								}
								return true
							})
						}
					}
				}
				return true
			})
		}
		mentionsOperand := func(e ast.Expr) bool {
			hit := false
			ast.Inspect(e, func(k ast.Node) bool {
				if id, ok := k.(*ast.Ident); ok && operands[info.Uses[id]] {
					hit = true
				}
				return true
			})
			return hit
		}
		var stack []ast.Node
		ast.Inspect(fd.Body, func(m ast.Node) bool {
			if m == nil {
				stack = stack[:len(stack)-1]
				return true
			}
			stack = append(stack, m)
			if _, ok := m.(*ast.FuncLit); ok {
				stack = stack[:len(stack)-1]
				return false
			}
			rs, ok := m.(*ast.ReturnStmt)
			if !ok || len(rs.Results) == 0 {
				return true
			}
			res := unparen(rs.Results[0])
			if s := exprStr(res); s == "nil" || s == "NotImplemented" {
				return true
			}
			if found, _ := hasShr(res); found {
				n++
				r.ok(fmt.Sprintf("rshift|%s|return %s", id, exprStr(res)), rs.Pos(), "the result is a signed >>: the sign fills the vacated bits")
				return true
			}
			// hands on another function's result
			if call, ok := res.(*ast.CallExpr); ok {
				if cf := Callee(info, call); cf != nil && decls[cf] != nil {
					if inner, _ := hasShr(decls[cf].Body); inner || strings.Contains(cf.Name(), "shift") {
						analyse(cf, depth+1)
						return true
					}
					return true // BigInt arithmetic etc.: not a machine-word shortcut
				}
			}
			// a local holding a shift result
			if idn := identOf(res); idn != nil {
				if o := info.Uses[idn]; o != nil {
					isShr := false
					ast.Inspect(fd.Body, func(k ast.Node) bool {
						if as, ok := k.(*ast.AssignStmt); ok && len(as.Lhs) == len(as.Rhs) {
							for i, l := range as.Lhs {
								if lid := identOf(l); lid != nil && info.ObjectOf(lid) == o {
									if f, _ := hasShr(as.Rhs[i]); f {
										isShr = true
									}
								}
							}
						}
						return true
					})
					if isShr {
						return true
					}
				}
			}
			if tv, ok := info.Types[res]; !ok || tv.Value == nil {
				// a conversion of a constant: Int(0)
				isConst := false
				if call, ok := res.(*ast.CallExpr); ok && len(call.Args) == 1 {
					if atv, ok := info.Types[call.Args[0]]; ok && atv.Value != nil {
						isConst = true
					}
				}
				if !isConst {
					return true // computed some other way: not this rule's shape
				}
			}
			// a constant answer: must be governed by a test on the shifted operand
			governed := false
			for i := len(stack) - 2; i >= 0 && !governed; i-- {
				switch par := stack[i].(type) {
				case *ast.IfStmt:
					if (par.Body == stack[i+1] || par.Else == stack[i+1]) && mentionsOperand(par.Cond) {
						governed = true
					}
				case *ast.CaseClause:
					for _, e := range par.List {
						if mentionsOperand(e) {
							governed = true
						}
					}
					if i >= 2 {
						if sw, ok := stack[i-2].(*ast.SwitchStmt); ok && sw.Tag != nil && mentionsOperand(sw.Tag) {
							governed = true
						}
					}
				case *ast.BlockStmt:
					for _, st := range par.List {
						if st == stack[i+1] {
							break
						}
						if is, ok := st.(*ast.IfStmt); ok && blockTerminates(is.Body) && mentionsOperand(is.Cond) {
							governed = true
						}
					}
				}
			}
			n++
			r.check(governed, fmt.Sprintf("rshift|%s|return %s", id, exprStr(res)), rs.Pos(),
				"a constant answer under a test of the shifted operand",
				fmt.Sprintf("`return %s` answers a right shift with a constant on a path where nothing tests the shifted operand: Python's >> is a floor shift, so once every bit is shifted out the result is 0 for a non-negative operand and -1 for a negative one (-1 >> 64 == -1); Go's signed >> already does this for any count", exprStr(res)))
			return true
		})
	}
	for _, name := range []string{"M__rshift__", "M__rrshift__"} {
		fn := c.Method("py", "Int", name)
		if fn == nil {
			r.undecided("rshift|py.Int."+name, token.NoPos, "method not found")
			continue
		}
		analyse(fn, 0)
	}
	if n == 0 {
		r.undecided("rshift|sites", token.NoPos, "no result-yielding return found in the right-shift methods of py.Int")
	}
}

func init() {
	register(&Rule{ID: "C07.R9", Prop: "C07", Floor: 2,
		Doc: "floor semantics of >> on machine words: in py.Int's M__rshift__/M__rrshift__ and the shifting functions they call, every result-yielding return is a signed Go >> (which fills with the sign for any count), another such function's result, or a constant governed by a test that mentions the shifted operand — never a sign-blind constant for large counts",
		Run: runRshiftSign})
}

// ---- C10.R6: no delegation cycle ----
//
// A Go stack overflow is not a panic: no recover barrier intercepts it and the runtime kills the process. Recursion whose
// depth Python code chooses is the known finding C10.R4; this rule decides a different, purely structural way to the same
// end: two functions (or one) that hand their own arguments on to each other unchanged. f calls g with f's receiver
// and parameters (or constants) and g calls f the same way: nothing shrinks from one call to the next, so whenever the
// conditions on the way hold once they hold for ever and the cycle never ends. Decided on the static call graph of
// the module restricted to such pure delegations; any cycle is reported.
func runDelegationCycle(c *Ctx, r *Rep) {
	type edge struct {
		to  *types.Func
		pos token.Pos
	}
	g := map[*types.Func][]edge{}
	nFuncs := 0
	for _, p := range c.ModulePkgs() {
		info := p.TypesInfo
		for _, f := range c.Files(p) {
			if isTestFile(c, f) {
				continue
			}
			for _, d := range f.Decls {
				fd, ok := d.(*ast.FuncDecl)
				if !ok || fd.Body == nil {
					continue
				}
				self, _ := info.Defs[fd.Name].(*types.Func)
				if self == nil {
					continue
				}
				nFuncs++
				own := map[types.Object]bool{}
				if fd.Recv != nil {
					for _, fl := range fd.Recv.List {
						for _, nm := range fl.Names {
							own[info.Defs[nm]] = true
						}
					}
				}
				if fd.Type.Params != nil {
					for _, fl := range fd.Type.Params.List {
						for _, nm := range fl.Names {
							own[info.Defs[nm]] = true
						}
					}
				}
				// parameters that are assigned or modified in the body do not count as handed on unchanged
				ast.Inspect(fd.Body, func(n ast.Node) bool {
					switch x := n.(type) {
					case *ast.AssignStmt:
						for _, l := range x.Lhs {
							if id := identOf(l); id != nil {
								delete(own, info.ObjectOf(id))
							}
							// a field of the receiver (or of a parameter) is assigned: the object changes state from
							// one call to the next (t.Flags |= READYING), which is how such a recursion ends
							if sel, ok := unparen(l).(*ast.SelectorExpr); ok {
								if id := identOf(sel.X); id != nil {
									delete(own, info.ObjectOf(id))
								}
							}
						}
					case *ast.IncDecStmt:
						if id := identOf(x.X); id != nil {
							delete(own, info.ObjectOf(id))
						}
						if sel, ok := unparen(x.X).(*ast.SelectorExpr); ok {
							if id := identOf(sel.X); id != nil {
								delete(own, info.ObjectOf(id))
							}
						}
					}
					return true
				})
				// handed on unchanged: the caller's own receiver or parameter, a constant — or either of them in another
				// representation of the same value (a type conversion, big.NewInt(x), x.Int64()): Int.divMod handing
				// big.NewInt(int64(a)) to BigInt.divMod, which hands Int(a.Int64()) back, makes no more progress than
				// handing a itself
				var passthrough func(e ast.Expr) bool
				passthrough = func(e ast.Expr) bool {
					e = unparen(e)
					if tv, ok := info.Types[e]; ok && (tv.Value != nil || tv.IsNil()) {
						return true
					}
					if id, ok := e.(*ast.Ident); ok {
						return own[info.Uses[id]]
					}
					if call, ok := e.(*ast.CallExpr); ok {
						if tv, ok := info.Types[call.Fun]; ok && tv.IsType() && len(call.Args) == 1 {
							return passthrough(call.Args[0])
						}
						if cal := Callee(info, call); cal != nil && cal.Pkg() != nil && cal.Pkg().Path() == "math/big" {
							switch cal.Name() {
							case "NewInt", "NewFloat":
								return len(call.Args) == 1 && passthrough(call.Args[0])
							case "Int64", "Uint64":
								if sel, ok := unparen(call.Fun).(*ast.SelectorExpr); ok {
									return passthrough(sel.X)
								}
							}
						}
					}
					return false
				}
				ast.Inspect(fd.Body, func(n ast.Node) bool {
					if _, isLit := n.(*ast.FuncLit); isLit {
						return false
					}
					call, ok := n.(*ast.CallExpr)
					if !ok {
						return true
					}
					callee := Callee(info, call)
					if callee == nil || !inModule(callee) {
						return true
					}
					if c.Decl(callee) == nil {
						return true // an interface method: resolved at run time, not a static cycle
					}
					if sel, ok := unparen(call.Fun).(*ast.SelectorExpr); ok {
						if s, ok := info.Selections[sel]; ok && s.Kind() == types.MethodVal && !passthrough(sel.X) {
							return true
						}
					}
					if len(call.Args) == 0 && callee.Type().(*types.Signature).Recv() == nil {
						return true // nothing is handed on: not a delegation
					}
					for _, a := range call.Args {
						if !passthrough(a) {
							return true
						}
					}
					g[self] = append(g[self], edge{callee, call.Pos()})
					return true
				})
			}
		}
	}
	// cycles of length 1 and 2 (longer ones are found through the same pairs only if every link is a delegation;
	// a depth-first search over this sparse graph covers them)
	var cycles [][]*types.Func
	seen := map[string]bool{}
	var stack []*types.Func
	onStack := map[*types.Func]int{}
	done := map[*types.Func]bool{}
	var dfs func(f *types.Func)
	dfs = func(f *types.Func) {
		onStack[f] = len(stack)
		stack = append(stack, f)
		for _, e := range g[f] {
			if i, ok := onStack[e.to]; ok {
				cyc := append([]*types.Func(nil), stack[i:]...)
				var names []string
				for _, x := range cyc {
					names = append(names, FuncID(x))
				}
				sort.Strings(names)
				k := strings.Join(names, " ")
				if !seen[k] {
					seen[k] = true
					cycles = append(cycles, cyc)
				}
				continue
			}
			if !done[e.to] {
				dfs(e.to)
			}
		}
		stack = stack[:len(stack)-1]
		delete(onStack, f)
		done[f] = true
	}
	var roots []*types.Func
	for f := range g {
		roots = append(roots, f)
	}
	sort.Slice(roots, func(i, j int) bool { return FuncID(roots[i]) < FuncID(roots[j]) })
	for _, f := range roots {
		if !done[f] {
			dfs(f)
		}
	}
	for _, cyc := range cycles {
		var names []string
		for _, x := range cyc {
			names = append(names, FuncID(x))
		}
		key := "delegation|" + strings.Join(names, " -> ")
		if why, ok := confirmedDelegation[key]; ok {
			r.okTrivial(key, cyc[0].Pos(), "reviewed: %s", why)
			continue
		}
		r.bad(key, cyc[0].Pos(), "%s hand their own receiver and parameters on to each other unchanged (%s -> %s): nothing shrinks from one call to the next, so once the conditions on the way hold the cycle never ends and the Go stack overflows — a fatal error no recover barrier intercepts, which kills the embedding process", strings.Join(names, " and "), strings.Join(names, " -> "), names[0])
	}
	r.ok("delegation|graph", token.NoPos, "%d functions, %d with pure delegations, %d cycle(s)", nFuncs, len(g), len(cycles))
}

// delegation cycles of the reviewed tree, each with the reason it ends
var confirmedDelegation = map[string]string{}

func init() {
	register(&Rule{ID: "C10.R6", Prop: "C10", Floor: 1,
		Doc: "no delegation cycle: in the static call graph of the module restricted to calls that hand on only the caller's own receiver and parameters (unassigned) or constants, there is no cycle — such a cycle cannot make progress and ends in a Go stack overflow, which no recover barrier intercepts",
		Run: runDelegationCycle})
}

// ---- C14.R9: a character is not cut down to its low byte ----
//
// Strings are sequences of code points. Converting a rune (or an int holding one) to a byte keeps the low eight bits:
// 'š' (U+0161) becomes 'a'. Such a conversion is meaningful only for a value known to be below 256 (usually below
// utf8.RuneSelf). Decided over the string code (the files of C14.R1, package parser's literal reader and the builtins):
// every conversion byte(x)/uint8(x) of a non-constant rune-typed x is governed by a test bounding x below a constant
// of at most 256 — an enclosing if or && operand, or an earlier test that leaves.
const runeCutExample = `package p
func f(c rune, tbl *[256]bool) bool {
	if c < 128 {
		return tbl[byte(c)]
	}
	return tbl[byte(c)]
}`

func runeToByteFindings(info *types.Info, body *ast.BlockStmt) (bad []*ast.CallExpr, all int) {
	isRune := func(e ast.Expr) bool {
		tv, ok := info.Types[e]
		if !ok || tv.Value != nil {
			return false
		}
		b, ok := tv.Type.Underlying().(*types.Basic)
		return ok && (b.Kind() == types.Int32 || b.Kind() == types.UntypedRune)
	}
	bounded := func(cond ast.Expr, name string, neg bool) bool {
		res := false
		var walk func(e ast.Expr, neg bool)
		walk = func(e ast.Expr, neg bool) {
			e = unparen(e)
			if u, ok := e.(*ast.UnaryExpr); ok && u.Op == token.NOT {
				walk(u.X, !neg)
				return
			}
			be, ok := e.(*ast.BinaryExpr)
			if !ok {
				return
			}
			if be.Op == token.LAND && !neg || be.Op == token.LOR && neg {
				walk(be.X, neg)
				walk(be.Y, neg)
				return
			}
			op, x, k := be.Op, be.X, be.Y
			if exprStr(unparen(be.Y)) == name {
				op, x, k = flipOp(be.Op), be.Y, be.X
			}
			if exprStr(unparen(x)) != name {
				return
			}
			kv, ok := constInt(info, k)
			if !ok {
				return
			}
			if neg {
				op = map[token.Token]token.Token{token.LSS: token.GEQ, token.LEQ: token.GTR, token.GTR: token.LEQ, token.GEQ: token.LSS}[op]
			}
			if op == token.LSS && kv <= 256 || op == token.LEQ && kv <= 255 {
				res = true
			}
		}
		walk(cond, neg)
		return res
	}
	var stack []ast.Node
	ast.Inspect(body, func(n ast.Node) bool {
		if n == nil {
			stack = stack[:len(stack)-1]
			return true
		}
		stack = append(stack, n)
		call, ok := n.(*ast.CallExpr)
		if !ok || len(call.Args) != 1 {
			return true
		}
		tv, ok := info.Types[call.Fun]
		if !ok || !tv.IsType() {
			return true
		}
		if b, ok := tv.Type.Underlying().(*types.Basic); !ok || b.Kind() != types.Uint8 {
			return true
		}
		if !isRune(call.Args[0]) {
			return true
		}
		all++
		name := exprStr(unparen(call.Args[0]))
		guarded := false
		for i := len(stack) - 2; i >= 0 && !guarded; i-- {
			child := stack[i+1]
			switch par := stack[i].(type) {
			case *ast.BinaryExpr:
				if par.Y == child && par.Op == token.LAND && bounded(par.X, name, false) {
					guarded = true
				}
				if par.Y == child && par.Op == token.LOR && bounded(par.X, name, true) {
					guarded = true
				}
			case *ast.IfStmt:
				if par.Body == child && bounded(par.Cond, name, false) {
					guarded = true
				}
				if par.Else == child && bounded(par.Cond, name, true) {
					guarded = true
				}
			case *ast.BlockStmt:
				for _, st := range par.List {
					if st == child {
						break
					}
					if is, ok := st.(*ast.IfStmt); ok && is.Else == nil && blockTerminates(is.Body) && bounded(is.Cond, name, true) {
						guarded = true
					}
				}
			case *ast.CaseClause:
				for _, e := range par.List {
					if child != ast.Node(e) && bounded(e, name, false) {
						guarded = true
					}
				}
				// `switch c { case 'u', 'U': … byte(c) … }`: inside the clause c is one of its labels
				if i >= 2 && len(par.List) > 0 {
					if sw, ok := stack[i-2].(*ast.SwitchStmt); ok && sw.Tag != nil && exprStr(unparen(sw.Tag)) == name {
						isLabel := false
						small := true
						for _, e := range par.List {
							if child == ast.Node(e) {
								isLabel = true
							}
							if kv, ok := constInt(info, e); !ok || kv < 0 || kv > 255 {
								small = false
							}
						}
						if small && !isLabel {
							guarded = true
						}
					}
				}
			case *ast.FuncLit:
				i = -1
			}
		}
		if !guarded {
			bad = append(bad, call)
		}
		return true
	})
	return
}

// conversions of the reviewed tree that are meant to keep the low byte
var confirmedRuneCut = map[string]string{
	"parser.DecodeEscape|byte(cout)": "an octal escape in a bytes literal: three octal digits reach 0o777 and Python 3.4 keeps the low eight bits (b'\\777' == b'\\xff'); the value is a number written by the programmer, not a character of the text",
}

// underBoolParamTest: the node lies in the body of an `if p` (or `if p && …`) where p is a bool parameter of fd.
func underBoolParamTest(info *types.Info, fd *ast.FuncDecl, target ast.Node) bool {
	params := map[types.Object]bool{}
	for _, f := range fd.Type.Params.List {
		for _, nm := range f.Names {
			if o := info.Defs[nm]; o != nil {
				if b, ok := o.Type().Underlying().(*types.Basic); ok && b.Kind() == types.Bool {
					params[o] = true
				}
			}
		}
	}
	found := false
	var stack []ast.Node
	ast.Inspect(fd.Body, func(n ast.Node) bool {
		if n == nil {
			stack = stack[:len(stack)-1]
			return true
		}
		if n == target {
			for i, s := range stack {
				ifs, ok := s.(*ast.IfStmt)
				if !ok || i+1 >= len(stack) || stack[i+1] != ast.Node(ifs.Body) {
					continue
				}
				var mentions func(e ast.Expr) bool
				mentions = func(e ast.Expr) bool {
					e = unparen(e)
					if id, ok := e.(*ast.Ident); ok {
						return params[info.Uses[id]]
					}
					if be, ok := e.(*ast.BinaryExpr); ok && be.Op == token.LAND {
						return mentions(be.X) || mentions(be.Y)
					}
					return false
				}
				if mentions(ifs.Cond) {
					found = true
				}
			}
		}
		stack = append(stack, n)
		return true
	})
	return found
}

func runRuneNotCut(c *Ctx, r *Rep) {
	// positive example: the matcher must accept the guarded conversion and flag the other
	fset := token.NewFileSet()
	ef, err := parser.ParseFile(fset, "example.go", runeCutExample, 0)
	if err != nil {
		r.undecided("runecut|selftest", token.NoPos, "example does not parse: %v", err)
		return
	}
	einfo := &types.Info{Types: map[ast.Expr]types.TypeAndValue{}, Uses: map[*ast.Ident]types.Object{}, Defs: map[*ast.Ident]types.Object{}}
	if _, err := (&types.Config{}).Check("p", fset, []*ast.File{ef}, einfo); err != nil {
		r.undecided("runecut|selftest", token.NoPos, "example does not type-check: %v", err)
		return
	}
	if bad, all := runeToByteFindings(einfo, ef.Decls[0].(*ast.FuncDecl).Body); len(bad) != 1 || all != 2 {
		r.undecided("runecut|selftest", token.NoPos, "the matcher finds %d/%d conversions in its own example, expected 1/2", len(bad), all)
		return
	}
	r.okTrivial("runecut|selftest", token.NoPos, "the matcher accepts the guarded conversion of its built-in example and flags the unguarded one")
	for _, tg := range []struct{ rel, file string }{{"py", "string.go"}, {"py", "bytes.go"}, {"parser", "stringescape.go"}, {"parser", "lexer.go"}, {"stdlib/builtin", "builtin.go"}} {
		p := c.Pkg(tg.rel)
		if p == nil {
			continue
		}
		for _, f := range c.Files(p) {
			if fileOf(c, f.Pos()) != tg.file {
				continue
			}
			for _, d := range f.Decls {
				fd, ok := d.(*ast.FuncDecl)
				if !ok || fd.Body == nil {
					continue
				}
				bad, all := runeToByteFindings(p.TypesInfo, fd.Body)
				if all == 0 {
					continue
				}
				id := declID(p, fd)
				r.analysed(id)
				if len(bad) == 0 {
					r.ok("runecut|"+id, fd.Pos(), "%d conversion(s) of a character to a byte, each under a test bounding it below 256", all)
					continue
				}
				for _, b := range bad {
					if why, ok := confirmedRuneCut[id+"|"+exprStr(b)]; ok {
						r.okTrivial("runecut|"+id+"|"+exprStr(b), b.Pos(), "reviewed: %s", why)
						continue
					}
					// the same reviewed exception wherever it is written inside DecodeEscape (a closure shared by the octal and
					// hex escapes, another name for the value): the conversion sits under a test of the function's own
					// bytes-mode parameter
					if id == "parser.DecodeEscape" && underBoolParamTest(p.TypesInfo, fd, b) {
						r.okTrivial("runecut|"+id+"|byte(cout)", b.Pos(), "reviewed: %s", confirmedRuneCut["parser.DecodeEscape|byte(cout)"])
						continue
					}
					r.bad("runecut|"+id+"|"+exprStr(b), b.Pos(), "`%s` cuts a character down to its low byte without a test bounding it below 256: every character whose low byte equals the intended one is taken for it ('š' U+0161 for 'a'), so searching, stripping or classifying by such a table answers for the wrong characters", exprStr(b))
				}
			}
		}
	}
}

func init() {
	register(&Rule{ID: "C14.R9", Prop: "C14", Floor: 1,
		Doc: "a character is not cut down to its low byte: in the string code (py/string.go, py/bytes.go, the literal reader and lexer, the builtins) every conversion byte(x) of a non-constant rune-typed x is governed by a test bounding x below a constant of at most 256 (enclosing if, && operand, or an earlier test that leaves); the matcher is exercised on a built-in example on every run",
		Run: runRuneNotCut})
}
