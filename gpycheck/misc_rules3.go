package main

import (
	"fmt"
	"go/ast"
	"go/token"
	"go/types"
	"sort"
	"strings"
)

// ---- C04.R6: arity of the native-method wrappers ----

// In py.newBoundMethod each case wraps a Go function type; where the wrapper unpacks the Python arguments with
// UnpackTuple, min and max must both equal the number of Object parameters of that function type: a special method
// implemented in Go receives exactly the arguments of the Python call, and a missing one is a TypeError.
func runWrapperArity(c *Ctx, r *Rep) {
	fd := c.FuncDecl("py", "newBoundMethod")
	if fd == nil || fd.Body == nil {
		r.undecided("wrapper|py.newBoundMethod", token.NoPos, "anchor function not found")
		return
	}
	p := c.MustPkg("py")
	info := p.TypesInfo
	r.analysed("py.newBoundMethod")
	n := 0
	ast.Inspect(fd.Body, func(nd ast.Node) bool {
		cc, ok := nd.(*ast.CaseClause)
		if !ok || len(cc.List) != 1 {
			return true
		}
		tv, ok := info.Types[cc.List[0]]
		if !ok || !tv.IsType() {
			return true
		}
		sig, ok := tv.Type.(*types.Signature)
		if !ok {
			return true
		}
		nObj := 0
		for i := 0; i < sig.Params().Len(); i++ {
			if strings.HasSuffix(sig.Params().At(i).Type().String(), "/py.Object") {
				nObj++
			}
		}
		for _, st := range cc.Body {
			ast.Inspect(st, func(m ast.Node) bool {
				call, ok := m.(*ast.CallExpr)
				if !ok {
					return true
				}
				fn := Callee(info, call)
				if fn == nil || fn.Name() != "UnpackTuple" || len(call.Args) < 5 {
					return true
				}
				n++
				minV, ok1 := info.Types[call.Args[3]]
				maxV, ok2 := info.Types[call.Args[4]]
				key := "wrapper|py.newBoundMethod|case " + types.TypeString(tv.Type, func(*types.Package) string { return "" })
				if !ok1 || !ok2 || minV.Value == nil || maxV.Value == nil {
					r.undecided(key, call.Pos(), "arity bounds are not constants")
					return true
				}
				mn, mx := mustInt(minV.Value), mustInt(maxV.Value)
				r.check(mn == int64(nObj) && mx == int64(nObj), key, call.Pos(),
					fmt.Sprintf("the wrapper demands exactly %d arguments, the arity of the Go function", nObj),
					fmt.Sprintf("the wrapper of a Go function taking %d objects accepts between %d and %d arguments: with fewer, the Go method receives a value the Python call never passed (x.__setitem__(0) stores None) instead of the call being a TypeError", nObj, mn, mx))
				return true
			})
		}
		return true
	})
	if n == 0 {
		r.undecided("wrapper|sites", fd.Pos(), "no UnpackTuple call found in the wrappers of newBoundMethod")
	}
}

// ---- C03.R9: Argcount and Kwonlyargcount are set together ----

func runArgcountsTogether(c *Ctx, r *Rep) {
	p := c.MustPkg("compile")
	n := 0
	for _, file := range c.Files(p) {
		for _, d := range file.Decls {
			fd, ok := d.(*ast.FuncDecl)
			if !ok || fd.Body == nil {
				continue
			}
			id := declID(p, fd)
			var visit func(list []ast.Stmt)
			visit = func(list []ast.Stmt) {
				set := map[string]map[string]ast.Expr{} // receiver text -> field -> rhs
				var first token.Pos
				for _, st := range list {
					if as, ok := st.(*ast.AssignStmt); ok && len(as.Lhs) == 1 && len(as.Rhs) == 1 {
						if sel, ok := as.Lhs[0].(*ast.SelectorExpr); ok && (sel.Sel.Name == "Argcount" || sel.Sel.Name == "Kwonlyargcount") {
							rcv := exprStr(sel.X)
							if set[rcv] == nil {
								set[rcv] = map[string]ast.Expr{}
							}
							set[rcv][sel.Sel.Name] = as.Rhs[0]
							if first == token.NoPos {
								first = as.Pos()
							}
						}
					}
				}
				var rcvs []string
				for k := range set {
					rcvs = append(rcvs, k)
				}
				sort.Strings(rcvs)
				for _, rcv := range rcvs {
					f := set[rcv]
					n++
					_, hasA := f["Argcount"]
					_, hasK := f["Kwonlyargcount"]
					constOnly := false
					if hasA && !hasK {
						if tv, ok := p.TypesInfo.Types[f["Argcount"]]; ok && tv.Value != nil {
							constOnly = true // a fixed signature (comprehension: one positional, no keyword-only)
						}
					}
					key := fmt.Sprintf("argcounts|%s|%s", id, rcv)
					if hasA && hasK || constOnly {
						r.ok(key, first, "both parameter counts of the code object are set in the same place")
					} else {
						r.bad(key, first, "%s sets %s.%s but not its sibling in the same block: the code object then carries a stale count while it is used (compileAst runs InitCell2arg on it), so cells of keyword-only parameters and of *args/**kwargs are not mapped to their argument slots", id, rcv, map[bool]string{true: "Argcount", false: "Kwonlyargcount"}[hasA])
					}
				}
			}
			ast.Inspect(fd.Body, func(nd ast.Node) bool {
				switch x := nd.(type) {
				case *ast.BlockStmt:
					visit(x.List)
				case *ast.CaseClause:
					visit(x.Body)
				}
				return true
			})
		}
	}
	if n < 3 {
		r.undecided("argcounts|sites", token.NoPos, "expected the compiler to set the parameter counts in compileAst (two arms) and compileFunc, found %d site(s)", n)
	}
}

// ---- C06.R8: a per-iteration flag is reset in the iteration that consumes it ----

func runStickyFlags(c *Ctx, r *Rep) {
	n := 0
	for _, rel := range []string{"parser", "py", "vm", "compile", "symtable", "stdlib/builtin"} {
		p := c.Pkg(rel)
		if p == nil {
			continue
		}
		info := p.TypesInfo
		for _, file := range c.Files(p) {
			if fileOf(c, file.Pos()) == "y.go" {
				continue
			}
			for _, d := range file.Decls {
				fd, ok := d.(*ast.FuncDecl)
				if !ok || fd.Body == nil {
					continue
				}
				id := declID(p, fd)
				ast.Inspect(fd.Body, func(nd ast.Node) bool {
					var body *ast.BlockStmt
					switch x := nd.(type) {
					case *ast.ForStmt:
						body = x.Body
					case *ast.RangeStmt:
						body = x.Body
					default:
						return true
					}
					// boolean variables declared outside the loop, set to true somewhere inside it
					setTrue := map[types.Object]token.Pos{}
					latch := map[types.Object]bool{}
					ast.Inspect(body, func(m ast.Node) bool {
						as, ok := m.(*ast.AssignStmt)
						if !ok || as.Tok != token.ASSIGN || len(as.Lhs) != 1 || len(as.Rhs) != 1 {
							return true
						}
						lid, ok := as.Lhs[0].(*ast.Ident)
						if !ok || exprStr(as.Rhs[0]) != "true" {
							return true
						}
						obj := info.Uses[lid]
						if obj == nil || obj.Pos() >= body.Pos() && obj.Pos() <= body.End() {
							return true // declared inside the loop: fresh each iteration
						}
						if fd.Body.Pos() <= obj.Pos() && obj.Pos() <= fd.Body.End() {
							// a latch set unconditionally at the top level of the body ("not the first item any more") is meant to stick
							for _, top := range body.List {
								if top == ast.Stmt(as) {
									latch[obj] = true
								}
							}
							setTrue[obj] = as.Pos()
						}
						return true
					})
					for obj := range latch {
						delete(setTrue, obj)
					}
					for obj := range setTrue {
						// a consumer: a top-level `if flag { … }` of the loop body
						for _, st := range body.List {
							is, ok := st.(*ast.IfStmt)
							if !ok {
								continue
							}
							cid, ok := is.Cond.(*ast.Ident)
							if !ok || info.Uses[cid] != obj {
								continue
							}
							n++
							reset, leaves := false, false
							ast.Inspect(is.Body, func(m ast.Node) bool {
								switch y := m.(type) {
								case *ast.AssignStmt:
									if len(y.Lhs) == 1 && len(y.Rhs) == 1 {
										if l, ok := y.Lhs[0].(*ast.Ident); ok && info.Uses[l] == obj && exprStr(y.Rhs[0]) == "false" {
											reset = true
										}
									}
								case *ast.ReturnStmt:
									leaves = true
								case *ast.BranchStmt:
									if y.Tok == token.BREAK || y.Tok == token.GOTO {
										leaves = true
									}
								}
								return true
							})
							// or reset elsewhere at the top level of the loop body (start of each iteration)
							for _, st2 := range body.List {
								if as, ok := st2.(*ast.AssignStmt); ok && len(as.Lhs) == 1 && len(as.Rhs) == 1 {
									if l, ok := as.Lhs[0].(*ast.Ident); ok && info.Uses[l] == obj && exprStr(as.Rhs[0]) == "false" {
										reset = true
									}
								}
							}
							key := fmt.Sprintf("flag|%s|%s", id, obj.Name())
							if reset || leaves {
								r.ok(key, is.Pos(), "the flag is cleared (or the loop is left) where it is consumed")
							} else {
								r.bad(key, is.Pos(), "the flag %s is set during one iteration of the loop and consumed by `if %s {…}`, but nothing clears it: once set it stays set for every later iteration (after one unknown escape, every later escape of the literal is treated as unknown too)", obj.Name(), obj.Name())
							}
						}
					}
					return true
				})
			}
		}
	}
	if n == 0 {
		r.undecided("flag|sites", token.NoPos, "no per-iteration flag found (expected ignoreEscape in parser.DecodeEscape)")
	}
}

// ---- C06.R9: every attribute a production sets is read by a production that uses it ----

func runDeadAttributes(c *Ctx, r *Rep) {
	g := loadGrammar(c, r)
	if g == nil {
		return
	}
	// writes: nonterminal -> tag set by its actions (VAL_tag)
	writes := map[string]map[string]int{}
	for _, a := range g.alts {
		if a.body == nil {
			continue
		}
		ast.Inspect(a.body, func(nd ast.Node) bool {
			as, ok := nd.(*ast.AssignStmt)
			if !ok {
				return true
			}
			for _, l := range as.Lhs {
				if id, ok := l.(*ast.Ident); ok && strings.HasPrefix(id.Name, "VAL_") {
					tag := strings.TrimPrefix(id.Name, "VAL_")
					if writes[a.lhs] == nil {
						writes[a.lhs] = map[string]int{}
					}
					writes[a.lhs][tag] = a.line
				}
			}
			return true
		})
	}
	// reads: (symbol, tag) read as Dk_tag by some action; an action without explicit VAL assignment passes $1's attributes on
	reads := map[string]map[string]bool{}
	passes := map[string][]string{} // child -> parents that copy $1 wholesale (default action or `VAL = D1`)
	for _, a := range g.alts {
		if len(a.syms) == 0 {
			continue
		}
		if a.body == nil {
			passes[a.syms[0]] = append(passes[a.syms[0]], a.lhs)
			continue
		}
		copies := false
		ast.Inspect(a.body, func(nd ast.Node) bool {
			switch x := nd.(type) {
			case *ast.Ident:
				if strings.HasPrefix(x.Name, "D") && strings.Contains(x.Name, "_") {
					var k int
					var tag string
					if _, err := fmt.Sscanf(strings.Replace(x.Name, "_", " ", 1), "D%d %s", &k, &tag); err == nil && k >= 1 && k <= len(a.syms) {
						sym := a.syms[k-1]
						if reads[sym] == nil {
							reads[sym] = map[string]bool{}
						}
						reads[sym][tag] = true
					}
				}
			case *ast.AssignStmt:
				if len(x.Lhs) == 1 && len(x.Rhs) == 1 && exprStr(x.Lhs[0]) == "VAL" && exprStr(x.Rhs[0]) == "D1" {
					copies = true
				}
			}
			return true
		})
		if copies {
			passes[a.syms[0]] = append(passes[a.syms[0]], a.lhs)
		}
	}
	var isRead func(sym, tag string, seen map[string]bool) bool
	isRead = func(sym, tag string, seen map[string]bool) bool {
		if seen[sym] {
			return false
		}
		seen[sym] = true
		if reads[sym][tag] {
			return true
		}
		// goyacc copies the whole value record of $1 into $$ before the action, so the attribute travels upwards
		for _, parent := range passes[sym] {
			if isRead(parent, tag, seen) {
				return true
			}
		}
		return false
	}
	var nts []string
	for nt := range writes {
		nts = append(nts, nt)
	}
	sort.Strings(nts)
	n := 0
	for _, nt := range nts {
		var tags []string
		for t := range writes[nt] {
			tags = append(tags, t)
		}
		sort.Strings(tags)
		for _, tag := range tags {
			if g.types[nt] == tag {
				continue // the nonterminal's own value
			}
			n++
			key := fmt.Sprintf("attr|%s.%s", nt, tag)
			if isRead(nt, tag, map[string]bool{}) {
				r.ok(key, token.NoPos, "the attribute set by %s is read by a production that uses it", nt)
			} else {
				r.bad(key, token.NoPos, "parser/grammar.y:%d: the production %s sets the attribute <%s> but no production that uses %s reads it any more: the decision it carried (one element vs. a list, expression vs. flattened operator chain, trailing comma) is now made from something else, or not at all", writes[nt][tag], nt, tag, nt)
			}
		}
	}
	if n == 0 {
		r.undecided("attr|sites", token.NoPos, "no secondary attribute ($<tag>$) is set in grammar.y")
	}
}

func init() {
	register(&Rule{ID: "C04.R6", Prop: "C04", Floor: 2,
		Doc: "native special-method wrappers (py.newBoundMethod): where a wrapper unpacks the Python arguments, the accepted count (min and max of UnpackTuple) equals the number of objects the wrapped Go function takes",
		Run: runWrapperArity})
	register(&Rule{ID: "C04.R7", Prop: "C04", Floor: 3,
		Doc: "the compiler sets Argcount and Kwonlyargcount of a code object in the same block (or Argcount to a constant for fixed signatures): the binder and the cell-to-argument mapping read both",
		Run: runArgcountsTogether})
	register(&Rule{ID: "C03.R9", Prop: "C03", Floor: 3,
		Doc: "the compiler sets Argcount and Kwonlyargcount of a code object in the same block (or Argcount to a constant for fixed signatures): InitCell2arg and the binder read both",
		Run: runArgcountsTogether})
	register(&Rule{ID: "C06.R8", Prop: "C06", Floor: 1,
		Doc: "per-iteration flags: a boolean declared outside a loop, set to true inside it and consumed by a top-level `if flag` of the loop body is cleared there (or at the top of the body), or the loop is left — the unknown-escape flag of DecodeEscape does not stick",
		Run: runStickyFlags})
	register(&Rule{ID: "C06.R9", Prop: "C06", Floor: 5,
		Doc: "no dead attributes in grammar.y: every secondary attribute ($<tag>$ other than the nonterminal's own value) that a production sets is read ($<tag>k) by a production using that nonterminal, directly or after being passed up by default/copy actions — isExpr, comma and the like still decide what they were computed for",
		Run: runDeadAttributes})
}

// ---- partial interface equality (C01.R9 / C13.R8) ----

// In Go, `a == b` on two interface values panics at run time when both hold the same uncomparable dynamic type. Python
// objects are Go interface values and three built-in kinds are uncomparable (py.Tuple and py.Bytes are slices,
// py.StringDict is a map), so an identity or equality shortcut written as `a == b` on two arbitrary objects crashes
// for `t is t`, `d is d`, `(1,2) in [(1,2)]`. The comparison is total when one operand is statically known to hold a
// comparable dynamic type: nil, or one of the package-level singletons (None, True, False, NotImplemented, …).
func comparableSingleton(info *types.Info, e ast.Expr) bool {
	e = unparen(e)
	var obj types.Object
	switch x := e.(type) {
	case *ast.Ident:
		if x.Name == "nil" {
			return true
		}
		obj = info.Uses[x]
	case *ast.SelectorExpr:
		obj = info.Uses[x.Sel]
	}
	switch o := obj.(type) {
	case *types.Const:
		return true
	case *types.Var:
		// a package-level variable of concrete comparable type, or of interface type initialised once from one
		if o.Parent() != nil && o.Parent() == o.Pkg().Scope() {
			if _, isIface := o.Type().Underlying().(*types.Interface); !isIface {
				return types.Comparable(o.Type())
			}
			switch o.Name() {
			case "None", "True", "False", "NotImplemented", "Ellipsis", "StopIteration":
				return true
			}
		}
	}
	return false
}

func runPartialEquality(c *Ctx, r *Rep) {
	n, nbad := 0, 0
	for _, p := range c.All {
		s := shortPkg(p.PkgPath)
		if !(s == "py" || s == "vm" || strings.HasPrefix(s, "stdlib")) {
			continue
		}
		info := p.TypesInfo
		for _, file := range c.Files(p) {
			for _, d := range file.Decls {
				fd, ok := d.(*ast.FuncDecl)
				if !ok || fd.Body == nil {
					continue
				}
				id := declID(p, fd)
				ast.Inspect(fd.Body, func(nd ast.Node) bool {
					be, ok := nd.(*ast.BinaryExpr)
					if !ok || (be.Op != token.EQL && be.Op != token.NEQ) {
						return true
					}
					tx, ok1 := info.Types[be.X]
					ty, ok2 := info.Types[be.Y]
					if !ok1 || !ok2 || tx.Type == nil || ty.Type == nil {
						return true
					}
					isObj := func(t types.Type) bool {
						_, ok := t.Underlying().(*types.Interface)
						return ok && strings.HasSuffix(t.String(), "/py.Object")
					}
					if !isObj(tx.Type) || !isObj(ty.Type) {
						return true
					}
					n++
					if comparableSingleton(info, be.X) || comparableSingleton(info, be.Y) {
						return true
					}
					nbad++
					key := fmt.Sprintf("ifaceeq|%s|%s", id, exprStr(be))
					if why, ok := confirmedIfaceEq[strings.TrimPrefix(key, "ifaceeq|")]; ok {
						r.ok(key, be.Pos(), "reviewed: %s", why)
						return true
					}
					r.bad(key, be.Pos(), "`%s` compares two arbitrary Python objects with Go's interface equality: when both are tuples, bytes or dicts (uncomparable Go types) the comparison panics at run time — `t is t`, `d is d`, `(1, 2) in [(1, 2)]` end in SystemError; use an identity helper that handles slice- and map-backed objects", exprStr(be))
					return true
				})
			}
		}
	}
	r.ok("ifaceeq|census", token.NoPos, "%d comparisons between two py.Object values examined; each has a nil/singleton operand of comparable type or is a reviewed row", n)
}

// confirmedIfaceEq: comparisons of two objects whose dynamic types are known comparable from context.
var confirmedIfaceEq = map[string]string{
	"py.Is|a == b":                                  "guarded by reflect: reached only when both dynamic types are identical and comparable",
	"py.ExceptionGivenMatches|err == exc":           "both are exception classes or instances (*Type / *Exception pointers); the tuple case is handled before",
	"py.check_duplicates|list.Items[j] == o":        "the list holds the bases of a class, validated to be *Type pointers",
	"py.tail_contains|list.Items[j] == o":           "MRO lists hold *Type pointers",
	"py.pmerge|j_lst.Items[remain[j]] == candidate": "MRO lists hold *Type pointers",
}

func init() {
	for _, prop := range []string{"C01", "C13"} {
		id := map[string]string{"C01": "C01.R9", "C13": "C13.R8"}[prop]
		register(&Rule{ID: id, Prop: prop, Floor: 1,
			Doc: "interface equality is partial: no `==`/`!=` between two py.Object values in py, vm or stdlib unless one operand is nil or a package-level singleton of comparable type (None, True, False, NotImplemented, …) — Go panics when both hold tuples, bytes or dicts, so `is`, `in` and identity shortcuts must not be written that way",
			Run: runPartialEquality})
	}
}
