package main

import (
	"fmt"
	"go/ast"
	"go/types"
	"regexp"
	"sort"
	"strings"
)

// Emission-order engine (DESIGN.md B.1): the compiler's own code is interpreted
// symbolically, arm by arm, over a symbolic AST node. Calls of the emitter
// primitives of *compile.compiler are recorded as events; helpers are inlined;
// loops become structured loop events. Nothing is compiled or run.

type emitEvent struct {
	kind string   // Expr, Exprs, Stmts, Op, OpArg, Jump, Label, NewLabel, LoadConst, NameOp, OpName, Push, Pop, Top, Scope, SyntaxError, Call:<name>, Loop
	args []string // rendered arguments
	loop []emitAlt
}

type emitAlt struct {
	conds  []string
	events []emitEvent
	exit   string
}

type emitPath struct {
	conds  []string
	events []emitEvent
	und    []string
}

type emitEngine struct {
	c  *Ctx
	m  *vmModel
	se *symExec
}

var emitPrimitiveNames = []string{"Expr", "Exprs", "Stmt", "Stmts", "Op", "OpArg", "Jump", "Label", "NewLabel", "LoadConst", "NameOp", "OpName",
	"Const", "Name", "Index", "FindId", "SetLineno", "newCompilerScope", "setQualname", "getRefType", "codeFlags", "panicSyntaxErrorf", "docString"}

func newEmitEngine(c *Ctx) *emitEngine {
	e := &emitEngine{c: c, m: getVMModel(c)}
	se := newSymExec(c, "compile")
	se.emitMode = true
	se.inlineAll = true
	se.maxPaths = 20000
	se.primitive = map[*types.Func]bool{}
	for _, n := range emitPrimitiveNames {
		if f := c.Method("compile", "compiler", n); f != nil {
			se.primitive[f] = true
		}
	}
	// the assembler and the stack-depth walk are not part of the emission scheme
	if it := c.Named("compile", "Instructions"); it != nil {
		for i := 0; i < it.NumMethods(); i++ {
			se.primitive[it.Method(i)] = true
		}
	}
	for _, n := range []string{"Push", "Pop", "Top"} {
		if f := c.Method("compile", "loopstack", n); f != nil {
			se.primitive[f] = true
		}
	}
	e.se = se
	return e
}

var condNeg = regexp.MustCompile(`^!\((.*)\)$`)

// normCond normalises a condition string: !(a == b) -> a != b, etc.
func normCond(s string) string {
	for {
		m := condNeg.FindStringSubmatch(s)
		if m == nil {
			return s
		}
		inner := m[1]
		// only flip when inner is a single comparison (no && / ||)
		if strings.Contains(inner, "&&") || strings.Contains(inner, "||") {
			return s
		}
		flipped := false
		for _, pr := range [][2]string{{" == ", " != "}, {" != ", " == "}, {" < ", " >= "}, {" >= ", " < "}, {" > ", " <= "}, {" <= ", " > "}} {
			if strings.Count(inner, pr[0]) == 1 && !strings.HasPrefix(inner, "!") {
				s = strings.Replace(inner, pr[0], pr[1], 1)
				flipped = true
				break
			}
		}
		if !flipped {
			if strings.HasPrefix(inner, "!(") || !strings.ContainsAny(inner, " ") {
				if strings.HasPrefix(inner, "!") {
					s = strings.TrimPrefix(inner, "!")
					continue
				}
			}
			return s
		}
	}
}

func (e *emitEngine) opName(v val) string {
	if v.kind == vInt && v.lin.isConst() {
		if n, ok := e.m.opByVal[v.lin.c]; ok {
			return n
		}
	}
	return v.String()
}

func (e *emitEngine) render(crs []callRec) []emitEvent {
	var out []emitEvent
	for _, cr := range crs {
		if cr.callee == "<loop>" {
			ev := emitEvent{kind: "Loop"}
			if len(cr.args) > 0 {
				ev.args = []string{cr.args[0].String()}
			}
			for _, a := range cr.loop {
				alt := emitAlt{exit: a.exit, events: e.render(a.calls)}
				for _, c := range a.conds {
					alt.conds = append(alt.conds, normCond(c))
				}
				alt.conds = simplifyConds(alt.conds)
				ev.loop = append(ev.loop, alt)
			}
			// alternatives doing the same under complementary tests are one alternative
			var items []condBody
			for i, a := range ev.loop {
				items = append(items, condBody{conds: a.conds, body: eventsString(a.events) + " " + a.exit, ref: i})
			}
			var merged []emitAlt
			for _, it := range mergeComplementary(items) {
				a := ev.loop[it.ref]
				a.conds = it.conds
				merged = append(merged, a)
			}
			ev.loop = merged
			sort.Slice(ev.loop, func(i, j int) bool { return altString(ev.loop[i]) < altString(ev.loop[j]) })
			out = append(out, ev)
			continue
		}
		name := cr.callee
		short := name
		if i := strings.LastIndex(name, ")."); i >= 0 {
			short = name[i+2:]
		}
		ev := emitEvent{kind: short}
		isCompiler := strings.HasPrefix(name, "(*compile.compiler).")
		isLoops := strings.Contains(name, "compile.loopstack).")
		switch {
		case isCompiler && (short == "Op" || short == "OpArg" || short == "Jump" || short == "OpName"):
			for i, a := range cr.args {
				if i == 0 {
					ev.args = append(ev.args, e.opName(a))
				} else if short == "OpArg" && len(cr.args) == 2 && e.opName(cr.args[0]) == "COMPARE_OP" && a.kind == vInt && a.lin.isConst() {
					nm := a.String()
					for k, v := range e.m.cmpOps {
						if v == a.lin.c {
							nm = k
						}
					}
					ev.args = append(ev.args, nm)
				} else {
					ev.args = append(ev.args, a.String())
				}
			}
		case isCompiler && short == "NewLabel":
			ev.args = []string{cr.ret}
		case isCompiler:
			for i, a := range cr.args {
				if short == "NameOp" && i == 1 {
					ev.args = append(ev.args, e.ctxName(a))
					continue
				}
				ev.args = append(ev.args, a.String())
			}
			if short == "panicSyntaxErrorf" {
				ev.kind = "SyntaxError"
				if len(ev.args) > 1 {
					ev.args = ev.args[:1]
				}
			}
		case isLoops:
			ev.kind = "loops." + short
			for _, a := range cr.args {
				ev.args = append(ev.args, a.String())
			}
		case short == "SetCtx" && strings.Contains(name, "ast."):
			ev.kind = "SetCtx"
			if cr.recv != nil {
				ev.args = append(ev.args, cr.recv.String())
			}
			for _, a := range cr.args {
				ev.args = append(ev.args, e.ctxName(a))
			}
		default:
			continue
		}
		if isCompiler && silentEmitters[short] {
			continue
		}
		out = append(out, ev)
	}
	return out
}

// helper calls that emit nothing
var silentEmitters = map[string]bool{"SetLineno": true, "Name": true, "Const": true, "Index": true, "FindId": true, "getRefType": true, "setQualname": true, "codeFlags": true}

func (e *emitEngine) ctxName(v val) string {
	if v.kind == vInt && v.lin.isConst() {
		if p := e.c.Pkg("ast"); p != nil {
			if nt := e.c.Named("ast", "ExprContext"); nt != nil {
				for _, n := range p.Types.Scope().Names() {
					if k, ok := p.Types.Scope().Lookup(n).(*types.Const); ok && types.Identical(k.Type(), nt) && constVal(k) == v.lin.c {
						return n
					}
				}
			}
		}
	}
	return v.String()
}

// relabel renumbers labels L<n> in order of first appearance.
func relabel(s string) string {
	re := regexp.MustCompile(`\bL[0-9]+\b`)
	m := map[string]string{}
	return re.ReplaceAllStringFunc(s, func(x string) string {
		if y, ok := m[x]; ok {
			return y
		}
		y := fmt.Sprintf("L%d", len(m)+1)
		m[x] = y
		return y
	})
}

func altString(a emitAlt) string {
	cs := append([]string{}, a.conds...)
	sort.Strings(cs)
	return "[" + strings.Join(cs, " && ") + "] " + eventsString(a.events) + " " + a.exit
}

func eventsString(evs []emitEvent) string {
	var parts []string
	for _, ev := range evs {
		if ev.kind == "Loop" {
			var alts []string
			for _, a := range ev.loop {
				alts = append(alts, altString(a))
			}
			parts = append(parts, "LOOP("+strings.Join(ev.args, ",")+"){"+strings.Join(alts, " | ")+"}")
			continue
		}
		parts = append(parts, ev.kind+"("+strings.Join(ev.args, ", ")+")")
	}
	return strings.Join(parts, "; ")
}

// runMethod interprets a method of *compile.compiler with its parameters named as given
// (unknown values described by those names) and returns the non-panicking paths.
func (e *emitEngine) runMethod(name string, paramNames []string) ([]emitPath, error) {
	fd := e.c.MethodDecl("compile", "compiler", name)
	if fd == nil {
		return nil, fmt.Errorf("compile.compiler.%s not found", name)
	}
	return e.runDecl(fd, paramNames)
}

func (e *emitEngine) runDecl(fd *ast.FuncDecl, paramNames []string) ([]emitPath, error) {
	var vals []*val
	for _, n := range paramNames {
		v := unk(n)
		vals = append(vals, &v)
	}
	e.se.labelN = 0
	res := e.se.runFunc(fd, vals, paramNames)
	if e.se.overflow {
		return nil, fmt.Errorf("path explosion in %s", fd.Name.Name)
	}
	// the receiver keeps the canonical name c
	var out []emitPath
	for _, pr := range res {
		ep := emitPath{events: e.render(pr.st.calls), und: pr.st.und}
		for _, c := range pr.st.conds {
			ep.conds = append(ep.conds, normCond(c))
		}
		ep.conds = simplifyConds(ep.conds)
		out = append(out, ep)
	}
	return out, nil
}

// arms groups the paths of Expr/Stmt/compileAst by the node type of the outer type switch.
func (e *emitEngine) arms(method string, param string) (map[string][]emitPath, error) {
	names := []string{param}
	if method == "compileAst" {
		names = []string{param, "filename", "futureFlags", "dont_inherit", "SymTable"}
	}
	paths, err := e.runMethod(method, names)
	if err != nil {
		return nil, err
	}
	out := map[string][]emitPath{}
	prefix := param + ".(type)=="
	for _, p := range paths {
		arm := ""
		var rest []string
		for _, c := range p.conds {
			if arm == "" && strings.HasPrefix(c, prefix) {
				arm = strings.TrimPrefix(c, prefix)
				continue
			}
			rest = append(rest, c)
		}
		p.conds = rest
		out[arm] = append(out[arm], p)
	}
	// paths emitting the same under complementary tests are one path
	for arm, ps := range out {
		var items []condBody
		for i, p := range ps {
			items = append(items, condBody{conds: p.conds, body: relabel(eventsString(p.events)) + "\x00" + strings.Join(p.und, ";"), ref: i})
		}
		var merged []emitPath
		for _, it := range mergeComplementary(items) {
			p := ps[it.ref]
			p.conds = it.conds
			merged = append(merged, p)
		}
		out[arm] = merged
	}
	return out, nil
}

// simplifyConds drops disequalities implied by an equality on the same left-hand side and duplicates.
func simplifyConds(cs []string) []string {
	eqLHS := map[string]bool{}
	for _, c := range cs {
		if i := strings.Index(c, " == "); i > 0 {
			eqLHS[c[:i]] = true
		}
	}
	seen := map[string]bool{}
	var out []string
	for _, c := range cs {
		if i := strings.Index(c, " != "); i > 0 && eqLHS[c[:i]] {
			continue
		}
		if seen[c] {
			continue
		}
		seen[c] = true
		out = append(out, c)
	}
	return out
}

func pathString(p emitPath) string {
	// the conditions of a path are a conjunction: their order carries nothing
	cs := append([]string{}, p.conds...)
	sort.Strings(cs)
	return relabel("[" + strings.Join(cs, " && ") + "] " + eventsString(p.events))
}
