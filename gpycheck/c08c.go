package main

import (
	"fmt"
	"go/token"
	"go/types"
	"sort"
	"strings"

	"golang.org/x/tools/go/ssa"
)

// C08.R9: nothing reachable from a *ModuleImpl parameter is written. A ModuleImpl (and the Method prototypes,
// globals and code it points to) is registered once per process and shared by every context that imports the
// module; a function that receives one may copy out of it but must not store through any pointer loaded from it.
//
// C08.R10: fields of a *py.Exception are written only by the function that allocated it. Many exceptions are
// package-level singletons (floatDivisionByZero, negativeShiftCount, StopIteration values …) raised by every
// context; a store into an exception obtained from elsewhere (a caught value, a parameter) writes shared state.

// derivedFrom: does v come from root by loads, field/index addressing, range/next, phi, extract, conversions?
func derivedFrom(v ssa.Value, root ssa.Value, seen map[ssa.Value]bool) bool {
	if v == nil || seen[v] {
		return false
	}
	seen[v] = true
	if v == root {
		return true
	}
	switch x := v.(type) {
	case *ssa.FieldAddr:
		return derivedFrom(x.X, root, seen)
	case *ssa.Field:
		return derivedFrom(x.X, root, seen)
	case *ssa.IndexAddr:
		return derivedFrom(x.X, root, seen)
	case *ssa.Index:
		return derivedFrom(x.X, root, seen)
	case *ssa.Lookup:
		return derivedFrom(x.X, root, seen)
	case *ssa.UnOp:
		return derivedFrom(x.X, root, seen)
	case *ssa.Slice:
		return derivedFrom(x.X, root, seen)
	case *ssa.Extract:
		return derivedFrom(x.Tuple, root, seen)
	case *ssa.Next:
		return derivedFrom(x.Iter, root, seen)
	case *ssa.Range:
		return derivedFrom(x.X, root, seen)
	case *ssa.ChangeType:
		return derivedFrom(x.X, root, seen)
	case *ssa.Convert:
		return derivedFrom(x.X, root, seen)
	case *ssa.ChangeInterface:
		return derivedFrom(x.X, root, seen)
	case *ssa.MakeInterface:
		return derivedFrom(x.X, root, seen)
	case *ssa.TypeAssert:
		return derivedFrom(x.X, root, seen)
	case *ssa.Phi:
		for _, e := range x.Edges {
			if derivedFrom(e, root, seen) {
				return true
			}
		}
	}
	return false
}

func isPtrToNamed(t types.Type, pkgSuffix, name string) bool {
	p, ok := t.(*types.Pointer)
	if !ok {
		return false
	}
	n, ok := p.Elem().(*types.Named)
	return ok && n.Obj().Name() == name && n.Obj().Pkg() != nil && strings.HasSuffix(n.Obj().Pkg().Path(), pkgSuffix)
}

func runC08R9(c *Ctx, r *Rep) {
	prog := c.SSA()
	_ = prog
	a := newAliasAn(c) // for the function list
	n := 0
	for _, fn := range a.fns {
		if fn.Pkg == nil || !ssaInModule(c, fn) {
			continue
		}
		var impls []*ssa.Parameter
		for _, p := range fn.Params {
			if isPtrToNamed(p.Type(), "/py", "ModuleImpl") {
				impls = append(impls, p)
			}
		}
		if len(impls) == 0 {
			continue
		}
		n++
		id := ssaFuncID(fn)
		r.analysed(id)
		bad := 0
		for _, b := range fn.Blocks {
			for _, in := range b.Instrs {
				st, ok := in.(*ssa.Store)
				if !ok {
					continue
				}
				for _, ip := range impls {
					if derivedFrom(st.Addr, ip, map[ssa.Value]bool{}) {
						// the address itself is reached through the parameter: a write into shared storage.
						// (storing a value loaded from impl into a fresh object is fine: the address is not derived)
						if al, ok := st.Addr.(*ssa.Alloc); ok && al == st.Addr {
							continue
						}
						bad++
						r.bad(fmt.Sprintf("implwrite|%s|%s", id, exprOfValue(st.Addr)), st.Pos(),
							"%s stores through `%s`, a location reached from its *ModuleImpl parameter %s: the implementation (its Method prototypes, globals, code) is shared by every context that imports the module, so this write is visible to — and races with — all of them; copy the object first", id, exprOfValue(st.Addr), ip.Name())
					}
				}
			}
		}
		if bad == 0 {
			r.ok("implwrite|"+id, fn.Pos(), "no store through a location reached from the *ModuleImpl parameter")
		}
	}
	if n == 0 {
		r.undecided("implwrite|sites", token.NoPos, "no function with a *py.ModuleImpl parameter found")
	}
}

func ssaInModule(c *Ctx, fn *ssa.Function) bool {
	mod := strings.TrimSuffix(c.MustPkg("py").PkgPath, "/py")
	return strings.HasPrefix(fn.Pkg.Pkg.Path(), mod)
}

// sanctionedExcWrites: stores into an exception the function did not allocate, confirmed by reading.
var sanctionedExcWrites = map[string]string{}

func runC08R10(c *Ctx, r *Rep) {
	a := newAliasAn(c)
	n := 0
	type fnd struct {
		key string
		pos token.Pos
		msg string
	}
	var finds []fnd
	for _, fn := range a.fns {
		if fn.Pkg == nil || !ssaInModule(c, fn) {
			continue
		}
		for _, b := range fn.Blocks {
			for _, in := range b.Instrs {
				st, ok := in.(*ssa.Store)
				if !ok {
					continue
				}
				fa, ok := st.Addr.(*ssa.FieldAddr)
				if !ok || !isPtrToNamed(fa.X.Type(), "/py", "Exception") {
					continue
				}
				n++
				// the exception object: allocated here?
				fresh := false
				switch x := fa.X.(type) {
				case *ssa.Alloc:
					fresh = true
				case *ssa.Call:
					if cal := x.Common().StaticCallee(); cal != nil && (strings.HasPrefix(cal.Name(), "ExceptionNew") || cal.Name() == "exceptionNew" || cal.Name() == "MakeException" && false) {
						fresh = true
					}
				}
				if fresh {
					continue
				}
				stt := fa.X.Type().Underlying().(*types.Pointer).Elem().Underlying().(*types.Struct)
				field := stt.Field(fa.Field).Name()
				key := fmt.Sprintf("%s|%s.%s", ssaFuncID(fn), exprOfValue(fa.X), field)
				finds = append(finds, fnd{key, st.Pos(), fmt.Sprintf("%s writes field %s of an exception object it did not allocate (`%s`): exceptions raised from package-level singletons (float division by zero, negative shift count, …) are shared by all contexts, so the write leaks one context's state (traceback, cause, args) into every other and races with them; write to a copy or allocate per raise", ssaFuncID(fn), field, exprOfValue(fa.X))})
			}
		}
	}
	sort.Slice(finds, func(i, j int) bool { return finds[i].key < finds[j].key })
	seen := map[string]bool{}
	for _, f := range finds {
		if seen[f.key] {
			continue
		}
		seen[f.key] = true
		if why, ok := sanctionedExcWrites[f.key]; ok {
			r.ok("excwrite|"+f.key, f.pos, "reviewed: %s", why)
		} else {
			r.bad("excwrite|"+f.key, f.pos, "%s", f.msg)
		}
	}
	r.ok("excwrite|census", token.NoPos, "%d stores into fields of *py.Exception examined: each is into an exception allocated by the storing function, or listed", n)
}

func init() {
	register(&Rule{ID: "C08.R9", Prop: "C08", Floor: 2,
		Doc: "a function that receives a *py.ModuleImpl (shared by all contexts) never stores through a location reached from it — Method prototypes, globals and code are copied before a per-context field such as Method.Module is set (go/ssa backward slice of every store address)",
		Run: runC08R9})
	register(&Rule{ID: "C08.R10", Prop: "C08", Floor: 1,
		Doc: "fields of a *py.Exception are stored only by the function that allocated the exception (or at reviewed sites): exception values may be package-level singletons shared by all contexts",
		Run: runC08R10})
}

// C08.R12: fields of a *py.Type reached through a parameter. Built-in type objects are created once per process and
// shared by every context (and user classes list them as bases), so a function that stores into a field of a type it
// received — rather than one it allocated — may be writing process-wide state at run time. Every (function, parameter,
// field) triple is a reviewed row: initialisation of the type being made ready, or a documented embedder hook.
var reviewedTypeFieldWrites = map[string]string{
	"(*py.Type).Ready|t.Base":            "Ready initialises the type it is called on (PyType_Ready), once, before the type is used",
	"(*py.Type).Ready|t.Bases":           "as above",
	"(*py.Type).Ready|t.Dict":            "as above",
	"(*py.Type).Ready|t.Flags":           "as above (sets READYING/READY)",
	"(*py.Type).inherit_special|t.Flags": "part of Ready: the type being made ready inherits flags from its base (the base is only read)",
	"(*py.Type).mro_internal|t.Mro":      "part of Ready: stores the computed MRO of the type being made ready",
}

func runTypeFieldWrites(c *Ctx, r *Rep) {
	a := newAliasAn(c)
	type row struct {
		key string
		pos token.Pos
	}
	seen := map[string]token.Pos{}
	for _, fn := range a.fns {
		if fn.Pkg == nil || !ssaInModule(c, fn) {
			continue
		}
		for _, b := range fn.Blocks {
			for _, in := range b.Instrs {
				st, ok := in.(*ssa.Store)
				if !ok {
					continue
				}
				fa, ok := st.Addr.(*ssa.FieldAddr)
				if !ok || !isPtrToNamed(fa.X.Type(), "/py", "Type") {
					continue
				}
				pi := paramIdentity(fa.X)
				if pi < 0 {
					continue // allocated here, loaded from a global (C08.R1), or a field of something else
				}
				stt := fa.X.Type().Underlying().(*types.Pointer).Elem().Underlying().(*types.Struct)
				key := fmt.Sprintf("%s|%s.%s", ssaFuncID(fn), paramName(fn, pi), stt.Field(fa.Field).Name())
				if _, ok := seen[key]; !ok {
					seen[key] = st.Pos()
				}
			}
		}
	}
	var keys []string
	for k := range seen {
		keys = append(keys, k)
	}
	sort.Strings(keys)
	for _, k := range keys {
		if why, ok := reviewedTypeFieldWrites[k]; ok {
			r.ok("typewrite|"+k, seen[k], "reviewed: %s", why)
		} else {
			r.bad("typewrite|"+k, seen[k], "%s stores into a field of a *py.Type it received as a parameter: when that type is a built-in (or any base class) the object is shared by every context, so the write is process-wide state changed at run time (a class statement in one context becomes visible in, and races with, all others)", k)
		}
	}
	if len(keys) == 0 {
		r.undecided("typewrite|sites", token.NoPos, "no store into a field of a *py.Type parameter found (expected the Ready/inherit initialisation code)")
	}
}

func init() {
	register(&Rule{ID: "C08.R12", Prop: "C08", Floor: 5,
		Doc: "who-may-write census for py.Type: every store into a field of a *py.Type that the storing function received as a parameter or receiver (go/ssa) is a reviewed row — initialisation of the type being made ready; a new one (e.g. recording subclasses in the base) writes shared built-in types at run time",
		Run: runTypeFieldWrites})
	debugHooks["typewrites"] = func(c *Ctx) {
		r := &Rep{rule: &Rule{ID: "x"}, c: c}
		runTypeFieldWrites(c, r)
		for _, o := range r.Obs {
			fmt.Println(o.Key, "|", o.Pos)
		}
	}
}
