package main

import (
	"fmt"
	"go/ast"
	"go/token"
	"go/types"
	"strings"
)

func init() {
	register(&Rule{ID: "C10.R1", Prop: "C10", Floor: 6,
		Doc: "barrier coverage: vm.RunFrame, vm.EvalCode and py.Call — the functions through which every execution and every call from the embedder passes — install a recover barrier as their first action; every opcode handler is invoked from inside a barrier (the only call through vm.jumpTable sits in a function whose first statement is the barrier); the context's RunCode reaches execution only through vm.EvalCode; Function.M__call__ and Generator.Send only through the VmEvalCode/VmRunFrame hooks bound to those functions",
		Run: runC10R1})
	register(&Rule{ID: "C10.R2", Prop: "C10", Floor: 4,
		Doc: "barriers deliver, they do not swallow: on a non-nil recovered value the deferred closure assigns the named error result from that value (through py.RecoverToError / MakeException, which never yield nil), does not re-panic and does not leave a nil error with a nil result",
		Run: runC10R2})
	register(&Rule{ID: "C10.R3", Prop: "C10", Floor: 2,
		Doc: "no escape routes: no go statement in the interpreter core (a panic on another goroutine escapes every barrier) and no os.Exit / log.Fatal* call in library packages outside the table of sanctioned process-exit builtins",
		Run: runC10R3})
}

type c10Barrier struct {
	rel, recv, name string
}

var c10Barriers = []c10Barrier{{"vm", "", "RunFrame"}, {"vm", "", "EvalCode"}, {"py", "", "Call"}}

func c10Decl(c *Ctx, b c10Barrier) (*types.Func, *ast.FuncDecl) {
	var fn *types.Func
	if b.recv == "" {
		fn = c.Func(b.rel, b.name)
	} else {
		fn = c.Method(b.rel, b.recv, b.name)
	}
	return fn, c.Decl(fn)
}

func runC10R1(c *Ctx, r *Rep) {
	vmp := c.MustPkg("vm")
	for _, b := range c10Barriers {
		fn, fd := c10Decl(c, b)
		key := b.rel + "|" + b.name + "|barrier first"
		if fd == nil {
			r.undecided(key, token.NoPos, "anchor not found")
			continue
		}
		r.analysed(FuncID(fn))
		bi := findBarrier(c.DeclPkg(fn).TypesInfo, fd)
		switch {
		case bi == nil:
			r.bad(key, fd.Pos(), "%s.%s installs no recover barrier: a panic anywhere below it (unchecked assertion, index out of range, explicit panic in a builtin) aborts the embedding process", b.rel, b.name)
		case bi.deferIdx != 0:
			r.bad(key, fd.Body.List[bi.deferIdx].Pos(), "the recover barrier of %s.%s is not its first statement: the statements before it run unprotected", b.rel, b.name)
		default:
			r.ok(key, fd.Body.List[0].Pos(), "defer-recover is the first statement")
		}
	}
	// every call through jumpTable is inside a function whose first statement is a barrier
	jt, _ := vmp.Types.Scope().Lookup("jumpTable").(*types.Var)
	if jt == nil {
		r.undecided("vm|jumpTable", token.NoPos, "anchor not found")
		return
	}
	n := 0
	for _, f := range c.Files(vmp) {
		for _, d := range f.Decls {
			fd, ok := d.(*ast.FuncDecl)
			if !ok || fd.Body == nil {
				continue
			}
			ast.Inspect(fd.Body, func(m ast.Node) bool {
				call, ok := m.(*ast.CallExpr)
				if !ok {
					return true
				}
				ix, ok := unparen(call.Fun).(*ast.IndexExpr)
				if !ok {
					return true
				}
				if id := identOf(ix.X); id == nil || vmp.TypesInfo.Uses[id] != jt {
					return true
				}
				n++
				id := declID(vmp, fd)
				r.analysed(id)
				bi := findBarrier(vmp.TypesInfo, fd)
				key := "vm|" + id + "|handler dispatch under barrier"
				if bi != nil && bi.deferIdx == 0 && bi.assigns {
					r.ok(key, call.Pos(), "opcode handlers are called from %s, whose first statement is a recover barrier assigning its error result", id)
				} else {
					r.bad(key, call.Pos(), "opcode handlers are invoked from %s without a recover barrier of its own: a panic in a handler or in anything it calls unwinds through the whole VM (no traceback entry, cannot be caught by try/except; reaches the embedder as a Go panic unless an outer barrier exists)", id)
				}
				return true
			})
		}
	}
	r.check(n == 1, "vm|jumpTable|single dispatch site", token.NoPos, "one dispatch site", fmt.Sprintf("%d call sites through jumpTable", n))
	// the execution hooks point at the barrier functions
	hooks := map[string]string{"VmEvalCode": "EvalCode", "VmRunFrame": "RunFrame"}
	found := map[string]string{}
	for _, f := range c.Files(vmp) {
		ast.Inspect(f, func(m ast.Node) bool {
			as, ok := m.(*ast.AssignStmt)
			if !ok || len(as.Lhs) != 1 {
				return true
			}
			if sel, ok := as.Lhs[0].(*ast.SelectorExpr); ok {
				if _, isHook := hooks[sel.Sel.Name]; isHook {
					found[sel.Sel.Name] = exprStr(as.Rhs[0])
				}
			}
			return true
		})
	}
	for h, want := range hooks {
		r.check(found[h] == want, "vm|init|py."+h, token.NoPos, "py."+h+" = vm."+want,
			fmt.Sprintf("the hook py.%s is bound to %q, not to the barrier function vm.%s: Python functions and generators would run without a barrier", h, found[h], want))
	}
	// context.RunCode -> vm.EvalCode only
	if fd := c.MethodDecl("stdlib", "context", "RunCode"); fd != nil {
		sp := c.MustPkg("stdlib")
		execCalls := []string{}
		ast.Inspect(fd.Body, func(m ast.Node) bool {
			if call, ok := m.(*ast.CallExpr); ok {
				if f := Callee(sp.TypesInfo, call); f != nil && f.Pkg() != nil && f.Pkg().Path() == modPath+"/vm" {
					execCalls = append(execCalls, f.Name())
				}
			}
			return true
		})
		r.check(len(execCalls) == 1 && execCalls[0] == "EvalCode", "stdlib|(*context).RunCode|executes through EvalCode", fd.Pos(), "RunCode -> vm.EvalCode",
			fmt.Sprintf("context.RunCode enters the VM through %v instead of only vm.EvalCode (the barrier)", execCalls))
	} else {
		r.undecided("stdlib|(*context).RunCode", token.NoPos, "anchor not found")
	}
}

func runC10R2(c *Ctx, r *Rep) {
	all := append([]c10Barrier{}, c10Barriers...)
	all = append(all, c10Barrier{"vm", "Vm", "dispatch"})
	for _, b := range all {
		fn, fd := c10Decl(c, b)
		key := b.rel + "|" + b.name + "|delivers"
		if fd == nil {
			if b.name == "dispatch" {
				continue // dispatch site checked by C10.R1 wherever it lives
			}
			r.undecided(key, token.NoPos, "anchor not found")
			continue
		}
		info := c.DeclPkg(fn).TypesInfo
		bi := findBarrier(info, fd)
		if bi == nil {
			r.bad(key, fd.Pos(), "no barrier")
			continue
		}
		info = bi.info
		r.analysed(FuncID(fn))
		// shape: if r := recover(); r != nil { <results> = …, Conv(r) }
		var problems []string
		okAssign := false
		ast.Inspect(bi.lit.Body, func(m ast.Node) bool {
			switch x := m.(type) {
			case *ast.CallExpr:
				if isBuiltinCall(info, x, "panic") {
					problems = append(problems, "re-panics")
				}
			case *ast.AssignStmt:
				for i, l := range x.Lhs {
					id := identOf(l)
					if st, ok := unparen(l).(*ast.StarExpr); ok {
						id = identOf(st.X) // *err = … in a named barrier function
					}
					if id == nil {
						continue
					}
					o := info.Uses[id]
					if o == nil || (o.Type().String() != "error" && o.Type().String() != "*error") {
						continue
					}
					var rhs ast.Expr
					if len(x.Rhs) == len(x.Lhs) {
						rhs = x.Rhs[i]
					}
					if rhs == nil {
						continue
					}
					if call, ok := unparen(rhs).(*ast.CallExpr); ok {
						if f := Callee(info, call); f != nil && (f.Name() == "RecoverToError" || f.Name() == "MakeException" || f.Name() == "MakeSyntaxError") && len(call.Args) >= 1 {
							// argument must be the recovered value
							okAssign = true
						}
					}
					if identOf(rhs) != nil && identOf(rhs).Name == "nil" {
						problems = append(problems, "assigns a nil error")
					}
				}
			}
			return true
		})
		// the assignment is under `r != nil`
		guarded := false
		ast.Inspect(bi.lit.Body, func(m ast.Node) bool {
			if ifs, ok := m.(*ast.IfStmt); ok && strings.Contains(exprStr(ifs.Cond), "!= nil") {
				guarded = true
			}
			return true
		})
		if !okAssign {
			problems = append(problems, "does not assign the error result from the recovered value through RecoverToError/MakeException")
		}
		if !guarded {
			problems = append(problems, "does not test the recovered value against nil")
		}
		r.check(len(problems) == 0, key, bi.lit.Pos(), "recovered value becomes the returned error", fmt.Sprintf("the barrier of %s.%s %s: the failure is swallowed or escapes", b.rel, b.name, strings.Join(uniq(problems), "; ")))
	}
	// the converter never yields nil for a non-nil value
	if fd := c.FuncDecl("py", "RecoverToError"); fd != nil {
		r.analysed("py.RecoverToError")
		nilRet := false
		ast.Inspect(fd.Body, func(m ast.Node) bool {
			if rs, ok := m.(*ast.ReturnStmt); ok && len(rs.Results) == 1 {
				if id := identOf(rs.Results[0]); id != nil && id.Name == "nil" {
					nilRet = true
				}
			}
			return true
		})
		r.check(!nilRet, "py|RecoverToError|never nil", fd.Pos(), "every return hands back the exception", "RecoverToError can return nil: the barrier would report success after a panic")
	} else {
		r.bad("py|RecoverToError", token.NoPos, "the panic-to-exception converter py.RecoverToError is missing")
	}
}

// process-exit calls that implement Python's own exit functions
var sanctionedExit = map[string]string{
	"stdlib/os._exit":     "os._exit(n) is defined to terminate the process immediately",
	"stdlib/sys.sys_exit": "",
}

func runC10R3(c *Ctx, r *Rep) {
	n := 0
	for _, pk := range c.ModulePkgs() {
		rel := shortPkg(pk.PkgPath)
		lib := rel == "py" || rel == "vm" || rel == "compile" || rel == "symtable" || rel == "parser" || rel == "ast" || rel == "stdlib" || strings.HasPrefix(rel, "stdlib/") || rel == "repl"
		if !lib {
			continue
		}
		for _, f := range c.Files(pk) {
			for _, d := range f.Decls {
				fd, ok := d.(*ast.FuncDecl)
				if !ok || fd.Body == nil {
					continue
				}
				id := declID(pk, fd)
				ast.Inspect(fd.Body, func(m ast.Node) bool {
					switch x := m.(type) {
					case *ast.GoStmt:
						n++
						r.bad(rel+"|"+id+"|go statement", x.Pos(), "starts a goroutine inside the interpreter: a panic on it cannot be recovered by any barrier of the calling goroutine")
					case *ast.CallExpr:
						fn := Callee(pk.TypesInfo, x)
						if fn == nil || fn.Pkg() == nil {
							return true
						}
						full := fn.Pkg().Path() + "." + fn.Name()
						if full == "os.Exit" || (fn.Pkg().Path() == "log" && strings.HasPrefix(fn.Name(), "Fatal")) {
							n++
							key := rel + "|" + id + "|" + full
							if why, ok := sanctionedExit[id]; ok && why != "" {
								r.okTrivial(key, x.Pos(), "sanctioned: %s", why)
							} else if fd.Name.Name == "init" && fd.Recv == nil {
								r.okTrivial(key, x.Pos(), "package initialisation failure (before any context exists)")
							} else {
								r.bad(key, x.Pos(), "%s is called from library code: a Python-level action can terminate the embedding process instead of raising an exception", full)
							}
						}
					}
					return true
				})
			}
		}
	}
	if n == 0 {
		r.ok("core|no escape routes", token.NoPos, "no go statements, os.Exit or log.Fatal in library packages")
	}
	r.okTrivial("core|scanned", token.NoPos, "library packages scanned")
}
