package main

import (
	"encoding/json"
	"flag"
	"fmt"
	"go/constant"
	"go/types"
	"os"
	"path/filepath"
	"regexp"
	"runtime/debug"
	"sort"
	"strconv"
	"strings"
	"time"
)

func constToInt(tv types.TypeAndValue) (int64, bool) {
	if tv.Value == nil {
		return 0, false
	}
	v := constant.ToInt(tv.Value)
	if v.Kind() != constant.Int {
		return 0, false
	}
	return constant.Int64Val(v)
}

type knownFinding struct {
	Property string `json:"property"`
	Key      string `json:"key"`
	What     string `json:"what"`
}
type fixedEntry struct {
	Property string `json:"property"`
	Commit   string `json:"commit"`
	Key      string `json:"key,omitempty"`
	What     string `json:"what"`
}
type knownFile struct {
	Findings []knownFinding `json:"findings"`
	Fixed    []fixedEntry   `json:"fixed"`
}

var verifDir string

var debugHooks = map[string]func(c *Ctx){}

func main() {
	repo := flag.String("repo", "/repo", "repository to analyse")
	vdir := flag.String("verif", "", "verif directory (default: parent of the executable's dir)")
	replay := flag.String("replay", "", "violation file to re-derive")
	listRules := flag.Bool("rules", false, "list rules")
	onlyRule := flag.String("rule", "", "run only this rule (debugging)")
	verbose := flag.Bool("v", false, "print every obligation")
	dump := flag.String("dump", "", "debug: pkg:Type.Method or pkg:Func to interpret symbolically and dump paths")
	flag.Parse()
	if h, ok := debugHooks[*dump]; ok {
		c, err := load(*repo, loadCfg{Name: "default"})
		if err != nil {
			fmt.Println(err)
			return
		}
		h(c)
		return
	}
	if *dump == "emitspec" {
		dumpEmitSpec(*repo)
		return
	}
	if strings.HasPrefix(*dump, "emit:") {
		dumpEmit(*repo, strings.TrimPrefix(*dump, "emit:"))
		return
	}
	if *dump != "" {
		dumpPaths(*repo, *dump)
		return
	}
	if *listRules {
		for _, r := range allRules {
			fmt.Printf("%s floor=%d %s\n", r.ID, r.Floor, r.Doc)
		}
		return
	}
	args := flag.Args()
	if len(args) < 1 {
		fmt.Fprintln(os.Stderr, "usage: gpycheck [-repo dir] <Cxx> [quick|thorough]")
		os.Exit(2)
	}
	prop := args[0]
	tier := "quick"
	if len(args) > 1 {
		tier = args[1]
	}
	if t := os.Getenv("VERIF_TIER"); t != "" && len(args) < 2 {
		tier = t
	}
	verifDir = *vdir
	if verifDir == "" {
		exe, _ := os.Executable()
		verifDir = filepath.Dir(filepath.Dir(exe))
	}
	seed := int64(0)
	if s := os.Getenv("VERIF_SEED"); s != "" {
		seed, _ = strconv.ParseInt(s, 10, 64)
	}
	replayKey := ""
	if *replay != "" {
		b, err := os.ReadFile(*replay)
		if err != nil {
			fmt.Fprintln(os.Stderr, err)
			os.Exit(2)
		}
		var o Ob
		if err := json.Unmarshal(b, &o); err != nil {
			fmt.Fprintln(os.Stderr, err)
			os.Exit(2)
		}
		replayKey = o.Key
		*onlyRule = o.Rule
	}
	os.Exit(run(*repo, prop, tier, seed, *onlyRule, replayKey, *verbose))
}

func run(repo, prop, tier string, seed int64, onlyRule, replayKey string, verbose bool) int {
	t0 := time.Now()
	var rules []*Rule
	seenID := map[string]bool{}
	for _, r := range allRules {
		if prop == "ALL" {
			// development aid (tools/benignrun.sh): every rule once, no evidence written
			if seenID[r.ID] {
				continue
			}
			seenID[r.ID] = true
		} else if r.Prop != prop {
			continue
		}
		if onlyRule != "" && r.ID != onlyRule {
			continue
		}
		if r.ThoroughOnly && tier != "thorough" {
			continue
		}
		rules = append(rules, r)
	}
	if len(rules) == 0 {
		fmt.Printf("no rules registered for %s\n", prop)
		return 2
	}
	cfgs := []loadCfg{{Name: "default"}}
	if tier == "thorough" {
		cfgs = append(cfgs,
			loadCfg{Name: "linux/386", Env: []string{"GOARCH=386", "CGO_ENABLED=0"}},
			loadCfg{Name: "windows/amd64", Env: []string{"GOOS=windows", "CGO_ENABLED=0"}},
			loadCfg{Name: "darwin/arm64", Env: []string{"GOOS=darwin", "GOARCH=arm64", "CGO_ENABLED=0"}},
		)
	}
	var obs []*Ob
	var notes []string
	funcs := map[string]bool{}
	perRule := map[string]int{}
	var cfgNames []string
	npk := 0
	cgKind := ""
	for ci, lc := range cfgs {
		c, err := load(repo, lc)
		if err != nil {
			obs = append(obs, &Ob{Rule: prop + ".load", Key: prop + ".load|" + lc.Name, Verdict: Undecided, V: "undecided",
				Detail: "cannot load/type-check the tree: " + err.Error(), Config: lc.Name})
			continue
		}
		cfgNames = append(cfgNames, fmt.Sprintf("%s (%d packages, load %.1fs)", lc.Name, len(c.All), c.LoadS))
		if ci == 0 {
			npk = len(c.ModulePkgs())
		}
		for _, r := range rules {
			rep := &Rep{rule: r, c: c, config: lc.Name}
			func() {
				defer func() {
					if e := recover(); e != nil {
						rep.Obs = append(rep.Obs, &Ob{Rule: r.ID, Key: r.ID + "|analyser-panic", Verdict: Undecided, V: "undecided",
							Detail: fmt.Sprintf("analyser panicked (anchor no longer resolves?): %v\n%s", e, trimStack(debug.Stack())), Config: lc.Name})
					}
				}()
				r.Run(c, rep)
			}()
			if len(rep.Obs) < r.Floor {
				rep.Obs = append(rep.Obs, &Ob{Rule: r.ID, Key: r.ID + "|floor", Verdict: Undecided, V: "undecided", Config: lc.Name,
					Detail: fmt.Sprintf("rule enumerated %d obligations, below its hand-confirmed floor %d: the mechanism it inspects is no longer visible", len(rep.Obs), r.Floor)})
			}
			for _, o := range rep.Obs {
				if ci > 0 {
					// in extra configurations keep only what differs from ok, plus counts
					o.Key = o.Key + " @" + lc.Name
				}
				obs = append(obs, o)
			}
			perRule[r.ID] += len(rep.Obs)
			for f := range rep.Funcs {
				funcs[f] = true
			}
			for _, n := range rep.Notes {
				notes = append(notes, r.ID+": "+n)
			}
		}
		if c.cgKind != "" {
			cgKind = c.cgKind
		}
		// release memory between configurations
		c = nil
		debug.FreeOSMemory()
	}
	sort.SliceStable(obs, func(i, j int) bool { return obs[i].Key < obs[j].Key })

	// known findings
	var kf knownFile
	if b, err := os.ReadFile(filepath.Join(verifDir, "known_findings.json")); err == nil {
		if err := json.Unmarshal(b, &kf); err != nil {
			fmt.Printf("known_findings.json unreadable: %v\n", err)
			return 2
		}
	}
	known := map[string]knownFinding{}
	for _, k := range kf.Findings {
		if k.Property == prop || prop == "ALL" {
			known[k.Key] = k
		}
	}
	outDir := filepath.Join(verifDir, "out", "violations")
	os.MkdirAll(outDir, 0o755)
	old, _ := filepath.Glob(filepath.Join(outDir, prop+"-*.json"))
	for _, f := range old {
		os.Remove(f)
	}
	nviol, nknown, nund, nok, nontriv := 0, 0, 0, 0, 0
	distinct := map[string]bool{}
	usedKnown := map[string]bool{}
	var lines []string
	for _, o := range obs {
		if o.Nontrivial && !distinct[baseKey(o.Key)] {
			distinct[baseKey(o.Key)] = true
			nontriv++
		}
		if replayKey != "" {
			if o.Key == replayKey {
				fmt.Printf("REPLAY %s\n  verdict: %s\n  at: %s\n  %s\n", o.Key, o.V, o.Pos, o.Detail)
			}
			continue
		}
		if verbose {
			fmt.Printf("  [%s] %s  %s  %s\n", o.V, o.Key, o.Pos, o.Detail)
		}
		if o.Verdict == OK {
			nok++
			continue
		}
		if o.Verdict == Violation {
			if k, ok := known[baseKey(o.Key)]; ok {
				if !usedKnown[k.Key] {
					lines = append(lines, fmt.Sprintf("KNOWN-FINDING: property=%s %s [%s at %s]", prop, k.What, k.Key, o.Pos))
					usedKnown[k.Key] = true
				}
				nknown++
				continue
			}
		}
		if o.Verdict == Undecided {
			nund++
		} else {
			nviol++
		}
		fn := filepath.Join(outDir, fmt.Sprintf("%s-%s.json", prop, sanitize(o.Key)))
		b, _ := json.MarshalIndent(o, "", " ")
		os.WriteFile(fn, b, 0o644)
		rel, _ := filepath.Rel(verifDir, fn)
		lines = append(lines, fmt.Sprintf("VIOLATION property=%s replay=%s", prop, rel))
		lines = append(lines, fmt.Sprintf("  %s: %s — %s — %s", o.Pos, o.V, o.Key, o.Detail))
	}
	if replayKey != "" {
		return 0
	}
	for _, l := range lines {
		fmt.Println(l)
	}
	wall := time.Since(t0).Seconds()

	// evidence
	var samples []interface{}
	step := 1
	if len(obs) > 14 {
		step = len(obs) / 14
	}
	for i := 0; i < len(obs) && len(samples) < 16; i += step {
		samples = append(samples, obs[i])
	}
	for _, o := range obs { // always show the non-ok ones
		if o.Verdict != OK && len(samples) < 40 {
			samples = append(samples, o)
		}
	}
	var ruleDocs []string
	for _, r := range rules {
		ruleDocs = append(ruleDocs, fmt.Sprintf("%s: %s (obligations this run: %d, floor %d)", r.ID, r.Doc, perRule[r.ID], r.Floor))
	}
	var fnames []string
	for f := range funcs {
		fnames = append(fnames, f)
	}
	sort.Strings(fnames)
	ev := map[string]interface{}{
		"property_id": prop,
		"tier":        tier,
		"seed":        seed,
		"level":       "other",
		"coverage": map[string]interface{}{
			"explanation": "Static analysis of /repo's current working tree (go/packages + go/types" +
				", go/cfg, go/ssa, VTA call graph as each rule needs). Each rule enumerates its obligations from the code, " +
				"decides each as ok/violation/undecided; undecided and floor shortfalls fail the check. " +
				"The rules decide structural necessary conditions of the property, not the behaviour itself. Rules: " + strings.Join(ruleDocs, " || "),
			"obligations":         len(obs),
			"discharged":          nok,
			"known_findings":      nknown,
			"evaluations":         len(obs),
			"distinct_nontrivial": nontriv,
			"rule": "an obligation is one (rule, package, function, construct) instance enumerated from the type-checked tree; " +
				"distinct = distinct key after removing the build-configuration suffix; non-trivial = deciding it needed a path, dominance, value-origin or table comparison rather than presence alone",
			"samples":            samples,
			"exhaustive":         true,
			"packages":           npk,
			"functions_analysed": len(fnames),
			"functions":          clip(fnames, 60),
			"build_configs":      cfgNames,
			"callgraph":          cgKind,
			"per_rule":           perRule,
			"notes":              notes,
			"undecided":          nund,
		},
		"assumptions": []string{
			"the Go type checker and x/tools v0.29.0 (go/packages, go/cfg, go/ssa, callgraph/vta) are correct",
			"the frozen specification tables in gpycheck (operator/dunder, unwind, nameop, evaluation order) transcribe Python 3.4 / CPython correctly",
			"each rule decides only the structural clause named in its description; value-level behaviour is out of scope",
		},
		"wall_s":     wall,
		"violations": nviol + nund,
	}
	os.MkdirAll(filepath.Join(verifDir, "evidence"), 0o755)
	b, _ := json.MarshalIndent(ev, "", " ")
	if prop == "ALL" {
		// not a property: nothing to record
	} else if err := os.WriteFile(filepath.Join(verifDir, "evidence", prop+".json"), b, 0o644); err != nil {
		fmt.Println("cannot write evidence:", err)
		return 2
	}
	fmt.Printf("%s %s: %d obligations over %d rules, %d ok, %d known findings, %d violations, %d undecided, %.1fs\n",
		prop, tier, len(obs), len(rules), nok, nknown, nviol, nund, wall)
	if nviol+nund > 0 {
		return 1
	}
	return 0
}

var cfgSuffix = regexp.MustCompile(` @[a-z0-9/+]+$`)

func baseKey(k string) string { return cfgSuffix.ReplaceAllString(k, "") }

var nonWord = regexp.MustCompile(`[^A-Za-z0-9_.]+`)

func sanitize(s string) string {
	s = nonWord.ReplaceAllString(s, "_")
	if len(s) > 150 {
		s = s[:150]
	}
	return s
}

func clip(s []string, n int) []string {
	if len(s) > n {
		return append(append([]string{}, s[:n]...), fmt.Sprintf("… %d more", len(s)-n))
	}
	return s
}

func trimStack(b []byte) string {
	lines := strings.Split(string(b), "\n")
	if len(lines) > 24 {
		lines = lines[:24]
	}
	return strings.Join(lines, "\n")
}

func dumpPaths(repo, spec string) {
	c, err := load(repo, loadCfg{Name: "default"})
	if err != nil {
		fmt.Println(err)
		return
	}
	parts := strings.SplitN(spec, ":", 2)
	rel, name := parts[0], parts[1]
	var fd = c.FuncDecl(rel, name)
	if i := strings.Index(name, "."); i > 0 {
		fd = c.MethodDecl(rel, name[:i], name[i+1:])
	}
	if fd == nil {
		fmt.Println("not found")
		return
	}
	se := newSymExec(c, rel)
	a := val{kind: vInt, lin: linSym("arg")}
	res := se.runFunc(fd, []*val{nil, &a}, []string{"p0", "arg"})
	for i, pr := range res {
		fmt.Printf("--- path %d delta=%s conds=%v\n", i, pr.st.delta(), pr.st.conds)
		for _, cr := range pr.st.calls {
			fmt.Printf("    call %s args=%v recv=%v\n", cr.callee, cr.args, cr.recv)
		}
		for _, as := range pr.st.assigns {
			fmt.Printf("    assign %s = %s  [%s]\n", as.lhs, as.rhs, as.src)
		}
		fmt.Printf("    rets=%v und=%v\n", pr.rets, pr.st.und)
	}
}

func dumpEmit(repo, method string) {
	c, err := load(repo, loadCfg{Name: "default"})
	if err != nil {
		fmt.Println(err)
		return
	}
	e := newEmitEngine(c)
	arms, err := e.arms(method, "node")
	if err != nil {
		fmt.Println(err)
		return
	}
	var keys []string
	for k := range arms {
		keys = append(keys, k)
	}
	sort.Strings(keys)
	for _, k := range keys {
		fmt.Printf("== %s (%d paths)\n", k, len(arms[k]))
		var lines []string
		for _, p := range arms[k] {
			l := pathString(p)
			if len(p.und) > 0 {
				l += "   UND: " + strings.Join(p.und, "; ")
			}
			lines = append(lines, l)
		}
		sort.Strings(lines)
		for _, l := range lines {
			fmt.Println("   ", l)
		}
	}
}

// dumpEmitSpec prints Go source for emitspec_data.go from the tree's current traces (to be reviewed by hand).
func dumpEmitSpec(repo string) {
	c, err := load(repo, loadCfg{Name: "default"})
	if err != nil {
		fmt.Println(err)
		return
	}
	arms, err := allArmTraces(c)
	if err != nil {
		fmt.Println(err)
		return
	}
	fmt.Println("package main\n\n// Reference emission schemes per AST node form. Generated once from the pinned tree with\n// `gpycheck -dump emitspec`, then reviewed line by line against the Language Reference (evaluation order)\n// and CPython 3.4 Python/compile.c (compiler_visit_expr / compiler_visit_stmt and helpers); see DESIGN.md.\n// Labels are numbered by first appearance; LOOP(x){a | b} lists the alternative iterations over x.\n\nfunc init() {")
	for _, a := range arms {
		if a.arm == "default" {
			continue
		}
		fmt.Printf("\temitSpec[%q] = []string{\n", a.method+"|"+a.arm)
		for _, p := range a.paths {
			fmt.Printf("\t\t%q,\n", p)
		}
		fmt.Println("\t}")
	}
	fmt.Println("}")
}

func init() {
	debugHooks["analyzename"] = func(c *Ctx) {
		got, und := analyzeNamePaths(c)
		for _, g := range got {
			fmt.Printf("\t%q,\n", g)
		}
		fmt.Println(und)
	}
}

func init() {
	debugHooks["tables"] = func(c *Ctx) {
		fmt.Println("package main\n\n// Reference decision tables (see pathtable.go). Generated with `gpycheck -dump tables` and reviewed against the\n// Python 3.4 / CPython definition named in each tableSpec.\n\nfunc init() {")
		for _, ts := range tableSpecs {
			got, und, _ := pathTable(c, ts)
			fmt.Printf("\t// %s  %v\n\tpathSpec[%q] = []string{\n", ts.doc, und, ts.key)
			for _, g := range got {
				fmt.Printf("\t\t%q,\n", g)
			}
			fmt.Println("\t}")
		}
		fmt.Println("}")
	}
}
