package main

import (
	"fmt"
	"go/ast"
	"go/constant"
	"go/token"
	"go/types"
	"sort"
	"strings"
)

// ---- C07.R8: math/big receivers are fresh ----

var bigMutators = map[string]bool{"Add": true, "Sub": true, "Mul": true, "Quo": true, "Rem": true, "QuoRem": true, "Div": true, "Mod": true, "DivMod": true,
	"Neg": true, "Abs": true, "Lsh": true, "Rsh": true, "And": true, "Or": true, "Xor": true, "Not": true, "AndNot": true, "Exp": true, "Set": true, "SetInt64": true,
	"SetUint64": true, "SetBit": true, "Sqrt": true, "GCD": true, "ModInverse": true, "SetString": true, "SetBytes": true, "MulRange": true, "Binomial": true}

// freshBig: e evaluates to a *big.Int this function allocated: new(big.Int), big.NewInt(…), or a chain of mutator
// calls starting at one of those; a local defined (only) from such expressions.
func freshBig(info *types.Info, e ast.Expr, defs map[types.Object][]ast.Expr, depth int) bool {
	if depth > 6 {
		return false
	}
	e = unparen(e)
	switch x := e.(type) {
	case *ast.CallExpr:
		if id, ok := x.Fun.(*ast.Ident); ok && id.Name == "new" {
			return true
		}
		if fn := Callee(info, x); fn != nil && fn.Pkg() != nil && fn.Pkg().Path() == "math/big" {
			if fn.Name() == "NewInt" {
				return true
			}
			if sel, ok := x.Fun.(*ast.SelectorExpr); ok && bigMutators[fn.Name()] {
				return freshBig(info, sel.X, defs, depth+1)
			}
		}
		return false
	case *ast.Ident:
		obj := info.Uses[x]
		if obj == nil {
			obj = info.Defs[x]
		}
		ds, ok := defs[obj]
		if !ok || len(ds) == 0 {
			return false
		}
		for _, d := range ds {
			if d == nil || !freshBig(info, d, defs, depth+1) {
				return false
			}
		}
		return true
	}
	return false
}

func runFreshBig(c *Ctx, r *Rep) {
	n := 0
	for _, rel := range []string{"py", "stdlib/builtin", "stdlib/math"} {
		p := c.Pkg(rel)
		if p == nil {
			continue
		}
		info := p.TypesInfo
		for _, file := range c.Files(p) {
			for _, d := range file.Decls {
				fd, ok := d.(*ast.FuncDecl)
				if !ok || fd.Body == nil {
					continue
				}
				id := declID(p, fd)
				// all definitions of locals (every assignment counts)
				defs := map[types.Object][]ast.Expr{}
				objOf := func(id *ast.Ident) types.Object {
					if o := info.Defs[id]; o != nil {
						return o
					}
					return info.Uses[id]
				}
				ast.Inspect(fd.Body, func(nd ast.Node) bool {
					as, ok := nd.(*ast.AssignStmt)
					if !ok {
						return true
					}
					for i, l := range as.Lhs {
						if lid, ok := l.(*ast.Ident); ok {
							switch {
							case len(as.Lhs) == len(as.Rhs):
								defs[objOf(lid)] = append(defs[objOf(lid)], as.Rhs[i])
							case i == 0 && len(as.Rhs) == 1:
								// x, ok := new(big.Int).SetString(…): the first result is the receiver chain
								defs[objOf(lid)] = append(defs[objOf(lid)], as.Rhs[0])
							default:
								defs[objOf(lid)] = append(defs[objOf(lid)], nil)
							}
						}
					}
					return true
				})
				// parameters and receivers are never fresh
				for _, fl := range []*ast.FieldList{fd.Recv, fd.Type.Params} {
					if fl == nil {
						continue
					}
					for _, f := range fl.List {
						for _, nm := range f.Names {
							defs[info.Defs[nm]] = append(defs[info.Defs[nm]], nil)
						}
					}
				}
				ast.Inspect(fd.Body, func(nd ast.Node) bool {
					call, ok := nd.(*ast.CallExpr)
					if !ok {
						return true
					}
					// a three-address math/big operation handed around as a value (op := (*big.Int).Add; op(z, x, y)) overwrites
					// its first argument just the same
					if Callee(info, call) == nil && len(call.Args) >= 1 {
						if tv, ok := info.Types[call.Fun]; ok && !tv.IsType() {
							if sig, ok := tv.Type.Underlying().(*types.Signature); ok && sig.Params().Len() >= 1 && sig.Results().Len() == 1 &&
								strings.HasSuffix(sig.Params().At(0).Type().String(), "*math/big.Int") && strings.HasSuffix(sig.Results().At(0).Type().String(), "*math/big.Int") {
								n++
								recv := stripConv(info, call.Args[0])
								key := fmt.Sprintf("bigrecv|%s|%s(%s, …)", id, exprStr(call.Fun), normStr(info, call.Args[0]))
								if freshBig(info, recv, defs, 0) {
									r.ok(key, call.Pos(), "the destination handed to the math/big operation value was allocated by this function")
								} else {
									r.bad(key, call.Pos(), "%s is a math/big operation passed as a value; called as %s(%s, …) it overwrites its first argument, which this function did not allocate (an operand, a conversion result such as ConvertToBigInt's, or a shared constant): Python ints are immutable and these values are shared, so the next user of that object computes with a corrupted number; allocate the destination with new(big.Int)", exprStr(call.Fun), exprStr(call.Fun), exprStr(call.Args[0]))
								}
								return true
							}
						}
					}
					sel, ok := call.Fun.(*ast.SelectorExpr)
					if !ok {
						return true
					}
					fn := Callee(info, call)
					if fn == nil || fn.Pkg() == nil || fn.Pkg().Path() != "math/big" || !bigMutators[fn.Name()] {
						return true
					}
					if tv, ok := info.Types[sel.X]; ok && tv.IsType() && len(call.Args) >= 1 {
						// method expression called directly: (*big.Int).Add(z, x, y)
						sel = &ast.SelectorExpr{X: call.Args[0], Sel: sel.Sel}
					}
					sig, _ := fn.Type().(*types.Signature)
					if sig == nil || sig.Recv() == nil || !strings.HasSuffix(sig.Recv().Type().String(), "big.Int") {
						return true
					}
					n++
					recv := stripConv(info, sel.X)
					if freshBig(info, recv, defs, 0) {
						r.ok(fmt.Sprintf("bigrecv|%s|%s.%s", id, normStr(info, sel.X), fn.Name()), call.Pos(), "the receiver that math/big overwrites was allocated by this function")
					} else {
						r.bad(fmt.Sprintf("bigrecv|%s|%s.%s", id, normStr(info, sel.X), fn.Name()), call.Pos(),
							"big.Int.%s overwrites its receiver `%s`, which this function did not allocate (an operand, a conversion result or a package-level constant such as bigInt1): Python ints are immutable and these values are shared, so the next user of that object computes with a corrupted number; allocate with new(big.Int)", fn.Name(), exprStr(sel.X))
					}
					return true
				})
			}
		}
	}
	if n == 0 {
		r.undecided("bigrecv|sites", token.NoPos, "no mutating math/big call found")
	}
}

// ---- C06.R6: a range of case labels and the range tests in its body agree ----

func runRangeLabelAgreement(c *Ctx, r *Rep) {
	p := c.MustPkg("parser")
	info := p.TypesInfo
	n := 0
	charVal := func(e ast.Expr) (int64, bool) {
		if tv, ok := info.Types[e]; ok && tv.Value != nil && tv.Value.Kind() == constant.Int {
			if lit, ok := unparen(e).(*ast.BasicLit); ok && lit.Kind == token.CHAR {
				return mustInt(tv.Value), true
			}
		}
		return 0, false
	}
	for _, file := range c.Files(p) {
		if fileOf(c, file.Pos()) == "y.go" {
			continue
		}
		for _, d := range file.Decls {
			fd, ok := d.(*ast.FuncDecl)
			if !ok || fd.Body == nil {
				continue
			}
			id := declID(p, fd)
			if isNewFunc(id) {
				continue // seen in the functions it was extracted from
			}
			fd = c.Expand(p, fd)
			ast.Inspect(fd.Body, func(nd ast.Node) bool {
				cc, ok := nd.(*ast.CaseClause)
				if !ok || len(cc.List) < 3 {
					return true
				}
				var vals []int64
				for _, e := range cc.List {
					v, ok := charVal(e)
					if !ok {
						return true
					}
					vals = append(vals, v)
				}
				sort.Slice(vals, func(i, j int) bool { return vals[i] < vals[j] })
				for i := 1; i < len(vals); i++ {
					if vals[i] != vals[i-1]+1 {
						return true
					}
				}
				lo, hi := vals[0], vals[len(vals)-1]
				// range tests in the body: 'lo' <= X && X <= 'K'
				for _, st := range cc.Body {
					ast.Inspect(st, func(m ast.Node) bool {
						be, ok := m.(*ast.BinaryExpr)
						if !ok {
							return true
						}
						var k int64
						var isUpper, isLower, okc bool
						switch be.Op {
						case token.LEQ:
							if k, okc = charVal(be.Y); okc {
								isUpper = true
							} else if k, okc = charVal(be.X); okc {
								isLower = true
							}
						case token.GEQ:
							if k, okc = charVal(be.Y); okc {
								isLower = true
							} else if k, okc = charVal(be.X); okc {
								isUpper = true
							}
						// the same range written as its complement: X < 'lo' || X > 'hi' leaves the class
						case token.LSS:
							if k, okc = charVal(be.Y); okc {
								isLower = true
							} else if k, okc = charVal(be.X); okc {
								isUpper = true
							}
						case token.GTR:
							if k, okc = charVal(be.Y); okc {
								isUpper = true
							} else if k, okc = charVal(be.X); okc {
								isLower = true
							}
						}
						if !okc || k < lo-16 || k > hi+16 {
							return true
						}
						n++
						key := fmt.Sprintf("rangelabel|%s|case %c..%c|%s", id, rune(lo), rune(hi), exprStr(be))
						switch {
						case isUpper && k != hi:
							r.bad(key, be.Pos(), "inside the case for the characters '%c'..'%c' a further character is accepted up to '%c' (`%s`): the continuation of this class is tested against a different upper bound than the class itself (an octal escape swallowing '8' and '9')", rune(lo), rune(hi), rune(k), exprStr(be))
						case isLower && k != lo:
							r.bad(key, be.Pos(), "inside the case for the characters '%c'..'%c' a further character is accepted from '%c' (`%s`): different lower bound than the class itself", rune(lo), rune(hi), rune(k), exprStr(be))
						default:
							r.ok(key, be.Pos(), "range test uses the same bound as the case labels")
						}
						return true
					})
				}
				return true
			})
		}
	}
	if n == 0 {
		r.undecided("rangelabel|sites", token.NoPos, "no case over a contiguous character range with range tests in its body found in package parser (expected the octal escape of DecodeEscape)")
	}
}

// ---- C06.R7: alternatives of one production that share a prefix build the shared fields alike ----

func runPrefixSiblings(c *Ctx, r *Rep) {
	g := loadGrammar(c, r)
	if g == nil {
		return
	}
	n := 0
	fields := func(a *yAlt) map[string]string {
		out := map[string]string{}
		if a.body == nil {
			return out
		}
		ast.Inspect(a.body, func(nd ast.Node) bool {
			kv, ok := nd.(*ast.KeyValueExpr)
			if !ok {
				return true
			}
			if k, ok := kv.Key.(*ast.Ident); ok {
				if _, dup := out[k.Name]; !dup {
					out[k.Name] = fullExpr(kv.Value)
				} else {
					out[k.Name] = "" // ambiguous: several literals
				}
			}
			return true
		})
		return out
	}
	maxRef := func(s string) int {
		m := 0
		for i := 0; i+1 < len(s); i++ {
			if s[i] == 'D' && s[i+1] >= '0' && s[i+1] <= '9' && (i == 0 || !(s[i-1] >= 'a' && s[i-1] <= 'z' || s[i-1] >= 'A' && s[i-1] <= 'Z')) {
				v := 0
				for j := i + 1; j < len(s) && s[j] >= '0' && s[j] <= '9'; j++ {
					v = v*10 + int(s[j]-'0')
				}
				if v > m {
					m = v
				}
			}
		}
		return m
	}
	for _, lhs := range g.order {
		alts := g.altsOf(lhs)
		for i, a := range alts {
			for j, b := range alts {
				if i >= j || len(a.syms) == 0 || len(a.syms) >= len(b.syms) {
					continue
				}
				prefix := true
				for k := range a.syms {
					if a.syms[k] != b.syms[k] {
						prefix = false
					}
				}
				if !prefix {
					continue
				}
				fa, fb := fields(a), fields(b)
				var keys []string
				for k := range fa {
					keys = append(keys, k)
				}
				sort.Strings(keys)
				for _, k := range keys {
					va, vb := fa[k], fb[k]
					if va == "" || vb == "" || maxRef(va) > len(a.syms) || maxRef(vb) > len(a.syms) || maxRef(va) == 0 {
						continue // built from symbols beyond the shared prefix, or not from symbols at all
					}
					n++
					key := fmt.Sprintf("prefix|%s (%s) vs (%s)|%s", lhs, symsString(a), symsString(b), k)
					if va == vb {
						r.ok(key, token.NoPos, "field built alike from the shared symbols")
					} else {
						r.bad(key, token.NoPos, "parser/grammar.y:%d/%d: the alternatives `%s` and `%s` of %s share their first %d symbols but build the field %s differently from them: `%s` vs `%s` — the same source prefix yields a different subtree depending on what follows it (for x, in … is a tuple target with and without a trailing clause)", a.line, b.line, symsString(a), symsString(b), lhs, len(a.syms), k, va, vb)
					}
				}
			}
		}
	}
	if n == 0 {
		r.undecided("prefix|sites", token.NoPos, "no pair of alternatives sharing a prefix with comparable fields found")
	}
}

// ---- C14.R6: every exit of StringEscape passes the per-character escaping loop ----

func runEscapeMustPass(c *Ctx, r *Rep) {
	fd := c.FuncDecl("py", "StringEscape")
	if fd == nil || fd.Body == nil {
		r.undecided("escapeloop|py.StringEscape", token.NoPos, "anchor function not found")
		return
	}
	r.analysed("py.StringEscape")
	var loop *ast.RangeStmt
	for _, s := range fd.Body.List {
		if rs, ok := s.(*ast.RangeStmt); ok && loop == nil {
			loop = rs
		}
	}
	if loop == nil {
		r.undecided("escapeloop|loop", fd.Pos(), "no top-level range loop over the string found in StringEscape")
		return
	}
	bad := 0
	ast.Inspect(fd.Body, func(n ast.Node) bool {
		if _, ok := n.(*ast.FuncLit); ok {
			return false
		}
		if rs, ok := n.(*ast.ReturnStmt); ok && rs.Pos() < loop.End() {
			bad++
			r.bad(fmt.Sprintf("escapeloop|early return %d", bad), rs.Pos(), "StringEscape returns before (or from inside) the per-character loop: on that path the characters are not examined one by one, so a quote or backslash that needs escaping is emitted raw and repr() does not evaluate back to the string")
		}
		return true
	})
	if bad == 0 {
		r.ok("escapeloop|all exits after the loop", loop.Pos(), "every return of StringEscape lies after the per-character escaping loop")
	}
}

func init() {
	register(&Rule{ID: "C07.R8", Prop: "C07", Floor: 10,
		Doc: "math/big receivers are fresh: every mutating big.Int method (Add, Sub, Mul, QuoRem, Neg, Lsh, …) is called on a receiver this function allocated (new(big.Int), big.NewInt, a chain of such calls, or a local defined only from those) — never on an operand, a conversion result or a shared constant, since Python ints are immutable values",
		Run: runFreshBig})
	register(&Rule{ID: "C06.R6", Prop: "C06", Floor: 2,
		Doc: "character-class agreement in package parser: inside a switch case whose labels are a contiguous run of character literals (the octal digits '0'..'7'), range tests on further characters use the same bounds as the labels",
		Run: runRangeLabelAgreement})
	register(&Rule{ID: "C06.R7", Prop: "C06", Floor: 10,
		Doc: "prefix siblings in grammar.y: two alternatives of one production where one's symbols are a prefix of the other's build every node field that depends only on the shared symbols by the same expression",
		Run: runPrefixSiblings})
	register(&Rule{ID: "C14.R6", Prop: "C14", Floor: 1,
		Doc: "repr escaping is total: every return of py.StringEscape lies after its per-character loop (no fast path that emits the content unexamined)",
		Run: runEscapeMustPass})
}

// ---- C17.R3: the operand sequence is read before the receiver's storage is changed ----

// In a method of a mutable container that takes another sequence as operand (slice assignment), the operand may be
// the container itself or a view/iterator over it. Reading it lazily while the receiver's backing array is already
// being rewritten yields items that were just overwritten. The rule: in every branch, every call that takes the
// operand parameter as an argument lies before the first assignment to the receiver's storage in that branch.
func runOperandBeforeMutation(c *Ctx, r *Rep) {
	p := c.MustPkg("py")
	targets := [][2]string{{"List", "M__setitem__"}}
	n := 0
	for _, tg := range targets {
		fd := c.MethodDecl("py", tg[0], tg[1])
		if fd == nil || fd.Body == nil {
			r.undecided("selfoperand|(*py."+tg[0]+")."+tg[1], token.NoPos, "anchor method not found")
			continue
		}
		id := "(*py." + tg[0] + ")." + tg[1]
		r.analysed(id)
		recv := fd.Recv.List[0].Names[0].Name
		// operand: the last parameter
		params := fd.Type.Params.List
		operand := params[len(params)-1].Names[len(params[len(params)-1].Names)-1].Name
		var walk func(stmts []ast.Stmt, mutatedAt token.Pos)
		walk = func(stmts []ast.Stmt, mutatedAt token.Pos) {
			for _, s := range stmts {
				// uses of the operand as a call argument in this statement (not descending into nested blocks)
				checkUses := func(node ast.Node) {
					ast.Inspect(node, func(m ast.Node) bool {
						switch m.(type) {
						case *ast.BlockStmt:
							return false
						}
						call, ok := m.(*ast.CallExpr)
						if !ok {
							return true
						}
						for _, a := range call.Args {
							if exprStr(a) == operand {
								n++
								if mutatedAt != token.NoPos {
									r.bad(fmt.Sprintf("selfoperand|%s|%s", id, exprStr(call.Fun)), call.Pos(), "%s reads its operand `%s` through %s after the receiver's storage has already been changed (at %s): when the operand is the container itself, or an iterator over it, the items read are the ones just overwritten (L[1:2] = L); materialise the operand first", id, operand, exprStr(call.Fun), c.Pos(mutatedAt))
								} else {
									r.ok(fmt.Sprintf("selfoperand|%s|%s", id, exprStr(call.Fun)), call.Pos(), "the operand is read before the receiver's storage is changed")
								}
							}
						}
						return true
					})
				}
				switch x := s.(type) {
				case *ast.IfStmt:
					if x.Init != nil {
						checkUses(x.Init)
					}
					checkUses(x.Cond)
					walk(x.Body.List, mutatedAt)
					switch e := x.Else.(type) {
					case *ast.BlockStmt:
						walk(e.List, mutatedAt)
					case *ast.IfStmt:
						walk([]ast.Stmt{e}, mutatedAt)
					}
				case *ast.ForStmt:
					walk(x.Body.List, mutatedAt)
				case *ast.RangeStmt:
					walk(x.Body.List, mutatedAt)
				case *ast.BlockStmt:
					walk(x.List, mutatedAt)
				default:
					checkUses(s)
					if as, ok := s.(*ast.AssignStmt); ok && mutatedAt == token.NoPos {
						for _, l := range as.Lhs {
							ls := exprStr(l)
							if strings.HasPrefix(ls, recv+".Items") {
								mutatedAt = as.Pos()
							}
						}
					}
				}
			}
		}
		walk(fd.Body.List, token.NoPos)
	}
	_ = p
	if n == 0 {
		r.undecided("selfoperand|sites", token.NoPos, "no call taking the operand sequence found in the slice-assignment method")
	}
}

func init() {
	register(&Rule{ID: "C17.R3", Prop: "C17", Floor: 1,
		Doc: "a container used as its own operand: in list slice assignment every read of the operand sequence (a call taking it as argument) lies before the first change of the receiver's storage in the same branch, so `L[a:b] = L` and `L[a:b] = iter(L)` see the old items",
		Run: runOperandBeforeMutation})
}

// ---- C13.R7: __ne__ is the complement of __eq__ ----

func runNeComplementsEq(c *Ctx, r *Rep) {
	p := c.MustPkg("py")
	types_ := map[string]bool{}
	for _, file := range c.Files(p) {
		for _, d := range file.Decls {
			fd, ok := d.(*ast.FuncDecl)
			if ok && fd.Recv != nil && fd.Name.Name == "M__ne__" {
				types_[strings.TrimPrefix(exprStr(fd.Recv.List[0].Type), "*")] = true
			}
		}
	}
	var names []string
	for t := range types_ {
		names = append(names, t)
	}
	sort.Strings(names)
	n := 0
	for _, t := range names {
		if c.MethodDecl("py", t, "M__eq__") == nil {
			continue
		}
		// __ne__ written as a function of __eq__ is complementary by construction
		if nd := c.MethodDecl("py", t, "M__ne__"); nd != nil {
			callsEq := false
			ast.Inspect(nd.Body, func(m ast.Node) bool {
				if call, ok := m.(*ast.CallExpr); ok {
					if sel, ok := call.Fun.(*ast.SelectorExpr); ok && sel.Sel.Name == "M__eq__" {
						callsEq = true
					}
				}
				return true
			})
			if callsEq {
				r.okTrivial("necomp|py."+t+"|delegates", nd.Pos(), "__ne__ is computed from __eq__")
				continue
			}
		}
		prim := []string{"py.NewBool"}
		eq, und1, pos := pathTable(c, tableSpec{key: "py|" + t + ".M__eq__", show: []string{"*"}, prim: prim})
		ne, und2, _ := pathTable(c, tableSpec{key: "py|" + t + ".M__ne__", show: []string{"*"}, prim: prim})
		id := "py." + t
		if len(und1) > 0 || len(und2) > 0 {
			r.okTrivial("necomp|"+id+"|shape", pos, "one of the two methods is not interpretable as a decision table (loops over elements); not covered")
			continue
		}
		// __ne__ delegating to __eq__ renders as a call; skip those (decided by construction)
		deleg := false
		for _, row := range ne {
			if strings.Contains(row, "M__eq__(") {
				deleg = true
			}
		}
		if deleg {
			r.okTrivial("necomp|"+id+"|delegates", pos, "__ne__ is computed from __eq__")
			continue
		}
		flip := func(rows []string) []string {
			var out []string
			for _, row := range rows {
				// NewBool(X) <-> NewBool(not X)
				if i := strings.Index(row, "NewBool("); i >= 0 {
					j := i + len("NewBool(")
					depth, k := 1, j
					for ; k < len(row) && depth > 0; k++ {
						if row[k] == '(' {
							depth++
						} else if row[k] == ')' {
							depth--
						}
					}
					arg := row[j : k-1]
					row = row[:j] + negText(arg) + row[k-1:]
				}
				row = strings.ReplaceAll(row, "-> True,", "-> \x00,")
				row = strings.ReplaceAll(row, "-> False,", "-> True,")
				row = strings.ReplaceAll(row, "-> \x00,", "-> False,")
				out = append(out, row)
			}
			sort.Strings(out)
			return out
		}
		want := flip(eq)
		got := append([]string(nil), ne...)
		sort.Strings(got)
		// receiver/parameter names may differ between the two methods: compare modulo the first two identifiers? they are the same in this code base
		miss, extra := diffSets(want, got)
		n++
		r.analysed("(" + id + ").M__ne__")
		if len(miss) == 0 && len(extra) == 0 {
			r.ok("necomp|"+id, pos, "__ne__ decides by the same conditions as __eq__ with the answers exchanged (%d paths)", len(got))
		} else {
			r.bad("necomp|"+id, pos, "__ne__ of %s is not the complement of its __eq__: for some operands both (or neither) hold. Paths of __eq__ with the answer exchanged that __ne__ lacks: %s; paths only __ne__ has: %s", id, strings.Join(clip(miss, 3), " ; "), strings.Join(clip(extra, 3), " ; "))
		}
	}
	if n == 0 {
		r.undecided("necomp|sites", token.NoPos, "no type with interpretable __eq__ and __ne__ found")
	}
}

func init() {
	register(&Rule{ID: "C15.R12", Prop: "C15", Floor: 3,
		Doc: "numeric comparisons: for every type of package py that defines both, the decision table of M__ne__ equals that of M__eq__ with True and False exchanged — in particular a nan operand makes == False and != True, which a three-way comparison cannot express (the same rule as C13.R7)",
		Run: runNeComplementsEq})
	register(&Rule{ID: "C13.R7", Prop: "C13", Floor: 3,
		Doc: "for every type of package py that defines both, the decision table of M__ne__ equals that of M__eq__ with True and False exchanged (sibling agreement by symbolic path enumeration; element-wise loops are out of scope)",
		Run: runNeComplementsEq})
}

// negText negates a rendered boolean expression textually: == <-> != at the top level, leading ! removed or added.
func negText(e string) string {
	depth := 0
	for i := 0; i+4 <= len(e); i++ {
		switch e[i] {
		case '(':
			depth++
		case ')':
			depth--
		}
		if depth == 0 && strings.HasPrefix(e[i:], " == ") {
			return e[:i] + " != " + e[i+4:]
		}
		if depth == 0 && strings.HasPrefix(e[i:], " != ") {
			return e[:i] + " == " + e[i+4:]
		}
	}
	if strings.HasPrefix(e, "!(") && strings.HasSuffix(e, ")") {
		return e[2 : len(e)-1]
	}
	if strings.HasPrefix(e, "!") {
		return e[1:]
	}
	return "!" + e
}
