package main

// Reference decision tables (see pathtable.go). Generated with `gpycheck -dump tables` and reviewed against the
// Python 3.4 / CPython definition named in each tableSpec.

func init() {
	// symbol definition: flags are or-ed into an existing symbol, a second DefParam for the same name is a SyntaxError (duplicate argument), parameters are appended to Varnames in order, a global declaration is mirrored into the module table [symtable.c symtable_add_def]  []
	pathSpec["symtable|SymTable.AddDef"] = []string{
		"[!(has(recv.Global.Symbols[string(p2)])) && !(has(recv.Symbols[string(p2)])) && bits(p3,0,1) != 0 && bits(p3,0,4) == 0] recv.Symbols[string(p2)] = composite[0,p3,ret:p1.GetLineno(),ret:p1.GetColOffset()]; recv.Global.Symbols[string(p2)] = composite[0,p3,ret:p1.GetLineno(),ret:p1.GetColOffset()]",
		"[!(has(recv.Global.Symbols[string(p2)])) && bits(p3,0,1) != 0 && bits(p3,0,4) == 0 && has(recv.Symbols[string(p2)])] sym.Flags |= p3; recv.Symbols[string(p2)] = recv.Symbols[p2]; recv.Global.Symbols[string(p2)] = composite[0,p3,ret:p1.GetLineno(),ret:p1.GetColOffset()]",
		"[!(has(recv.Symbols[string(p2)])) && bits(p3,0,1) != 0 && bits(p3,0,4) == 0 && has(recv.Global.Symbols[string(p2)])] recv.Symbols[string(p2)] = composite[0,p3,ret:p1.GetLineno(),ret:p1.GetColOffset()]; sym.Flags |= p3; recv.Global.Symbols[string(p2)] = recv.Global.Symbols[p2]",
		"[!(has(recv.Symbols[string(p2)])) && bits(p3,0,1) == 0 && bits(p3,0,4) == 0] recv.Symbols[string(p2)] = composite[0,p3,ret:p1.GetLineno(),ret:p1.GetColOffset()]",
		"[!(has(recv.Symbols[string(p2)])) && bits(p3,0,4) != 0] recv.Symbols[string(p2)] = composite[0,p3,ret:p1.GetLineno(),ret:p1.GetColOffset()]; recv.Varnames = append(recv.Varnames, p2)",
		"[bits(p3,0,1) != 0 && bits(p3,0,4) == 0 && has(recv.Global.Symbols[string(p2)]) && has(recv.Symbols[string(p2)])] sym.Flags |= p3; recv.Symbols[string(p2)] = recv.Symbols[p2]; sym.Flags |= p3; recv.Global.Symbols[string(p2)] = recv.Global.Symbols[p2]",
		"[bits(p3,0,1) == 0 && bits(p3,0,4) == 0 && has(recv.Symbols[string(p2)])] sym.Flags |= p3; recv.Symbols[string(p2)] = recv.Symbols[p2]",
		"[bits(p3,0,4) != 0 && bits(recv.Symbols[p2].Flags,0,4) != 0 && has(recv.Symbols[string(p2)])]  -> raise",
		"[bits(p3,0,4) != 0 && bits(recv.Symbols[p2].Flags,0,4) == 0 && has(recv.Symbols[string(p2)])] sym.Flags |= p3; recv.Symbols[string(p2)] = recv.Symbols[p2]; recv.Varnames = append(recv.Varnames, p2)",
	}
	// a function read through an instance binds the instance; read through the class it stays a function  []
	pathSpec["py|Function.M__get__"] = []string{
		"[p1 != None]  -> composite[p1,recv], nil",
		"[p1 == None]  -> recv, nil",
	}
	// a built-in method read through an instance binds the instance; read through the class it stays unbound  []
	pathSpec["py|Method.M__get__"] = []string{
		"[p1 != None]  -> composite[p1,recv], nil",
		"[p1 == None]  -> recv, nil",
	}
	// a classmethod binds the owner class (the type of the instance when no owner is given), never the instance  []
	pathSpec["py|ClassMethod.M__get__"] = []string{
		"[p2 != nil]  -> composite[p2,recv.Callable], nil",
		"[p2 == nil] p1.Type() -> composite[(py.Object).Type#0,recv.Callable], nil",
	}
	// a staticmethod binds nothing: the plain callable is returned  []
	pathSpec["py|StaticMethod.M__get__"] = []string{
		"[]  -> recv.Callable, nil",
	}
	// line-at-a-time driver: in continuation mode a non-empty line is only buffered; an empty line (or any line outside continuation mode) compiles buffer+line; an incomplete-input error buffers the line and enters continuation mode; any other outcome leaves continuation mode and clears the buffer before reporting or running  []
	pathSpec["repl|REPL.Run"] = []string{
		"[!(py.IsException(py.SystemExit, err!)) && !(recv.continuation) && (py.Context).RunCode#1 != nil && (recv.previous + p1) != \"\" && dyn:py.Compile#1 == nil] vm.PrintExpr = recv.term.Print; defer(func() { vm.PrintExpr = oldPrintExpr }()); Compile((recv.previous + p1) + \"\\n\", recv.prog, py.SingleMode, 0, true); recv.continuation = false; recv.term.SetPrompt(\">>> \"); recv.previous = \"\"; recv.Context.RunCode(dyn:py.Compile#0, recv.Module.Globals, recv.Module.Globals, nil); TracebackDump(err!) -> nil",
		"[!(py.IsException(py.SystemExit, err!)) && (py.Context).RunCode#1 != nil && (recv.previous + p1) != \"\" && dyn:py.Compile#1 == nil && p1 == \"\" && recv.continuation] vm.PrintExpr = recv.term.Print; defer(func() { vm.PrintExpr = oldPrintExpr }()); Compile((recv.previous + p1) + \"\\n\", recv.prog, py.SingleMode, 0, true); recv.continuation = false; recv.term.SetPrompt(\">>> \"); recv.previous = \"\"; recv.Context.RunCode(dyn:py.Compile#0, recv.Module.Globals, recv.Module.Globals, nil); TracebackDump(err!) -> nil",
		"[!(recv.continuation) && !(strings.Contains((.error).Error#0, \"EOF while scanning triple-quote…#1cd5d4c0\")) && !(strings.Contains((.error).Error#0, \"unexpected EOF while parsing\")) && (recv.previous + p1) != \"\" && dyn:py.Compile#1 != nil] vm.PrintExpr = recv.term.Print; defer(func() { vm.PrintExpr = oldPrintExpr }()); Compile((recv.previous + p1) + \"\\n\", recv.prog, py.SingleMode, 0, true); recv.continuation = false; recv.term.SetPrompt(\">>> \"); recv.previous = \"\"; recv.term.Print(fmt.Sprintf#0) -> nil",
		"[!(recv.continuation) && !(strings.Contains((.error).Error#0, \"unexpected EOF while parsing\")) && (recv.previous + p1) != \"\" && dyn:py.Compile#1 != nil && len(strings.TrimSpace#0) != 0 && strings.Contains((.error).Error#0, \"EOF while scanning triple-quote…#1cd5d4c0\") && strings.TrimSpace#0[0] != 35] vm.PrintExpr = recv.term.Print; defer(func() { vm.PrintExpr = oldPrintExpr }()); Compile((recv.previous + p1) + \"\\n\", recv.prog, py.SingleMode, 0, true); recv.continuation = true; recv.previous += p1 + \"\\n\"; recv.term.SetPrompt(\"... \") -> nil",
		"[!(recv.continuation) && !(strings.Contains((.error).Error#0, \"unexpected EOF while parsing\")) && (recv.previous + p1) != \"\" && dyn:py.Compile#1 != nil && len(strings.TrimSpace#0) != 0 && strings.Contains((.error).Error#0, \"EOF while scanning triple-quote…#1cd5d4c0\") && strings.TrimSpace#0[0] == 35] vm.PrintExpr = recv.term.Print; defer(func() { vm.PrintExpr = oldPrintExpr }()); Compile((recv.previous + p1) + \"\\n\", recv.prog, py.SingleMode, 0, true) -> nil",
		"[!(recv.continuation) && !(strings.Contains((.error).Error#0, \"unexpected EOF while parsing\")) && (recv.previous + p1) != \"\" && dyn:py.Compile#1 != nil && len(strings.TrimSpace#0) == 0 && strings.Contains((.error).Error#0, \"EOF while scanning triple-quote…#1cd5d4c0\")] vm.PrintExpr = recv.term.Print; defer(func() { vm.PrintExpr = oldPrintExpr }()); Compile((recv.previous + p1) + \"\\n\", recv.prog, py.SingleMode, 0, true); recv.continuation = true; recv.previous += p1 + \"\\n\"; recv.term.SetPrompt(\"... \") -> nil",
		"[!(recv.continuation) && (py.Context).RunCode#1 != nil && (recv.previous + p1) != \"\" && dyn:py.Compile#1 == nil && py.IsException(py.SystemExit, err!)] vm.PrintExpr = recv.term.Print; defer(func() { vm.PrintExpr = oldPrintExpr }()); Compile((recv.previous + p1) + \"\\n\", recv.prog, py.SingleMode, 0, true); recv.continuation = false; recv.term.SetPrompt(\">>> \"); recv.previous = \"\"; recv.Context.RunCode(dyn:py.Compile#0, recv.Module.Globals, recv.Module.Globals, nil) -> err!",
		"[!(recv.continuation) && (py.Context).RunCode#1 == nil && (recv.previous + p1) != \"\" && dyn:py.Compile#1 == nil] vm.PrintExpr = recv.term.Print; defer(func() { vm.PrintExpr = oldPrintExpr }()); Compile((recv.previous + p1) + \"\\n\", recv.prog, py.SingleMode, 0, true); recv.continuation = false; recv.term.SetPrompt(\">>> \"); recv.previous = \"\"; recv.Context.RunCode(dyn:py.Compile#0, recv.Module.Globals, recv.Module.Globals, nil) -> nil",
		"[!(recv.continuation) && (recv.previous + p1) != \"\" && dyn:py.Compile#1 != nil && len(strings.TrimSpace#0) != 0 && strings.Contains((.error).Error#0, \"unexpected EOF while parsing\") && strings.TrimSpace#0[0] != 35] vm.PrintExpr = recv.term.Print; defer(func() { vm.PrintExpr = oldPrintExpr }()); Compile((recv.previous + p1) + \"\\n\", recv.prog, py.SingleMode, 0, true); recv.continuation = true; recv.previous += p1 + \"\\n\"; recv.term.SetPrompt(\"... \") -> nil",
		"[!(recv.continuation) && (recv.previous + p1) != \"\" && dyn:py.Compile#1 != nil && len(strings.TrimSpace#0) != 0 && strings.Contains((.error).Error#0, \"unexpected EOF while parsing\") && strings.TrimSpace#0[0] == 35] vm.PrintExpr = recv.term.Print; defer(func() { vm.PrintExpr = oldPrintExpr }()); Compile((recv.previous + p1) + \"\\n\", recv.prog, py.SingleMode, 0, true) -> nil",
		"[!(recv.continuation) && (recv.previous + p1) != \"\" && dyn:py.Compile#1 != nil && len(strings.TrimSpace#0) == 0 && strings.Contains((.error).Error#0, \"unexpected EOF while parsing\")] vm.PrintExpr = recv.term.Print; defer(func() { vm.PrintExpr = oldPrintExpr }()); Compile((recv.previous + p1) + \"\\n\", recv.prog, py.SingleMode, 0, true); recv.continuation = true; recv.previous += p1 + \"\\n\"; recv.term.SetPrompt(\"... \") -> nil",
		"[!(recv.continuation) && (recv.previous + p1) == \"\"] vm.PrintExpr = recv.term.Print; defer(func() { vm.PrintExpr = oldPrintExpr }()) -> nil",
		"[!(strings.Contains((.error).Error#0, \"EOF while scanning triple-quote…#1cd5d4c0\")) && !(strings.Contains((.error).Error#0, \"unexpected EOF while parsing\")) && (recv.previous + p1) != \"\" && dyn:py.Compile#1 != nil && p1 == \"\" && recv.continuation] vm.PrintExpr = recv.term.Print; defer(func() { vm.PrintExpr = oldPrintExpr }()); Compile((recv.previous + p1) + \"\\n\", recv.prog, py.SingleMode, 0, true); recv.continuation = false; recv.term.SetPrompt(\">>> \"); recv.previous = \"\"; recv.term.Print(fmt.Sprintf#0) -> nil",
		"[!(strings.Contains((.error).Error#0, \"unexpected EOF while parsing\")) && (recv.previous + p1) != \"\" && dyn:py.Compile#1 != nil && len(strings.TrimSpace#0) != 0 && p1 == \"\" && recv.continuation && strings.Contains((.error).Error#0, \"EOF while scanning triple-quote…#1cd5d4c0\") && strings.TrimSpace#0[0] != 35] vm.PrintExpr = recv.term.Print; defer(func() { vm.PrintExpr = oldPrintExpr }()); Compile((recv.previous + p1) + \"\\n\", recv.prog, py.SingleMode, 0, true); recv.continuation = true; recv.previous += p1 + \"\\n\"; recv.term.SetPrompt(\"... \") -> nil",
		"[!(strings.Contains((.error).Error#0, \"unexpected EOF while parsing\")) && (recv.previous + p1) != \"\" && dyn:py.Compile#1 != nil && len(strings.TrimSpace#0) != 0 && p1 == \"\" && recv.continuation && strings.Contains((.error).Error#0, \"EOF while scanning triple-quote…#1cd5d4c0\") && strings.TrimSpace#0[0] == 35] vm.PrintExpr = recv.term.Print; defer(func() { vm.PrintExpr = oldPrintExpr }()); Compile((recv.previous + p1) + \"\\n\", recv.prog, py.SingleMode, 0, true) -> nil",
		"[!(strings.Contains((.error).Error#0, \"unexpected EOF while parsing\")) && (recv.previous + p1) != \"\" && dyn:py.Compile#1 != nil && len(strings.TrimSpace#0) == 0 && p1 == \"\" && recv.continuation && strings.Contains((.error).Error#0, \"EOF while scanning triple-quote…#1cd5d4c0\")] vm.PrintExpr = recv.term.Print; defer(func() { vm.PrintExpr = oldPrintExpr }()); Compile((recv.previous + p1) + \"\\n\", recv.prog, py.SingleMode, 0, true); recv.continuation = true; recv.previous += p1 + \"\\n\"; recv.term.SetPrompt(\"... \") -> nil",
		"[(py.Context).RunCode#1 != nil && (recv.previous + p1) != \"\" && dyn:py.Compile#1 == nil && p1 == \"\" && py.IsException(py.SystemExit, err!) && recv.continuation] vm.PrintExpr = recv.term.Print; defer(func() { vm.PrintExpr = oldPrintExpr }()); Compile((recv.previous + p1) + \"\\n\", recv.prog, py.SingleMode, 0, true); recv.continuation = false; recv.term.SetPrompt(\">>> \"); recv.previous = \"\"; recv.Context.RunCode(dyn:py.Compile#0, recv.Module.Globals, recv.Module.Globals, nil) -> err!",
		"[(py.Context).RunCode#1 == nil && (recv.previous + p1) != \"\" && dyn:py.Compile#1 == nil && p1 == \"\" && recv.continuation] vm.PrintExpr = recv.term.Print; defer(func() { vm.PrintExpr = oldPrintExpr }()); Compile((recv.previous + p1) + \"\\n\", recv.prog, py.SingleMode, 0, true); recv.continuation = false; recv.term.SetPrompt(\">>> \"); recv.previous = \"\"; recv.Context.RunCode(dyn:py.Compile#0, recv.Module.Globals, recv.Module.Globals, nil) -> nil",
		"[(recv.previous + p1) != \"\" && dyn:py.Compile#1 != nil && len(strings.TrimSpace#0) != 0 && p1 == \"\" && recv.continuation && strings.Contains((.error).Error#0, \"unexpected EOF while parsing\") && strings.TrimSpace#0[0] != 35] vm.PrintExpr = recv.term.Print; defer(func() { vm.PrintExpr = oldPrintExpr }()); Compile((recv.previous + p1) + \"\\n\", recv.prog, py.SingleMode, 0, true); recv.continuation = true; recv.previous += p1 + \"\\n\"; recv.term.SetPrompt(\"... \") -> nil",
		"[(recv.previous + p1) != \"\" && dyn:py.Compile#1 != nil && len(strings.TrimSpace#0) != 0 && p1 == \"\" && recv.continuation && strings.Contains((.error).Error#0, \"unexpected EOF while parsing\") && strings.TrimSpace#0[0] == 35] vm.PrintExpr = recv.term.Print; defer(func() { vm.PrintExpr = oldPrintExpr }()); Compile((recv.previous + p1) + \"\\n\", recv.prog, py.SingleMode, 0, true) -> nil",
		"[(recv.previous + p1) != \"\" && dyn:py.Compile#1 != nil && len(strings.TrimSpace#0) == 0 && p1 == \"\" && recv.continuation && strings.Contains((.error).Error#0, \"unexpected EOF while parsing\")] vm.PrintExpr = recv.term.Print; defer(func() { vm.PrintExpr = oldPrintExpr }()); Compile((recv.previous + p1) + \"\\n\", recv.prog, py.SingleMode, 0, true); recv.continuation = true; recv.previous += p1 + \"\\n\"; recv.term.SetPrompt(\"... \") -> nil",
		"[(recv.previous + p1) == \"\" && p1 == \"\" && recv.continuation] vm.PrintExpr = recv.term.Print; defer(func() { vm.PrintExpr = oldPrintExpr }()) -> nil",
		"[p1 != \"\" && recv.continuation] vm.PrintExpr = recv.term.Print; defer(func() { vm.PrintExpr = oldPrintExpr }()); recv.previous += p1 + \"\\n\" -> nil",
	}
	// block analysis order: for a class block the sets handed to children are copied from bound/global BEFORE the block's own names are analysed (class bindings, including a `global` in the class body, are not visible in methods); for other blocks after; children are analysed on those sets; cells computed for function blocks, __class__ dropped for class blocks; symbols updated; free propagated [symtable.c analyze_block]  []
	pathSpec["symtable|SymTable.AnalyzeBlock"] = []string{
		"[recv.Type != ClassBlock && recv.Type != FunctionBlock] LOOP(range recv.Symbols){[] recv.AnalyzeName(make#2, idx(recv.Symbols), recv.Symbols[*], p1, make#1, p2, p3) }; make#5.Update(p1); make#3.Update(p3); LOOP(range recv.Children){[!(recv.Children[*].ChildFree) && !(recv.Children[*].Free)] recv.Children[*].AnalyzeChildBlock(make#5, make#4, make#3, make#6)  | [!(recv.Children[*].Free) && recv.Children[*].ChildFree] recv.Children[*].AnalyzeChildBlock(make#5, make#4, make#3, make#6)  | [recv.Children[*].Free] recv.Children[*].AnalyzeChildBlock(make#5, make#4, make#3, make#6) }; make#4.Update(make#6); recv.Symbols.Update(make#2, p1, make#4, recv.Type == ClassBlock); p2.Update(make#4)",
		"[recv.Type == ClassBlock] make#3.Update(p3); make#5.Update(p1); LOOP(range recv.Symbols){[] recv.AnalyzeName(make#2, idx(recv.Symbols), recv.Symbols[*], p1, make#1, p2, p3) }; make#5.Add(\"__class__\"); LOOP(range recv.Children){[!(recv.Children[*].ChildFree) && !(recv.Children[*].Free)] recv.Children[*].AnalyzeChildBlock(make#5, make#4, make#3, make#6)  | [!(recv.Children[*].Free) && recv.Children[*].ChildFree] recv.Children[*].AnalyzeChildBlock(make#5, make#4, make#3, make#6)  | [recv.Children[*].Free] recv.Children[*].AnalyzeChildBlock(make#5, make#4, make#3, make#6) }; make#4.Update(make#6); recv.DropClassFree(make#4); recv.Symbols.Update(make#2, p1, make#4, recv.Type == ClassBlock); p2.Update(make#4)",
		"[recv.Type == FunctionBlock] LOOP(range recv.Symbols){[] recv.AnalyzeName(make#2, idx(recv.Symbols), recv.Symbols[*], p1, make#1, p2, p3) }; make#5.Update(make#1); make#5.Update(p1); make#3.Update(p3); LOOP(range recv.Children){[!(recv.Children[*].ChildFree) && !(recv.Children[*].Free)] recv.Children[*].AnalyzeChildBlock(make#5, make#4, make#3, make#6)  | [!(recv.Children[*].Free) && recv.Children[*].ChildFree] recv.Children[*].AnalyzeChildBlock(make#5, make#4, make#3, make#6)  | [recv.Children[*].Free] recv.Children[*].AnalyzeChildBlock(make#5, make#4, make#3, make#6) }; make#4.Update(make#6); AnalyzeCells(make#2, make#4); recv.Symbols.Update(make#2, p1, make#4, recv.Type == ClassBlock); p2.Update(make#4)",
	}
	// cell analysis: a name that is Local in this block and free in a child becomes a Cell and is removed from the free set; every other name is left as it is [symtable.c analyze_cells]  []
	pathSpec["symtable|AnalyzeCells"] = []string{
		"[] LOOP(range p1){[!(p2.Contains(idx(p1))) && p1[*] == ScopeLocal] p2.Contains(idx(p1))  | [p1[*] != ScopeLocal]   | [p1[*] == ScopeLocal && p2.Contains(idx(p1))] p2.Contains(idx(p1)); p1[idx(p1)] = 5; p2.Discard(idx(p1)) }",
	}
	// sequence unpacking (UNPACK_SEQUENCE / UNPACK_EX): the first argcnt items are stored downwards from the top so that the leftmost target is popped first; the starred list takes the rest; the after-star items are taken from the end of that list in the same downward order [ceval.c unpack_iterable]  []
	pathSpec["vm|unpack_iterable"] = []string{
		"[!(py.IsException(py.StopIteration, err!)) && p4 == -1 && py.Iter#1 == nil && py.Next#1 != nil] Iter(p2); LOOP(for k1 = 0; k1 < p3; k1++){[!(py.IsException(py.StopIteration, err!)) && py.Next#1 != nil] Next(py.Iter#0); IsException(py.StopIteration, err!) return | [py.IsException(py.StopIteration, err!) && py.Next#1 != nil] Next(py.Iter#0); IsException(py.StopIteration, err!); ExceptionNewf(py.ValueError, \"need more than %d value(s) to unpack\", loop:k1) return | [py.Next#1 == nil] Next(py.Iter#0) }; Next(py.Iter#0); IsException(py.StopIteration, err!) -> err!",
		"[!(py.IsException(py.StopIteration, err!)) && py.Iter#1 == nil && py.Next#1 != nil] Iter(p2); Next(py.Iter#0); IsException(py.StopIteration, err!) -> err!",
		"[(*py.List).M__getitem__#1 != nil && len(l.Items) - p4 >= 0 && p4 != -1 && py.Iter#1 == nil && py.SequenceList#1 == nil] Iter(p2); LOOP(for k1 = 0; k1 < p3; k1++){[!(py.IsException(py.StopIteration, err!)) && py.Next#1 != nil] Next(py.Iter#0); IsException(py.StopIteration, err!) return | [py.IsException(py.StopIteration, err!) && py.Next#1 != nil] Next(py.Iter#0); IsException(py.StopIteration, err!); ExceptionNewf(py.ValueError, \"need more than %d value(s) to unpack\", loop:k1) return | [py.Next#1 == nil] Next(py.Iter#0) }; SequenceList(py.Iter#0); py.SequenceList#0.Len(); py.SequenceList#0.M__getitem__(len(l.Items) - loop:k1) -> err!",
		"[len(l.Items) - p4 <= -1 && p4 != -1 && py.Iter#1 == nil && py.SequenceList#1 == nil] Iter(p2); LOOP(for k1 = 0; k1 < p3; k1++){[!(py.IsException(py.StopIteration, err!)) && py.Next#1 != nil] Next(py.Iter#0); IsException(py.StopIteration, err!) return | [py.IsException(py.StopIteration, err!) && py.Next#1 != nil] Next(py.Iter#0); IsException(py.StopIteration, err!); ExceptionNewf(py.ValueError, \"need more than %d value(s) to unpack\", loop:k1) return | [py.Next#1 == nil] Next(py.Iter#0) }; SequenceList(py.Iter#0); py.SequenceList#0.Len(); ExceptionNewf(py.ValueError, \"need more than %d values to unpack\", len(l.Items) + p3) -> err!",
		"[len(l.Items) - p4 >= 0 && p4 != -1 && py.Iter#1 == nil && py.SequenceList#1 == nil] Iter(p2); LOOP(for k1 = 0; k1 < p3; k1++){[!(py.IsException(py.StopIteration, err!)) && py.Next#1 != nil] Next(py.Iter#0); IsException(py.StopIteration, err!) return | [py.IsException(py.StopIteration, err!) && py.Next#1 != nil] Next(py.Iter#0); IsException(py.StopIteration, err!); ExceptionNewf(py.ValueError, \"need more than %d value(s) to unpack\", loop:k1) return | [py.Next#1 == nil] Next(py.Iter#0) }; SequenceList(py.Iter#0); py.SequenceList#0.Len(); LOOP(for k1 = argcntafter; k1 > 0; k1--){[(*py.List).M__getitem__#1 != nil] py.SequenceList#0.M__getitem__(len(l.Items) - loop:k1) return | [(*py.List).M__getitem__#1 == nil] py.SequenceList#0.M__getitem__(len(l.Items) - loop:k1) }; py.SequenceList#0.Resize(len(l.Items) - p4) -> nil",
		"[p4 != -1 && py.Iter#1 == nil && py.SequenceList#1 != nil] Iter(p2); LOOP(for k1 = 0; k1 < p3; k1++){[!(py.IsException(py.StopIteration, err!)) && py.Next#1 != nil] Next(py.Iter#0); IsException(py.StopIteration, err!) return | [py.IsException(py.StopIteration, err!) && py.Next#1 != nil] Next(py.Iter#0); IsException(py.StopIteration, err!); ExceptionNewf(py.ValueError, \"need more than %d value(s) to unpack\", loop:k1) return | [py.Next#1 == nil] Next(py.Iter#0) }; SequenceList(py.Iter#0) -> err!",
		"[p4 == -1 && py.IsException(py.StopIteration, err!) && py.Iter#1 == nil && py.Next#1 != nil] Iter(p2); LOOP(for k1 = 0; k1 < p3; k1++){[!(py.IsException(py.StopIteration, err!)) && py.Next#1 != nil] Next(py.Iter#0); IsException(py.StopIteration, err!) return | [py.IsException(py.StopIteration, err!) && py.Next#1 != nil] Next(py.Iter#0); IsException(py.StopIteration, err!); ExceptionNewf(py.ValueError, \"need more than %d value(s) to unpack\", loop:k1) return | [py.Next#1 == nil] Next(py.Iter#0) }; Next(py.Iter#0); IsException(py.StopIteration, err!) -> nil",
		"[p4 == -1 && py.Iter#1 == nil && py.Next#1 == nil] Iter(p2); LOOP(for k1 = 0; k1 < p3; k1++){[!(py.IsException(py.StopIteration, err!)) && py.Next#1 != nil] Next(py.Iter#0); IsException(py.StopIteration, err!) return | [py.IsException(py.StopIteration, err!) && py.Next#1 != nil] Next(py.Iter#0); IsException(py.StopIteration, err!); ExceptionNewf(py.ValueError, \"need more than %d value(s) to unpack\", loop:k1) return | [py.Next#1 == nil] Next(py.Iter#0) }; Next(py.Iter#0); ExceptionNewf(py.ValueError, \"too many values to unpack (expected %d)\", p3) -> err!",
		"[py.IsException(py.StopIteration, err!) && py.Iter#1 == nil && py.Next#1 != nil] Iter(p2); Next(py.Iter#0); IsException(py.StopIteration, err!); ExceptionNewf(py.ValueError, \"need more than %d value(s) to unpack\", loop:k1) -> err!",
		"[py.Iter#1 != nil] Iter(p2) -> err!",
	}
	// with statement entry: __exit__ is looked up and pushed, __enter__ is looked up and called, and only after it returned without error is the finally block pushed and the result pushed — an exception from __enter__ must not run __exit__ [ceval.c SETUP_WITH]  []
	pathSpec["vm|do_SETUP_WITH"] = []string{
		"[py.Call#1 != nil && py.GetAttrString#1 == nil && py.GetAttrString#1'2 == nil] GetAttrString(slot0, \"__exit__\"); GetAttrString(slot0, \"__enter__\"); Call(py.GetAttrString#0'2, nil, nil) -> err!",
		"[py.Call#1 == nil && py.GetAttrString#1 == nil && py.GetAttrString#1'2 == nil] GetAttrString(slot0, \"__exit__\"); GetAttrString(slot0, \"__enter__\"); Call(py.GetAttrString#0'2, nil, nil); vm.frame.PushBlock(2, p2 + vm.frame.Lasti, H0) -> nil",
		"[py.GetAttrString#1 != nil] GetAttrString(slot0, \"__exit__\") -> err!",
		"[py.GetAttrString#1 == nil && py.GetAttrString#1'2 != nil] GetAttrString(slot0, \"__exit__\"); GetAttrString(slot0, \"__enter__\") -> err!",
	}
	// the implicit `return None` is omitted only when the very last element of the instruction stream is a RETURN_VALUE: a trailing label is a jump target that needs an instruction after it  []
	pathSpec["compile|Instructions.EndsWithReturn"] = []string{
		"[!(recv[len(recv) - 1].(*Op)) && len(recv) != 0]  -> false",
		"[len(recv) != 0 && recv[len(recv) - 1].(*Op) && recv[len(recv) - 1].Op != vm.RETURN_VALUE]  -> false",
		"[len(recv) != 0 && recv[len(recv) - 1].(*Op) && recv[len(recv) - 1].Op == vm.RETURN_VALUE]  -> true",
		"[len(recv) == 0]  -> false",
	}
	// incomplete-input decision (lexer half): a parse error without a message of its own is reported as 'unexpected EOF while parsing' exactly when the input ran out (x.eof), otherwise as 'invalid syntax' — the REPL continues a statement on the former  []
	pathSpec["parser|yyLex.ErrorReturn"] = []string{
		"[!(recv.eof) && recv.error && recv.errorString == \"\"] recv.errorString = \"invalid syntax\"; ExceptionNewf(py.SyntaxError, \"%s\", recv.errorString) -> err!",
		"[!(recv.error)]  -> nil",
		"[recv.eof && recv.error && recv.errorString == \"\"] recv.errorString = \"unexpected EOF while parsing\"; ExceptionNewf(py.SyntaxError, \"%s\", recv.errorString) -> err!",
		"[recv.error && recv.errorString != \"\"] ExceptionNewf(py.SyntaxError, \"%s\", recv.errorString) -> err!",
	}
	// iter(x): the object's own __iter__ (native, then Python-level) is asked first; only an object without one falls back to the sequence protocol (indexing from 0); TypeError last [abstract.c PyObject_GetIter]  []
	pathSpec["py|Iter"] = []string{
		"[!(flag1) && !(p1.(I__iter__)) && !(py.ObjectIsSequence(p1))] TypeCall0(p1, \"__iter__\"); ObjectIsSequence(p1); p1.Type(); ExceptionNewf(TypeError, \"'%s' object is not iterable\", (py.Object).Type#0.Name) -> nil, err!",
		"[!(flag1) && !(p1.(I__iter__)) && py.ObjectIsSequence(p1)] TypeCall0(p1, \"__iter__\"); ObjectIsSequence(p1); NewIterator(p1) -> py.NewIterator#0, nil",
		"[!(p1.(I__iter__)) && flag1] TypeCall0(p1, \"__iter__\") -> py.TypeCall0#0, py.TypeCall0#2",
		"[p1.(I__iter__)] p1.M__iter__() -> (py.I__iter__).M__iter__#0, (py.I__iter__).M__iter__#1",
	}
	// next(x): the iterator's own __next__ (native, then Python-level), TypeError for a non-iterator [abstract.c PyIter_Next]  []
	pathSpec["py|Next"] = []string{
		"[!(flag1) && !(p1.(I__next__))] TypeCall0(p1, \"__next__\"); p1.Type(); ExceptionNewf(TypeError, \"'%s' object is not iterable\", (py.Object).Type#0.Name) -> nil, err!",
		"[!(p1.(I__next__)) && flag1] TypeCall0(p1, \"__next__\") -> py.TypeCall0#0, py.TypeCall0#2",
		"[p1.(I__next__)] p1.M__next__() -> (py.I__next__).M__next__#0, (py.I__next__).M__next__#1",
	}
	// range equality compares the sequences the ranges denote: different lengths differ; empty ranges are equal; then the first items must agree; a range of one item needs nothing more; otherwise the steps must agree [rangeobject.c range_equals]  []
	pathSpec["py|Range.M__eq__"] = []string{
		"[!(p1.(*Range))]  -> NotImplemented, nil",
		"[p1.(*Range) && p1.Length - recv.Length != 0]  -> False, nil",
		"[p1.(*Range) && p1.Length - recv.Length == 0 && p1.Start - recv.Start != 0 && recv.Length != 0]  -> False, nil",
		"[p1.(*Range) && p1.Length - recv.Length == 0 && p1.Start - recv.Start == 0 && p1.Step - recv.Step != 0 && recv.Length != 0 && recv.Length != 1]  -> False, nil",
		"[p1.(*Range) && p1.Length - recv.Length == 0 && p1.Start - recv.Start == 0 && p1.Step - recv.Step == 0 && recv.Length != 0 && recv.Length != 1]  -> True, nil",
		"[p1.(*Range) && p1.Length - recv.Length == 0 && p1.Start - recv.Start == 0 && recv.Length == 1]  -> True, nil",
		"[p1.(*Range) && p1.Length - recv.Length == 0 && recv.Length == 0]  -> True, nil",
	}
	// name lookup in a namespace block: locals, then globals, then builtins, NameError last [ceval.c]  []
	pathSpec["vm|do_LOAD_NAME"] = []string{
		"[!(flag1)] vm.frame.Lookup(vm.frame.Code.Names[p2]); ExceptionNewf(py.NameError, \"name '%s' is not defined\", vm.frame.Code.Names[p2]) -> err!",
		"[flag1] vm.frame.Lookup(vm.frame.Code.Names[p2]) -> nil",
	}
	// global lookup: globals, then builtins, NameError last [ceval.c]  []
	pathSpec["vm|do_LOAD_GLOBAL"] = []string{
		"[!(flag1)] vm.frame.LookupGlobal(vm.frame.Code.Names[p2]); ExceptionNewf(py.NameError, \"name '%s' is not defined\", vm.frame.Code.Names[p2]) -> err!",
		"[flag1] vm.frame.LookupGlobal(vm.frame.Code.Names[p2]) -> nil",
	}
	// class-body free variable: the class namespace first, then the cell of the enclosing function, unbound error last [ceval.c]  []
	pathSpec["vm|do_LOAD_CLASSDEREF"] = []string{
		"[!(has(vm.frame.Locals[name])) && (*py.Cell).Get#0 != nil] _var_name(vm, p2); vm.frame.CellAndFreeVars[p2].Get() -> nil",
		"[!(has(vm.frame.Locals[name])) && (*py.Cell).Get#0 == nil] _var_name(vm, p2); vm.frame.CellAndFreeVars[p2].Get(); unboundDeref(vm, p2) -> vm.unboundDeref#0",
		"[has(vm.frame.Locals[name])] _var_name(vm, p2) -> nil",
	}
	// free/cell variable read: the cell's content, unbound error when empty [ceval.c]  []
	pathSpec["vm|do_LOAD_DEREF"] = []string{
		"[(*py.Cell).Get#0 != nil] vm.frame.CellAndFreeVars[p2].Get() -> nil",
		"[(*py.Cell).Get#0 == nil] vm.frame.CellAndFreeVars[p2].Get(); unboundDeref(vm, p2) -> vm.unboundDeref#0",
	}
	// name store goes to the frame's locals [ceval.c]  []
	pathSpec["vm|do_STORE_NAME"] = []string{
		"[] vm.frame.Locals[vm.frame.Code.Names[p2]] = slot0 -> nil",
	}
	// name delete removes from the frame's locals, NameError when absent [ceval.c]  []
	pathSpec["vm|do_DELETE_NAME"] = []string{
		"[!(has(vm.frame.Locals[vm.frame.Code.Names[p2]]))] ExceptionNewf(py.NameError, \"name '%s' is not defined\", vm.frame.Code.Names[p2]) -> err!",
		"[has(vm.frame.Locals[vm.frame.Code.Names[p2]])]  -> nil",
	}
	// global store goes to the frame's globals [ceval.c]  []
	pathSpec["vm|do_STORE_GLOBAL"] = []string{
		"[] vm.frame.Globals[vm.frame.Code.Names[p2]] = slot0 -> nil",
	}
	// global delete removes from the frame's globals, NameError when absent [ceval.c]  []
	pathSpec["vm|do_DELETE_GLOBAL"] = []string{
		"[!(has(vm.frame.Globals[vm.frame.Code.Names[p2]]))] ExceptionNewf(py.NameError, \"name '%s' is not defined\", vm.frame.Code.Names[p2]) -> err!",
		"[has(vm.frame.Globals[vm.frame.Code.Names[p2]])]  -> nil",
	}
	// cell store sets the cell of slot i [ceval.c]  []
	pathSpec["vm|do_STORE_DEREF"] = []string{
		"[] vm.frame.CellAndFreeVars[p2].Set(slot0) -> nil",
	}
	// cell delete empties the cell, unbound error when already empty [ceval.c]  []
	pathSpec["vm|do_DELETE_DEREF"] = []string{
		"[(*py.Cell).Get#0 != nil] vm.frame.CellAndFreeVars[p2].Get(); vm.frame.CellAndFreeVars[p2].Delete() -> nil",
		"[(*py.Cell).Get#0 == nil] vm.frame.CellAndFreeVars[p2].Get(); unboundDeref(vm, p2) -> vm.unboundDeref#0",
	}
	// pushes the cell object of slot i itself [ceval.c]  []
	pathSpec["vm|do_LOAD_CLOSURE"] = []string{
		"[]  -> nil",
	}
	// LOAD_NAME order: the frame's locals, then its globals, then the builtins [ceval.c LOAD_NAME]  []
	pathSpec["py|Frame.Lookup"] = []string{
		"[!(has(recv.Builtins[p1])) && !(has(recv.Globals[p1])) && !(has(recv.Locals[p1]))]  -> nil, false",
		"[!(has(recv.Globals[p1])) && !(has(recv.Locals[p1])) && has(recv.Builtins[p1])] ",
		"[!(has(recv.Locals[p1])) && has(recv.Globals[p1])] ",
		"[has(recv.Locals[p1])] ",
	}
	// LOAD_GLOBAL order: the frame's globals, then the builtins [ceval.c LOAD_GLOBAL]  []
	pathSpec["py|Frame.LookupGlobal"] = []string{
		"[!(has(recv.Builtins[p1])) && !(has(recv.Globals[p1]))]  -> nil, false",
		"[!(has(recv.Globals[p1])) && has(recv.Builtins[p1])] ",
		"[has(recv.Globals[p1])] ",
	}
	// symbol-table update after scope analysis: scope bits are recorded; in a class block a name that is free in a method and bound OR declared global in the class gets DefFreeClass; a free name unknown to the block is added as free [symtable.c update_symbols] — the compiler's closure construction relies on it  []
	pathSpec["symtable|Symbols.Update"] = []string{
		"[] LOOP(range recv){[] recv[*].Scope = p1[*]; recv[idx(recv)] = recv[*] }; LOOP(range p3){[!(has(recv[idx(p3)])) && !(p2.Contains(idx(p3)))]   | [!(has(recv[idx(p3)])) && p2.Contains(idx(p3))] recv[idx(p3)] = composite[4]  | [!(p4) && has(recv[idx(p3)])]   | [(symbol.Flags & (DefBound | DefGlobal)) != 0 && has(recv[idx(p3)]) && p4] symbol.Flags |= DefFreeClass; recv[idx(p3)] = recv[*]  | [(symbol.Flags & (DefBound | DefGlobal)) == 0 && has(recv[idx(p3)]) && p4]  }",
	}
	// repr/ascii escaping per character class: control characters as \t \n \r \xHH; in repr mode printable ASCII with backslash and the chosen quote escaped; in ascii mode ASCII passes through untouched (the text is an already escaped repr); Latin-1, BMP and astral characters printable-or-escaped by width  []
	pathSpec["py|StringEscape"] = []string{
		"[!(p2) && !(strings.ContainsRune(p1, 34)) && strings.ContainsRune(p1, 39)] ContainsRune(p1, 39); ContainsRune(p1, 34); zero.WriteRune(34); LOOP(range string(p1)){[!(strconv.IsPrint(p1[*])) && p1[*] <= 255 && p1[*] >= 127 && p1[*] >= 32] IsPrint(p1[*]); Fprintf(zero, \"\\\\x%02x\", p1[*])  | [!(strconv.IsPrint(p1[*])) && p1[*] <= 65535 && p1[*] >= 127 && p1[*] >= 256 && p1[*] >= 32] IsPrint(p1[*]); Fprintf(zero, \"\\\\u%04x\", p1[*])  | [!(strconv.IsPrint(p1[*])) && p1[*] >= 127 && p1[*] >= 256 && p1[*] >= 32 && p1[*] >= 65536] IsPrint(p1[*]); Fprintf(zero, \"\\\\U%08x\", p1[*])  | [p1[*] != 10 && p1[*] != 13 && p1[*] != 9 && p1[*] <= 31] Fprintf(zero, `\\x%02x`, p1[*])  | [p1[*] != 34 && p1[*] != 92 && p1[*] <= 126 && p1[*] >= 32] zero.WriteRune(p1[*])  | [p1[*] <= 126 && p1[*] == 34 && p1[*] >= 32] zero.WriteRune(92); zero.WriteRune(p1[*])  | [p1[*] <= 126 && p1[*] == 92 && p1[*] >= 32] zero.WriteRune(92); zero.WriteRune(p1[*])  | [p1[*] <= 255 && p1[*] >= 127 && p1[*] >= 32 && strconv.IsPrint(p1[*])] IsPrint(p1[*]); zero.WriteRune(p1[*])  | [p1[*] <= 31 && p1[*] == 10] zero.WriteString(`\\n`)  | [p1[*] <= 31 && p1[*] == 13] zero.WriteString(`\\r`)  | [p1[*] <= 31 && p1[*] == 9] zero.WriteString(`\\t`)  | [p1[*] <= 65535 && p1[*] >= 127 && p1[*] >= 256 && p1[*] >= 32 && strconv.IsPrint(p1[*])] IsPrint(p1[*]); zero.WriteRune(p1[*])  | [p1[*] >= 127 && p1[*] >= 256 && p1[*] >= 32 && p1[*] >= 65536 && strconv.IsPrint(p1[*])] IsPrint(p1[*]); zero.WriteRune(p1[*]) }; zero.WriteRune(34); zero.String() -> (*bytes.Buffer).String#0",
		"[!(p2) && !(strings.ContainsRune(p1, 39))] ContainsRune(p1, 39); zero.WriteRune(39); LOOP(range string(p1)){[!(strconv.IsPrint(p1[*])) && p1[*] <= 255 && p1[*] >= 127 && p1[*] >= 32] IsPrint(p1[*]); Fprintf(zero, \"\\\\x%02x\", p1[*])  | [!(strconv.IsPrint(p1[*])) && p1[*] <= 65535 && p1[*] >= 127 && p1[*] >= 256 && p1[*] >= 32] IsPrint(p1[*]); Fprintf(zero, \"\\\\u%04x\", p1[*])  | [!(strconv.IsPrint(p1[*])) && p1[*] >= 127 && p1[*] >= 256 && p1[*] >= 32 && p1[*] >= 65536] IsPrint(p1[*]); Fprintf(zero, \"\\\\U%08x\", p1[*])  | [p1[*] != 10 && p1[*] != 13 && p1[*] != 9 && p1[*] <= 31] Fprintf(zero, `\\x%02x`, p1[*])  | [p1[*] != 39 && p1[*] != 92 && p1[*] <= 126 && p1[*] >= 32] zero.WriteRune(p1[*])  | [p1[*] <= 126 && p1[*] == 39 && p1[*] >= 32] zero.WriteRune(92); zero.WriteRune(p1[*])  | [p1[*] <= 126 && p1[*] == 92 && p1[*] >= 32] zero.WriteRune(92); zero.WriteRune(p1[*])  | [p1[*] <= 255 && p1[*] >= 127 && p1[*] >= 32 && strconv.IsPrint(p1[*])] IsPrint(p1[*]); zero.WriteRune(p1[*])  | [p1[*] <= 31 && p1[*] == 10] zero.WriteString(`\\n`)  | [p1[*] <= 31 && p1[*] == 13] zero.WriteString(`\\r`)  | [p1[*] <= 31 && p1[*] == 9] zero.WriteString(`\\t`)  | [p1[*] <= 65535 && p1[*] >= 127 && p1[*] >= 256 && p1[*] >= 32 && strconv.IsPrint(p1[*])] IsPrint(p1[*]); zero.WriteRune(p1[*])  | [p1[*] >= 127 && p1[*] >= 256 && p1[*] >= 32 && p1[*] >= 65536 && strconv.IsPrint(p1[*])] IsPrint(p1[*]); zero.WriteRune(p1[*]) }; zero.WriteRune(39); zero.String() -> (*bytes.Buffer).String#0",
		"[!(p2) && strings.ContainsRune(p1, 34) && strings.ContainsRune(p1, 39)] ContainsRune(p1, 39); ContainsRune(p1, 34); zero.WriteRune(39); LOOP(range string(p1)){[!(strconv.IsPrint(p1[*])) && p1[*] <= 255 && p1[*] >= 127 && p1[*] >= 32] IsPrint(p1[*]); Fprintf(zero, \"\\\\x%02x\", p1[*])  | [!(strconv.IsPrint(p1[*])) && p1[*] <= 65535 && p1[*] >= 127 && p1[*] >= 256 && p1[*] >= 32] IsPrint(p1[*]); Fprintf(zero, \"\\\\u%04x\", p1[*])  | [!(strconv.IsPrint(p1[*])) && p1[*] >= 127 && p1[*] >= 256 && p1[*] >= 32 && p1[*] >= 65536] IsPrint(p1[*]); Fprintf(zero, \"\\\\U%08x\", p1[*])  | [p1[*] != 10 && p1[*] != 13 && p1[*] != 9 && p1[*] <= 31] Fprintf(zero, `\\x%02x`, p1[*])  | [p1[*] != 39 && p1[*] != 92 && p1[*] <= 126 && p1[*] >= 32] zero.WriteRune(p1[*])  | [p1[*] <= 126 && p1[*] == 39 && p1[*] >= 32] zero.WriteRune(92); zero.WriteRune(p1[*])  | [p1[*] <= 126 && p1[*] == 92 && p1[*] >= 32] zero.WriteRune(92); zero.WriteRune(p1[*])  | [p1[*] <= 255 && p1[*] >= 127 && p1[*] >= 32 && strconv.IsPrint(p1[*])] IsPrint(p1[*]); zero.WriteRune(p1[*])  | [p1[*] <= 31 && p1[*] == 10] zero.WriteString(`\\n`)  | [p1[*] <= 31 && p1[*] == 13] zero.WriteString(`\\r`)  | [p1[*] <= 31 && p1[*] == 9] zero.WriteString(`\\t`)  | [p1[*] <= 65535 && p1[*] >= 127 && p1[*] >= 256 && p1[*] >= 32 && strconv.IsPrint(p1[*])] IsPrint(p1[*]); zero.WriteRune(p1[*])  | [p1[*] >= 127 && p1[*] >= 256 && p1[*] >= 32 && p1[*] >= 65536 && strconv.IsPrint(p1[*])] IsPrint(p1[*]); zero.WriteRune(p1[*]) }; zero.WriteRune(39); zero.String() -> (*bytes.Buffer).String#0",
		"[!(strings.ContainsRune(p1, 34)) && p2 && strings.ContainsRune(p1, 39)] ContainsRune(p1, 39); ContainsRune(p1, 34); LOOP(range string(p1)){[p1[*] != 10 && p1[*] != 13 && p1[*] != 9 && p1[*] <= 31] Fprintf(zero, `\\x%02x`, p1[*])  | [p1[*] <= 126 && p1[*] <= 255 && p1[*] >= 32] zero.WriteRune(p1[*])  | [p1[*] <= 255 && p1[*] >= 127 && p1[*] >= 32] Fprintf(zero, \"\\\\x%02x\", p1[*])  | [p1[*] <= 31 && p1[*] == 10] zero.WriteString(`\\n`)  | [p1[*] <= 31 && p1[*] == 13] zero.WriteString(`\\r`)  | [p1[*] <= 31 && p1[*] == 9] zero.WriteString(`\\t`)  | [p1[*] <= 65535 && p1[*] >= 256 && p1[*] >= 32] Fprintf(zero, \"\\\\u%04x\", p1[*])  | [p1[*] >= 256 && p1[*] >= 32 && p1[*] >= 65536] Fprintf(zero, \"\\\\U%08x\", p1[*]) }; zero.String() -> (*bytes.Buffer).String#0",
		"[!(strings.ContainsRune(p1, 39)) && p2] ContainsRune(p1, 39); LOOP(range string(p1)){[p1[*] != 10 && p1[*] != 13 && p1[*] != 9 && p1[*] <= 31] Fprintf(zero, `\\x%02x`, p1[*])  | [p1[*] <= 126 && p1[*] <= 255 && p1[*] >= 32] zero.WriteRune(p1[*])  | [p1[*] <= 255 && p1[*] >= 127 && p1[*] >= 32] Fprintf(zero, \"\\\\x%02x\", p1[*])  | [p1[*] <= 31 && p1[*] == 10] zero.WriteString(`\\n`)  | [p1[*] <= 31 && p1[*] == 13] zero.WriteString(`\\r`)  | [p1[*] <= 31 && p1[*] == 9] zero.WriteString(`\\t`)  | [p1[*] <= 65535 && p1[*] >= 256 && p1[*] >= 32] Fprintf(zero, \"\\\\u%04x\", p1[*])  | [p1[*] >= 256 && p1[*] >= 32 && p1[*] >= 65536] Fprintf(zero, \"\\\\U%08x\", p1[*]) }; zero.String() -> (*bytes.Buffer).String#0",
		"[p2 && strings.ContainsRune(p1, 34) && strings.ContainsRune(p1, 39)] ContainsRune(p1, 39); ContainsRune(p1, 34); LOOP(range string(p1)){[p1[*] != 10 && p1[*] != 13 && p1[*] != 9 && p1[*] <= 31] Fprintf(zero, `\\x%02x`, p1[*])  | [p1[*] <= 126 && p1[*] <= 255 && p1[*] >= 32] zero.WriteRune(p1[*])  | [p1[*] <= 255 && p1[*] >= 127 && p1[*] >= 32] Fprintf(zero, \"\\\\x%02x\", p1[*])  | [p1[*] <= 31 && p1[*] == 10] zero.WriteString(`\\n`)  | [p1[*] <= 31 && p1[*] == 13] zero.WriteString(`\\r`)  | [p1[*] <= 31 && p1[*] == 9] zero.WriteString(`\\t`)  | [p1[*] <= 65535 && p1[*] >= 256 && p1[*] >= 32] Fprintf(zero, \"\\\\u%04x\", p1[*])  | [p1[*] >= 256 && p1[*] >= 32 && p1[*] >= 65536] Fprintf(zero, \"\\\\U%08x\", p1[*]) }; zero.String() -> (*bytes.Buffer).String#0",
	}
	// list item and slice assignment: indices from GetIndices/IndexIntCheck; simple slices read the operand first, copy the tail unconditionally, splice; extended slices check the length and store by counting slicelength items [listobject.c list_ass_subscript]  []
	pathSpec["py|List.M__setitem__"] = []string{
		"[!(p1.(*Slice)) && py.IndexIntCheck#1 != nil] IndexIntCheck(p1, len(recv.Items)) -> nil, err!",
		"[!(p1.(*Slice)) && py.IndexIntCheck#1 == nil] IndexIntCheck(p1, len(recv.Items)); recv.Items[i] = p2 -> None, nil",
		"[(*py.Slice).GetIndices#4 != nil && p1.(*Slice)] p1.GetIndices(len(recv.Items)) -> nil, err!",
		"[(*py.Slice).GetIndices#4 == nil && len(py.SequenceTuple#0) - ret#3:slice.GetIndices(len(recv.Items)) != 0 && p1.(*Slice) && py.SequenceTuple#1 == nil && ret#2:slice.GetIndices(len(recv.Items)) != 1] p1.GetIndices(len(recv.Items)); SequenceTuple(p2); ExceptionNewf(ValueError, \"attempt to assign sequence of s…#fbdadfd3\", len(py.SequenceTuple#0), ret#3:slice.GetIndices(len(recv.Items))) -> nil, err!",
		"[(*py.Slice).GetIndices#4 == nil && len(py.SequenceTuple#0) - ret#3:slice.GetIndices(len(recv.Items)) == 0 && p1.(*Slice) && py.SequenceTuple#1 == nil && ret#2:slice.GetIndices(len(recv.Items)) != 1] p1.GetIndices(len(recv.Items)); SequenceTuple(p2); LOOP(for i, j := start, 0; j < slicelength; i, j = i+step, j+1){[] recv.Items[i] = py.SequenceTuple#0[*] } -> None, nil",
		"[(*py.Slice).GetIndices#4 == nil && p1.(*Slice) && py.SequenceTuple#1 != nil] p1.GetIndices(len(recv.Items)); SequenceTuple(p2) -> nil, err!",
		"[(*py.Slice).GetIndices#4 == nil && p1.(*Slice) && py.SequenceTuple#1 == nil && ret#0:slice.GetIndices(len(recv.Items)) - ret#1:slice.GetIndices(len(recv.Items)) <= 0 && ret#2:slice.GetIndices(len(recv.Items)) == 1] p1.GetIndices(len(recv.Items)); SequenceTuple(p2); recv.Items = append(recv.Items[:start], py.SequenceTuple#0); recv.Items = append(recv.Items, copy-of[recv.Items[stop:]]) -> None, nil",
		"[(*py.Slice).GetIndices#4 == nil && p1.(*Slice) && py.SequenceTuple#1 == nil && ret#0:slice.GetIndices(len(recv.Items)) - ret#1:slice.GetIndices(len(recv.Items)) >= 1 && ret#2:slice.GetIndices(len(recv.Items)) == 1] p1.GetIndices(len(recv.Items)); SequenceTuple(p2); recv.Items = append(recv.Items[:start], py.SequenceTuple#0); recv.Items = append(recv.Items, copy-of[recv.Items[stop:]]) -> None, nil",
	}
	// list item and slice deletion: simple slices clamp stop to start and splice; extended slices delete slicelength items in ascending order, starting for a negative step from start+step*(slicelength-1) [listobject.c list_ass_subscript]  []
	pathSpec["py|List.M__delitem__"] = []string{
		"[!(p1.(*Slice)) && py.IndexIntCheck#1 != nil] IndexIntCheck(p1, len(recv.Items)) -> nil, err!",
		"[!(p1.(*Slice)) && py.IndexIntCheck#1 == nil] IndexIntCheck(p1, len(recv.Items)); recv.DelItem(ret#0:IndexIntCheck(p1, len(recv.Items))) -> None, nil",
		"[(*py.Slice).GetIndices#4 != nil && p1.(*Slice)] p1.GetIndices(len(recv.Items)) -> nil, err!",
		"[(*py.Slice).GetIndices#4 == nil && p1.(*Slice) && ret#0:slice.GetIndices(len(recv.Items)) - ret#1:slice.GetIndices(len(recv.Items)) <= 0 && ret#2:slice.GetIndices(len(recv.Items)) == 1] p1.GetIndices(len(recv.Items)); recv.Items = append(recv.Items[:start], recv.Items[stop:]) -> None, nil",
		"[(*py.Slice).GetIndices#4 == nil && p1.(*Slice) && ret#0:slice.GetIndices(len(recv.Items)) - ret#1:slice.GetIndices(len(recv.Items)) >= 1 && ret#2:slice.GetIndices(len(recv.Items)) == 1] p1.GetIndices(len(recv.Items)); recv.Items = append(recv.Items[:start], recv.Items[stop:]) -> None, nil",
		"[(*py.Slice).GetIndices#4 == nil && p1.(*Slice) && ret#2:slice.GetIndices(len(recv.Items)) != 1 && ret#2:slice.GetIndices(len(recv.Items)) <= -1] p1.GetIndices(len(recv.Items)); LOOP(for k1 = 0; k1 < slicelength; k1++){[] recv.DelItem(start + k1 * step - k1) } -> None, nil",
		"[(*py.Slice).GetIndices#4 == nil && p1.(*Slice) && ret#2:slice.GetIndices(len(recv.Items)) != 1 && ret#2:slice.GetIndices(len(recv.Items)) >= 0] p1.GetIndices(len(recv.Items)); LOOP(for k1 = 0; k1 < slicelength; k1++){[] recv.DelItem(start + k1 * step - k1) } -> None, nil",
	}
	// list slice assignment under the sequence model (the same table as C17.R5): the operand is read first, the tail is copied unconditionally before the splice — a conditional copy overwrites the tail when the list has spare capacity [listobject.c list_ass_slice]  []
	pathSpec["py|List.M__setitem__"] = []string{
		"[!(p1.(*Slice)) && py.IndexIntCheck#1 != nil] IndexIntCheck(p1, len(recv.Items)) -> nil, err!",
		"[!(p1.(*Slice)) && py.IndexIntCheck#1 == nil] IndexIntCheck(p1, len(recv.Items)); recv.Items[i] = p2 -> None, nil",
		"[(*py.Slice).GetIndices#4 != nil && p1.(*Slice)] p1.GetIndices(len(recv.Items)) -> nil, err!",
		"[(*py.Slice).GetIndices#4 == nil && len(py.SequenceTuple#0) - ret#3:slice.GetIndices(len(recv.Items)) != 0 && p1.(*Slice) && py.SequenceTuple#1 == nil && ret#2:slice.GetIndices(len(recv.Items)) != 1] p1.GetIndices(len(recv.Items)); SequenceTuple(p2); ExceptionNewf(ValueError, \"attempt to assign sequence of s…#fbdadfd3\", len(py.SequenceTuple#0), ret#3:slice.GetIndices(len(recv.Items))) -> nil, err!",
		"[(*py.Slice).GetIndices#4 == nil && len(py.SequenceTuple#0) - ret#3:slice.GetIndices(len(recv.Items)) == 0 && p1.(*Slice) && py.SequenceTuple#1 == nil && ret#2:slice.GetIndices(len(recv.Items)) != 1] p1.GetIndices(len(recv.Items)); SequenceTuple(p2); LOOP(for i, j := start, 0; j < slicelength; i, j = i+step, j+1){[] recv.Items[i] = py.SequenceTuple#0[*] } -> None, nil",
		"[(*py.Slice).GetIndices#4 == nil && p1.(*Slice) && py.SequenceTuple#1 != nil] p1.GetIndices(len(recv.Items)); SequenceTuple(p2) -> nil, err!",
		"[(*py.Slice).GetIndices#4 == nil && p1.(*Slice) && py.SequenceTuple#1 == nil && ret#0:slice.GetIndices(len(recv.Items)) - ret#1:slice.GetIndices(len(recv.Items)) <= 0 && ret#2:slice.GetIndices(len(recv.Items)) == 1] p1.GetIndices(len(recv.Items)); SequenceTuple(p2); recv.Items = append(recv.Items[:start], py.SequenceTuple#0); recv.Items = append(recv.Items, copy-of[recv.Items[stop:]]) -> None, nil",
		"[(*py.Slice).GetIndices#4 == nil && p1.(*Slice) && py.SequenceTuple#1 == nil && ret#0:slice.GetIndices(len(recv.Items)) - ret#1:slice.GetIndices(len(recv.Items)) >= 1 && ret#2:slice.GetIndices(len(recv.Items)) == 1] p1.GetIndices(len(recv.Items)); SequenceTuple(p2); recv.Items = append(recv.Items[:start], py.SequenceTuple#0); recv.Items = append(recv.Items, copy-of[recv.Items[stop:]]) -> None, nil",
	}
	// list slice deletion under the sequence model (the same table as C17.R5)  []
	pathSpec["py|List.M__delitem__"] = []string{
		"[!(p1.(*Slice)) && py.IndexIntCheck#1 != nil] IndexIntCheck(p1, len(recv.Items)) -> nil, err!",
		"[!(p1.(*Slice)) && py.IndexIntCheck#1 == nil] IndexIntCheck(p1, len(recv.Items)); recv.DelItem(ret#0:IndexIntCheck(p1, len(recv.Items))) -> None, nil",
		"[(*py.Slice).GetIndices#4 != nil && p1.(*Slice)] p1.GetIndices(len(recv.Items)) -> nil, err!",
		"[(*py.Slice).GetIndices#4 == nil && p1.(*Slice) && ret#0:slice.GetIndices(len(recv.Items)) - ret#1:slice.GetIndices(len(recv.Items)) <= 0 && ret#2:slice.GetIndices(len(recv.Items)) == 1] p1.GetIndices(len(recv.Items)); recv.Items = append(recv.Items[:start], recv.Items[stop:]) -> None, nil",
		"[(*py.Slice).GetIndices#4 == nil && p1.(*Slice) && ret#0:slice.GetIndices(len(recv.Items)) - ret#1:slice.GetIndices(len(recv.Items)) >= 1 && ret#2:slice.GetIndices(len(recv.Items)) == 1] p1.GetIndices(len(recv.Items)); recv.Items = append(recv.Items[:start], recv.Items[stop:]) -> None, nil",
		"[(*py.Slice).GetIndices#4 == nil && p1.(*Slice) && ret#2:slice.GetIndices(len(recv.Items)) != 1 && ret#2:slice.GetIndices(len(recv.Items)) <= -1] p1.GetIndices(len(recv.Items)); LOOP(for k1 = 0; k1 < slicelength; k1++){[] recv.DelItem(start + k1 * step - k1) } -> None, nil",
		"[(*py.Slice).GetIndices#4 == nil && p1.(*Slice) && ret#2:slice.GetIndices(len(recv.Items)) != 1 && ret#2:slice.GetIndices(len(recv.Items)) >= 0] p1.GetIndices(len(recv.Items)); LOOP(for k1 = 0; k1 < slicelength; k1++){[] recv.DelItem(start + k1 * step - k1) } -> None, nil",
	}
	// IMPORT_NAME: __import__ is taken from the frame's builtins and called with (name, the frame's globals, its locals or None, fromlist = TOS, level = TOS1); the module replaces TOS1; an error is handed on unchanged [ceval.c IMPORT_NAME]  []
	pathSpec["vm|do_IMPORT_NAME"] = []string{
		"[!(has(vm.frame.Builtins[\"__import__\"]))] ExceptionNewf(py.ImportError, \"__import__ not found\") -> err!",
		"[!(slot1.(py.Int)) && has(vm.frame.Builtins[\"__import__\"]) && vm.callInternal#1 != nil && vm.frame.Locals != nil] callInternal(vm.frame.Builtins[\"__import__\"], composite[vm.frame.Code.Names[p2],vm.frame.Globals,vm.frame.Locals,slot0], nil, vm.frame) -> err!",
		"[!(slot1.(py.Int)) && has(vm.frame.Builtins[\"__import__\"]) && vm.callInternal#1 != nil && vm.frame.Locals == nil] callInternal(vm.frame.Builtins[\"__import__\"], composite[vm.frame.Code.Names[p2],vm.frame.Globals,py.None,slot0], nil, vm.frame) -> err!",
		"[!(slot1.(py.Int)) && has(vm.frame.Builtins[\"__import__\"]) && vm.callInternal#1 == nil && vm.frame.Locals != nil] callInternal(vm.frame.Builtins[\"__import__\"], composite[vm.frame.Code.Names[p2],vm.frame.Globals,vm.frame.Locals,slot0], nil, vm.frame) -> nil",
		"[!(slot1.(py.Int)) && has(vm.frame.Builtins[\"__import__\"]) && vm.callInternal#1 == nil && vm.frame.Locals == nil] callInternal(vm.frame.Builtins[\"__import__\"], composite[vm.frame.Code.Names[p2],vm.frame.Globals,py.None,slot0], nil, vm.frame) -> nil",
		"[has(vm.frame.Builtins[\"__import__\"]) && slot1.(py.Int) && vm.callInternal#1 != nil && vm.frame.Locals != nil] callInternal(vm.frame.Builtins[\"__import__\"], composite[vm.frame.Code.Names[p2],vm.frame.Globals,vm.frame.Locals,slot0,slot1], nil, vm.frame) -> err!",
		"[has(vm.frame.Builtins[\"__import__\"]) && slot1.(py.Int) && vm.callInternal#1 != nil && vm.frame.Locals == nil] callInternal(vm.frame.Builtins[\"__import__\"], composite[vm.frame.Code.Names[p2],vm.frame.Globals,py.None,slot0,slot1], nil, vm.frame) -> err!",
		"[has(vm.frame.Builtins[\"__import__\"]) && slot1.(py.Int) && vm.callInternal#1 == nil && vm.frame.Locals != nil] callInternal(vm.frame.Builtins[\"__import__\"], composite[vm.frame.Code.Names[p2],vm.frame.Globals,vm.frame.Locals,slot0,slot1], nil, vm.frame) -> nil",
		"[has(vm.frame.Builtins[\"__import__\"]) && slot1.(py.Int) && vm.callInternal#1 == nil && vm.frame.Locals == nil] callInternal(vm.frame.Builtins[\"__import__\"], composite[vm.frame.Code.Names[p2],vm.frame.Globals,py.None,slot0,slot1], nil, vm.frame) -> nil",
	}
	// IMPORT_FROM: the attribute named by the operand is read from the module on top of the stack, which stays there, and pushed; only AttributeError becomes ImportError, any other error is handed on unchanged [ceval.c IMPORT_FROM]  []
	pathSpec["vm|do_IMPORT_FROM"] = []string{
		"[!(py.IsException(py.AttributeError, err!)) && py.GetAttrString#1 != nil] GetAttrString(slot0, vm.frame.Code.Names[p2]); IsException(py.AttributeError, err!) -> err!",
		"[py.GetAttrString#1 != nil && py.IsException(py.AttributeError, err!)] GetAttrString(slot0, vm.frame.Code.Names[p2]); IsException(py.AttributeError, err!); ExceptionNewf(py.ImportError, \"cannot import name %s\", vm.frame.Code.Names[p2]) -> err!",
		"[py.GetAttrString#1 == nil] GetAttrString(slot0, vm.frame.Code.Names[p2]) -> nil",
	}
	// an instruction with an argument takes 3 bytes, or 6 once its argument has needed more than 16 bits (the width is latched)  []
	pathSpec["compile|OpArg.Size"] = []string{
		"[!(recv.wide) && recv.Arg <= 65535]  -> 3",
		"[recv.Arg <= 65535 && recv.wide]  -> 6",
		"[recv.Arg >= 65536] recv.wide = true -> 6",
	}
	// the bytes written are as many as Size says: the EXTENDED_ARG prefix is written exactly when Size is 6 (not when the argument happens to be large at that moment) — otherwise every later position is off by three  []
	pathSpec["compile|OpArg.Output"] = []string{
		"[!(recv.wide) && recv.Arg <= 65535]  -> composite[recv.Op,recv.Arg,bits(recv.Arg,8,-1)]",
		"[recv.Arg <= 65535 && recv.wide]  -> append(composite[144,bits(recv.Arg,16,-1),bits(recv.Arg,24,-1)], composite[recv.Op,recv.Arg,bits(recv.Arg,8,-1)])",
		"[recv.Arg >= 65536] recv.wide = true -> append(composite[144,bits(recv.Arg,16,-1),bits(recv.Arg,24,-1)], composite[recv.Op,recv.Arg,bits(recv.Arg,8,-1)])",
	}
	// an absolute jump's argument is the position of its label  []
	pathSpec["compile|JumpAbs.Resolve"] = []string{
		"[] recv.OpArg.Arg = recv.Dest.p",
	}
	// a relative jump's argument is the distance from the end of the instruction to its label, and is left alone while the label still lies before that end (not yet moved in this pass): the unsigned difference would wrap and latch the instruction wide  []
	pathSpec["compile|JumpRel.Resolve"] = []string{
		"[!(recv.wide) && recv.Arg <= 65535 && recv.Dest.p - recv.p <= 2] ",
		"[!(recv.wide) && recv.Arg <= 65535 && recv.Dest.p - recv.p >= 3] recv.OpArg.Arg = recv.Dest.p - recv.p - 3",
		"[recv.Arg <= 65535 && recv.Dest.p - recv.p <= 5 && recv.wide] ",
		"[recv.Arg <= 65535 && recv.Dest.p - recv.p >= 6 && recv.wide] recv.OpArg.Arg = recv.Dest.p - recv.p - 6",
		"[recv.Arg >= 65536 && recv.Dest.p - recv.p <= 5] recv.wide = true",
		"[recv.Arg >= 65536 && recv.Dest.p - recv.p >= 6] recv.wide = true; recv.OpArg.Arg = recv.Dest.p - recv.p - 6",
	}
	// operands of a float comparison: a float as it is; a bool as 0/1; an int within ±2**53 converted, any other int compared exactly  []
	pathSpec["py|floatCompareOperands"] = []string{
		"[!(b) && p2.(type)==Bool]  -> p1, 0, true",
		"[]  -> 0, 0, false",
		"[b && p2.(type)==Bool]  -> p1, 1, true",
		"[p2 <= -9007199254740993 && p2.(type)==Int] NewInt(p2); floatCompareBig(p1, math/big.NewInt#0) -> py.floatCompareBig#0, py.floatCompareBig#1, py.floatCompareBig#2",
		"[p2 <= 9007199254740992 && p2 >= -9007199254740992 && p2.(type)==Int]  -> p1, p2, true",
		"[p2 >= -9007199254740992 && p2 >= 9007199254740993 && p2.(type)==Int] NewInt(p2); floatCompareBig(p1, math/big.NewInt#0) -> py.floatCompareBig#0, py.floatCompareBig#1, py.floatCompareBig#2",
		"[p2.(type)==*BigInt] floatCompareBig(p1, p2) -> py.floatCompareBig#0, py.floatCompareBig#1, py.floatCompareBig#2",
		"[p2.(type)==Float]  -> p1, p2, true",
	}
	// exact comparison of a float with an integer of any size: nan and the infinities answer by themselves, every finite float goes through the exact big.Float comparison — no magnitude shortcut in between (finite floats reach 2**1024 - 2**971)  []
	pathSpec["py|floatCompareBig"] = []string{
		"[!(math.IsInf(p1, 0)) && !(math.IsNaN(p1))] IsNaN(p1); IsInf(p1, 0); L1.SetFloat64(p1); L2.SetInt(p2); (*math/big.Float).SetFloat64#0.Cmp((*math/big.Float).SetInt#0) -> ret:new(big.Float).SetFloat64(float64(p1)).Cmp(new(big.Float).SetInt(p2)), 0, true",
		"[!(math.IsNaN(p1)) && math.IsInf(p1, 0)] IsNaN(p1); IsInf(p1, 0) -> p1, 0, true",
		"[math.IsNaN(p1)] IsNaN(p1) -> p1, 0, true",
	}
	// in-place set operators adopt the result of the binary operator unconditionally and evaluate to the receiver  []
	pathSpec["py|Set.inPlace"] = []string{
		"[!(p1.(*Set)) && p2 == nil]  -> p1, nil",
		"[p1.(*Set) && p2 == nil] recv.items = p1.items -> recv, nil",
		"[p2 != nil]  -> nil, err!",
	}
	// sort comparison: items fetched, key function applied to both, then a strict less-than with the operands exchanged for reverse (not the result inverted, which is not a strict order and breaks stability)  []
	pathSpec["py|ptrSortable.Less"] = []string{
		"[!(py.Lt#0.(Bool)) && !(recv.recv.reverse) && (*py.List).M__getitem__#1 == nil && (*py.List).M__getitem__#1'2 == nil && py.Call#1 == nil && py.Call#1'2 == nil && py.Lt#1 == nil && recv.recv.keyFunc != None] recv.s.l.M__getitem__(p1); recv.s.l.M__getitem__(p2); Call(recv.s.keyFunc, composite[(*py.List).M__getitem__#0], nil); Call(recv.s.keyFunc, composite[(*py.List).M__getitem__#0'2], nil); Lt(py.Call#0, py.Call#0'2) -> false",
		"[!(py.Lt#0.(Bool)) && !(recv.recv.reverse) && (*py.List).M__getitem__#1 == nil && (*py.List).M__getitem__#1'2 == nil && py.Lt#1 == nil && recv.recv.keyFunc == None] recv.s.l.M__getitem__(p1); recv.s.l.M__getitem__(p2); Lt((*py.List).M__getitem__#0, (*py.List).M__getitem__#0'2) -> false",
		"[!(py.Lt#0.(Bool)) && (*py.List).M__getitem__#1 == nil && (*py.List).M__getitem__#1'2 == nil && py.Call#1 == nil && py.Call#1'2 == nil && py.Lt#1 == nil && recv.recv.keyFunc != None && recv.recv.reverse] recv.s.l.M__getitem__(p1); recv.s.l.M__getitem__(p2); Call(recv.s.keyFunc, composite[(*py.List).M__getitem__#0], nil); Call(recv.s.keyFunc, composite[(*py.List).M__getitem__#0'2], nil); Lt(py.Call#0'2, py.Call#0) -> false",
		"[!(py.Lt#0.(Bool)) && (*py.List).M__getitem__#1 == nil && (*py.List).M__getitem__#1'2 == nil && py.Lt#1 == nil && recv.recv.keyFunc == None && recv.recv.reverse] recv.s.l.M__getitem__(p1); recv.s.l.M__getitem__(p2); Lt((*py.List).M__getitem__#0'2, (*py.List).M__getitem__#0) -> false",
		"[!(recv.recv.reverse) && (*py.List).M__getitem__#1 == nil && (*py.List).M__getitem__#1'2 == nil && py.Call#1 == nil && py.Call#1'2 == nil && py.Lt#0.(Bool) && py.Lt#1 == nil && recv.recv.keyFunc != None] recv.s.l.M__getitem__(p1); recv.s.l.M__getitem__(p2); Call(recv.s.keyFunc, composite[(*py.List).M__getitem__#0], nil); Call(recv.s.keyFunc, composite[(*py.List).M__getitem__#0'2], nil); Lt(py.Call#0, py.Call#0'2) -> py.Lt#0",
		"[!(recv.recv.reverse) && (*py.List).M__getitem__#1 == nil && (*py.List).M__getitem__#1'2 == nil && py.Call#1 == nil && py.Call#1'2 == nil && py.Lt#1 != nil && recv.recv.firstErr != nil && recv.recv.keyFunc != None] recv.s.l.M__getitem__(p1); recv.s.l.M__getitem__(p2); Call(recv.s.keyFunc, composite[(*py.List).M__getitem__#0], nil); Call(recv.s.keyFunc, composite[(*py.List).M__getitem__#0'2], nil); Lt(py.Call#0, py.Call#0'2) -> false",
		"[!(recv.recv.reverse) && (*py.List).M__getitem__#1 == nil && (*py.List).M__getitem__#1'2 == nil && py.Call#1 == nil && py.Call#1'2 == nil && py.Lt#1 != nil && recv.recv.firstErr == nil && recv.recv.keyFunc != None] recv.s.l.M__getitem__(p1); recv.s.l.M__getitem__(p2); Call(recv.s.keyFunc, composite[(*py.List).M__getitem__#0], nil); Call(recv.s.keyFunc, composite[(*py.List).M__getitem__#0'2], nil); Lt(py.Call#0, py.Call#0'2); recv.recv.firstErr = err! -> false",
		"[!(recv.recv.reverse) && (*py.List).M__getitem__#1 == nil && (*py.List).M__getitem__#1'2 == nil && py.Lt#0.(Bool) && py.Lt#1 == nil && recv.recv.keyFunc == None] recv.s.l.M__getitem__(p1); recv.s.l.M__getitem__(p2); Lt((*py.List).M__getitem__#0, (*py.List).M__getitem__#0'2) -> py.Lt#0",
		"[!(recv.recv.reverse) && (*py.List).M__getitem__#1 == nil && (*py.List).M__getitem__#1'2 == nil && py.Lt#1 != nil && recv.recv.firstErr != nil && recv.recv.keyFunc == None] recv.s.l.M__getitem__(p1); recv.s.l.M__getitem__(p2); Lt((*py.List).M__getitem__#0, (*py.List).M__getitem__#0'2) -> false",
		"[!(recv.recv.reverse) && (*py.List).M__getitem__#1 == nil && (*py.List).M__getitem__#1'2 == nil && py.Lt#1 != nil && recv.recv.firstErr == nil && recv.recv.keyFunc == None] recv.s.l.M__getitem__(p1); recv.s.l.M__getitem__(p2); Lt((*py.List).M__getitem__#0, (*py.List).M__getitem__#0'2); recv.recv.firstErr = err! -> false",
		"[(*py.List).M__getitem__#1 != nil && recv.recv.firstErr != nil] recv.s.l.M__getitem__(p1) -> false",
		"[(*py.List).M__getitem__#1 != nil && recv.recv.firstErr == nil] recv.s.l.M__getitem__(p1); recv.recv.firstErr = err! -> false",
		"[(*py.List).M__getitem__#1 == nil && (*py.List).M__getitem__#1'2 != nil && recv.recv.firstErr != nil] recv.s.l.M__getitem__(p1); recv.s.l.M__getitem__(p2) -> false",
		"[(*py.List).M__getitem__#1 == nil && (*py.List).M__getitem__#1'2 != nil && recv.recv.firstErr == nil] recv.s.l.M__getitem__(p1); recv.s.l.M__getitem__(p2); recv.recv.firstErr = err! -> false",
		"[(*py.List).M__getitem__#1 == nil && (*py.List).M__getitem__#1'2 == nil && py.Call#1 != nil && recv.recv.firstErr != nil && recv.recv.keyFunc != None] recv.s.l.M__getitem__(p1); recv.s.l.M__getitem__(p2); Call(recv.s.keyFunc, composite[(*py.List).M__getitem__#0], nil) -> false",
		"[(*py.List).M__getitem__#1 == nil && (*py.List).M__getitem__#1'2 == nil && py.Call#1 != nil && recv.recv.firstErr == nil && recv.recv.keyFunc != None] recv.s.l.M__getitem__(p1); recv.s.l.M__getitem__(p2); Call(recv.s.keyFunc, composite[(*py.List).M__getitem__#0], nil); recv.recv.firstErr = err! -> false",
		"[(*py.List).M__getitem__#1 == nil && (*py.List).M__getitem__#1'2 == nil && py.Call#1 == nil && py.Call#1'2 != nil && recv.recv.firstErr != nil && recv.recv.keyFunc != None] recv.s.l.M__getitem__(p1); recv.s.l.M__getitem__(p2); Call(recv.s.keyFunc, composite[(*py.List).M__getitem__#0], nil); Call(recv.s.keyFunc, composite[(*py.List).M__getitem__#0'2], nil) -> false",
		"[(*py.List).M__getitem__#1 == nil && (*py.List).M__getitem__#1'2 == nil && py.Call#1 == nil && py.Call#1'2 != nil && recv.recv.firstErr == nil && recv.recv.keyFunc != None] recv.s.l.M__getitem__(p1); recv.s.l.M__getitem__(p2); Call(recv.s.keyFunc, composite[(*py.List).M__getitem__#0], nil); Call(recv.s.keyFunc, composite[(*py.List).M__getitem__#0'2], nil); recv.recv.firstErr = err! -> false",
		"[(*py.List).M__getitem__#1 == nil && (*py.List).M__getitem__#1'2 == nil && py.Call#1 == nil && py.Call#1'2 == nil && py.Lt#0.(Bool) && py.Lt#1 == nil && recv.recv.keyFunc != None && recv.recv.reverse] recv.s.l.M__getitem__(p1); recv.s.l.M__getitem__(p2); Call(recv.s.keyFunc, composite[(*py.List).M__getitem__#0], nil); Call(recv.s.keyFunc, composite[(*py.List).M__getitem__#0'2], nil); Lt(py.Call#0'2, py.Call#0) -> py.Lt#0",
		"[(*py.List).M__getitem__#1 == nil && (*py.List).M__getitem__#1'2 == nil && py.Call#1 == nil && py.Call#1'2 == nil && py.Lt#1 != nil && recv.recv.firstErr != nil && recv.recv.keyFunc != None && recv.recv.reverse] recv.s.l.M__getitem__(p1); recv.s.l.M__getitem__(p2); Call(recv.s.keyFunc, composite[(*py.List).M__getitem__#0], nil); Call(recv.s.keyFunc, composite[(*py.List).M__getitem__#0'2], nil); Lt(py.Call#0'2, py.Call#0) -> false",
		"[(*py.List).M__getitem__#1 == nil && (*py.List).M__getitem__#1'2 == nil && py.Call#1 == nil && py.Call#1'2 == nil && py.Lt#1 != nil && recv.recv.firstErr == nil && recv.recv.keyFunc != None && recv.recv.reverse] recv.s.l.M__getitem__(p1); recv.s.l.M__getitem__(p2); Call(recv.s.keyFunc, composite[(*py.List).M__getitem__#0], nil); Call(recv.s.keyFunc, composite[(*py.List).M__getitem__#0'2], nil); Lt(py.Call#0'2, py.Call#0); recv.recv.firstErr = err! -> false",
		"[(*py.List).M__getitem__#1 == nil && (*py.List).M__getitem__#1'2 == nil && py.Lt#0.(Bool) && py.Lt#1 == nil && recv.recv.keyFunc == None && recv.recv.reverse] recv.s.l.M__getitem__(p1); recv.s.l.M__getitem__(p2); Lt((*py.List).M__getitem__#0'2, (*py.List).M__getitem__#0) -> py.Lt#0",
		"[(*py.List).M__getitem__#1 == nil && (*py.List).M__getitem__#1'2 == nil && py.Lt#1 != nil && recv.recv.firstErr != nil && recv.recv.keyFunc == None && recv.recv.reverse] recv.s.l.M__getitem__(p1); recv.s.l.M__getitem__(p2); Lt((*py.List).M__getitem__#0'2, (*py.List).M__getitem__#0) -> false",
		"[(*py.List).M__getitem__#1 == nil && (*py.List).M__getitem__#1'2 == nil && py.Lt#1 != nil && recv.recv.firstErr == nil && recv.recv.keyFunc == None && recv.recv.reverse] recv.s.l.M__getitem__(p1); recv.s.l.M__getitem__(p2); Lt((*py.List).M__getitem__#0'2, (*py.List).M__getitem__#0); recv.recv.firstErr = err! -> false",
	}
}
