package main

// Reference decision tables (see pathtable.go). Generated with `gpycheck -dump tables` and reviewed against the
// Python 3.4 / CPython definition named in each tableSpec.

func init() {
	// symbol definition: flags are or-ed into an existing symbol, a second DefParam for the same name is a SyntaxError (duplicate argument), parameters are appended to Varnames in order, a global declaration is mirrored into the module table [symtable.c symtable_add_def]  []
	pathSpec["symtable|SymTable.AddDef"] = []string{
		"[!(has(st.Symbols[mangled])) && (flags & DefParam) != 0] st.Symbols[mangled] = composite[0,flags,ret:node.GetLineno(),ret:node.GetColOffset()]; st.Varnames = append(st.Varnames, name)",
		"[!(has(st.Symbols[mangled])) && (flags & DefParam) == 0 && (flags & DefGlobal) != 0 && !(has(st.Global.Symbols[mangled]))] st.Symbols[mangled] = composite[0,flags,ret:node.GetLineno(),ret:node.GetColOffset()]; st.Global.Symbols[mangled] = composite[0,flags,ret:node.GetLineno(),ret:node.GetColOffset()]",
		"[!(has(st.Symbols[mangled])) && (flags & DefParam) == 0 && (flags & DefGlobal) != 0 && has(st.Global.Symbols[mangled])] st.Symbols[mangled] = composite[0,flags,ret:node.GetLineno(),ret:node.GetColOffset()]; sym.Flags |= flags; st.Global.Symbols[mangled] = st.Global.Symbols[name]",
		"[!(has(st.Symbols[mangled])) && (flags & DefParam) == 0 && (flags & DefGlobal) == 0] st.Symbols[mangled] = composite[0,flags,ret:node.GetLineno(),ret:node.GetColOffset()]",
		"[has(st.Symbols[mangled]) && (flags & DefParam) != 0 && (sym.Flags & DefParam) != 0]  -> raise",
		"[has(st.Symbols[mangled]) && (flags & DefParam) != 0 && (sym.Flags & DefParam) == 0] sym.Flags |= flags; st.Symbols[mangled] = st.Symbols[name]; st.Varnames = append(st.Varnames, name)",
		"[has(st.Symbols[mangled]) && (flags & DefParam) == 0 && (flags & DefGlobal) != 0 && !(has(st.Global.Symbols[mangled]))] sym.Flags |= flags; st.Symbols[mangled] = st.Symbols[name]; st.Global.Symbols[mangled] = composite[0,flags,ret:node.GetLineno(),ret:node.GetColOffset()]",
		"[has(st.Symbols[mangled]) && (flags & DefParam) == 0 && (flags & DefGlobal) != 0 && has(st.Global.Symbols[mangled])] sym.Flags |= flags; st.Symbols[mangled] = st.Symbols[name]; sym.Flags |= flags; st.Global.Symbols[mangled] = st.Global.Symbols[name]",
		"[has(st.Symbols[mangled]) && (flags & DefParam) == 0 && (flags & DefGlobal) == 0] sym.Flags |= flags; st.Symbols[mangled] = st.Symbols[name]",
	}
	// a function read through an instance binds the instance; read through the class it stays a function  []
	pathSpec["py|Function.M__get__"] = []string{
		"[instance != None]  -> composite[instance,f], nil",
		"[instance == None]  -> f, nil",
	}
	// a built-in method read through an instance binds the instance; read through the class it stays unbound  []
	pathSpec["py|Method.M__get__"] = []string{
		"[instance != None]  -> composite[instance,m], nil",
		"[instance == None]  -> m, nil",
	}
	// a classmethod binds the owner class (the type of the instance when no owner is given), never the instance  []
	pathSpec["py|ClassMethod.M__get__"] = []string{
		"[owner != nil]  -> composite[owner,c.Callable], nil",
		"[owner == nil] instance.Type() -> composite[(py.Object).Type#0,c.Callable], nil",
	}
	// a staticmethod binds nothing: the plain callable is returned  []
	pathSpec["py|StaticMethod.M__get__"] = []string{
		"[]  -> c.Callable, nil",
	}
	// line-at-a-time driver: in continuation mode a non-empty line is only buffered; an empty line (or any line outside continuation mode) compiles buffer+line; an incomplete-input error buffers the line and enters continuation mode; any other outcome leaves continuation mode and clears the buffer before reporting or running  []
	pathSpec["repl|REPL.Run"] = []string{
		"[!(r.continuation) && toCompile != \"\" && err != nil && !(strings.Contains(errText, \"unexpected EOF while parsing\")) && !(strings.Contains(errText, \"EOF while scanning triple-quoted string literal\"))] vm.PrintExpr = r.term.Print; defer(func() { vm.PrintExpr = oldPrintExpr }()); Compile(toCompile + \"\\n\", r.prog, py.SingleMode, 0, true); r.continuation = false; r.term.SetPrompt(NormalPrompt); r.previous = lit; r.term.Print(fmt.Sprintf#0) -> nil",
		"[!(r.continuation) && toCompile != \"\" && err != nil && !(strings.Contains(errText, \"unexpected EOF while parsing\")) && strings.Contains(errText, \"EOF while scanning triple-quoted string literal\") && !(len(stripped) > 0 && stripped[0] == '#')] vm.PrintExpr = r.term.Print; defer(func() { vm.PrintExpr = oldPrintExpr }()); Compile(toCompile + \"\\n\", r.prog, py.SingleMode, 0, true); r.continuation = true; r.previous += string(line) + \"\\n\"; r.term.SetPrompt(ContinuationPrompt) -> nil",
		"[!(r.continuation) && toCompile != \"\" && err != nil && !(strings.Contains(errText, \"unexpected EOF while parsing\")) && strings.Contains(errText, \"EOF while scanning triple-quoted string literal\") && len(stripped) > 0 && stripped[0] == '#'] vm.PrintExpr = r.term.Print; defer(func() { vm.PrintExpr = oldPrintExpr }()); Compile(toCompile + \"\\n\", r.prog, py.SingleMode, 0, true) -> nil",
		"[!(r.continuation) && toCompile != \"\" && err != nil && strings.Contains(errText, \"unexpected EOF while parsing\") && !(len(stripped) > 0 && stripped[0] == '#')] vm.PrintExpr = r.term.Print; defer(func() { vm.PrintExpr = oldPrintExpr }()); Compile(toCompile + \"\\n\", r.prog, py.SingleMode, 0, true); r.continuation = true; r.previous += string(line) + \"\\n\"; r.term.SetPrompt(ContinuationPrompt) -> nil",
		"[!(r.continuation) && toCompile != \"\" && err != nil && strings.Contains(errText, \"unexpected EOF while parsing\") && len(stripped) > 0 && stripped[0] == '#'] vm.PrintExpr = r.term.Print; defer(func() { vm.PrintExpr = oldPrintExpr }()); Compile(toCompile + \"\\n\", r.prog, py.SingleMode, 0, true) -> nil",
		"[!(r.continuation) && toCompile != \"\" && err == nil && !(py.IsException(py.SystemExit, err))] vm.PrintExpr = r.term.Print; defer(func() { vm.PrintExpr = oldPrintExpr }()); Compile(toCompile + \"\\n\", r.prog, py.SingleMode, 0, true); r.continuation = false; r.term.SetPrompt(NormalPrompt); r.previous = lit; r.Context.RunCode(dyn:py.Compile#0, r.Module.Globals, r.Module.Globals, nil); TracebackDump(err!) -> nil",
		"[!(r.continuation) && toCompile != \"\" && err == nil && py.IsException(py.SystemExit, err)] vm.PrintExpr = r.term.Print; defer(func() { vm.PrintExpr = oldPrintExpr }()); Compile(toCompile + \"\\n\", r.prog, py.SingleMode, 0, true); r.continuation = false; r.term.SetPrompt(NormalPrompt); r.previous = lit; r.Context.RunCode(dyn:py.Compile#0, r.Module.Globals, r.Module.Globals, nil) -> err!",
		"[!(r.continuation) && toCompile != \"\" && err == nil] vm.PrintExpr = r.term.Print; defer(func() { vm.PrintExpr = oldPrintExpr }()); Compile(toCompile + \"\\n\", r.prog, py.SingleMode, 0, true); r.continuation = false; r.term.SetPrompt(NormalPrompt); r.previous = lit; r.Context.RunCode(dyn:py.Compile#0, r.Module.Globals, r.Module.Globals, nil) -> nil",
		"[!(r.continuation) && toCompile == \"\"] vm.PrintExpr = r.term.Print; defer(func() { vm.PrintExpr = oldPrintExpr }()) -> nil",
		"[r.continuation && line != \"\"] vm.PrintExpr = r.term.Print; defer(func() { vm.PrintExpr = oldPrintExpr }()); r.previous += string(line) + \"\\n\" -> nil",
		"[r.continuation && line == \"\" && toCompile != \"\" && err != nil && !(strings.Contains(errText, \"unexpected EOF while parsing\")) && !(strings.Contains(errText, \"EOF while scanning triple-quoted string literal\"))] vm.PrintExpr = r.term.Print; defer(func() { vm.PrintExpr = oldPrintExpr }()); Compile(toCompile + \"\\n\", r.prog, py.SingleMode, 0, true); r.continuation = false; r.term.SetPrompt(NormalPrompt); r.previous = lit; r.term.Print(fmt.Sprintf#0) -> nil",
		"[r.continuation && line == \"\" && toCompile != \"\" && err != nil && !(strings.Contains(errText, \"unexpected EOF while parsing\")) && strings.Contains(errText, \"EOF while scanning triple-quoted string literal\") && !(len(stripped) > 0 && stripped[0] == '#')] vm.PrintExpr = r.term.Print; defer(func() { vm.PrintExpr = oldPrintExpr }()); Compile(toCompile + \"\\n\", r.prog, py.SingleMode, 0, true); r.continuation = true; r.previous += string(line) + \"\\n\"; r.term.SetPrompt(ContinuationPrompt) -> nil",
		"[r.continuation && line == \"\" && toCompile != \"\" && err != nil && !(strings.Contains(errText, \"unexpected EOF while parsing\")) && strings.Contains(errText, \"EOF while scanning triple-quoted string literal\") && len(stripped) > 0 && stripped[0] == '#'] vm.PrintExpr = r.term.Print; defer(func() { vm.PrintExpr = oldPrintExpr }()); Compile(toCompile + \"\\n\", r.prog, py.SingleMode, 0, true) -> nil",
		"[r.continuation && line == \"\" && toCompile != \"\" && err != nil && strings.Contains(errText, \"unexpected EOF while parsing\") && !(len(stripped) > 0 && stripped[0] == '#')] vm.PrintExpr = r.term.Print; defer(func() { vm.PrintExpr = oldPrintExpr }()); Compile(toCompile + \"\\n\", r.prog, py.SingleMode, 0, true); r.continuation = true; r.previous += string(line) + \"\\n\"; r.term.SetPrompt(ContinuationPrompt) -> nil",
		"[r.continuation && line == \"\" && toCompile != \"\" && err != nil && strings.Contains(errText, \"unexpected EOF while parsing\") && len(stripped) > 0 && stripped[0] == '#'] vm.PrintExpr = r.term.Print; defer(func() { vm.PrintExpr = oldPrintExpr }()); Compile(toCompile + \"\\n\", r.prog, py.SingleMode, 0, true) -> nil",
		"[r.continuation && line == \"\" && toCompile != \"\" && err == nil && !(py.IsException(py.SystemExit, err))] vm.PrintExpr = r.term.Print; defer(func() { vm.PrintExpr = oldPrintExpr }()); Compile(toCompile + \"\\n\", r.prog, py.SingleMode, 0, true); r.continuation = false; r.term.SetPrompt(NormalPrompt); r.previous = lit; r.Context.RunCode(dyn:py.Compile#0, r.Module.Globals, r.Module.Globals, nil); TracebackDump(err!) -> nil",
		"[r.continuation && line == \"\" && toCompile != \"\" && err == nil && py.IsException(py.SystemExit, err)] vm.PrintExpr = r.term.Print; defer(func() { vm.PrintExpr = oldPrintExpr }()); Compile(toCompile + \"\\n\", r.prog, py.SingleMode, 0, true); r.continuation = false; r.term.SetPrompt(NormalPrompt); r.previous = lit; r.Context.RunCode(dyn:py.Compile#0, r.Module.Globals, r.Module.Globals, nil) -> err!",
		"[r.continuation && line == \"\" && toCompile != \"\" && err == nil] vm.PrintExpr = r.term.Print; defer(func() { vm.PrintExpr = oldPrintExpr }()); Compile(toCompile + \"\\n\", r.prog, py.SingleMode, 0, true); r.continuation = false; r.term.SetPrompt(NormalPrompt); r.previous = lit; r.Context.RunCode(dyn:py.Compile#0, r.Module.Globals, r.Module.Globals, nil) -> nil",
		"[r.continuation && line == \"\" && toCompile == \"\"] vm.PrintExpr = r.term.Print; defer(func() { vm.PrintExpr = oldPrintExpr }()) -> nil",
	}
}
