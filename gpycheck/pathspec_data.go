package main

// Reference decision tables (see pathtable.go). Generated with `gpycheck -dump tables` and reviewed against the
// Python 3.4 / CPython definition named in each tableSpec.

func init() {
	// symbol definition: flags are or-ed into an existing symbol, a second DefParam for the same name is a SyntaxError (duplicate argument), parameters are appended to Varnames in order, a global declaration is mirrored into the module table [symtable.c symtable_add_def]  []
	pathSpec["symtable|SymTable.AddDef"] = []string{
		"[!(has(st.Global.Symbols[mangled])) && !(has(st.Symbols[mangled])) && bits(flags,0,1) != 0 && bits(flags,0,4) == 0] st.Symbols[mangled] = composite[0,flags,ret:node.GetLineno(),ret:node.GetColOffset()]; st.Global.Symbols[mangled] = composite[0,flags,ret:node.GetLineno(),ret:node.GetColOffset()]",
		"[!(has(st.Global.Symbols[mangled])) && bits(flags,0,1) != 0 && bits(flags,0,4) == 0 && has(st.Symbols[mangled])] sym.Flags |= flags; st.Symbols[mangled] = st.Symbols[name]; st.Global.Symbols[mangled] = composite[0,flags,ret:node.GetLineno(),ret:node.GetColOffset()]",
		"[!(has(st.Symbols[mangled])) && bits(flags,0,1) != 0 && bits(flags,0,4) == 0 && has(st.Global.Symbols[mangled])] st.Symbols[mangled] = composite[0,flags,ret:node.GetLineno(),ret:node.GetColOffset()]; sym.Flags |= flags; st.Global.Symbols[mangled] = st.Global.Symbols[name]",
		"[!(has(st.Symbols[mangled])) && bits(flags,0,1) == 0 && bits(flags,0,4) == 0] st.Symbols[mangled] = composite[0,flags,ret:node.GetLineno(),ret:node.GetColOffset()]",
		"[!(has(st.Symbols[mangled])) && bits(flags,0,4) != 0] st.Symbols[mangled] = composite[0,flags,ret:node.GetLineno(),ret:node.GetColOffset()]; st.Varnames = append(st.Varnames, name)",
		"[bits(flags,0,1) != 0 && bits(flags,0,4) == 0 && has(st.Global.Symbols[mangled]) && has(st.Symbols[mangled])] sym.Flags |= flags; st.Symbols[mangled] = st.Symbols[name]; sym.Flags |= flags; st.Global.Symbols[mangled] = st.Global.Symbols[name]",
		"[bits(flags,0,1) == 0 && bits(flags,0,4) == 0 && has(st.Symbols[mangled])] sym.Flags |= flags; st.Symbols[mangled] = st.Symbols[name]",
		"[bits(flags,0,4) != 0 && bits(st.Symbols[name].Flags,0,4) != 0 && has(st.Symbols[mangled])]  -> raise",
		"[bits(flags,0,4) != 0 && bits(st.Symbols[name].Flags,0,4) == 0 && has(st.Symbols[mangled])] sym.Flags |= flags; st.Symbols[mangled] = st.Symbols[name]; st.Varnames = append(st.Varnames, name)",
	}
	// a function read through an instance binds the instance; read through the class it stays a function  []
	pathSpec["py|Function.M__get__"] = []string{
		"[instance != None]  -> composite[instance,f], nil",
		"[instance == None]  -> f, nil",
	}
	// a built-in method read through an instance binds the instance; read through the class it stays unbound  []
	pathSpec["py|Method.M__get__"] = []string{
		"[instance != None]  -> composite[instance,m], nil",
		"[instance == None]  -> m, nil",
	}
	// a classmethod binds the owner class (the type of the instance when no owner is given), never the instance  []
	pathSpec["py|ClassMethod.M__get__"] = []string{
		"[owner != nil]  -> composite[owner,c.Callable], nil",
		"[owner == nil] instance.Type() -> composite[(py.Object).Type#0,c.Callable], nil",
	}
	// a staticmethod binds nothing: the plain callable is returned  []
	pathSpec["py|StaticMethod.M__get__"] = []string{
		"[]  -> c.Callable, nil",
	}
	// line-at-a-time driver: in continuation mode a non-empty line is only buffered; an empty line (or any line outside continuation mode) compiles buffer+line; an incomplete-input error buffers the line and enters continuation mode; any other outcome leaves continuation mode and clears the buffer before reporting or running  []
	pathSpec["repl|REPL.Run"] = []string{
		"[!(py.IsException(py.SystemExit, err)) && !(r.continuation) && err == nil && toCompile != \"\"] vm.PrintExpr = r.term.Print; defer(func() { vm.PrintExpr = oldPrintExpr }()); Compile(toCompile + \"\\n\", r.prog, py.SingleMode, 0, true); r.continuation = false; r.term.SetPrompt(NormalPrompt); r.previous = \"\"; r.Context.RunCode(dyn:py.Compile#0, r.Module.Globals, r.Module.Globals, nil); TracebackDump(err!) -> nil",
		"[!(py.IsException(py.SystemExit, err)) && err == nil && line == \"\" && r.continuation && toCompile != \"\"] vm.PrintExpr = r.term.Print; defer(func() { vm.PrintExpr = oldPrintExpr }()); Compile(toCompile + \"\\n\", r.prog, py.SingleMode, 0, true); r.continuation = false; r.term.SetPrompt(NormalPrompt); r.previous = \"\"; r.Context.RunCode(dyn:py.Compile#0, r.Module.Globals, r.Module.Globals, nil); TracebackDump(err!) -> nil",
		"[!(r.continuation) && !(strings.Contains(errText, \"EOF while scanning triple-quoted string literal\")) && !(strings.Contains(errText, \"unexpected EOF while parsing\")) && err != nil && toCompile != \"\"] vm.PrintExpr = r.term.Print; defer(func() { vm.PrintExpr = oldPrintExpr }()); Compile(toCompile + \"\\n\", r.prog, py.SingleMode, 0, true); r.continuation = false; r.term.SetPrompt(NormalPrompt); r.previous = \"\"; r.term.Print(fmt.Sprintf#0) -> nil",
		"[!(r.continuation) && !(strings.Contains(errText, \"unexpected EOF while parsing\")) && err != nil && len(strings.TrimSpace#0) != 0 && strings.Contains(errText, \"EOF while scanning triple-quoted string literal\") && strings.TrimSpace#0[0] != 35 && toCompile != \"\"] vm.PrintExpr = r.term.Print; defer(func() { vm.PrintExpr = oldPrintExpr }()); Compile(toCompile + \"\\n\", r.prog, py.SingleMode, 0, true); r.continuation = true; r.previous += string(line) + \"\\n\"; r.term.SetPrompt(ContinuationPrompt) -> nil",
		"[!(r.continuation) && !(strings.Contains(errText, \"unexpected EOF while parsing\")) && err != nil && len(strings.TrimSpace#0) != 0 && strings.Contains(errText, \"EOF while scanning triple-quoted string literal\") && strings.TrimSpace#0[0] == 35 && toCompile != \"\"] vm.PrintExpr = r.term.Print; defer(func() { vm.PrintExpr = oldPrintExpr }()); Compile(toCompile + \"\\n\", r.prog, py.SingleMode, 0, true) -> nil",
		"[!(r.continuation) && !(strings.Contains(errText, \"unexpected EOF while parsing\")) && err != nil && len(strings.TrimSpace#0) == 0 && strings.Contains(errText, \"EOF while scanning triple-quoted string literal\") && toCompile != \"\"] vm.PrintExpr = r.term.Print; defer(func() { vm.PrintExpr = oldPrintExpr }()); Compile(toCompile + \"\\n\", r.prog, py.SingleMode, 0, true); r.continuation = true; r.previous += string(line) + \"\\n\"; r.term.SetPrompt(ContinuationPrompt) -> nil",
		"[!(r.continuation) && err != nil && len(strings.TrimSpace#0) != 0 && strings.Contains(errText, \"unexpected EOF while parsing\") && strings.TrimSpace#0[0] != 35 && toCompile != \"\"] vm.PrintExpr = r.term.Print; defer(func() { vm.PrintExpr = oldPrintExpr }()); Compile(toCompile + \"\\n\", r.prog, py.SingleMode, 0, true); r.continuation = true; r.previous += string(line) + \"\\n\"; r.term.SetPrompt(ContinuationPrompt) -> nil",
		"[!(r.continuation) && err != nil && len(strings.TrimSpace#0) != 0 && strings.Contains(errText, \"unexpected EOF while parsing\") && strings.TrimSpace#0[0] == 35 && toCompile != \"\"] vm.PrintExpr = r.term.Print; defer(func() { vm.PrintExpr = oldPrintExpr }()); Compile(toCompile + \"\\n\", r.prog, py.SingleMode, 0, true) -> nil",
		"[!(r.continuation) && err != nil && len(strings.TrimSpace#0) == 0 && strings.Contains(errText, \"unexpected EOF while parsing\") && toCompile != \"\"] vm.PrintExpr = r.term.Print; defer(func() { vm.PrintExpr = oldPrintExpr }()); Compile(toCompile + \"\\n\", r.prog, py.SingleMode, 0, true); r.continuation = true; r.previous += string(line) + \"\\n\"; r.term.SetPrompt(ContinuationPrompt) -> nil",
		"[!(r.continuation) && err == nil && py.IsException(py.SystemExit, err) && toCompile != \"\"] vm.PrintExpr = r.term.Print; defer(func() { vm.PrintExpr = oldPrintExpr }()); Compile(toCompile + \"\\n\", r.prog, py.SingleMode, 0, true); r.continuation = false; r.term.SetPrompt(NormalPrompt); r.previous = \"\"; r.Context.RunCode(dyn:py.Compile#0, r.Module.Globals, r.Module.Globals, nil) -> err!",
		"[!(r.continuation) && err == nil && toCompile != \"\"] vm.PrintExpr = r.term.Print; defer(func() { vm.PrintExpr = oldPrintExpr }()); Compile(toCompile + \"\\n\", r.prog, py.SingleMode, 0, true); r.continuation = false; r.term.SetPrompt(NormalPrompt); r.previous = \"\"; r.Context.RunCode(dyn:py.Compile#0, r.Module.Globals, r.Module.Globals, nil) -> nil",
		"[!(r.continuation) && toCompile == \"\"] vm.PrintExpr = r.term.Print; defer(func() { vm.PrintExpr = oldPrintExpr }()) -> nil",
		"[!(strings.Contains(errText, \"EOF while scanning triple-quoted string literal\")) && !(strings.Contains(errText, \"unexpected EOF while parsing\")) && err != nil && line == \"\" && r.continuation && toCompile != \"\"] vm.PrintExpr = r.term.Print; defer(func() { vm.PrintExpr = oldPrintExpr }()); Compile(toCompile + \"\\n\", r.prog, py.SingleMode, 0, true); r.continuation = false; r.term.SetPrompt(NormalPrompt); r.previous = \"\"; r.term.Print(fmt.Sprintf#0) -> nil",
		"[!(strings.Contains(errText, \"unexpected EOF while parsing\")) && err != nil && len(strings.TrimSpace#0) != 0 && line == \"\" && r.continuation && strings.Contains(errText, \"EOF while scanning triple-quoted string literal\") && strings.TrimSpace#0[0] != 35 && toCompile != \"\"] vm.PrintExpr = r.term.Print; defer(func() { vm.PrintExpr = oldPrintExpr }()); Compile(toCompile + \"\\n\", r.prog, py.SingleMode, 0, true); r.continuation = true; r.previous += string(line) + \"\\n\"; r.term.SetPrompt(ContinuationPrompt) -> nil",
		"[!(strings.Contains(errText, \"unexpected EOF while parsing\")) && err != nil && len(strings.TrimSpace#0) != 0 && line == \"\" && r.continuation && strings.Contains(errText, \"EOF while scanning triple-quoted string literal\") && strings.TrimSpace#0[0] == 35 && toCompile != \"\"] vm.PrintExpr = r.term.Print; defer(func() { vm.PrintExpr = oldPrintExpr }()); Compile(toCompile + \"\\n\", r.prog, py.SingleMode, 0, true) -> nil",
		"[!(strings.Contains(errText, \"unexpected EOF while parsing\")) && err != nil && len(strings.TrimSpace#0) == 0 && line == \"\" && r.continuation && strings.Contains(errText, \"EOF while scanning triple-quoted string literal\") && toCompile != \"\"] vm.PrintExpr = r.term.Print; defer(func() { vm.PrintExpr = oldPrintExpr }()); Compile(toCompile + \"\\n\", r.prog, py.SingleMode, 0, true); r.continuation = true; r.previous += string(line) + \"\\n\"; r.term.SetPrompt(ContinuationPrompt) -> nil",
		"[err != nil && len(strings.TrimSpace#0) != 0 && line == \"\" && r.continuation && strings.Contains(errText, \"unexpected EOF while parsing\") && strings.TrimSpace#0[0] != 35 && toCompile != \"\"] vm.PrintExpr = r.term.Print; defer(func() { vm.PrintExpr = oldPrintExpr }()); Compile(toCompile + \"\\n\", r.prog, py.SingleMode, 0, true); r.continuation = true; r.previous += string(line) + \"\\n\"; r.term.SetPrompt(ContinuationPrompt) -> nil",
		"[err != nil && len(strings.TrimSpace#0) != 0 && line == \"\" && r.continuation && strings.Contains(errText, \"unexpected EOF while parsing\") && strings.TrimSpace#0[0] == 35 && toCompile != \"\"] vm.PrintExpr = r.term.Print; defer(func() { vm.PrintExpr = oldPrintExpr }()); Compile(toCompile + \"\\n\", r.prog, py.SingleMode, 0, true) -> nil",
		"[err != nil && len(strings.TrimSpace#0) == 0 && line == \"\" && r.continuation && strings.Contains(errText, \"unexpected EOF while parsing\") && toCompile != \"\"] vm.PrintExpr = r.term.Print; defer(func() { vm.PrintExpr = oldPrintExpr }()); Compile(toCompile + \"\\n\", r.prog, py.SingleMode, 0, true); r.continuation = true; r.previous += string(line) + \"\\n\"; r.term.SetPrompt(ContinuationPrompt) -> nil",
		"[err == nil && line == \"\" && py.IsException(py.SystemExit, err) && r.continuation && toCompile != \"\"] vm.PrintExpr = r.term.Print; defer(func() { vm.PrintExpr = oldPrintExpr }()); Compile(toCompile + \"\\n\", r.prog, py.SingleMode, 0, true); r.continuation = false; r.term.SetPrompt(NormalPrompt); r.previous = \"\"; r.Context.RunCode(dyn:py.Compile#0, r.Module.Globals, r.Module.Globals, nil) -> err!",
		"[err == nil && line == \"\" && r.continuation && toCompile != \"\"] vm.PrintExpr = r.term.Print; defer(func() { vm.PrintExpr = oldPrintExpr }()); Compile(toCompile + \"\\n\", r.prog, py.SingleMode, 0, true); r.continuation = false; r.term.SetPrompt(NormalPrompt); r.previous = \"\"; r.Context.RunCode(dyn:py.Compile#0, r.Module.Globals, r.Module.Globals, nil) -> nil",
		"[line != \"\" && r.continuation] vm.PrintExpr = r.term.Print; defer(func() { vm.PrintExpr = oldPrintExpr }()); r.previous += string(line) + \"\\n\" -> nil",
		"[line == \"\" && r.continuation && toCompile == \"\"] vm.PrintExpr = r.term.Print; defer(func() { vm.PrintExpr = oldPrintExpr }()) -> nil",
	}
	// block analysis order: for a class block the sets handed to children are copied from bound/global BEFORE the block's own names are analysed (class bindings, including a `global` in the class body, are not visible in methods); for other blocks after; children are analysed on those sets; cells computed for function blocks, __class__ dropped for class blocks; symbols updated; free propagated [symtable.c analyze_block]  []
	pathSpec["symtable|SymTable.AnalyzeBlock"] = []string{
		"[st.Type != ClassBlock && st.Type != FunctionBlock] LOOP(range st.Symbols){[] st.AnalyzeName(make#2, idx(st.Symbols), st.Symbols[*], bound, make#1, free, global) }; make#5.Update(bound); make#3.Update(global); LOOP(range st.Children){[!(entry.ChildFree) && !(entry.Free)] st.Children[*].AnalyzeChildBlock(make#5, make#4, make#3, make#6)  | [!(entry.Free) && entry.ChildFree] st.Children[*].AnalyzeChildBlock(make#5, make#4, make#3, make#6)  | [entry.Free] st.Children[*].AnalyzeChildBlock(make#5, make#4, make#3, make#6) }; make#4.Update(make#6); st.Symbols.Update(make#2, bound, make#4, st.Type == ClassBlock); free.Update(make#4)",
		"[st.Type == ClassBlock] make#3.Update(global); make#5.Update(bound); LOOP(range st.Symbols){[] st.AnalyzeName(make#2, idx(st.Symbols), st.Symbols[*], bound, make#1, free, global) }; make#5.Add(\"__class__\"); LOOP(range st.Children){[!(entry.ChildFree) && !(entry.Free)] st.Children[*].AnalyzeChildBlock(make#5, make#4, make#3, make#6)  | [!(entry.Free) && entry.ChildFree] st.Children[*].AnalyzeChildBlock(make#5, make#4, make#3, make#6)  | [entry.Free] st.Children[*].AnalyzeChildBlock(make#5, make#4, make#3, make#6) }; make#4.Update(make#6); st.DropClassFree(make#4); st.Symbols.Update(make#2, bound, make#4, st.Type == ClassBlock); free.Update(make#4)",
		"[st.Type == FunctionBlock] LOOP(range st.Symbols){[] st.AnalyzeName(make#2, idx(st.Symbols), st.Symbols[*], bound, make#1, free, global) }; make#5.Update(make#1); make#5.Update(bound); make#3.Update(global); LOOP(range st.Children){[!(entry.ChildFree) && !(entry.Free)] st.Children[*].AnalyzeChildBlock(make#5, make#4, make#3, make#6)  | [!(entry.Free) && entry.ChildFree] st.Children[*].AnalyzeChildBlock(make#5, make#4, make#3, make#6)  | [entry.Free] st.Children[*].AnalyzeChildBlock(make#5, make#4, make#3, make#6) }; make#4.Update(make#6); AnalyzeCells(make#2, make#4); st.Symbols.Update(make#2, bound, make#4, st.Type == ClassBlock); free.Update(make#4)",
	}
	// sequence unpacking (UNPACK_SEQUENCE / UNPACK_EX): the first argcnt items are stored downwards from the top so that the leftmost target is popped first; the starred list takes the rest; the after-star items are taken from the end of that list in the same downward order [ceval.c unpack_iterable]  []
	pathSpec["vm|unpack_iterable"] = []string{
		"[!(py.IsException(py.StopIteration, err)) && argcntafter == -1 && err == nil] Iter(v); LOOP(for k1 = 0; k1 < argcnt; k1++){[!(py.IsException(py.StopIteration, err)) && err != nil] Next(py.Iter#0); IsException(py.StopIteration, err!) return | [err != nil && py.IsException(py.StopIteration, err)] Next(py.Iter#0); IsException(py.StopIteration, err!); ExceptionNewf(py.ValueError, \"need more than %d value(s) to unpack\", loop:k1) return | [err == nil] Next(py.Iter#0) }; Next(py.Iter#0); IsException(py.StopIteration, err!) -> err!",
		"[!(py.IsException(py.StopIteration, err)) && err == nil] Iter(v); Next(py.Iter#0); IsException(py.StopIteration, err!) -> err!",
		"[argcntafter != -1 && argcntafter - len(l.Items) <= 0 && err == nil] Iter(v); LOOP(for k1 = 0; k1 < argcnt; k1++){[!(py.IsException(py.StopIteration, err)) && err != nil] Next(py.Iter#0); IsException(py.StopIteration, err!) return | [err != nil && py.IsException(py.StopIteration, err)] Next(py.Iter#0); IsException(py.StopIteration, err!); ExceptionNewf(py.ValueError, \"need more than %d value(s) to unpack\", loop:k1) return | [err == nil] Next(py.Iter#0) }; SequenceList(py.Iter#0); py.SequenceList#0.Len(); LOOP(for k1 = argcntafter; k1 > 0; k1--){[err != nil] py.SequenceList#0.M__getitem__(len(l.Items) - loop:k1) return | [err == nil] py.SequenceList#0.M__getitem__(len(l.Items) - loop:k1) }; py.SequenceList#0.Resize(-argcntafter + len(l.Items)) -> nil",
		"[argcntafter != -1 && argcntafter - len(l.Items) <= 0 && err == nil] Iter(v); LOOP(for k1 = 0; k1 < argcnt; k1++){[!(py.IsException(py.StopIteration, err)) && err != nil] Next(py.Iter#0); IsException(py.StopIteration, err!) return | [err != nil && py.IsException(py.StopIteration, err)] Next(py.Iter#0); IsException(py.StopIteration, err!); ExceptionNewf(py.ValueError, \"need more than %d value(s) to unpack\", loop:k1) return | [err == nil] Next(py.Iter#0) }; SequenceList(py.Iter#0); py.SequenceList#0.Len(); py.SequenceList#0.M__getitem__(len(l.Items) - loop:k1) -> err!",
		"[argcntafter != -1 && argcntafter - len(l.Items) >= 1 && err == nil] Iter(v); LOOP(for k1 = 0; k1 < argcnt; k1++){[!(py.IsException(py.StopIteration, err)) && err != nil] Next(py.Iter#0); IsException(py.StopIteration, err!) return | [err != nil && py.IsException(py.StopIteration, err)] Next(py.Iter#0); IsException(py.StopIteration, err!); ExceptionNewf(py.ValueError, \"need more than %d value(s) to unpack\", loop:k1) return | [err == nil] Next(py.Iter#0) }; SequenceList(py.Iter#0); py.SequenceList#0.Len(); ExceptionNewf(py.ValueError, \"need more than %d values to unpack\", argcnt + len(l.Items)) -> err!",
		"[argcntafter != -1 && err == nil] Iter(v); LOOP(for k1 = 0; k1 < argcnt; k1++){[!(py.IsException(py.StopIteration, err)) && err != nil] Next(py.Iter#0); IsException(py.StopIteration, err!) return | [err != nil && py.IsException(py.StopIteration, err)] Next(py.Iter#0); IsException(py.StopIteration, err!); ExceptionNewf(py.ValueError, \"need more than %d value(s) to unpack\", loop:k1) return | [err == nil] Next(py.Iter#0) }; SequenceList(py.Iter#0) -> err!",
		"[argcntafter == -1 && err == nil && py.IsException(py.StopIteration, err)] Iter(v); LOOP(for k1 = 0; k1 < argcnt; k1++){[!(py.IsException(py.StopIteration, err)) && err != nil] Next(py.Iter#0); IsException(py.StopIteration, err!) return | [err != nil && py.IsException(py.StopIteration, err)] Next(py.Iter#0); IsException(py.StopIteration, err!); ExceptionNewf(py.ValueError, \"need more than %d value(s) to unpack\", loop:k1) return | [err == nil] Next(py.Iter#0) }; Next(py.Iter#0); IsException(py.StopIteration, err!) -> nil",
		"[argcntafter == -1 && err == nil] Iter(v); LOOP(for k1 = 0; k1 < argcnt; k1++){[!(py.IsException(py.StopIteration, err)) && err != nil] Next(py.Iter#0); IsException(py.StopIteration, err!) return | [err != nil && py.IsException(py.StopIteration, err)] Next(py.Iter#0); IsException(py.StopIteration, err!); ExceptionNewf(py.ValueError, \"need more than %d value(s) to unpack\", loop:k1) return | [err == nil] Next(py.Iter#0) }; Next(py.Iter#0); ExceptionNewf(py.ValueError, \"too many values to unpack (expected %d)\", argcnt) -> err!",
		"[err != nil] Iter(v) -> err!",
		"[err == nil && py.IsException(py.StopIteration, err)] Iter(v); Next(py.Iter#0); IsException(py.StopIteration, err!); ExceptionNewf(py.ValueError, \"need more than %d value(s) to unpack\", loop:k1) -> err!",
	}
	// with statement entry: __exit__ is looked up and pushed, __enter__ is looked up and called, and only after it returned without error is the finally block pushed and the result pushed — an exception from __enter__ must not run __exit__ [ceval.c SETUP_WITH]  []
	pathSpec["vm|do_SETUP_WITH"] = []string{
		"[err != nil] GetAttrString(slot0, \"__exit__\") -> err!",
		"[err == nil] GetAttrString(slot0, \"__exit__\"); GetAttrString(slot0, \"__enter__\") -> err!",
		"[err == nil] GetAttrString(slot0, \"__exit__\"); GetAttrString(slot0, \"__enter__\"); Call(py.GetAttrString#0'2, nil, nil) -> err!",
		"[err == nil] GetAttrString(slot0, \"__exit__\"); GetAttrString(slot0, \"__enter__\"); Call(py.GetAttrString#0'2, nil, nil); vm.frame.PushBlock(2, delta + vm.frame.Lasti, H0) -> nil",
	}
	// the implicit `return None` is omitted only when the very last element of the instruction stream is a RETURN_VALUE: a trailing label is a jump target that needs an instruction after it  []
	pathSpec["compile|Instructions.EndsWithReturn"] = []string{
		"[!(is[len(is) - 1].(*Op)) && len(is) != 0]  -> false",
		"[is[len(is) - 1].(*Op) && is[len(is) - 1].Op != vm.RETURN_VALUE && len(is) != 0]  -> false",
		"[is[len(is) - 1].(*Op) && is[len(is) - 1].Op == vm.RETURN_VALUE && len(is) != 0]  -> true",
		"[len(is) == 0]  -> false",
	}
	// incomplete-input decision (lexer half): a parse error without a message of its own is reported as 'unexpected EOF while parsing' exactly when the input ran out (x.eof), otherwise as 'invalid syntax' — the REPL continues a statement on the former  []
	pathSpec["parser|yyLex.ErrorReturn"] = []string{
		"[!(x.eof) && x.error && x.errorString == \"\"] x.errorString = \"invalid syntax\"; ExceptionNewf(py.SyntaxError, \"%s\", x.errorString) -> err!",
		"[!(x.error)]  -> nil",
		"[x.eof && x.error && x.errorString == \"\"] x.errorString = \"unexpected EOF while parsing\"; ExceptionNewf(py.SyntaxError, \"%s\", x.errorString) -> err!",
		"[x.error && x.errorString != \"\"] ExceptionNewf(py.SyntaxError, \"%s\", x.errorString) -> err!",
	}
	// range equality compares the sequences the ranges denote: different lengths differ; empty ranges are equal; then the first items must agree; a range of one item needs nothing more; otherwise the steps must agree [rangeobject.c range_equals]  []
	pathSpec["py|Range.M__eq__"] = []string{
		"[!(other.(*Range))]  -> NotImplemented, nil",
		"[a.Length != 0 && a.Length != 1 && a.Length - other.Length == 0 && a.Start - other.Start == 0 && a.Step - other.Step != 0 && other.(*Range)]  -> False, nil",
		"[a.Length != 0 && a.Length != 1 && a.Length - other.Length == 0 && a.Start - other.Start == 0 && a.Step - other.Step == 0 && other.(*Range)]  -> True, nil",
		"[a.Length != 0 && a.Length - other.Length == 0 && a.Start - other.Start != 0 && other.(*Range)]  -> False, nil",
		"[a.Length - other.Length != 0 && other.(*Range)]  -> False, nil",
		"[a.Length - other.Length == 0 && a.Length == 0 && other.(*Range)]  -> True, nil",
		"[a.Length - other.Length == 0 && a.Length == 1 && a.Start - other.Start == 0 && other.(*Range)]  -> True, nil",
	}
	// name lookup in a namespace block: locals, then globals, then builtins, NameError last [ceval.c]  []
	pathSpec["vm|do_LOAD_NAME"] = []string{
		"[!(ok)] vm.frame.Lookup(vm.frame.Code.Names[namei]); ExceptionNewf(py.NameError, nameErrorMsg, vm.frame.Code.Names[namei]) -> err!",
		"[ok] vm.frame.Lookup(vm.frame.Code.Names[namei]) -> nil",
	}
	// global lookup: globals, then builtins, NameError last [ceval.c]  []
	pathSpec["vm|do_LOAD_GLOBAL"] = []string{
		"[!(ok)] vm.frame.LookupGlobal(vm.frame.Code.Names[namei]); ExceptionNewf(py.NameError, nameErrorMsg, vm.frame.Code.Names[namei]) -> err!",
		"[ok] vm.frame.LookupGlobal(vm.frame.Code.Names[namei]) -> nil",
	}
	// class-body free variable: the class namespace first, then the cell of the enclosing function, unbound error last [ceval.c]  []
	pathSpec["vm|do_LOAD_CLASSDEREF"] = []string{
		"[!(has(vm.frame.Locals[name])) && res != nil] _var_name(vm, i); vm.frame.CellAndFreeVars[i].Get() -> nil",
		"[!(has(vm.frame.Locals[name])) && res == nil] _var_name(vm, i); vm.frame.CellAndFreeVars[i].Get(); unboundDeref(vm, i) -> vm.unboundDeref#0",
		"[has(vm.frame.Locals[name])] _var_name(vm, i) -> nil",
	}
	// free/cell variable read: the cell's content, unbound error when empty [ceval.c]  []
	pathSpec["vm|do_LOAD_DEREF"] = []string{
		"[res != nil] vm.frame.CellAndFreeVars[i].Get() -> nil",
		"[res == nil] vm.frame.CellAndFreeVars[i].Get(); unboundDeref(vm, i) -> vm.unboundDeref#0",
	}
	// name store goes to the frame's locals [ceval.c]  []
	pathSpec["vm|do_STORE_NAME"] = []string{
		"[] vm.frame.Locals[vm.frame.Code.Names[namei]] = slot0 -> nil",
	}
	// name delete removes from the frame's locals, NameError when absent [ceval.c]  []
	pathSpec["vm|do_DELETE_NAME"] = []string{
		"[!(has(vm.frame.Locals[name]))] ExceptionNewf(py.NameError, nameErrorMsg, vm.frame.Code.Names[namei]) -> err!",
		"[has(vm.frame.Locals[name])]  -> nil",
	}
	// global store goes to the frame's globals [ceval.c]  []
	pathSpec["vm|do_STORE_GLOBAL"] = []string{
		"[] vm.frame.Globals[vm.frame.Code.Names[namei]] = slot0 -> nil",
	}
	// global delete removes from the frame's globals, NameError when absent [ceval.c]  []
	pathSpec["vm|do_DELETE_GLOBAL"] = []string{
		"[!(has(vm.frame.Globals[name]))] ExceptionNewf(py.NameError, nameErrorMsg, vm.frame.Code.Names[namei]) -> err!",
		"[has(vm.frame.Globals[name])]  -> nil",
	}
	// cell store sets the cell of slot i [ceval.c]  []
	pathSpec["vm|do_STORE_DEREF"] = []string{
		"[] vm.frame.CellAndFreeVars[i].Set(slot0) -> nil",
	}
	// cell delete empties the cell, unbound error when already empty [ceval.c]  []
	pathSpec["vm|do_DELETE_DEREF"] = []string{
		"[cell.Get() != nil] vm.frame.CellAndFreeVars[i].Get(); vm.frame.CellAndFreeVars[i].Delete() -> nil",
		"[cell.Get() == nil] vm.frame.CellAndFreeVars[i].Get(); unboundDeref(vm, i) -> vm.unboundDeref#0",
	}
	// pushes the cell object of slot i itself [ceval.c]  []
	pathSpec["vm|do_LOAD_CLOSURE"] = []string{
		"[]  -> nil",
	}
	// LOAD_NAME order: the frame's locals, then its globals, then the builtins [ceval.c LOAD_NAME]  []
	pathSpec["py|Frame.Lookup"] = []string{
		"[!(has(f.Builtins[name])) && !(has(f.Globals[name])) && !(has(f.Locals[name]))]  -> nil, false",
		"[!(has(f.Globals[name])) && !(has(f.Locals[name])) && has(f.Builtins[name])] ",
		"[!(has(f.Locals[name])) && has(f.Globals[name])] ",
		"[has(f.Locals[name])] ",
	}
	// LOAD_GLOBAL order: the frame's globals, then the builtins [ceval.c LOAD_GLOBAL]  []
	pathSpec["py|Frame.LookupGlobal"] = []string{
		"[!(has(f.Builtins[name])) && !(has(f.Globals[name]))]  -> nil, false",
		"[!(has(f.Globals[name])) && has(f.Builtins[name])] ",
		"[has(f.Globals[name])] ",
	}
	// symbol-table update after scope analysis: scope bits are recorded; in a class block a name that is free in a method and bound OR declared global in the class gets DefFreeClass; a free name unknown to the block is added as free [symtable.c update_symbols] — the compiler's closure construction relies on it  []
	pathSpec["symtable|Symbols.Update"] = []string{
		"[] LOOP(range symbols){[]  }; LOOP(range free){[!(bound.Contains(name)) && !(has(symbols[name]))]   | [!(classflag) && has(symbols[name])]   | [!(has(symbols[name])) && bound.Contains(name)]   | [(symbol.Flags & (DefBound | DefGlobal)) != 0 && classflag && has(symbols[name])]   | [(symbol.Flags & (DefBound | DefGlobal)) == 0 && classflag && has(symbols[name])]  }",
	}
	// repr/ascii escaping per character class: control characters as \t \n \r \xHH; in repr mode printable ASCII with backslash and the chosen quote escaped; in ascii mode ASCII passes through untouched (the text is an already escaped repr); Latin-1, BMP and astral characters printable-or-escaped by width  []
	pathSpec["py|StringEscape"] = []string{
		"[!(ascii) && !(strings.ContainsRune(s, '\"')) && strings.ContainsRune(s, '\\'')] ContainsRune(a, 39); ContainsRune(a, 34); zero.WriteRune(34); LOOP(range s){[!(strconv.IsPrint(c)) && a[*] <= 255 && a[*] >= 127 && a[*] >= 32] IsPrint(a[*]); Fprintf(zero, \"\\\\x%02x\", a[*])  | [!(strconv.IsPrint(c)) && a[*] <= 65535 && a[*] >= 127 && a[*] >= 256 && a[*] >= 32] IsPrint(a[*]); Fprintf(zero, \"\\\\u%04x\", a[*])  | [!(strconv.IsPrint(c)) && a[*] >= 127 && a[*] >= 256 && a[*] >= 32 && a[*] >= 65536] IsPrint(a[*]); Fprintf(zero, \"\\\\U%08x\", a[*])  | [a[*] != 10 && a[*] != 13 && a[*] != 9 && a[*] <= 31] Fprintf(zero, `\\x%02x`, a[*])  | [a[*] != 34 && a[*] != 92 && a[*] <= 126 && a[*] >= 32] zero.WriteRune(a[*])  | [a[*] <= 126 && a[*] == 34 && a[*] >= 32] zero.WriteRune(92); zero.WriteRune(a[*])  | [a[*] <= 126 && a[*] == 92 && a[*] >= 32] zero.WriteRune(92); zero.WriteRune(a[*])  | [a[*] <= 255 && a[*] >= 127 && a[*] >= 32 && strconv.IsPrint(c)] IsPrint(a[*]); zero.WriteRune(a[*])  | [a[*] <= 31 && a[*] == 10] zero.WriteString(`\\n`)  | [a[*] <= 31 && a[*] == 13] zero.WriteString(`\\r`)  | [a[*] <= 31 && a[*] == 9] zero.WriteString(`\\t`)  | [a[*] <= 65535 && a[*] >= 127 && a[*] >= 256 && a[*] >= 32 && strconv.IsPrint(c)] IsPrint(a[*]); zero.WriteRune(a[*])  | [a[*] >= 127 && a[*] >= 256 && a[*] >= 32 && a[*] >= 65536 && strconv.IsPrint(c)] IsPrint(a[*]); zero.WriteRune(a[*]) }; zero.WriteRune(34); zero.String() -> (*bytes.Buffer).String#0",
		"[!(ascii) && !(strings.ContainsRune(s, '\\''))] ContainsRune(a, 39); zero.WriteRune(39); LOOP(range s){[!(strconv.IsPrint(c)) && a[*] <= 255 && a[*] >= 127 && a[*] >= 32] IsPrint(a[*]); Fprintf(zero, \"\\\\x%02x\", a[*])  | [!(strconv.IsPrint(c)) && a[*] <= 65535 && a[*] >= 127 && a[*] >= 256 && a[*] >= 32] IsPrint(a[*]); Fprintf(zero, \"\\\\u%04x\", a[*])  | [!(strconv.IsPrint(c)) && a[*] >= 127 && a[*] >= 256 && a[*] >= 32 && a[*] >= 65536] IsPrint(a[*]); Fprintf(zero, \"\\\\U%08x\", a[*])  | [a[*] != 10 && a[*] != 13 && a[*] != 9 && a[*] <= 31] Fprintf(zero, `\\x%02x`, a[*])  | [a[*] != 39 && a[*] != 92 && a[*] <= 126 && a[*] >= 32] zero.WriteRune(a[*])  | [a[*] <= 126 && a[*] == 39 && a[*] >= 32] zero.WriteRune(92); zero.WriteRune(a[*])  | [a[*] <= 126 && a[*] == 92 && a[*] >= 32] zero.WriteRune(92); zero.WriteRune(a[*])  | [a[*] <= 255 && a[*] >= 127 && a[*] >= 32 && strconv.IsPrint(c)] IsPrint(a[*]); zero.WriteRune(a[*])  | [a[*] <= 31 && a[*] == 10] zero.WriteString(`\\n`)  | [a[*] <= 31 && a[*] == 13] zero.WriteString(`\\r`)  | [a[*] <= 31 && a[*] == 9] zero.WriteString(`\\t`)  | [a[*] <= 65535 && a[*] >= 127 && a[*] >= 256 && a[*] >= 32 && strconv.IsPrint(c)] IsPrint(a[*]); zero.WriteRune(a[*])  | [a[*] >= 127 && a[*] >= 256 && a[*] >= 32 && a[*] >= 65536 && strconv.IsPrint(c)] IsPrint(a[*]); zero.WriteRune(a[*]) }; zero.WriteRune(39); zero.String() -> (*bytes.Buffer).String#0",
		"[!(ascii) && strings.ContainsRune(s, '\"') && strings.ContainsRune(s, '\\'')] ContainsRune(a, 39); ContainsRune(a, 34); zero.WriteRune(39); LOOP(range s){[!(strconv.IsPrint(c)) && a[*] <= 255 && a[*] >= 127 && a[*] >= 32] IsPrint(a[*]); Fprintf(zero, \"\\\\x%02x\", a[*])  | [!(strconv.IsPrint(c)) && a[*] <= 65535 && a[*] >= 127 && a[*] >= 256 && a[*] >= 32] IsPrint(a[*]); Fprintf(zero, \"\\\\u%04x\", a[*])  | [!(strconv.IsPrint(c)) && a[*] >= 127 && a[*] >= 256 && a[*] >= 32 && a[*] >= 65536] IsPrint(a[*]); Fprintf(zero, \"\\\\U%08x\", a[*])  | [a[*] != 10 && a[*] != 13 && a[*] != 9 && a[*] <= 31] Fprintf(zero, `\\x%02x`, a[*])  | [a[*] != 39 && a[*] != 92 && a[*] <= 126 && a[*] >= 32] zero.WriteRune(a[*])  | [a[*] <= 126 && a[*] == 39 && a[*] >= 32] zero.WriteRune(92); zero.WriteRune(a[*])  | [a[*] <= 126 && a[*] == 92 && a[*] >= 32] zero.WriteRune(92); zero.WriteRune(a[*])  | [a[*] <= 255 && a[*] >= 127 && a[*] >= 32 && strconv.IsPrint(c)] IsPrint(a[*]); zero.WriteRune(a[*])  | [a[*] <= 31 && a[*] == 10] zero.WriteString(`\\n`)  | [a[*] <= 31 && a[*] == 13] zero.WriteString(`\\r`)  | [a[*] <= 31 && a[*] == 9] zero.WriteString(`\\t`)  | [a[*] <= 65535 && a[*] >= 127 && a[*] >= 256 && a[*] >= 32 && strconv.IsPrint(c)] IsPrint(a[*]); zero.WriteRune(a[*])  | [a[*] >= 127 && a[*] >= 256 && a[*] >= 32 && a[*] >= 65536 && strconv.IsPrint(c)] IsPrint(a[*]); zero.WriteRune(a[*]) }; zero.WriteRune(39); zero.String() -> (*bytes.Buffer).String#0",
		"[!(strings.ContainsRune(s, '\"')) && ascii && strings.ContainsRune(s, '\\'')] ContainsRune(a, 39); ContainsRune(a, 34); LOOP(range s){[a[*] != 10 && a[*] != 13 && a[*] != 9 && a[*] <= 31] Fprintf(zero, `\\x%02x`, a[*])  | [a[*] <= 126 && a[*] <= 255 && a[*] >= 32] zero.WriteRune(a[*])  | [a[*] <= 255 && a[*] >= 127 && a[*] >= 32] Fprintf(zero, \"\\\\x%02x\", a[*])  | [a[*] <= 31 && a[*] == 10] zero.WriteString(`\\n`)  | [a[*] <= 31 && a[*] == 13] zero.WriteString(`\\r`)  | [a[*] <= 31 && a[*] == 9] zero.WriteString(`\\t`)  | [a[*] <= 65535 && a[*] >= 256 && a[*] >= 32] Fprintf(zero, \"\\\\u%04x\", a[*])  | [a[*] >= 256 && a[*] >= 32 && a[*] >= 65536] Fprintf(zero, \"\\\\U%08x\", a[*]) }; zero.String() -> (*bytes.Buffer).String#0",
		"[!(strings.ContainsRune(s, '\\'')) && ascii] ContainsRune(a, 39); LOOP(range s){[a[*] != 10 && a[*] != 13 && a[*] != 9 && a[*] <= 31] Fprintf(zero, `\\x%02x`, a[*])  | [a[*] <= 126 && a[*] <= 255 && a[*] >= 32] zero.WriteRune(a[*])  | [a[*] <= 255 && a[*] >= 127 && a[*] >= 32] Fprintf(zero, \"\\\\x%02x\", a[*])  | [a[*] <= 31 && a[*] == 10] zero.WriteString(`\\n`)  | [a[*] <= 31 && a[*] == 13] zero.WriteString(`\\r`)  | [a[*] <= 31 && a[*] == 9] zero.WriteString(`\\t`)  | [a[*] <= 65535 && a[*] >= 256 && a[*] >= 32] Fprintf(zero, \"\\\\u%04x\", a[*])  | [a[*] >= 256 && a[*] >= 32 && a[*] >= 65536] Fprintf(zero, \"\\\\U%08x\", a[*]) }; zero.String() -> (*bytes.Buffer).String#0",
		"[ascii && strings.ContainsRune(s, '\"') && strings.ContainsRune(s, '\\'')] ContainsRune(a, 39); ContainsRune(a, 34); LOOP(range s){[a[*] != 10 && a[*] != 13 && a[*] != 9 && a[*] <= 31] Fprintf(zero, `\\x%02x`, a[*])  | [a[*] <= 126 && a[*] <= 255 && a[*] >= 32] zero.WriteRune(a[*])  | [a[*] <= 255 && a[*] >= 127 && a[*] >= 32] Fprintf(zero, \"\\\\x%02x\", a[*])  | [a[*] <= 31 && a[*] == 10] zero.WriteString(`\\n`)  | [a[*] <= 31 && a[*] == 13] zero.WriteString(`\\r`)  | [a[*] <= 31 && a[*] == 9] zero.WriteString(`\\t`)  | [a[*] <= 65535 && a[*] >= 256 && a[*] >= 32] Fprintf(zero, \"\\\\u%04x\", a[*])  | [a[*] >= 256 && a[*] >= 32 && a[*] >= 65536] Fprintf(zero, \"\\\\U%08x\", a[*]) }; zero.String() -> (*bytes.Buffer).String#0",
	}
	// list item and slice assignment: indices from GetIndices/IndexIntCheck; simple slices read the operand first, copy the tail unconditionally, splice; extended slices check the length and store by counting slicelength items [listobject.c list_ass_subscript]  []
	pathSpec["py|List.M__setitem__"] = []string{
		"[!(key.(*Slice)) && err != nil] IndexIntCheck(key, len(l.Items)) -> nil, err!",
		"[!(key.(*Slice)) && err == nil] IndexIntCheck(key, len(l.Items)); l.Items[i] = value -> None, nil",
		"[err != nil && key.(*Slice)] key.GetIndices(len(l.Items)) -> nil, err!",
		"[err == nil && key.(*Slice) && len(py.SequenceTuple#0) - ret#3:slice.GetIndices(len(l.Items)) != 0 && ret#2:slice.GetIndices(len(l.Items)) != 1] key.GetIndices(len(l.Items)); SequenceTuple(value); ExceptionNewf(ValueError, lit, len(py.SequenceTuple#0), ret#3:slice.GetIndices(len(l.Items))) -> nil, err!",
		"[err == nil && key.(*Slice) && len(py.SequenceTuple#0) - ret#3:slice.GetIndices(len(l.Items)) == 0 && ret#2:slice.GetIndices(len(l.Items)) != 1] key.GetIndices(len(l.Items)); SequenceTuple(value); LOOP(for i, j := start, 0; j < slicelength; i, j = i+step, j+1){[]  } -> None, nil",
		"[err == nil && key.(*Slice) && ret#0:slice.GetIndices(len(l.Items)) - ret#1:slice.GetIndices(len(l.Items)) <= 0 && ret#2:slice.GetIndices(len(l.Items)) == 1] key.GetIndices(len(l.Items)); SequenceTuple(value); l.Items = append(l.Items[:start], py.SequenceTuple#0); l.Items = append(l.Items, copy-of[l.Items[stop:]]) -> None, nil",
		"[err == nil && key.(*Slice) && ret#0:slice.GetIndices(len(l.Items)) - ret#1:slice.GetIndices(len(l.Items)) >= 1 && ret#2:slice.GetIndices(len(l.Items)) == 1] key.GetIndices(len(l.Items)); SequenceTuple(value); l.Items = append(l.Items[:start], py.SequenceTuple#0); l.Items = append(l.Items, copy-of[l.Items[stop:]]) -> None, nil",
		"[err == nil && key.(*Slice)] key.GetIndices(len(l.Items)); SequenceTuple(value) -> nil, err!",
	}
	// list item and slice deletion: simple slices clamp stop to start and splice; extended slices delete slicelength items in ascending order, starting for a negative step from start+step*(slicelength-1) [listobject.c list_ass_subscript]  []
	pathSpec["py|List.M__delitem__"] = []string{
		"[!(key.(*Slice)) && err != nil] IndexIntCheck(key, len(a.Items)) -> nil, err!",
		"[!(key.(*Slice)) && err == nil] IndexIntCheck(key, len(a.Items)); a.DelItem(ret#0:IndexIntCheck(key, len(a.Items))) -> None, nil",
		"[err != nil && key.(*Slice)] key.GetIndices(len(a.Items)) -> nil, err!",
		"[err == nil && key.(*Slice) && ret#0:slice.GetIndices(len(a.Items)) - ret#1:slice.GetIndices(len(a.Items)) <= 0 && ret#2:slice.GetIndices(len(a.Items)) == 1] key.GetIndices(len(a.Items)); a.Items = append(a.Items[:start], a.Items[stop:]) -> None, nil",
		"[err == nil && key.(*Slice) && ret#0:slice.GetIndices(len(a.Items)) - ret#1:slice.GetIndices(len(a.Items)) >= 1 && ret#2:slice.GetIndices(len(a.Items)) == 1] key.GetIndices(len(a.Items)); a.Items = append(a.Items[:start], a.Items[stop:]) -> None, nil",
		"[err == nil && key.(*Slice) && ret#2:slice.GetIndices(len(a.Items)) != 1 && ret#2:slice.GetIndices(len(a.Items)) <= -1] key.GetIndices(len(a.Items)); LOOP(for k1 = 0; k1 < slicelength; k1++){[] a.DelItem(start + k1 * step - k1) } -> None, nil",
		"[err == nil && key.(*Slice) && ret#2:slice.GetIndices(len(a.Items)) != 1 && ret#2:slice.GetIndices(len(a.Items)) >= 0] key.GetIndices(len(a.Items)); LOOP(for k1 = 0; k1 < slicelength; k1++){[] a.DelItem(start + k1 * step - k1) } -> None, nil",
	}
	// in-place set operators adopt the result of the binary operator unconditionally and evaluate to the receiver  []
	pathSpec["py|Set.inPlace"] = []string{
		"[!(res.(*Set)) && err == nil]  -> res, nil",
		"[err != nil]  -> nil, err!",
		"[err == nil && res.(*Set)] s.items = res.items -> s, nil",
	}
	// sort comparison: items fetched, key function applied to both, then a strict less-than with the operands exchanged for reverse (not the result inverted, which is not a strict order and breaks stability)  []
	pathSpec["py|ptrSortable.Less"] = []string{
		"[!(cmpResult.(Bool)) && !(s.s.reverse) && err == nil && s.s.keyFunc != None] s.s.l.M__getitem__(i); s.s.l.M__getitem__(j); Call(s.s.keyFunc, composite[(*py.List).M__getitem__#0], nil); Call(s.s.keyFunc, composite[(*py.List).M__getitem__#0'2], nil); Lt(py.Call#0, py.Call#0'2) -> false",
		"[!(cmpResult.(Bool)) && !(s.s.reverse) && err == nil && s.s.keyFunc == None] s.s.l.M__getitem__(i); s.s.l.M__getitem__(j); Lt((*py.List).M__getitem__#0, (*py.List).M__getitem__#0'2) -> false",
		"[!(cmpResult.(Bool)) && err == nil && s.s.keyFunc != None && s.s.reverse] s.s.l.M__getitem__(i); s.s.l.M__getitem__(j); Call(s.s.keyFunc, composite[(*py.List).M__getitem__#0], nil); Call(s.s.keyFunc, composite[(*py.List).M__getitem__#0'2], nil); Lt(py.Call#0'2, py.Call#0) -> false",
		"[!(cmpResult.(Bool)) && err == nil && s.s.keyFunc == None && s.s.reverse] s.s.l.M__getitem__(i); s.s.l.M__getitem__(j); Lt((*py.List).M__getitem__#0'2, (*py.List).M__getitem__#0) -> false",
		"[!(s.s.reverse) && cmpResult.(Bool) && err == nil && s.s.keyFunc != None] s.s.l.M__getitem__(i); s.s.l.M__getitem__(j); Call(s.s.keyFunc, composite[(*py.List).M__getitem__#0], nil); Call(s.s.keyFunc, composite[(*py.List).M__getitem__#0'2], nil); Lt(py.Call#0, py.Call#0'2) -> py.Lt#0",
		"[!(s.s.reverse) && cmpResult.(Bool) && err == nil && s.s.keyFunc == None] s.s.l.M__getitem__(i); s.s.l.M__getitem__(j); Lt((*py.List).M__getitem__#0, (*py.List).M__getitem__#0'2) -> py.Lt#0",
		"[!(s.s.reverse) && err == nil && s.s.firstErr != nil && s.s.keyFunc != None] s.s.l.M__getitem__(i); s.s.l.M__getitem__(j); Call(s.s.keyFunc, composite[(*py.List).M__getitem__#0], nil); Call(s.s.keyFunc, composite[(*py.List).M__getitem__#0'2], nil); Lt(py.Call#0, py.Call#0'2) -> false",
		"[!(s.s.reverse) && err == nil && s.s.firstErr != nil && s.s.keyFunc == None] s.s.l.M__getitem__(i); s.s.l.M__getitem__(j); Lt((*py.List).M__getitem__#0, (*py.List).M__getitem__#0'2) -> false",
		"[!(s.s.reverse) && err == nil && s.s.firstErr == nil && s.s.keyFunc != None] s.s.l.M__getitem__(i); s.s.l.M__getitem__(j); Call(s.s.keyFunc, composite[(*py.List).M__getitem__#0], nil); Call(s.s.keyFunc, composite[(*py.List).M__getitem__#0'2], nil); Lt(py.Call#0, py.Call#0'2); s.s.firstErr = err! -> false",
		"[!(s.s.reverse) && err == nil && s.s.firstErr == nil && s.s.keyFunc == None] s.s.l.M__getitem__(i); s.s.l.M__getitem__(j); Lt((*py.List).M__getitem__#0, (*py.List).M__getitem__#0'2); s.s.firstErr = err! -> false",
		"[cmpResult.(Bool) && err == nil && s.s.keyFunc != None && s.s.reverse] s.s.l.M__getitem__(i); s.s.l.M__getitem__(j); Call(s.s.keyFunc, composite[(*py.List).M__getitem__#0], nil); Call(s.s.keyFunc, composite[(*py.List).M__getitem__#0'2], nil); Lt(py.Call#0'2, py.Call#0) -> py.Lt#0",
		"[cmpResult.(Bool) && err == nil && s.s.keyFunc == None && s.s.reverse] s.s.l.M__getitem__(i); s.s.l.M__getitem__(j); Lt((*py.List).M__getitem__#0'2, (*py.List).M__getitem__#0) -> py.Lt#0",
		"[err != nil && s.s.firstErr != nil] s.s.l.M__getitem__(i) -> false",
		"[err != nil && s.s.firstErr == nil] s.s.l.M__getitem__(i); s.s.firstErr = err! -> false",
		"[err == nil && s.s.firstErr != nil && s.s.keyFunc != None && s.s.reverse] s.s.l.M__getitem__(i); s.s.l.M__getitem__(j); Call(s.s.keyFunc, composite[(*py.List).M__getitem__#0], nil); Call(s.s.keyFunc, composite[(*py.List).M__getitem__#0'2], nil); Lt(py.Call#0'2, py.Call#0) -> false",
		"[err == nil && s.s.firstErr != nil && s.s.keyFunc != None] s.s.l.M__getitem__(i); s.s.l.M__getitem__(j); Call(s.s.keyFunc, composite[(*py.List).M__getitem__#0], nil) -> false",
		"[err == nil && s.s.firstErr != nil && s.s.keyFunc != None] s.s.l.M__getitem__(i); s.s.l.M__getitem__(j); Call(s.s.keyFunc, composite[(*py.List).M__getitem__#0], nil); Call(s.s.keyFunc, composite[(*py.List).M__getitem__#0'2], nil) -> false",
		"[err == nil && s.s.firstErr != nil && s.s.keyFunc == None && s.s.reverse] s.s.l.M__getitem__(i); s.s.l.M__getitem__(j); Lt((*py.List).M__getitem__#0'2, (*py.List).M__getitem__#0) -> false",
		"[err == nil && s.s.firstErr != nil] s.s.l.M__getitem__(i); s.s.l.M__getitem__(j) -> false",
		"[err == nil && s.s.firstErr == nil && s.s.keyFunc != None && s.s.reverse] s.s.l.M__getitem__(i); s.s.l.M__getitem__(j); Call(s.s.keyFunc, composite[(*py.List).M__getitem__#0], nil); Call(s.s.keyFunc, composite[(*py.List).M__getitem__#0'2], nil); Lt(py.Call#0'2, py.Call#0); s.s.firstErr = err! -> false",
		"[err == nil && s.s.firstErr == nil && s.s.keyFunc != None] s.s.l.M__getitem__(i); s.s.l.M__getitem__(j); Call(s.s.keyFunc, composite[(*py.List).M__getitem__#0], nil); Call(s.s.keyFunc, composite[(*py.List).M__getitem__#0'2], nil); s.s.firstErr = err! -> false",
		"[err == nil && s.s.firstErr == nil && s.s.keyFunc != None] s.s.l.M__getitem__(i); s.s.l.M__getitem__(j); Call(s.s.keyFunc, composite[(*py.List).M__getitem__#0], nil); s.s.firstErr = err! -> false",
		"[err == nil && s.s.firstErr == nil && s.s.keyFunc == None && s.s.reverse] s.s.l.M__getitem__(i); s.s.l.M__getitem__(j); Lt((*py.List).M__getitem__#0'2, (*py.List).M__getitem__#0); s.s.firstErr = err! -> false",
		"[err == nil && s.s.firstErr == nil] s.s.l.M__getitem__(i); s.s.l.M__getitem__(j); s.s.firstErr = err! -> false",
	}
}
