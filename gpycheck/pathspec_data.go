package main

// Reference decision tables (see pathtable.go). Generated with `gpycheck -dump tables` and reviewed against the
// Python 3.4 / CPython definition named in each tableSpec.

func init() {
	// symbol definition: flags are or-ed into an existing symbol, a second DefParam for the same name is a SyntaxError (duplicate argument), parameters are appended to Varnames in order, a global declaration is mirrored into the module table [symtable.c symtable_add_def]  []
	pathSpec["symtable|SymTable.AddDef"] = []string{
		"[!(has(st.Symbols[mangled])) && (flags & DefParam) != 0] st.Symbols[mangled] = composite[0,flags,ret:node.GetLineno(),ret:node.GetColOffset()]; st.Varnames = append(st.Varnames, name)",
		"[!(has(st.Symbols[mangled])) && (flags & DefParam) == 0 && (flags & DefGlobal) != 0 && !(has(st.Global.Symbols[mangled]))] st.Symbols[mangled] = composite[0,flags,ret:node.GetLineno(),ret:node.GetColOffset()]; st.Global.Symbols[mangled] = composite[0,flags,ret:node.GetLineno(),ret:node.GetColOffset()]",
		"[!(has(st.Symbols[mangled])) && (flags & DefParam) == 0 && (flags & DefGlobal) != 0 && has(st.Global.Symbols[mangled])] st.Symbols[mangled] = composite[0,flags,ret:node.GetLineno(),ret:node.GetColOffset()]; sym.Flags |= flags; st.Global.Symbols[mangled] = st.Global.Symbols[name]",
		"[!(has(st.Symbols[mangled])) && (flags & DefParam) == 0 && (flags & DefGlobal) == 0] st.Symbols[mangled] = composite[0,flags,ret:node.GetLineno(),ret:node.GetColOffset()]",
		"[has(st.Symbols[mangled]) && (flags & DefParam) != 0 && (sym.Flags & DefParam) != 0]  -> raise",
		"[has(st.Symbols[mangled]) && (flags & DefParam) != 0 && (sym.Flags & DefParam) == 0] sym.Flags |= flags; st.Symbols[mangled] = st.Symbols[name]; st.Varnames = append(st.Varnames, name)",
		"[has(st.Symbols[mangled]) && (flags & DefParam) == 0 && (flags & DefGlobal) != 0 && !(has(st.Global.Symbols[mangled]))] sym.Flags |= flags; st.Symbols[mangled] = st.Symbols[name]; st.Global.Symbols[mangled] = composite[0,flags,ret:node.GetLineno(),ret:node.GetColOffset()]",
		"[has(st.Symbols[mangled]) && (flags & DefParam) == 0 && (flags & DefGlobal) != 0 && has(st.Global.Symbols[mangled])] sym.Flags |= flags; st.Symbols[mangled] = st.Symbols[name]; sym.Flags |= flags; st.Global.Symbols[mangled] = st.Global.Symbols[name]",
		"[has(st.Symbols[mangled]) && (flags & DefParam) == 0 && (flags & DefGlobal) == 0] sym.Flags |= flags; st.Symbols[mangled] = st.Symbols[name]",
	}
	// a function read through an instance binds the instance; read through the class it stays a function  []
	pathSpec["py|Function.M__get__"] = []string{
		"[instance != None]  -> composite[instance,f], nil",
		"[instance == None]  -> f, nil",
	}
	// a built-in method read through an instance binds the instance; read through the class it stays unbound  []
	pathSpec["py|Method.M__get__"] = []string{
		"[instance != None]  -> composite[instance,m], nil",
		"[instance == None]  -> m, nil",
	}
	// a classmethod binds the owner class (the type of the instance when no owner is given), never the instance  []
	pathSpec["py|ClassMethod.M__get__"] = []string{
		"[owner != nil]  -> composite[owner,c.Callable], nil",
		"[owner == nil] instance.Type() -> composite[(py.Object).Type#0,c.Callable], nil",
	}
	// a staticmethod binds nothing: the plain callable is returned  []
	pathSpec["py|StaticMethod.M__get__"] = []string{
		"[]  -> c.Callable, nil",
	}
}
