package main

import (
	"fmt"
	"go/ast"
	"go/token"
	"go/types"
	"sort"
	"strings"

	"golang.org/x/tools/go/packages"
)

// C09: the context lifecycle protocol. Roles are discovered from types, not names.

type lifecycle struct {
	pkg       *packages.Package
	ctxType   *types.Named
	ctxStruct *types.Struct
	mutex     *types.Var // the single sync.Mutex/RWMutex field, or nil
	nMutex    int
	admit     *types.Func
	release   *types.Func
	counter   *types.Var   // field incremented by admit
	counterWG bool         // counter is a sync.WaitGroup
	flags     []*types.Var // bool fields whose test makes admission fail
	closeFn   *types.Func
	doneFn    *types.Func
	doneChan  *types.Var
	methods   []*types.Func
}

func isSyncType(t types.Type, names ...string) bool {
	if p, ok := t.(*types.Pointer); ok {
		t = p.Elem()
	}
	n, ok := t.(*types.Named)
	if !ok || n.Obj().Pkg() == nil || n.Obj().Pkg().Path() != "sync" {
		return false
	}
	for _, s := range names {
		if n.Obj().Name() == s {
			return true
		}
	}
	return false
}

func isAtomicType(t types.Type) bool {
	if p, ok := t.(*types.Pointer); ok {
		t = p.Elem()
	}
	n, ok := t.(*types.Named)
	return ok && n.Obj().Pkg() != nil && n.Obj().Pkg().Path() == "sync/atomic"
}

func fieldOf(info *types.Info, e ast.Expr, st *types.Named) *types.Var {
	sel, ok := unparen(e).(*ast.SelectorExpr)
	if !ok {
		return nil
	}
	s, ok := info.Selections[sel]
	if !ok || s.Kind() != types.FieldVal {
		return nil
	}
	rt := s.Recv()
	if p, ok := rt.(*types.Pointer); ok {
		rt = p.Elem()
	}
	if !types.Identical(rt, st) {
		return nil
	}
	f, _ := s.Obj().(*types.Var)
	return f
}

func discoverLifecycle(c *Ctx) (*lifecycle, string) {
	p := c.MustPkg("stdlib")
	pyp := c.MustPkg("py")
	ctxIface, _ := pyp.Types.Scope().Lookup("Context").(*types.TypeName)
	if ctxIface == nil {
		return nil, "py.Context not found"
	}
	iface, _ := ctxIface.Type().Underlying().(*types.Interface)
	if iface == nil {
		return nil, "py.Context is not an interface"
	}
	lc := &lifecycle{pkg: p}
	for _, name := range p.Types.Scope().Names() {
		tn, ok := p.Types.Scope().Lookup(name).(*types.TypeName)
		if !ok {
			continue
		}
		n, ok := tn.Type().(*types.Named)
		if !ok {
			continue
		}
		st, ok := n.Underlying().(*types.Struct)
		if !ok {
			continue
		}
		if types.Implements(types.NewPointer(n), iface) {
			if lc.ctxType != nil {
				return nil, "more than one type in stdlib implements py.Context"
			}
			lc.ctxType, lc.ctxStruct = n, st
		}
	}
	if lc.ctxType == nil {
		return nil, "no struct type in package stdlib implements py.Context"
	}
	for i := 0; i < lc.ctxStruct.NumFields(); i++ {
		f := lc.ctxStruct.Field(i)
		if isSyncType(f.Type(), "Mutex", "RWMutex") {
			lc.mutex = f
			lc.nMutex++
		}
	}
	info := p.TypesInfo
	for i := 0; i < lc.ctxType.NumMethods(); i++ {
		m := lc.ctxType.Method(i)
		lc.methods = append(lc.methods, m)
		fd := c.Decl(m)
		if fd == nil || fd.Body == nil {
			continue
		}
		switch m.Name() {
		case "Close":
			lc.closeFn = m
		case "Done":
			lc.doneFn = m
		}
		sig := m.Type().(*types.Signature)
		retErr := sig.Results().Len() == 1 && sig.Results().At(0).Type().String() == "error"
		ast.Inspect(fd.Body, func(n ast.Node) bool {
			switch x := n.(type) {
			case *ast.FuncLit:
				return false
			case *ast.IncDecStmt:
				if f := fieldOf(info, x.X, lc.ctxType); f != nil {
					if x.Tok == token.INC && retErr && sig.Params().Len() == 0 {
						lc.admit, lc.counter = m, f
					} else if x.Tok == token.DEC && sig.Results().Len() == 0 {
						lc.release = m
					}
				}
			case *ast.AssignStmt:
				// the same written out: f += 1, f = f + 1, f = f - 1, or f = local with local := f - 1
				if len(x.Lhs) != 1 || len(x.Rhs) != 1 {
					return true
				}
				f := fieldOf(info, x.Lhs[0], lc.ctxType)
				if f == nil {
					return true
				}
				if b, ok := f.Type().Underlying().(*types.Basic); !ok || b.Info()&types.IsInteger == 0 {
					return true
				}
				dir := 0
				var delta func(e ast.Expr, depth int) int
				delta = func(e ast.Expr, depth int) int {
					e = unparen(e)
					if be, ok := e.(*ast.BinaryExpr); ok && (be.Op == token.ADD || be.Op == token.SUB) {
						if fieldOf(info, be.X, lc.ctxType) == f {
							if k, ok := constInt(info, be.Y); ok && k > 0 {
								if be.Op == token.ADD {
									return 1
								}
								return -1
							}
						}
					}
					if id := identOf(e); id != nil && depth < 2 {
						// a local defined once from such an expression
						obj := info.Uses[id]
						res := 0
						ast.Inspect(fd.Body, func(m ast.Node) bool {
							if as, ok := m.(*ast.AssignStmt); ok && len(as.Lhs) == len(as.Rhs) {
								for i, l := range as.Lhs {
									if lid := identOf(l); lid != nil && info.ObjectOf(lid) == obj && obj != nil {
										res = delta(as.Rhs[i], depth+1)
									}
								}
							}
							return true
						})
						return res
					}
					return 0
				}
				switch x.Tok {
				case token.ADD_ASSIGN:
					dir = 1
				case token.SUB_ASSIGN:
					dir = -1
				case token.ASSIGN:
					dir = delta(x.Rhs[0], 0)
				}
				if dir > 0 && retErr && sig.Params().Len() == 0 {
					lc.admit, lc.counter = m, f
				} else if dir < 0 && sig.Results().Len() == 0 {
					lc.release = m
				}
			case *ast.CallExpr:
				if _, typ, meth, ok := syncMethod(info, x); ok && typ == "WaitGroup" {
					sel := x.Fun.(*ast.SelectorExpr)
					if f := fieldOf(info, sel.X, lc.ctxType); f != nil {
						if meth == "Add" && retErr && sig.Params().Len() == 0 {
							lc.admit, lc.counter, lc.counterWG = m, f, true
						} else if meth == "Done" && sig.Results().Len() == 0 {
							lc.release = m
						}
					}
				}
			}
			return true
		})
	}
	if lc.admit == nil {
		return nil, "no admission method (error-returning, parameterless method of the context type that increments a counter field) found"
	}
	if lc.release == nil {
		return nil, "no release method (decrements the counter) found"
	}
	// flags: bool fields of the context read in conditions of the admission method
	fd := c.Decl(lc.admit)
	seen := map[*types.Var]bool{}
	noteFlags := func(cond ast.Node) {
		ast.Inspect(cond, func(m ast.Node) bool {
			if e, ok := m.(ast.Expr); ok {
				if f := fieldOf(info, e, lc.ctxType); f != nil && !seen[f] {
					if b, ok := f.Type().Underlying().(*types.Basic); ok && b.Kind() == types.Bool || isAtomicType(f.Type()) {
						seen[f] = true
						lc.flags = append(lc.flags, f)
					}
				}
			}
			return true
		})
	}
	ast.Inspect(fd.Body, func(n ast.Node) bool {
		switch x := n.(type) {
		case *ast.IfStmt:
			noteFlags(x.Cond)
		case *ast.AssignStmt:
			// the decision kept in a local: admitted := !ctx.closed
			for _, rh := range x.Rhs {
				if tv, ok := info.Types[rh]; ok {
					if b, ok := tv.Type.Underlying().(*types.Basic); ok && b.Kind() == types.Bool {
						noteFlags(rh)
					}
				}
			}
		}
		return true
	})
	if lc.doneFn != nil {
		if dfd := c.Decl(lc.doneFn); dfd != nil && len(dfd.Body.List) == 1 {
			if rs, ok := dfd.Body.List[0].(*ast.ReturnStmt); ok && len(rs.Results) == 1 {
				lc.doneChan = fieldOf(info, rs.Results[0], lc.ctxType)
			}
		}
	}
	return lc, ""
}

func init() {
	register(&Rule{ID: "C09.R1", Prop: "C09", Floor: 3,
		Doc: "release iff acquired: in every caller of the admission method the (deferred) release is reached only on paths where admission returned nil",
		Run: runC09R1})
	register(&Rule{ID: "C10.R5", Prop: "C10", Floor: 3,
		Doc: "the admission count survives a panic: in every caller of the context's admission method the release is deferred (so a Go panic below, recovered higher up as SystemError, still releases it) and is reached only where admission succeeded — a leaked count makes the next Close wait forever, which the Go runtime reports as a fatal deadlock",
		Run: runC09R1})
	register(&Rule{ID: "C09.R2", Prop: "C09", Floor: 4,
		Doc: "lifecycle fields (closed flag, busy counter) are only accessed under the context's mutex (must-hold lockset over every method and closure of package stdlib), or have an atomic/self-synchronising type",
		Run: runC09R2})
	register(&Rule{ID: "C09.R3", Prop: "C09", Floor: 2,
		Doc: "admission is atomic: the closed test and the counter increment lie in one critical section",
		Run: runC09R34})
	register(&Rule{ID: "C09.R5", Prop: "C09", Floor: 5,
		Doc: "Close: wait-for-quiescence precedes the module close callbacks precedes close(done), all inside the sync.Once function; close(done) and OnContextClosed occur nowhere else; Done only returns the channel",
		Run: runC09R5})
	register(&Rule{ID: "C09.R6", Prop: "C09", Floor: 3,
		Doc: "entry coverage: every exported method of the context type that reaches vm.EvalCode, ModuleStore.NewModule or py.Compile begins with a successful admission",
		Run: runC09R6})
}

// classifyAdmissionUse inspects one function that calls admit().
// returns verdict and explanation.
func classifyAdmissionUse(info *types.Info, lc *lifecycle, body *ast.BlockStmt) (Verdict, string, token.Pos) {
	isCallTo := func(e ast.Expr, fn *types.Func) bool {
		call, ok := unparen(e).(*ast.CallExpr)
		return ok && Callee(info, call) == fn
	}
	// top-level statement scan
	type ev struct {
		kind string // admit, check, defer-release, release, other-return
		pos  token.Pos
	}
	var evs []ev
	var errVar types.Object
	checked := false
	for _, s := range body.List {
		switch x := s.(type) {
		case *ast.AssignStmt:
			if len(x.Rhs) == 1 && isCallTo(x.Rhs[0], lc.admit) {
				if id, ok := x.Lhs[0].(*ast.Ident); ok {
					errVar = info.Defs[id]
					if errVar == nil {
						errVar = info.Uses[id]
					}
				}
				evs = append(evs, ev{"admit", x.Pos()})
				continue
			}
		case *ast.IfStmt:
			// if err := admit(); err != nil { return }
			if as, ok := x.Init.(*ast.AssignStmt); ok && len(as.Rhs) == 1 && isCallTo(as.Rhs[0], lc.admit) {
				if id, ok := as.Lhs[0].(*ast.Ident); ok {
					errVar = info.Defs[id]
				}
				evs = append(evs, ev{"admit", x.Pos()})
			}
			if b, ok := unparen(x.Cond).(*ast.BinaryExpr); ok && b.Op == token.NEQ && errVar != nil {
				if id, ok := unparen(b.X).(*ast.Ident); ok && info.Uses[id] == errVar {
					if y, ok := unparen(b.Y).(*ast.Ident); ok && y.Name == "nil" {
						// body must end in return
						if n := len(x.Body.List); n > 0 {
							if _, ok := x.Body.List[n-1].(*ast.ReturnStmt); ok && x.Else == nil {
								if !checked { // later tests of a reassigned err variable are not admission checks
									evs = append(evs, ev{"check", x.Pos()})
									checked = true
								}
								continue
							}
						}
					}
				}
			}
		case *ast.DeferStmt:
			if Callee(info, x.Call) == lc.release {
				evs = append(evs, ev{"defer-release", x.Pos()})
				continue
			}
		case *ast.ExprStmt:
			if isCallTo(x.X, lc.release) {
				evs = append(evs, ev{"release", x.Pos()})
				continue
			}
		}
		// nested uses anywhere else are shapes we do not know
		nested := false
		ast.Inspect(s, func(n ast.Node) bool {
			if call, ok := n.(*ast.CallExpr); ok {
				if f := Callee(info, call); f == lc.admit || f == lc.release {
					nested = true
				}
			}
			return true
		})
		if nested {
			return Undecided, "admission/release used in a statement shape outside the enumerated idioms", s.Pos()
		}
	}
	var seq []string
	for _, e := range evs {
		seq = append(seq, e.kind)
	}
	got := strings.Join(seq, ",")
	switch got {
	case "admit,check,defer-release":
		return OK, "admit; if err != nil {return}; defer release", evs[0].pos
	case "admit,defer-release,check":
		return Violation, "the release is deferred before the admission result is tested: it also runs when admission failed (counter goes negative; panic on any call after Close)", evs[1].pos
	case "admit,check":
		return Violation, "admission is never released in this function (Close would wait forever)", evs[0].pos
	case "admit,defer-release":
		return Violation, "admission result is not tested before the release is deferred", evs[0].pos
	case "admit":
		return Violation, "admission result is neither tested nor released", evs[0].pos
	}
	p := body.Pos()
	if len(evs) > 0 {
		p = evs[0].pos
	}
	return Undecided, "sequence " + got + " is not one of the enumerated admission idioms", p
}

func callersOf(c *Ctx, p *packages.Package, fn *types.Func) []*ast.FuncDecl {
	var out []*ast.FuncDecl
	for _, f := range c.Files(p) {
		for _, d := range f.Decls {
			fd, ok := d.(*ast.FuncDecl)
			if !ok || fd.Body == nil {
				continue
			}
			found := false
			ast.Inspect(fd.Body, func(n ast.Node) bool {
				if call, ok := n.(*ast.CallExpr); ok && Callee(p.TypesInfo, call) == fn {
					found = true
				}
				return true
			})
			if found {
				out = append(out, fd)
			}
		}
	}
	return out
}

func runC09R1(c *Ctx, r *Rep) {
	lc, why := discoverLifecycle(c)
	if lc == nil {
		r.undecided("stdlib|lifecycle roles", token.NoPos, "%s", why)
		return
	}
	r.note("context type %s, admission %s, release %s, counter field %s (WaitGroup=%v), flags %v, mutex %v",
		lc.ctxType.Obj().Name(), lc.admit.Name(), lc.release.Name(), lc.counter.Name(), lc.counterWG, varNames(lc.flags), lc.mutex)
	for _, fd := range callersOf(c, lc.pkg, lc.admit) {
		id := declID(lc.pkg, fd)
		r.analysed(id)
		v, msg, pos := classifyAdmissionUse(lc.pkg.TypesInfo, lc, fd.Body)
		r.add(v, "stdlib|"+id+"|call "+lc.admit.Name(), pos, true, "%s", msg)
	}
	// release must not be called from anywhere that did not admit
	for _, fd := range callersOf(c, lc.pkg, lc.release) {
		id := declID(lc.pkg, fd)
		has := false
		for _, g := range callersOf(c, lc.pkg, lc.admit) {
			if g == fd {
				has = true
			}
		}
		r.check(has, "stdlib|"+id+"|call "+lc.release.Name(), fd.Pos(), "release paired with an admission in the same function",
			"release is called from a function that never admitted")
	}
}

func varNames(vs []*types.Var) []string {
	var out []string
	for _, v := range vs {
		out = append(out, v.Name())
	}
	return out
}

// lifecycleFields = flags + counter (unless self-synchronising)
func (lc *lifecycle) guarded() map[*types.Var]bool {
	g := map[*types.Var]bool{}
	for _, f := range lc.flags {
		if !isAtomicType(f.Type()) {
			g[f] = true
		}
	}
	if !lc.counterWG && !isAtomicType(lc.counter.Type()) {
		g[lc.counter] = true
	}
	return g
}

func runC09R2(c *Ctx, r *Rep) {
	lc, why := discoverLifecycle(c)
	if lc == nil {
		r.undecided("stdlib|lifecycle roles", token.NoPos, "%s", why)
		return
	}
	guarded := lc.guarded()
	// also: any bool field of the context written inside Close is a lifecycle field
	if lc.closeFn != nil {
		info := lc.pkg.TypesInfo
		ast.Inspect(c.Decl(lc.closeFn).Body, func(n ast.Node) bool {
			if as, ok := n.(*ast.AssignStmt); ok {
				for _, l := range as.Lhs {
					if f := fieldOf(info, l, lc.ctxType); f != nil && !isAtomicType(f.Type()) && !isSyncType(f.Type(), "Mutex", "RWMutex", "WaitGroup", "Once", "Cond") {
						if _, isChan := f.Type().Underlying().(*types.Chan); !isChan {
							guarded[f] = true
						}
					}
				}
			}
			return true
		})
	}
	if len(guarded) == 0 {
		r.okTrivial("stdlib|"+lc.ctxType.Obj().Name()+"|lifecycle fields", lc.ctxType.Obj().Pos(), "all lifecycle fields have self-synchronising types")
	}
	if lc.nMutex > 1 {
		r.undecided("stdlib|"+lc.ctxType.Obj().Name()+"|mutex designation", lc.ctxType.Obj().Pos(), "context type has %d mutex fields; the rule needs one designated guard", lc.nMutex)
		return
	}
	for _, f := range c.Files(lc.pkg) {
		for _, d := range f.Decls {
			fd, ok := d.(*ast.FuncDecl)
			if !ok || fd.Body == nil {
				continue
			}
			id := declID(lc.pkg, fd)
			// a helper written since the reference and only ever called as a statement is seen in its callers, with
			// the locks they hold (the flattened body below), not on its own
			if isNewFunc(id) && !fd.Name.IsExported() && onlyStatementCalls(c, lc.pkg, fd) {
				continue
			}
			fd = &ast.FuncDecl{Name: fd.Name, Recv: fd.Recv, Type: fd.Type, Body: c.FlattenNew(lc.pkg, fd)}
			// constructor exemption: accesses through a local variable initialised from a composite literal of the context type
			fresh := freshLocals(lc.pkg.TypesInfo, fd, lc.ctxType)
			w := &lockWalker{info: lc.pkg.TypesInfo}
			w.onAccess = func(sel *ast.SelectorExpr, fld *types.Var, write bool, held map[string]int) {
				if !guarded[fld] {
					return
				}
				if fieldOf(lc.pkg.TypesInfo, sel, lc.ctxType) != fld {
					return
				}
				r.analysed(id)
				mode := "read"
				if write {
					mode = "write"
				}
				key := fmt.Sprintf("stdlib|%s|field %s %s", id, fld.Name(), mode)
				if base, ok := unparen(sel.X).(*ast.Ident); ok && fresh[lc.pkg.TypesInfo.Uses[base]] {
					r.okTrivial(key, sel.Pos(), "access to a freshly constructed, unpublished object")
					return
				}
				if lc.mutex == nil {
					r.bad(key, sel.Pos(), "lifecycle field %s is %s here without any synchronisation: the context type has no mutex and the field is a plain %s (data race between Close and executions on other goroutines)", fld.Name(), modeVerb(mode), fld.Type())
					return
				}
				want := exprStr(sel.X) + "." + lc.mutex.Name()
				if _, ok := held[want]; ok {
					r.ok(key, sel.Pos(), "under %s", want)
				} else {
					r.bad(key, sel.Pos(), "lifecycle field %s is %s without holding %s (held: %v)", fld.Name(), modeVerb(mode), want, heldNames(held))
				}
			}
			w.walkFunc(fd.Body)
			for i, p := range w.undecided {
				r.undecided("stdlib|"+id+"|lockset", p, "%s", w.undecWhy[i])
			}
		}
	}
}

func modeVerb(m string) string {
	if m == "write" {
		return "written"
	}
	return "read"
}

func heldNames(h map[string]int) []string {
	var out []string
	for k := range h {
		out = append(out, k)
	}
	sort.Strings(out)
	return out
}

func freshLocals(info *types.Info, fd *ast.FuncDecl, t *types.Named) map[types.Object]bool {
	out := map[types.Object]bool{}
	ast.Inspect(fd.Body, func(n ast.Node) bool {
		as, ok := n.(*ast.AssignStmt)
		if !ok || as.Tok != token.DEFINE || len(as.Lhs) != 1 || len(as.Rhs) != 1 {
			return true
		}
		e := unparen(as.Rhs[0])
		if u, ok := e.(*ast.UnaryExpr); ok && u.Op == token.AND {
			e = u.X
		}
		if cl, ok := e.(*ast.CompositeLit); ok {
			if tv, ok := info.Types[cl]; ok && types.Identical(tv.Type, t) {
				if id, ok := as.Lhs[0].(*ast.Ident); ok {
					out[info.Defs[id]] = true
				}
			}
		}
		return true
	})
	return out
}

// R3 (admission atomic) and R4 (quiescence atomic with closing)
func runC09R34(c *Ctx, r *Rep) {
	lc, why := discoverLifecycle(c)
	if lc == nil {
		r.undecided("stdlib|lifecycle roles", token.NoPos, "%s", why)
		return
	}
	info := lc.pkg.TypesInfo
	isFlag := func(f *types.Var) bool {
		for _, g := range lc.flags {
			if g == f {
				return true
			}
		}
		return false
	}
	// --- R3
	fd := c.Decl(lc.admit)
	id := declID(lc.pkg, fd)
	r.analysed(id)
	testSec, incSec := -1, -1
	var testPos, incPos token.Pos
	w := &lockWalker{info: info}
	secOf := func(recv ast.Expr, held map[string]int) int {
		if lc.mutex == nil {
			return 0
		}
		return held[exprStr(recv)+"."+lc.mutex.Name()]
	}
	w.onAccess = func(sel *ast.SelectorExpr, fld *types.Var, write bool, held map[string]int) {
		if fieldOf(info, sel, lc.ctxType) != fld {
			return
		}
		if isFlag(fld) && !write {
			testSec, testPos = secOf(sel.X, held), sel.Pos()
		}
		if fld == lc.counter && (write || lc.counterWG) {
			incSec, incPos = secOf(sel.X, held), sel.Pos()
		}
	}
	w.walkFunc(fd.Body)
	key := "stdlib|" + id + "|closed-test and increment"
	switch {
	case len(lc.flags) == 0:
		r.bad(key, fd.Pos(), "admission does not test any closed flag: executions are admitted after Close")
	case testSec == -1 || incSec == -1:
		r.undecided(key, fd.Pos(), "could not locate the flag test (%d) or the counter increment (%d)", testSec, incSec)
	case testSec == 0 || incSec == 0:
		p := testPos
		if incSec == 0 {
			p = incPos
		}
		r.bad(key, p, "the closed test and the counter increment are not inside a critical section of the context's mutex: Close can complete between them, admitting an execution after the close callbacks ran")
	case testSec != incSec:
		r.bad(key, incPos, "the closed test and the counter increment are in different critical sections (check-then-act)")
	default:
		r.ok(key, testPos, "test of %v and increment of %s in one critical section", varNames(lc.flags), lc.counter.Name())
	}
	// --- R4
	if lc.closeFn == nil {
		r.undecided("stdlib|Close", token.NoPos, "context type has no Close method")
		return
	}
	cfd := c.Decl(lc.closeFn)
	cid := declID(lc.pkg, cfd)
	r.analysed(cid)
	type evt struct {
		kind string
		sec  int
		pos  token.Pos
		ord  int
	}
	var evs []evt
	ord := 0
	w2 := &lockWalker{info: info}
	w2.onAccess = func(sel *ast.SelectorExpr, fld *types.Var, write bool, held map[string]int) {
		if fieldOf(info, sel, lc.ctxType) != fld {
			return
		}
		ord++
		if isFlag(fld) && write {
			evs = append(evs, evt{"set-flag", secOf(sel.X, held), sel.Pos(), ord})
		}
		if fld == lc.counter && !lc.counterWG && !write {
			evs = append(evs, evt{"read-counter", secOf(sel.X, held), sel.Pos(), ord})
		}
	}
	w2.onCall = func(call *ast.CallExpr, held map[string]int) {
		ord++
		if _, typ, m, ok := syncMethod(info, call); ok {
			sel := call.Fun.(*ast.SelectorExpr)
			switch {
			case typ == "WaitGroup" && m == "Wait":
				evs = append(evs, evt{"wg-wait", 0, call.Pos(), ord})
			case typ == "Cond" && m == "Wait":
				sec := 0
				if inner, ok := unparen(sel.X).(*ast.SelectorExpr); ok {
					sec = secOf(inner.X, held)
				}
				evs = append(evs, evt{"cond-wait", sec, call.Pos(), ord})
			}
		}
	}
	// the close sequence as one body, whether it is written in Close or split over helpers of the package
	flatClose := &ast.FuncDecl{Name: cfd.Name, Recv: cfd.Recv, Type: cfd.Type, Body: c.Flatten(lc.pkg, cfd)}
	w2.walkFunc(flatClose.Body)
	key = "stdlib|" + cid + "|quiescence atomic with closing"
	var setFlag, wgWait, condWait, readCounter *evt
	for i := range evs {
		e := &evs[i]
		switch e.kind {
		case "set-flag":
			if setFlag == nil {
				setFlag = e
			}
		case "wg-wait":
			wgWait = e
		case "cond-wait":
			condWait = e
		case "read-counter":
			readCounter = e
		}
	}
	switch {
	case setFlag == nil:
		r.bad(key, cfd.Pos(), "Close never sets a flag that the admission method tests (%v): executions are still admitted after Close", varNames(lc.flags))
	case wgWait != nil:
		// flag must be set, under the mutex, before the wait begins
		if setFlag.ord < wgWait.ord && setFlag.sec != 0 {
			r.ok(key, setFlag.pos, "admission-blocking flag set under the mutex before WaitGroup.Wait")
		} else if setFlag.ord < wgWait.ord {
			r.bad(key, setFlag.pos, "the admission-blocking flag is written outside the mutex before the wait")
		} else {
			r.bad(key, setFlag.pos, "Close waits for running executions first and only then sets the flag admission tests (%v): an execution admitted while Close waits, or between the wait and the flag, runs concurrently with / after the close callbacks", varNames(lc.flags))
		}
	case condWait != nil && readCounter != nil && !waitInCounterLoop(info, lc, flatClose):
		r.bad(key, condWait.pos, "the condition-variable wait is not inside a `for` loop that re-tests the busy counter: after a wake-up Close does not re-check that no execution was admitted in between (a run admitted between the Broadcast and Close re-acquiring the mutex is not waited for)")
	case condWait != nil && readCounter != nil:
		if setFlag.sec != 0 && setFlag.sec == condWait.sec && setFlag.sec == readCounter.sec && setFlag.ord > condWait.ord {
			r.ok(key, setFlag.pos, "flag set in the critical section that observed the counter at zero")
		} else if setFlag.sec != 0 && setFlag.ord < condWait.ord {
			r.ok(key, setFlag.pos, "flag set under the mutex before waiting")
		} else {
			r.bad(key, setFlag.pos, "the flag is not set in the critical section that observes the counter at zero (sections: flag %d, wait %d, counter read %d)", setFlag.sec, condWait.sec, readCounter.sec)
		}
	default:
		r.bad(key, cfd.Pos(), "Close does not wait for admitted executions (no WaitGroup.Wait and no cond-wait loop on the counter)")
	}
}

// waitInCounterLoop: every sync.Cond.Wait in Close sits in a for loop whose condition reads the counter.
func waitInCounterLoop(info *types.Info, lc *lifecycle, fd *ast.FuncDecl) bool {
	ok := true
	var stack []ast.Node
	ast.Inspect(fd.Body, func(n ast.Node) bool {
		if n == nil {
			stack = stack[:len(stack)-1]
			return true
		}
		stack = append(stack, n)
		call, isCall := n.(*ast.CallExpr)
		if !isCall {
			return true
		}
		if _, typ, m, is := syncMethod(info, call); !is || typ != "Cond" || m != "Wait" {
			return true
		}
		inLoop := false
		for i := len(stack) - 2; i >= 0; i-- {
			if _, isLit := stack[i].(*ast.FuncLit); isLit {
				break
			}
			if f, isFor := stack[i].(*ast.ForStmt); isFor {
				// the loop re-tests the counter: in its condition, or in an `if … { break }` of its body
				reads := false
				look := func(e ast.Node) {
					if e == nil {
						return
					}
					ast.Inspect(e, func(m ast.Node) bool {
						if x, isE := m.(ast.Expr); isE && fieldOf(info, x, lc.ctxType) == lc.counter {
							reads = true
						}
						return true
					})
				}
				if f.Cond != nil {
					look(f.Cond)
				}
				for _, st := range f.Body.List {
					if is, ok := st.(*ast.IfStmt); ok {
						leaves := false
						ast.Inspect(is.Body, func(m ast.Node) bool {
							if b, ok := m.(*ast.BranchStmt); ok && b.Tok == token.BREAK {
								leaves = true
							}
							return true
						})
						if leaves {
							look(is.Cond)
						}
					}
				}
				if reads {
					inLoop = true
				}
				break
			}
		}
		if !inLoop {
			ok = false
		}
		return true
	})
	return ok
}

func runC09R5(c *Ctx, r *Rep) {
	lc, why := discoverLifecycle(c)
	if lc == nil {
		r.undecided("stdlib|lifecycle roles", token.NoPos, "%s", why)
		return
	}
	if lc.closeFn == nil {
		r.undecided("stdlib|Close", token.NoPos, "no Close method")
		return
	}
	info := lc.pkg.TypesInfo
	cfd := c.Decl(lc.closeFn)
	cid := declID(lc.pkg, cfd)
	r.analysed(cid)
	onClosed := c.Method("py", "ModuleStore", "OnContextClosed")
	if onClosed == nil {
		r.undecided("py|ModuleStore.OnContextClosed", token.NoPos, "anchor method not found")
		return
	}
	// the Once function: a function literal, or a method of the context handed over as a method value
	var onceLit *ast.FuncLit
	ast.Inspect(cfd.Body, func(n ast.Node) bool {
		if call, ok := n.(*ast.CallExpr); ok {
			if _, typ, m, ok := syncMethod(info, call); ok && typ == "Once" && m == "Do" && len(call.Args) == 1 {
				switch a := unparen(call.Args[0]).(type) {
				case *ast.FuncLit:
					onceLit = a
				case *ast.SelectorExpr:
					if f, ok := info.Uses[a.Sel].(*types.Func); ok && f.Pkg() == lc.pkg.Types {
						if d := c.Decl(f); d != nil && d.Body != nil {
							onceLit = &ast.FuncLit{Type: d.Type, Body: d.Body}
						}
					}
				}
			}
		}
		return true
	})
	key := "stdlib|" + cid + "|"
	if onceLit == nil {
		r.bad(key+"once", cfd.Pos(), "Close does not run its body under sync.Once.Do: repeated or concurrent Close calls are not idempotent")
		return
	}
	r.ok(key+"once", onceLit.Pos(), "close sequence runs inside sync.Once.Do")
	// statements that only call a helper of the package stand for the helper's statements
	var region []*ast.BlockStmt
	var flatten func(list []ast.Stmt, depth int) []ast.Stmt
	flatten = func(list []ast.Stmt, depth int) []ast.Stmt {
		var out []ast.Stmt
		for _, st := range list {
			if es, ok := st.(*ast.ExprStmt); ok && depth < 4 {
				if call, ok := es.X.(*ast.CallExpr); ok {
					if f := Callee(info, call); f != nil && f.Pkg() == lc.pkg.Types && f != lc.closeFn {
						if d := c.Decl(f); d != nil && d.Body != nil {
							region = append(region, d.Body)
							out = append(out, flatten(d.Body.List, depth+1)...)
							continue
						}
					}
				}
			}
			out = append(out, st)
		}
		return out
	}
	region = append(region, onceLit.Body)
	onceLit = &ast.FuncLit{Type: onceLit.Type, Body: &ast.BlockStmt{Lbrace: onceLit.Body.Lbrace, List: flatten(onceLit.Body.List, 0), Rbrace: onceLit.Body.Rbrace}}
	inRegion := func(pos, end token.Pos) bool {
		for _, b := range region {
			if pos >= b.Pos() && end <= b.End() {
				return true
			}
		}
		return false
	}
	// top-level statement indices inside the literal
	idx := map[string]int{"wait": -1, "callbacks": -1, "close": -1}
	cnt := map[string]int{}
	for i, s := range onceLit.Body.List {
		ast.Inspect(s, func(n ast.Node) bool {
			call, ok := n.(*ast.CallExpr)
			if !ok {
				return true
			}
			if _, typ, m, ok := syncMethod(info, call); ok && ((typ == "WaitGroup" && m == "Wait") || (typ == "Cond" && m == "Wait")) {
				idx["wait"] = i
				cnt["wait"]++
			}
			if Callee(info, call) == onClosed {
				if idx["callbacks"] == -1 {
					idx["callbacks"] = i
				}
				cnt["callbacks"]++
			}
			if isBuiltinCall(info, call, "close") && len(call.Args) == 1 && lc.doneChan != nil && fieldOf(info, call.Args[0], lc.ctxType) == lc.doneChan {
				if idx["close"] == -1 {
					idx["close"] = i
				}
				cnt["close"]++
			}
			return true
		})
	}
	r.check(idx["wait"] >= 0, key+"waits", onceLit.Pos(), "waits for admitted executions", "the Once function never waits for admitted executions")
	r.check(idx["callbacks"] >= 0 && cnt["callbacks"] == 1, key+"callbacks once", onceLit.Pos(), "module close callbacks called exactly once",
		fmt.Sprintf("module close callbacks are called %d times in the Once function", cnt["callbacks"]))
	r.check(idx["close"] >= 0 && cnt["close"] == 1, key+"done closed once", onceLit.Pos(), "done channel closed exactly once",
		fmt.Sprintf("done channel closed %d times in the Once function (Done would never be signalled, or close panics)", cnt["close"]))
	if idx["wait"] >= 0 && idx["callbacks"] >= 0 {
		r.check(idx["wait"] < idx["callbacks"], key+"wait before callbacks", onceLit.Body.List[idx["callbacks"]].Pos(), "wait ≺ callbacks",
			"module close callbacks run before Close has waited for the admitted executions")
	}
	if idx["callbacks"] >= 0 && idx["close"] >= 0 {
		r.check(idx["callbacks"] < idx["close"], key+"callbacks before done", onceLit.Body.List[idx["close"]].Pos(), "callbacks ≺ close(done)",
			"Done is signalled before the module close callbacks have run")
	}
	if idx["wait"] >= 0 && idx["close"] >= 0 {
		r.check(idx["wait"] < idx["close"], key+"wait before done", onceLit.Body.List[idx["close"]].Pos(), "wait ≺ close(done)",
			"Done is signalled before Close has waited for the admitted executions")
	}
	// the context mutex is released before the callbacks run and Done is signalled: a callback (or a waiter on Done)
	// that asks the context for anything takes the same mutex in the admission method
	locked, deferredUnlock := -1, false
	unlocked := -1
	for i, s := range onceLit.Body.List {
		var call *ast.CallExpr
		isDefer := false
		switch x := s.(type) {
		case *ast.ExprStmt:
			call, _ = x.X.(*ast.CallExpr)
		case *ast.DeferStmt:
			call, isDefer = x.Call, true
		}
		if call == nil {
			continue
		}
		if _, typ, m, ok := syncMethod(info, call); ok && (typ == "Mutex" || typ == "RWMutex") {
			switch {
			case m == "Lock" && locked < 0:
				locked = i
			case m == "Unlock" && isDefer:
				deferredUnlock = true
			case m == "Unlock" && unlocked < 0:
				unlocked = i
			}
		}
	}
	if locked >= 0 && idx["callbacks"] >= 0 {
		r.check(!deferredUnlock && unlocked >= 0 && unlocked < idx["callbacks"], key+"mutex released before callbacks", onceLit.Body.List[idx["callbacks"]].Pos(),
			"the context mutex is released before the module close callbacks run",
			"the context mutex taken for the quiescence wait is still held while the module close callbacks run (deferred or late Unlock): a callback that calls back into the context — even just to be refused with 'Context closed' — blocks in the admission method forever, and Close never returns")
	}
	// no conditional around them: they must be top-level statements or we do not know the order
	// close(done) / OnContextClosed nowhere else in the module (non-test files)
	for _, p := range c.ModulePkgs() {
		for _, f := range c.Files(p) {
			for _, d := range f.Decls {
				fd, ok := d.(*ast.FuncDecl)
				if !ok || fd.Body == nil {
					continue
				}
				ast.Inspect(fd.Body, func(n ast.Node) bool {
					call, ok := n.(*ast.CallExpr)
					if !ok {
						return true
					}
					inOnce := inRegion(call.Pos(), call.End())
					if Callee(p.TypesInfo, call) == onClosed && !inOnce {
						r.bad(shortPkg(p.PkgPath)+"|"+declID(p, fd)+"|call OnContextClosed", call.Pos(), "module close callbacks are invoked outside the context's Once-guarded close sequence")
					}
					if p == lc.pkg && isBuiltinCall(p.TypesInfo, call, "close") && len(call.Args) == 1 && lc.doneChan != nil &&
						fieldOf(p.TypesInfo, call.Args[0], lc.ctxType) == lc.doneChan && !inOnce {
						r.bad("stdlib|"+declID(p, fd)+"|close(done)", call.Pos(), "the done channel is closed outside the Once-guarded close sequence")
					}
					return true
				})
			}
		}
	}
	// Done only returns the channel
	if lc.doneFn == nil || lc.doneChan == nil {
		r.bad("stdlib|Done", cfd.Pos(), "Done is not a single `return <done channel field>`")
	} else {
		r.ok("stdlib|Done", c.Decl(lc.doneFn).Pos(), "Done returns field %s", lc.doneChan.Name())
		// the done channel is written only at construction
		for _, f := range c.Files(lc.pkg) {
			ast.Inspect(f, func(n ast.Node) bool {
				if as, ok := n.(*ast.AssignStmt); ok {
					for _, l := range as.Lhs {
						if fieldOf(info, l, lc.ctxType) == lc.doneChan {
							r.bad("stdlib|assign done channel", as.Pos(), "the done channel field is reassigned after construction")
						}
					}
				}
				return true
			})
		}
	}
}

func runC09R6(c *Ctx, r *Rep) {
	lc, why := discoverLifecycle(c)
	if lc == nil {
		r.undecided("stdlib|lifecycle roles", token.NoPos, "%s", why)
		return
	}
	info := lc.pkg.TypesInfo
	evalCode := c.Func("vm", "EvalCode")
	newModule := c.Method("py", "ModuleStore", "NewModule")
	var compileVar types.Object
	if pyp := c.Pkg("py"); pyp != nil {
		compileVar = pyp.Types.Scope().Lookup("Compile")
	}
	if evalCode == nil || newModule == nil || compileVar == nil {
		r.undecided("anchors", token.NoPos, "vm.EvalCode / ModuleStore.NewModule / py.Compile not found")
		return
	}
	for _, m := range lc.methods {
		if !m.Exported() {
			continue
		}
		fd := c.Decl(m)
		if fd == nil || fd.Body == nil {
			continue
		}
		var sinks []string
		ast.Inspect(fd.Body, func(n ast.Node) bool {
			call, ok := n.(*ast.CallExpr)
			if !ok {
				return true
			}
			if f := Callee(info, call); f != nil && (f == evalCode || f == newModule) {
				sinks = append(sinks, f.Name())
			}
			if sel, ok := call.Fun.(*ast.SelectorExpr); ok && info.Uses[sel.Sel] == compileVar {
				sinks = append(sinks, "py.Compile")
			}
			return true
		})
		id := declID(lc.pkg, fd)
		key := "stdlib|" + id + "|entry admission"
		if len(sinks) == 0 {
			r.okTrivial(key, fd.Pos(), "does not start an execution, compile or module creation itself")
			continue
		}
		r.analysed(id)
		v, msg, pos := classifyAdmissionUse(info, lc, fd.Body)
		// the admission must be the first statement(s): nothing that reaches a sink may precede it
		if v == OK {
			first := fd.Body.List[0]
			isAdmit := false
			ast.Inspect(first, func(n ast.Node) bool {
				if call, ok := n.(*ast.CallExpr); ok && Callee(info, call) == lc.admit {
					isAdmit = true
				}
				return true
			})
			if !isAdmit {
				v, msg = Violation, "admission is not the first action of the entry point"
			}
		}
		if v == Undecided && !strings.Contains(msg, "idioms") {
			v = Violation
		}
		if v == Undecided {
			// no admission at all?
			has := false
			ast.Inspect(fd.Body, func(n ast.Node) bool {
				if call, ok := n.(*ast.CallExpr); ok && Callee(info, call) == lc.admit {
					has = true
				}
				return true
			})
			if !has {
				v, msg = Violation, "entry point is not admitted at all"
			}
		}
		r.add(v, key, pos, true, "reaches %v; %s", sinks, msg)
	}
}
