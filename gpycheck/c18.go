package main

import (
	"fmt"
	"go/token"
	"go/types"
	"strings"

	"golang.org/x/tools/go/callgraph"
	"golang.org/x/tools/go/ssa"
)

func init() {
	register(&Rule{ID: "C18.R1", Prop: "C18", Floor: 6,
		Doc: "map-iteration order cannot reach the output: every `range` over a map in a function of parser/ast/symtable/compile reachable from the pipeline entry points has per-iteration effects that commute (keyed writes, idempotent stores, commutative accumulation, appends sorted before use, inlined callees likewise) — decided for all inputs at once",
		Run: runC18R1})
	register(&Rule{ID: "C18.R2", Prop: "C18", Floor: 30,
		Doc: "pipeline purity: no function reachable from compile.Compile / parser.Parse / symtable.NewSymTable through static calls (and dynamic calls that stay inside the pipeline packages) stores to package-level state (ssa Store/MapUpdate rooted at a Global), so a compilation leaves nothing behind and two compilations cannot interfere",
		Run: runC18R2})
	register(&Rule{ID: "C18.R3", Prop: "C18", Floor: 30,
		Doc: "no nondeterminism sources in the pipeline region: no goroutine, select, time/rand/environment/pid query, pointer-to-integer conversion or unsafe use is reachable",
		Run: runC18R3})
}

func runC18R1(c *Ctx, r *Rep) {
	reach := pipelineReachable(c)
	mrs := findMapRanges(c, pipelinePkgs, reach)
	for _, mr := range mrs {
		id := declID(mr.pkg, mr.fd)
		r.analysed(id)
		key := fmt.Sprintf("%s|%s|range %s", shortPkg(mr.pkg.PkgPath), id, mr.what)
		res := classifyMapRange(c, mr)
		for _, n := range res.notes {
			r.note("%s: %s", id, strings.ReplaceAll(n, c.Repo+"/", ""))
		}
		if len(res.problems) > 0 {
			var ps []string
			for _, p := range res.problems {
				ps = append(ps, strings.ReplaceAll(p, c.Repo+"/", ""))
			}
			r.bad(key, mr.rs.Pos(), "iterations of this map range do not commute: %s", strings.Join(clip(ps, 3), " | "))
		} else {
			r.ok(key, mr.rs.Pos(), "iterations commute (%d keyed writes, %d callees inlined, %d notes)", res.keyed, res.calls, len(res.notes))
		}
	}
}

// pipelineRegion: SSA functions reachable from the roots following static call edges anywhere in the module and
// dynamic (interface / func value) edges only while the callee is in a pipeline package.
func pipelineRegion(c *Ctx) []*ssa.Function {
	cg := c.CallGraph()
	inPipe := func(f *ssa.Function) bool {
		pp := pkgPathOf(f)
		for _, rel := range pipelinePkgs {
			if pp == modPath+"/"+rel {
				return true
			}
		}
		return false
	}
	var roots []*ssa.Function
	for _, a := range [][2]string{{"compile", "Compile"}, {"parser", "Parse"}, {"parser", "ParseString"}, {"parser", "Lex"}, {"symtable", "NewSymTable"}} {
		if f := c.SSAFunc(c.Func(a[0], a[1])); f != nil {
			roots = append(roots, f)
		}
	}
	seen := map[*ssa.Function]bool{}
	var order []*ssa.Function
	var visit func(f *ssa.Function)
	visit = func(f *ssa.Function) {
		if f == nil || seen[f] || f.Blocks == nil {
			return
		}
		pp := pkgPathOf(f)
		if pp != modPath && !strings.HasPrefix(pp, modPath+"/") {
			return
		}
		seen[f] = true
		order = append(order, f)
		for _, an := range f.AnonFuncs {
			visit(an)
		}
		n := cg.Nodes[f]
		if n == nil {
			return
		}
		for _, e := range n.Out {
			callee := e.Callee.Func
			static := e.Site != nil && e.Site.Common().StaticCallee() != nil
			if static || inPipe(callee) {
				visit(callee)
			}
		}
	}
	for _, f := range roots {
		visit(f)
	}
	return order
}

var _ = callgraph.Node{}

// globalRoot returns the package-level variable an address is rooted at, if any.
func globalRoot(v ssa.Value) *ssa.Global {
	for i := 0; i < 12; i++ {
		switch x := v.(type) {
		case *ssa.Global:
			return x
		case *ssa.FieldAddr:
			v = x.X
		case *ssa.IndexAddr:
			v = x.X
		case *ssa.UnOp:
			// *g (load of a pointer/map/slice held in a global): a write through it mutates shared state
			v = x.X
		case *ssa.ChangeType:
			v = x.X
		case *ssa.Convert:
			v = x.X
		default:
			return nil
		}
	}
	return nil
}

func runC18R2(c *Ctx, r *Rep) {
	region := pipelineRegion(c)
	r.note("%d functions in the pipeline region", len(region))
	for _, fn := range region {
		id := ssaFuncID(fn)
		r.analysed(id)
		var writes []string
		var pos token.Pos
		for _, b := range fn.Blocks {
			for _, in := range b.Instrs {
				switch x := in.(type) {
				case *ssa.Store:
					if g := globalRoot(x.Addr); g != nil {
						writes = append(writes, "store to "+g.Name())
						pos = x.Pos()
					}
				case *ssa.MapUpdate:
					if g := globalRoot(x.Map); g != nil {
						writes = append(writes, "map update of "+g.Name())
						pos = x.Pos()
					}
				}
			}
		}
		key := shortPkg(pkgPathOf(fn)) + "|" + id + "|package-level writes"
		if len(writes) > 0 {
			r.bad(key, pos, "reachable from the compile pipeline and writes package-level state (%s): a compilation leaves state behind that another compilation or a running context can observe, and concurrent compilations race", strings.Join(uniq(writes), ", "))
		} else {
			r.okTrivial(key, fn.Pos(), "no package-level writes")
		}
	}
}

func runC18R3(c *Ctx, r *Rep) {
	region := pipelineRegion(c)
	badCallee := func(f *types.Func) string {
		if f == nil || f.Pkg() == nil {
			return ""
		}
		switch f.Pkg().Path() {
		case "math/rand", "crypto/rand", "math/rand/v2":
			return "random numbers"
		case "time":
			switch f.Name() {
			case "Now", "Since", "Until", "Tick", "After", "Sleep":
				return "the clock"
			}
		case "os":
			switch f.Name() {
			case "Getenv", "Environ", "LookupEnv", "Getpid", "Hostname", "Getwd", "Getuid":
				return "the process environment"
			}
		case "unsafe":
			return "unsafe"
		case "runtime":
			switch f.Name() {
			case "NumGoroutine", "NumCPU", "GOMAXPROCS":
				return "the runtime configuration"
			}
		}
		return ""
	}
	for _, fn := range region {
		id := ssaFuncID(fn)
		var probs []string
		var pos token.Pos
		for _, b := range fn.Blocks {
			for _, in := range b.Instrs {
				switch x := in.(type) {
				case *ssa.Go:
					probs = append(probs, "starts a goroutine")
					pos = x.Pos()
				case *ssa.Select:
					probs = append(probs, "select statement")
					pos = x.Pos()
				case *ssa.Convert:
					if b, ok := x.Type().Underlying().(*types.Basic); ok && b.Kind() == types.Uintptr {
						if _, isPtr := x.X.Type().Underlying().(*types.Pointer); isPtr {
							probs = append(probs, "pointer converted to integer")
							pos = x.Pos()
						}
						if bb, ok := x.X.Type().Underlying().(*types.Basic); ok && bb.Kind() == types.UnsafePointer {
							probs = append(probs, "unsafe.Pointer converted to integer")
							pos = x.Pos()
						}
					}
				case *ssa.UnOp:
					// a package-level pointer to a mutable module object handed into the pipeline: whatever is written
					// through it (MakeSyntaxError fills in file name and line) is visible to every other compilation
					if x.Op == token.MUL && inPipelinePkg(fn) {
						if g, ok := x.X.(*ssa.Global); ok {
							if pt, ok := g.Type().(*types.Pointer); ok { // type of the variable's address
								if ept, ok := pt.Elem().(*types.Pointer); ok {
									if n, ok := ept.Elem().(*types.Named); ok && n.Obj().Pkg() != nil && n.Obj().Name() == "Exception" && strings.HasPrefix(n.Obj().Pkg().Path(), modPath) {
										probs = append(probs, "uses the package-level exception object "+g.Name()+" (shared by all compilations and completed in place by MakeSyntaxError)")
										pos = x.Pos()
									}
								}
							}
						}
					}
				case ssa.CallInstruction:
					if f := x.Common().StaticCallee(); f != nil {
						if obj, ok := f.Object().(*types.Func); ok {
							if why := badCallee(obj); why != "" {
								probs = append(probs, "consults "+why+" ("+FuncID(obj)+")")
								pos = x.Pos()
							}
							// object pools / concurrent maps at package level: state that outlives one compilation
							if obj.Pkg() != nil && obj.Pkg().Path() == "sync" {
								if sig := obj.Type().(*types.Signature); sig.Recv() != nil {
									rn := namedTypeName(sig.Recv().Type())
									if strings.HasSuffix(rn, "sync.Pool") || strings.HasSuffix(rn, "sync.Map") {
										probs = append(probs, "uses a "+strings.TrimPrefix(rn, "*")+" ("+obj.Name()+"): objects recycled between compilations carry state from one to the next, and between concurrent ones if released too early")
										pos = x.Pos()
									}
								}
							}
						}
					}
				}
			}
		}
		key := shortPkg(pkgPathOf(fn)) + "|" + id + "|nondeterminism sources"
		if len(probs) > 0 {
			r.bad(key, pos, "reachable from the compile pipeline and %s: the code object can differ between compilations of the same input", strings.Join(uniq(probs), ", "))
		} else {
			r.okTrivial(key, fn.Pos(), "none")
		}
	}
}

func inPipelinePkg(f *ssa.Function) bool {
	pp := pkgPathOf(f)
	for _, rel := range pipelinePkgs {
		if pp == modPath+"/"+rel {
			return true
		}
	}
	return false
}
