package main

import (
	"fmt"
	"go/ast"
	"go/token"
	"go/types"
	"sort"
	"strings"

	"golang.org/x/tools/go/packages"
)

// ---- spec table: Language Reference §3.3.7 / §6; CPython ceval.c BINARY_*/INPLACE_*; object.c do_richcompare ----

type binSpec struct {
	astConst string // ast.OperatorNumber constant
	binOp    string // opcode
	api      string // py function
	dunder   string // __add__
	rdunder  string
	inOp     string
	iapi     string
	idunder  string
	ternary  bool
}

var binSpecs = []binSpec{
	{"Add", "BINARY_ADD", "Add", "add", "radd", "INPLACE_ADD", "IAdd", "iadd", false},
	{"Sub", "BINARY_SUBTRACT", "Sub", "sub", "rsub", "INPLACE_SUBTRACT", "ISub", "isub", false},
	{"Mult", "BINARY_MULTIPLY", "Mul", "mul", "rmul", "INPLACE_MULTIPLY", "IMul", "imul", false},
	{"Div", "BINARY_TRUE_DIVIDE", "TrueDiv", "truediv", "rtruediv", "INPLACE_TRUE_DIVIDE", "ITrueDiv", "itruediv", false},
	{"FloorDiv", "BINARY_FLOOR_DIVIDE", "FloorDiv", "floordiv", "rfloordiv", "INPLACE_FLOOR_DIVIDE", "IFloorDiv", "ifloordiv", false},
	{"Modulo", "BINARY_MODULO", "Mod", "mod", "rmod", "INPLACE_MODULO", "IMod", "imod", false},
	{"Pow", "BINARY_POWER", "Pow", "pow", "rpow", "INPLACE_POWER", "IPow", "ipow", true},
	{"LShift", "BINARY_LSHIFT", "Lshift", "lshift", "rlshift", "INPLACE_LSHIFT", "ILshift", "ilshift", false},
	{"RShift", "BINARY_RSHIFT", "Rshift", "rshift", "rrshift", "INPLACE_RSHIFT", "IRshift", "irshift", false},
	{"BitAnd", "BINARY_AND", "And", "and", "rand", "INPLACE_AND", "IAnd", "iand", false},
	{"BitXor", "BINARY_XOR", "Xor", "xor", "rxor", "INPLACE_XOR", "IXor", "ixor", false},
	{"BitOr", "BINARY_OR", "Or", "or", "ror", "INPLACE_OR", "IOr", "ior", false},
}

var unarySpecs = []struct{ astConst, op, api, dunder string }{
	{"Invert", "UNARY_INVERT", "Invert", "invert"},
	{"Not", "UNARY_NOT", "Not", ""}, // truth value, not a dunder dispatch
	{"UAdd", "UNARY_POSITIVE", "Pos", "pos"},
	{"USub", "UNARY_NEGATIVE", "Neg", "neg"},
}

var cmpSpecs = []struct{ astConst, cmp, api, dunder, reflected string }{
	{"Eq", "PyCmp_EQ", "Eq", "eq", "eq"},
	{"NotEq", "PyCmp_NE", "Ne", "ne", "ne"},
	{"Lt", "PyCmp_LT", "Lt", "lt", "gt"},
	{"LtE", "PyCmp_LE", "Le", "le", "ge"},
	{"Gt", "PyCmp_GT", "Gt", "gt", "lt"},
	{"GtE", "PyCmp_GE", "Ge", "ge", "le"},
	{"Is", "PyCmp_IS", "", "", ""},
	{"IsNot", "PyCmp_IS_NOT", "", "", ""},
	{"In", "PyCmp_IN", "SequenceContains", "", ""},
	{"NotIn", "PyCmp_NOT_IN", "SequenceContains", "", ""},
}

var boolSpecs = []struct{ astConst, op string }{
	{"And", "JUMP_IF_FALSE_OR_POP"},
	{"Or", "JUMP_IF_TRUE_OR_POP"},
}

// constSwitch is a switch over an enum-typed tag whose arms assign one constant.
type constSwitch struct {
	pos        token.Pos
	tagType    string // named type of the tag, e.g. ast.OperatorNumber
	armNode    string // enclosing type-switch arm: *ast.BinOp …
	fn         string
	cases      map[string]string // case constant name -> assigned constant name
	casePos    map[string]token.Pos
	hasDeflt   bool
	dfltPanics bool
}

func constName(info *types.Info, e ast.Expr) string {
	e = unparen(e)
	switch x := e.(type) {
	case *ast.Ident:
		if k, ok := info.Uses[x].(*types.Const); ok {
			return k.Name()
		}
	case *ast.SelectorExpr:
		if k, ok := info.Uses[x.Sel].(*types.Const); ok {
			return k.Name()
		}
	case *ast.CallExpr: // conversion T(const)
		if len(x.Args) == 1 {
			if tv, ok := info.Types[x.Fun]; ok && tv.IsType() {
				return constName(info, x.Args[0])
			}
		}
	}
	return ""
}

func namedTypeName(t types.Type) string {
	if n, ok := t.(*types.Named); ok {
		if n.Obj().Pkg() != nil {
			return n.Obj().Pkg().Name() + "." + n.Obj().Name()
		}
		return n.Obj().Name()
	}
	if p, ok := t.(*types.Pointer); ok {
		return "*" + namedTypeName(p.Elem())
	}
	return t.String()
}

// findConstSwitches lists every constant-assigning switch in a package.
func findConstSwitches(c *Ctx, p *packages.Package) []*constSwitch {
	var out []*constSwitch
	info := p.TypesInfo
	for _, f := range c.Files(p) {
		for _, d := range f.Decls {
			fd, ok := d.(*ast.FuncDecl)
			if !ok || fd.Body == nil {
				continue
			}
			var armStack []string
			helperStack := map[*ast.FuncDecl]bool{}
			var walk func(n ast.Node)
			walk = func(n ast.Node) {
				switch x := n.(type) {
				case *ast.TypeSwitchStmt:
					for _, cl := range x.Body.List {
						cc := cl.(*ast.CaseClause)
						name := "default"
						if len(cc.List) > 0 {
							if tv, ok := info.Types[cc.List[0]]; ok {
								name = namedTypeName(tv.Type)
							}
						}
						armStack = append(armStack, name)
						for _, s := range cc.Body {
							walk(s)
						}
						armStack = armStack[:len(armStack)-1]
					}
					return
				case *ast.SwitchStmt:
					if x.Tag != nil {
						if tv, ok := info.Types[x.Tag]; ok {
							if _, isNamed := tv.Type.(*types.Named); isNamed {
								cs := &constSwitch{pos: x.Pos(), tagType: namedTypeName(tv.Type), fn: declID(p, fd),
									cases: map[string]string{}, casePos: map[string]token.Pos{}}
								if len(armStack) > 0 {
									cs.armNode = armStack[len(armStack)-1]
								}
								good := true
								for _, cl := range x.Body.List {
									cc := cl.(*ast.CaseClause)
									if len(cc.List) == 0 {
										cs.hasDeflt = true
										for _, s := range cc.Body {
											if es, ok := s.(*ast.ExprStmt); ok {
												if call, ok := es.X.(*ast.CallExpr); ok && isBuiltinCall(info, call, "panic") {
													cs.dfltPanics = true
												}
											}
										}
										continue
									}
									val := ""
									if len(cc.Body) == 1 {
										if as, ok := cc.Body[0].(*ast.AssignStmt); ok && len(as.Rhs) == 1 {
											val = constName(info, as.Rhs[0])
										}
										// the same table in a helper: case K: return V
										if rs, ok := cc.Body[0].(*ast.ReturnStmt); ok && len(rs.Results) == 1 {
											val = constName(info, rs.Results[0])
										}
									}
									if val == "" {
										good = false
										break
									}
									for _, ce := range cc.List {
										k := constName(info, ce)
										if k == "" {
											good = false
										}
										cs.cases[k] = val
										cs.casePos[k] = ce.Pos()
									}
								}
								if good && len(cs.cases) > 0 {
									out = append(out, cs)
								}
							}
						}
					}
				}
				// generic descent
				ast.Inspect(n, func(m ast.Node) bool {
					if m == n || m == nil {
						return true
					}
					switch y := m.(type) {
					case *ast.TypeSwitchStmt, *ast.SwitchStmt:
						walk(m)
						return false
					case *ast.IndexExpr:
						// the same table written as data: T[x.Op] on a read-only map literal keyed by the named constants
						if tl := tableLiteral(c, info, y.X); tl != nil {
							if tv, ok := info.Types[y.Index]; ok {
								if _, isNamed := tv.Type.(*types.Named); isNamed {
									cs := &constSwitch{pos: y.Pos(), tagType: namedTypeName(tv.Type), fn: declID(p, fd),
										cases: map[string]string{}, casePos: map[string]token.Pos{}}
									if len(armStack) > 0 {
										cs.armNode = armStack[len(armStack)-1]
									}
									good := true
									for _, en := range tl.entries {
										k, v := constName(tl.info, en.key), constName(tl.info, en.val)
										if k == "" || v == "" {
											good = false
											break
										}
										cs.cases[k] = v
										cs.casePos[k] = en.key.Pos()
									}
									if good && len(cs.cases) > 0 {
										out = append(out, cs)
									}
								}
							}
						}
					case *ast.CallExpr:
						// a helper introduced since the reference was written belongs to the arm that calls it
						if cal := Callee(info, y); cal != nil && cal.Pkg() == p.Types && isNewFunc(FuncID(cal)) && len(helperStack) < 3 {
							if hd := c.Decl(cal); hd != nil && hd.Body != nil && !helperStack[hd] {
								helperStack[hd] = true
								walk(hd.Body)
								delete(helperStack, hd)
							}
						}
					}
					return true
				})
			}
			if isNewFunc(declID(p, fd)) {
				continue // seen from its callers
			}
			walk(fd.Body)
		}
	}
	return out
}

// pyCalls lists the calls in a handler body (helpers of *Vm inlined one level are not needed here:
// the API call is made in the handler itself) whose callee is a package-level function of package py.
func pyCallsIn(c *Ctx, p *packages.Package, fd *ast.FuncDecl) []*ast.CallExpr {
	var out []*ast.CallExpr
	ast.Inspect(fd.Body, func(n ast.Node) bool {
		if call, ok := n.(*ast.CallExpr); ok {
			if fn := Callee(p.TypesInfo, call); fn != nil && fn.Pkg() != nil && fn.Pkg().Path() == modPath+"/py" {
				if sig := fn.Type().(*types.Signature); sig.Recv() == nil {
					out = append(out, call)
				}
			}
		}
		return true
	})
	return out
}

func init() {
	register(&Rule{ID: "C01.R1", Prop: "C01", Floor: 120,
		Doc: "operator chain agreement: ast operator constant -> opcode (compile.Expr/Stmt switch arms) -> jumpTable handler -> the py API function the handler calls -> the dunder interface/method (and reflected or in-place+fallback) that function dispatches to, each link compared with the Language-Reference operator table",
		Run: runC01R1})
	register(&Rule{ID: "C01.R3", Prop: "C01", Floor: 60,
		Doc: "dispatch skeleton of py/arithmetic.go: left operand's method first with the right operand as argument; reflected method on the right operand with the left as argument, guarded by a.Type()!=b.Type() for arithmetic and unguarded with the mirrored operator for comparisons; in-place tries __iop__ then falls back to the binary function of the same operator with (a,b)",
		Run: runC01R3})
}

func runC01R1(c *Ctx, r *Rep) {
	m := getVMModel(c)
	cp := c.MustPkg("compile")
	vmp := c.MustPkg("vm")
	sw := findConstSwitches(c, cp)
	find := func(tagType, arm string) *constSwitch {
		var got *constSwitch
		for _, s := range sw {
			if s.tagType == tagType && s.armNode == arm {
				if got != nil {
					r.undecided("compile|"+arm+"|switch "+tagType, s.pos, "more than one constant switch over %s in the %s arm", tagType, arm)
				}
				got = s
			}
		}
		if got == nil {
			r.undecided("compile|"+arm+"|switch "+tagType, token.NoPos, "no `switch x.Op {case ast.K: op = vm.Y}` table found in the %s arm of package compile", arm)
		}
		return got
	}
	// handler -> py API function
	handlerAPI := func(op string) (string, token.Pos, bool) {
		h := m.handlers[op]
		if h == nil {
			return "", token.NoPos, false
		}
		fd := c.Decl(h)
		if fd == nil {
			return "", token.NoPos, false
		}
		r.analysed(FuncID(h))
		calls := pyCallsIn(c, vmp, fd)
		var names []string
		for _, call := range calls {
			names = append(names, Callee(vmp.TypesInfo, call).Name())
		}
		// the API function handed as a value to a helper that applies it to the operands: vm.binaryOp(py.Add)
		// (C01.R2 follows the value into the helper and checks which operands it is applied to)
		ast.Inspect(fd.Body, func(n ast.Node) bool {
			call, ok := n.(*ast.CallExpr)
			if !ok {
				return true
			}
			for _, a := range call.Args {
				var id *ast.Ident
				switch x := unparen(a).(type) {
				case *ast.Ident:
					id = x
				case *ast.SelectorExpr:
					id = x.Sel
				}
				if id == nil {
					continue
				}
				if fn, ok := vmp.TypesInfo.Uses[id].(*types.Func); ok && fn.Pkg() != nil && fn.Pkg().Path() == modPath+"/py" && fn.Type().(*types.Signature).Recv() == nil {
					names = append(names, fn.Name())
				}
			}
			return true
		})
		return strings.Join(names, ","), fd.Pos(), true
	}
	checkLink := func(kind, astConst, wantOp, wantAPI string, s *constSwitch) {
		if s == nil {
			return
		}
		got, ok := s.cases[astConst]
		key := fmt.Sprintf("compile|%s|%s ast.%s", s.fn, s.armNode, astConst)
		if !ok {
			r.bad(key, s.pos, "no case for ast.%s in the %s switch: the operator cannot be compiled", astConst, s.armNode)
			return
		}
		r.check(got == wantOp, key+" -> opcode", s.casePos[astConst],
			fmt.Sprintf("ast.%s -> vm.%s", astConst, got),
			fmt.Sprintf("ast.%s is compiled to vm.%s; Python's operator table requires vm.%s", astConst, got, wantOp))
		if kind == "cmp" {
			return
		}
		api, pos, ok := handlerAPI(wantOp)
		hk := fmt.Sprintf("vm|jumpTable|%s handler", wantOp)
		if !ok {
			r.bad(hk, m.handPos[wantOp], "opcode %s has no handler in jumpTable", wantOp)
			return
		}
		wantH := "do_" + wantOp
		if h := m.handlers[wantOp]; h.Name() != wantH {
			// not a violation in itself (names are free) but the handler must still reach the right API
			r.note("opcode %s is dispatched to %s", wantOp, h.Name())
		}
		if wantAPI != "" {
			r.check(api == wantAPI, hk+" -> py API", pos,
				fmt.Sprintf("%s calls py.%s", m.handlers[wantOp].Name(), api),
				fmt.Sprintf("handler of %s calls py.%s; the operator table requires py.%s (siblings of the same family call the matching function)", wantOp, api, wantAPI))
		}
	}
	bin := find("ast.OperatorNumber", "*ast.BinOp")
	aug := find("ast.OperatorNumber", "*ast.AugAssign")
	un := find("ast.UnaryOpNumber", "*ast.UnaryOp")
	bo := find("ast.BoolOpNumber", "*ast.BoolOp")
	cmp := find("ast.CmpOp", "*ast.Compare")
	for _, s := range binSpecs {
		checkLink("bin", s.astConst, s.binOp, s.api, bin)
		checkLink("aug", s.astConst, s.inOp, s.iapi, aug)
	}
	for _, s := range unarySpecs {
		checkLink("un", s.astConst, s.op, s.api, un)
	}
	for _, s := range boolSpecs {
		checkLink("cmp", s.astConst, s.op, "", bo)
	}
	for _, s := range cmpSpecs {
		checkLink("cmp", s.astConst, s.cmp, "", cmp)
	}
	// every declared ast operator constant is covered by its switch (no operator silently falls to the default panic)
	astp := c.MustPkg("ast")
	for _, pair := range []struct {
		typ string
		sws []*constSwitch
	}{{"OperatorNumber", []*constSwitch{bin, aug}}, {"UnaryOpNumber", []*constSwitch{un}}, {"BoolOpNumber", []*constSwitch{bo}}, {"CmpOp", []*constSwitch{cmp}}} {
		nt := c.Named("ast", pair.typ)
		if nt == nil {
			r.undecided("ast|type "+pair.typ, token.NoPos, "enum type ast.%s not found", pair.typ)
			continue
		}
		for _, name := range astp.Types.Scope().Names() {
			k, ok := astp.Types.Scope().Lookup(name).(*types.Const)
			if !ok || !types.Identical(k.Type(), nt) {
				continue
			}
			for _, s := range pair.sws {
				if s == nil {
					continue
				}
				_, has := s.cases[name]
				r.check(has, fmt.Sprintf("compile|%s|%s covers ast.%s", s.fn, s.armNode, name), s.pos,
					"case present", fmt.Sprintf("declared operator ast.%s has no case in the %s switch (falls to the default panic -> SystemError)", name, s.armNode))
			}
		}
	}
	// COMPARE_OP handler: PyCmp_* arm -> py API
	if h := m.handlers["COMPARE_OP"]; h != nil {
		fd := c.Decl(h)
		r.analysed(FuncID(h))
		arms := map[string][]string{}
		armPos := map[string]token.Pos{}
		ast.Inspect(fd.Body, func(n ast.Node) bool {
			ss, ok := n.(*ast.SwitchStmt)
			if !ok || ss.Tag == nil {
				return true
			}
			for _, cl := range ss.Body.List {
				cc := cl.(*ast.CaseClause)
				for _, ce := range cc.List {
					k := constName(vmp.TypesInfo, ce)
					if !strings.HasPrefix(k, "PyCmp_") {
						continue
					}
					armPos[k] = cc.Pos()
					var names []string
					for _, s := range cc.Body {
						ast.Inspect(s, func(n ast.Node) bool {
							if call, ok := n.(*ast.CallExpr); ok {
								if fn := Callee(vmp.TypesInfo, call); fn != nil && fn.Pkg() != nil && fn.Pkg().Path() == modPath+"/py" {
									names = append(names, fn.Name())
								}
							}
							return true
						})
					}
					arms[k] = names
				}
			}
			return false
		})
		for _, s := range cmpSpecs {
			key := "vm|do_COMPARE_OP|arm " + s.cmp
			got, ok := arms[s.cmp]
			if !ok {
				r.bad(key, fd.Pos(), "COMPARE_OP has no arm for %s", s.cmp)
				continue
			}
			switch {
			case s.api == "": // identity: no API call except NewBool
				bad := false
				for _, g := range got {
					if g != "NewBool" && g != "Is" {
						bad = true // py.Is is the identity helper (handles slice- and map-backed objects); anything else dispatches
					}
				}
				r.check(!bad, key, armPos[s.cmp], "identity comparison, no dispatch to a special method", fmt.Sprintf("identity operator arm %s calls %v", s.cmp, got))
			default:
				has := false
				for _, g := range got {
					if g == s.api {
						has = true
					} else if g != "NewBool" {
						has = false
						break
					}
				}
				r.check(has, key, armPos[s.cmp], "arm calls py."+s.api, fmt.Sprintf("arm %s calls %v, the comparison table requires py.%s", s.cmp, got, s.api))
			}
		}
	} else {
		r.undecided("vm|jumpTable|COMPARE_OP handler", token.NoPos, "no handler for COMPARE_OP")
	}
	// API function -> dunder names
	pyp := c.MustPkg("py")
	for _, s := range binSpecs {
		checkDunder(c, r, pyp, s.api, "__"+s.dunder+"__", "__"+s.rdunder+"__", "")
		checkDunder(c, r, pyp, s.iapi, "__"+s.idunder+"__", "", s.api)
	}
	for _, s := range unarySpecs {
		if s.dunder != "" {
			checkDunder(c, r, pyp, s.api, "__"+s.dunder+"__", "", "")
		}
	}
	for _, s := range cmpSpecs {
		if s.dunder != "" {
			checkDunder(c, r, pyp, s.api, "__"+s.dunder+"__", "__"+s.reflected+"__", "")
		}
	}
}

// dispatch attempt found in an arithmetic API function
type attempt struct {
	param  int // index of the parameter asserted
	iface  string
	method string
	args   []int // parameter indices passed (-1 unknown)
	guards []string
	pos    token.Pos
	order  int
}

type apiShape struct {
	attempts []attempt
	fallback string // callee of a trailing `return F(a,b…)`
	fbArgs   []int
	fbPos    token.Pos
}

func extractAPIShape(c *Ctx, p *packages.Package, fd *ast.FuncDecl) *apiShape {
	info := p.TypesInfo
	sh := &apiShape{}
	params := map[types.Object]int{}
	i := 0
	for _, f := range fd.Type.Params.List {
		for _, n := range f.Names {
			params[info.Defs[n]] = i
			i++
		}
	}
	paramIdx := func(e ast.Expr) int {
		if id, ok := unparen(e).(*ast.Ident); ok {
			if ix, ok := params[info.Uses[id]]; ok {
				return ix
			}
		}
		return -1
	}
	var walk func(stmts []ast.Stmt, guards []string)
	walk = func(stmts []ast.Stmt, guards []string) {
		for _, s := range stmts {
			switch x := s.(type) {
			case *ast.IfStmt:
				// `if X, ok := p.(I); ok {`
				if as, ok := x.Init.(*ast.AssignStmt); ok && len(as.Rhs) == 1 {
					if ta, ok := unparen(as.Rhs[0]).(*ast.TypeAssertExpr); ok && ta.Type != nil {
						at := attempt{param: paramIdx(ta.X), pos: x.Pos(), guards: append([]string{}, guards...), order: len(sh.attempts)}
						if tv, ok := info.Types[ta.Type]; ok {
							if n, ok := tv.Type.(*types.Named); ok {
								at.iface = n.Obj().Name()
							}
						}
						var bound types.Object
						if id, ok := as.Lhs[0].(*ast.Ident); ok {
							bound = info.Defs[id]
						}
						// first method call on the bound variable
						ast.Inspect(x.Body, func(n ast.Node) bool {
							call, ok := n.(*ast.CallExpr)
							if !ok || at.method != "" {
								return true
							}
							if sel, ok := call.Fun.(*ast.SelectorExpr); ok {
								if id, ok := sel.X.(*ast.Ident); ok && bound != nil && info.Uses[id] == bound {
									at.method = sel.Sel.Name
									for _, a := range call.Args {
										at.args = append(at.args, paramIdx(a))
									}
								}
							}
							return true
						})
						if at.method != "" {
							sh.attempts = append(sh.attempts, at)
						}
						continue
					}
				}
				if x.Init == nil && x.Else == nil {
					walk(x.Body.List, append(append([]string{}, guards...), canonGuard(info, x.Cond, params)))
				}
			case *ast.ReturnStmt:
				if len(x.Results) == 1 {
					if call, ok := x.Results[0].(*ast.CallExpr); ok {
						if fn := Callee(info, call); fn != nil {
							sh.fallback = fn.Name()
							sh.fbPos = x.Pos()
							for _, a := range call.Args {
								sh.fbArgs = append(sh.fbArgs, paramIdx(a))
							}
						}
					}
				}
			}
		}
	}
	walk(fd.Body.List, nil)
	return sh
}

// canonGuard renders a guard condition with parameters replaced by $0,$1…
func canonGuard(info *types.Info, e ast.Expr, params map[types.Object]int) string {
	var parts []string
	var conj func(e ast.Expr)
	conj = func(e ast.Expr) {
		e = unparen(e)
		if b, ok := e.(*ast.BinaryExpr); ok && b.Op == token.LAND {
			conj(b.X)
			conj(b.Y)
			return
		}
		s := exprStr(e)
		// replace parameter identifiers
		ast.Inspect(e, func(n ast.Node) bool {
			if id, ok := n.(*ast.Ident); ok {
				if ix, ok := params[info.Uses[id]]; ok {
					s = replaceIdent(s, id.Name, fmt.Sprintf("$%d", ix))
				}
			}
			return true
		})
		parts = append(parts, s)
	}
	conj(e)
	sort.Strings(parts)
	return strings.Join(parts, " && ")
}

func replaceIdent(s, name, with string) string {
	var b strings.Builder
	for i := 0; i < len(s); {
		if strings.HasPrefix(s[i:], name) {
			before := i == 0 || !isIdentChar(s[i-1])
			after := i+len(name) >= len(s) || !isIdentChar(s[i+len(name)])
			if before && after {
				b.WriteString(with)
				i += len(name)
				continue
			}
		}
		b.WriteByte(s[i])
		i++
	}
	return b.String()
}

func isIdentChar(c byte) bool {
	return c == '_' || c == '$' || (c >= '0' && c <= '9') || (c >= 'a' && c <= 'z') || (c >= 'A' && c <= 'Z')
}

func checkDunder(c *Ctx, r *Rep, p *packages.Package, api, dunder, rdunder, fallback string) {
	fd := c.FuncDecl("py", api)
	key := "py|" + api
	if fd == nil {
		r.undecided(key, token.NoPos, "py.%s not found", api)
		return
	}
	r.analysed("py." + api)
	sh := extractAPIShape(c, p, fd)
	if len(sh.attempts) == 0 {
		r.undecided(key, fd.Pos(), "no `if X, ok := a.(I__op__); ok { X.M__op__(…) }` dispatch found in py.%s", api)
		return
	}
	a0 := sh.attempts[0]
	r.check(a0.iface == "I"+dunder && a0.method == "M"+dunder, key+"|primary dunder", a0.pos,
		fmt.Sprintf("py.%s dispatches to %s", api, dunder),
		fmt.Sprintf("py.%s dispatches first to %s/%s; Python defines %s for this operator", api, a0.iface, a0.method, dunder))
	if rdunder != "" {
		if len(sh.attempts) < 2 {
			r.bad(key+"|reflected dunder", fd.Pos(), "py.%s never tries the reflected method %s on the right operand", api, rdunder)
		} else {
			a1 := sh.attempts[1]
			r.check(a1.iface == "I"+rdunder && a1.method == "M"+rdunder, key+"|reflected dunder", a1.pos,
				fmt.Sprintf("py.%s reflects to %s", api, rdunder),
				fmt.Sprintf("py.%s reflects to %s/%s; Python defines %s", api, a1.iface, a1.method, rdunder))
		}
	}
	if fallback != "" {
		r.check(sh.fallback == fallback, key+"|fallback", sh.fbPos,
			fmt.Sprintf("py.%s falls back to py.%s", api, fallback),
			fmt.Sprintf("in-place py.%s falls back to %q; it must fall back to the binary function of the same operator, py.%s", api, sh.fallback, fallback))
	}
}

func runC01R3(c *Ctx, r *Rep) {
	pyp := c.MustPkg("py")
	eqInts := func(a []int, b ...int) bool {
		if len(a) != len(b) {
			return false
		}
		for i := range a {
			if a[i] != b[i] {
				return false
			}
		}
		return true
	}
	for _, s := range binSpecs {
		for _, inplace := range []bool{false, true} {
			api := s.api
			if inplace {
				api = s.iapi
			}
			fd := c.FuncDecl("py", api)
			if fd == nil {
				r.undecided("py|"+api, token.NoPos, "py.%s not found", api)
				continue
			}
			r.analysed("py." + api)
			sh := extractAPIShape(c, pyp, fd)
			key := "py|" + api
			if len(sh.attempts) == 0 {
				r.undecided(key, fd.Pos(), "no dispatch attempt recognised")
				continue
			}
			a0 := sh.attempts[0]
			wantArgs := []int{1}
			if s.ternary {
				wantArgs = []int{1, 2}
			}
			r.check(a0.param == 0 && eqInts(a0.args, wantArgs...) && len(a0.guards) == 0, key+"|primary operands", a0.pos,
				"a.__op__(b) tried first, unguarded",
				fmt.Sprintf("first dispatch asserts parameter %d and passes parameters %v under guards %v; Python requires the left operand's method with the right operand, unconditionally", a0.param, a0.args, a0.guards))
			if inplace {
				r.check(len(sh.attempts) == 1, key+"|no reflection in in-place", a0.pos, "single attempt then fallback", "in-place function has extra dispatch attempts before the fallback")
				wantFb := []int{0, 1}
				if s.ternary {
					wantFb = []int{0, 1, 2}
				}
				r.check(eqInts(sh.fbArgs, wantFb...), key+"|fallback operands", sh.fbPos, "fallback receives (a, b) in order",
					fmt.Sprintf("fallback call passes parameters %v, expected %v (operands swapped or dropped)", sh.fbArgs, wantFb))
				continue
			}
			if len(sh.attempts) != 2 {
				r.bad(key+"|reflected operands", fd.Pos(), "expected exactly one reflected attempt, found %d attempts", len(sh.attempts))
				continue
			}
			a1 := sh.attempts[1]
			r.check(a1.param == 1 && eqInts(a1.args, 0), key+"|reflected operands", a1.pos, "b.__rop__(a)",
				fmt.Sprintf("reflected dispatch asserts parameter %d and passes %v; Python requires b.__rop__(a)", a1.param, a1.args))
			wantGuard := "$0.Type() != $1.Type()"
			if s.ternary {
				wantGuard = "$0.Type() != $1.Type() && $2 == None"
			}
			g := strings.Join(a1.guards, " && ")
			r.check(g == wantGuard, key+"|reflected guard", a1.pos, "reflected only when operand types differ",
				fmt.Sprintf("reflected dispatch is guarded by %q; required %q (same-type operands must not be reflected; 3-argument pow never reflects)", g, wantGuard))
		}
	}
	for _, s := range cmpSpecs {
		if s.dunder == "" {
			continue
		}
		fd := c.FuncDecl("py", s.api)
		if fd == nil {
			r.undecided("py|"+s.api, token.NoPos, "py.%s not found", s.api)
			continue
		}
		r.analysed("py." + s.api)
		sh := extractAPIShape(c, pyp, fd)
		key := "py|" + s.api
		if len(sh.attempts) != 2 {
			r.bad(key+"|shape", fd.Pos(), "comparison has %d dispatch attempts, expected direct + mirrored", len(sh.attempts))
			continue
		}
		a0, a1 := sh.attempts[0], sh.attempts[1]
		r.check(a0.param == 0 && eqInts(a0.args, 1) && len(a0.guards) == 0, key+"|primary operands", a0.pos, "a.__cmp__(b) first", "primary comparison dispatch does not use (a, b)")
		r.check(a1.param == 1 && eqInts(a1.args, 0) && len(a1.guards) == 0, key+"|mirrored operands", a1.pos, "b.__mirror__(a), unguarded",
			fmt.Sprintf("mirrored comparison asserts parameter %d, passes %v, guards %v; required b.__mirror__(a) without a type guard", a1.param, a1.args, a1.guards))
	}
	for _, s := range unarySpecs {
		if s.dunder == "" {
			continue
		}
		fd := c.FuncDecl("py", s.api)
		if fd == nil {
			r.undecided("py|"+s.api, token.NoPos, "py.%s not found", s.api)
			continue
		}
		r.analysed("py." + s.api)
		sh := extractAPIShape(c, pyp, fd)
		key := "py|" + s.api
		ok := len(sh.attempts) == 1 && sh.attempts[0].param == 0 && len(sh.attempts[0].args) == 0
		r.check(ok, key+"|unary operand", fd.Pos(), "a.__op__()", "unary function does not dispatch exactly once on its operand")
	}
}
