package main

import (
	"fmt"
	"go/ast"
	"go/token"
	"go/types"
	"strings"

	"golang.org/x/tools/go/ssa"
)

func init() {
	register(&Rule{ID: "C05.R1", Prop: "C05", Floor: 25,
		Doc: "iterator-error discipline at every consumer: the error of every call to py.Next / py.Send / M__next__ / Send is (edge-sensitively, on go/ssa) either returned on every path where it can be non-nil, or classified with py.IsException(py.StopIteration, err) with every other error returned; identity comparison with the StopIteration object, any-error-is-exhaustion and dropped errors are violations",
		Run: runC05R1})
	register(&Rule{ID: "C05.R2", Prop: "C05", Floor: 40,
		Doc: "iteration hubs: the error of every call to py.Iterate, py.Iter, py.SequenceList/Tuple/Set-from-iterable helpers is propagated (never dropped or replaced), so a consumer built on the hubs inherits C05.R1's discipline",
		Run: runC05R2})
}

func isIterProducerCall(callee *types.Func) bool {
	if callee == nil || callee.Pkg() == nil {
		return false
	}
	inPy := callee.Pkg().Path() == modPath+"/py"
	sig := callee.Type().(*types.Signature)
	if sig.Recv() == nil {
		return inPy && (callee.Name() == "Next" || callee.Name() == "Send")
	}
	switch callee.Name() {
	case "M__next__":
		return true
	case "Send":
		return inPy
	}
	return false
}

// iterWrapper: a function written since the reference that advances an iterator itself (calls a producer) and returns
// an error: its callers consume the producer's error through it, so they are consumers too.
func iterWrapper(c *Ctx, callee *types.Func) bool {
	if callee == nil || !inModule(callee) || !isNewFunc(FuncID(callee)) {
		return false
	}
	fd := c.Decl(callee)
	p := c.DeclPkg(callee)
	if fd == nil || fd.Body == nil || p == nil {
		return false
	}
	sig := callee.Type().(*types.Signature)
	hasErr := false
	for i := 0; i < sig.Results().Len(); i++ {
		if isErrorType(sig.Results().At(i).Type()) {
			hasErr = true
		}
	}
	if !hasErr {
		return false
	}
	wraps := false
	ast.Inspect(fd.Body, func(n ast.Node) bool {
		if call, ok := n.(*ast.CallExpr); ok {
			if f := Callee(p.TypesInfo, call); f != nil && isIterProducerCall(f) {
				wraps = true
			}
		}
		return !wraps
	})
	return wraps
}

func runC05R1(c *Ctx, r *Rep) {
	a := newErrAnalyzer(c)
	sites := sitesCalling(c, func(callee *types.Func, ci ssa.CallInstruction) bool {
		return isIterProducerCall(callee) || iterWrapper(c, callee)
	})
	for _, s := range sites {
		id := ssaFuncID(s.fn)
		r.analysed(id)
		v := a.analyse(s)
		key := fmt.Sprintf("%s|%s|call %s", shortPkg(pkgPathOf(s.fn)), id, FuncID(s.callee))
		switch v.kind {
		case "propagated":
			r.ok(key, s.pos, "pass-through: %s", v.detail)
		case "classified":
			if len(v.classes) == 1 && v.classes[0] == "StopIteration" {
				r.ok(key, s.pos, "%s", v.detail)
			} else {
				r.bad(key, s.pos, "iteration is terminated by exception class(es) %v; only StopIteration may end an iteration", v.classes)
			}
		case "identity":
			r.bad(key, v.pos, "%s", v.detail)
		case "swallowed":
			r.bad(key, v.pos, "an exception other than StopIteration is swallowed: %s", v.detail)
		case "dropped":
			r.bad(key, v.pos, "the iterator's error is dropped: %s", v.detail)
		default:
			r.undecided(key, s.pos, "%s", v.detail)
		}
	}
}

func pkgPathOf(fn *ssa.Function) string {
	for fn.Parent() != nil {
		fn = fn.Parent()
	}
	if fn.Pkg != nil && fn.Pkg.Pkg != nil {
		return fn.Pkg.Pkg.Path()
	}
	return ""
}

var iterHubs = map[string]bool{
	"py.Iterate": true, "py.Iter": true, "py.SequenceList": true, "py.SequenceTuple": true, "py.SequenceSet": true,
	"py.SequenceContains": true, "(*py.List).ExtendSequence": true, "py.ListNew": true, "py.TupleNew": true, "py.SetNew": true,
	"py.NewSetFromSequence": true, "vm.unpack_iterable": true,
}

func runC05R2(c *Ctx, r *Rep) {
	a := newErrAnalyzer(c)
	sites := sitesCalling(c, func(callee *types.Func, ci ssa.CallInstruction) bool {
		return callee != nil && iterHubs[FuncID(callee)]
	})
	for _, s := range sites {
		id := ssaFuncID(s.fn)
		r.analysed(id)
		v := a.analyse(s)
		key := fmt.Sprintf("%s|%s|call %s", shortPkg(pkgPathOf(s.fn)), id, FuncID(s.callee))
		switch v.kind {
		case "propagated", "classified":
			r.ok(key, s.pos, "%s", v.detail)
		case "identity":
			r.bad(key, v.pos, "%s", v.detail)
		case "swallowed", "dropped":
			r.bad(key, v.pos, "the error of an iteration hub is not propagated: %s", v.detail)
		default:
			r.undecided(key, s.pos, "%s", v.detail)
		}
	}
}

// ---- C05.R3 / R4: generator typestate and yield protocol ----

func init() {
	register(&Rule{ID: "C05.R3", Prop: "C05", Floor: 6,
		Doc: "generator typestate (symbolic paths of Generator.Send): Running is set before and cleared after the frame runs on every path; a run that ends in an exception leaves the generator finished (Frame.Yielded cleared) so it cannot be resumed; on the normal-return exit the value returned by the frame flows into the StopIteration that Send returns; a finished or running generator is never re-entered",
		Run: runC05R3})
	register(&Rule{ID: "C05.R4", Prop: "C05", Floor: 8,
		Doc: "yield protocol: Send pushes the sent value exactly once and only on resumption (Lasti != 0); YIELD_VALUE/YIELD_FROM set Yielded, retval and why=whyYield; RETURN_VALUE clears Yielded; YIELD_FROM replaces the exhausted sub-iterator by the StopIteration value; in RunFrame the whyYield test precedes the block-unwinding loop",
		Run: runC05R4})
}

func hasStr(ss []string, sub string) bool {
	for _, s := range ss {
		if strings.Contains(s, sub) {
			return true
		}
	}
	return false
}

func runC05R3(c *Ctx, r *Rep) {
	fd := c.MethodDecl("py", "Generator", "Send")
	if fd == nil {
		r.undecided("py|(*Generator).Send", token.NoPos, "anchor not found")
		return
	}
	r.analysed("(*py.Generator).Send")
	se := newSymExec(c, "py")
	a := val{kind: vUnknown, desc: "arg"}
	recv := ""
	if fd.Recv != nil && len(fd.Recv.List[0].Names) == 1 {
		recv = fd.Recv.List[0].Names[0].Name
	}
	paths := se.runFunc(fd, []*val{&a}, []string{"arg"})
	key := "py|(*Generator).Send|"
	nRun := 0
	for _, p := range paths {
		st := p.st
		if len(st.und) > 0 {
			r.undecided(key+"shape", st.undPos[0], "%s", strings.Join(st.und, "; "))
			return
		}
		// at every exit the generator is not marked as executing: the last assignment to Running on the path, if any, is false
		lastSeq, lastVal := -1, false
		for _, as := range st.assigns {
			if strings.HasSuffix(as.lhs, ".Running") && as.rhs.kind == vBool && as.rhs.bk && as.seq > lastSeq {
				lastSeq, lastVal = as.seq, as.rhs.b
			}
		}
		if lastSeq >= 0 {
			r.check(!lastVal, key+"Running cleared at exit", fd.Pos(), "Running is false when Send returns",
				fmt.Sprintf("on the path %v Send returns with Running still set: every later next()/send() on this generator raises 'generator already executing'", st.conds))
		}
		var run *callRec
		for i := range st.calls {
			if strings.Contains(st.calls[i].callee, "VmRunFrame") {
				run = &st.calls[i]
			}
		}
		if run == nil {
			// refused paths: must be justified by Running, or by the finished predicate
			ok := hasStr(st.conds, recv+".Running") || hasStr(st.conds, "Yielded") || hasStr(st.conds, "arg != None")
			r.check(ok, key+"refusal path", fd.Pos(), "a path that does not run the frame is guarded by Running / finished / bad first send",
				fmt.Sprintf("path %v returns without running the frame for no recognised reason", st.conds))
			continue
		}
		nRun++
		// (i) Running bracket
		setSeq, clrSeq := -1, -1
		for _, as := range st.assigns {
			if strings.HasSuffix(as.lhs, ".Running") {
				if as.rhs.kind == vBool && as.rhs.bk && as.rhs.b && as.seq < run.seq {
					setSeq = as.seq
				}
				if as.rhs.kind == vBool && as.rhs.bk && !as.rhs.b && as.seq > run.seq {
					clrSeq = as.seq
				}
			}
		}
		r.check(setSeq >= 0 && clrSeq >= 0, key+"Running bracket", run.pos, "Running set before and cleared after the run",
			"a path runs the frame without setting Running before it and clearing it afterwards (re-entrancy guard broken / generator stays 'already executing')")
		// the run is guarded by !Running
		r.check(hasStr(st.conds, "!("+recv+".Running)"), key+"not re-entered while running", run.pos, "run guarded by !Running", "the frame can be run while Running is set")
		// classify the exit
		errPath := hasStr(st.conds, "err != nil") && !hasStr(st.conds, "!(err != nil)")
		yielded := false
		for _, cnd := range st.conds {
			if strings.HasSuffix(cnd, ".Yielded") && !strings.HasPrefix(cnd, "!(") {
				// the test after the run (the one before the run is the resumption guard)
				yielded = true
			}
		}
		if errPath {
			cleared := false
			for _, as := range st.assigns {
				if strings.HasSuffix(as.lhs, ".Yielded") && as.seq > run.seq && as.rhs.kind == vBool && as.rhs.bk && !as.rhs.b {
					cleared = true
				}
			}
			if !cleared {
				cleared = runFrameClearsYielded(c)
			}
			r.check(cleared, key+"exception exit finishes the generator", run.pos, "Yielded cleared when an exception escapes",
				"after an exception escapes the generator, Frame.Yielded keeps its value: the next next() pushes a value and re-enters the frame after the raising statement")
			continue
		}
		// resumption guard: if Lasti != 0 the run must be guarded by Yielded
		if hasStr(st.conds, "!("+recv+".Frame.Lasti == 0)") {
			r.check(hasStr(st.conds, "!(!"+recv+".Frame.Yielded)") || hasStr(st.conds, recv+".Frame.Yielded"), key+"finished stays finished", run.pos,
				"resumption requires Yielded", "a started generator is resumed without testing that it is suspended at a yield")
		}
		_ = yielded
	}
	// (iii) return value flows into StopIteration: a path after the run, not yielded, must pass the run's result to a call
	flows := false
	for _, p := range paths {
		for _, cr := range p.st.calls {
			for _, av := range cr.args {
				if strings.Contains(av.String(), "VmRunFrame#0") {
					flows = true
				}
			}
			if cr.recv != nil && strings.Contains(cr.recv.String(), "VmRunFrame#0") {
				flows = true
			}
		}
		for _, as := range p.st.assigns {
			if strings.Contains(as.rhs.String(), "VmRunFrame#0") {
				flows = true
			}
		}
		if len(p.rets) == 2 && strings.Contains(p.rets[1].String(), "VmRunFrame#0") {
			flows = true
		}
	}
	r.check(flows, key+"return value carried", fd.Pos(), "the frame's return value is passed into the StopIteration constructed on the return exit",
		"the value returned by the frame on the non-yield exit is never used: `return v` in a generator is lost and `yield from` cannot deliver it")
	r.check(nRun >= 2, key+"run paths", fd.Pos(), fmt.Sprintf("%d paths run the frame", nRun), "no path runs the frame")
}

func runFrameClearsYielded(c *Ctx) bool {
	fd := c.FuncDecl("vm", "RunFrame")
	if fd == nil {
		return false
	}
	found := false
	for _, s := range fd.Body.List { // top-level statements only (after the main loop)
		if as, ok := s.(*ast.AssignStmt); ok && len(as.Lhs) == 1 {
			if strings.HasSuffix(exprStr(as.Lhs[0]), ".Yielded") && exprStr(as.Rhs[0]) == "false" {
				found = true
			}
		}
	}
	return found
}

func runC05R4(c *Ctx, r *Rep) {
	// Send: push discipline
	fd := c.MethodDecl("py", "Generator", "Send")
	if fd == nil {
		r.undecided("py|(*Generator).Send", token.NoPos, "anchor not found")
		return
	}
	se := newSymExec(c, "py")
	a := val{kind: vUnknown, desc: "arg"}
	paths := se.runFunc(fd, []*val{&a}, []string{"arg"})
	key := "py|(*Generator).Send|"
	for _, p := range paths {
		st := p.st
		ran := false
		for _, cr := range st.calls {
			if strings.Contains(cr.callee, "VmRunFrame") {
				ran = true
			}
		}
		fresh := hasStr(st.conds, ".Frame.Lasti == 0") && !hasStr(st.conds, "!(")
		first := false
		for _, cnd := range st.conds {
			if strings.HasSuffix(cnd, ".Frame.Lasti == 0") && !strings.HasPrefix(cnd, "!(") {
				first = true
			}
		}
		_ = fresh
		d := st.delta().String()
		switch {
		case !ran:
			r.check(d == "0", key+"no push without run", fd.Pos(), "refusal paths leave the frame's stack alone", "a path that does not run the frame still pushes onto its stack")
		case first:
			r.check(d == "0", key+"first start pushes nothing", fd.Pos(), "nothing pushed when the generator is started", "a value is pushed when the generator is first started (there is no yield expression to receive it)")
		default:
			okv := d == "1" && st.conc && len(st.pushed) == 1 && st.pushed[0].desc == "arg"
			r.check(okv, key+"resume pushes the sent value once", fd.Pos(), "exactly the sent value pushed on resumption",
				fmt.Sprintf("on resumption the frame's stack changes by %s (expected exactly one push of the sent value): the yield expression receives the wrong value or the stack is unbalanced", d))
		}
	}
	// VM side
	m := getVMModel(c)
	sv := newSymExec(c, "vm")
	check := func(op string, f func(paths []handlerPath, fdPos token.Pos, k string)) {
		h := m.handlers[op]
		if h == nil {
			r.bad("vm|jumpTable|"+op, token.NoPos, "no handler")
			return
		}
		hfd := c.Decl(h)
		r.analysed(FuncID(h))
		ps, und, undPos := analyseHandler(sv, hfd)
		if len(und) > 0 {
			r.undecided("vm|"+h.Name()+"|shape", undPos[0], "%s", strings.Join(und, "; "))
			return
		}
		f(ps, hfd.Pos(), "vm|"+h.Name()+"|")
	}
	asg := func(p handlerPath, suffix string) *assignRec {
		var out *assignRec
		for i := range p.st.assigns {
			if strings.HasSuffix(p.st.assigns[i].lhs, suffix) {
				out = &p.st.assigns[i]
			}
		}
		return out
	}
	check("YIELD_VALUE", func(ps []handlerPath, pos token.Pos, k string) {
		for _, p := range ps {
			if p.errPath {
				continue
			}
			y, rv, w := asg(p, ".Yielded"), asg(p, ".retval"), asg(p, ".why")
			ok := y != nil && y.rhs.bk && y.rhs.b && rv != nil && rv.rhs.String() == "slot0" && w != nil && strings.Contains(w.src, "whyYield")
			r.check(ok, k+"yield protocol", pos, "Yielded=true, retval=TOS, why=whyYield", "YIELD_VALUE does not set Yielded=true, retval=the popped TOS and why=whyYield on every path")
		}
	})
	check("RETURN_VALUE", func(ps []handlerPath, pos token.Pos, k string) {
		for _, p := range ps {
			y, rv, w := asg(p, ".Yielded"), asg(p, ".retval"), asg(p, ".why")
			ok := y != nil && y.rhs.bk && !y.rhs.b && rv != nil && rv.rhs.String() == "slot0" && w != nil && strings.Contains(w.src, "whyReturn")
			r.check(ok, k+"return protocol", pos, "Yielded=false, retval=TOS, why=whyReturn", "RETURN_VALUE does not clear Yielded / set retval=TOS / why=whyReturn: a generator that returned looks suspended")
		}
	})
	check("YIELD_FROM", func(ps []handlerPath, pos token.Pos, k string) {
		nY, nDone := 0, 0
		for _, p := range ps {
			if p.errPath {
				continue
			}
			if p.yield {
				nY++
				y, rv, l := asg(p, ".Yielded"), asg(p, ".retval"), asg(p, ".Lasti")
				ok := y != nil && y.rhs.bk && y.rhs.b && rv != nil && strings.Contains(rv.rhs.String(), "py.") && l != nil && strings.Contains(l.src, "--")
				r.check(ok, k+"delegating yield", pos, "Yielded=true, retval=value from the sub-iterator, Lasti stepped back to re-execute", "YIELD_FROM's suspending path does not set Yielded, hand out the sub-iterator's value and step Lasti back")
				continue
			}
			if p.maybe { // `return err` with unknown nil-ness is the propagate arm
				continue
			}
			nDone++
			// sub-iterator exhausted: top of stack replaced by the StopIteration value
			top := "?"
			if p.st.conc && len(p.st.pushed) > 0 {
				top = p.st.pushed[len(p.st.pushed)-1].String()
			}
			r.check(strings.Contains(top, "StopIterationValue"), k+"result of yield from", pos, "exhausted sub-iterator replaced by the StopIteration value",
				fmt.Sprintf("when the sub-iterator is exhausted the value left as the result of `yield from` is %s, not the value carried by StopIteration", top))
		}
		r.check(nY >= 1 && nDone >= 1, k+"arms", pos, "has suspending and completing arms", "YIELD_FROM lacks a suspending or a completing arm")
		// delegation: the sub-iterator (TOS1) is advanced with next() when None is sent and with send(value) otherwise
		sawNext, sawSend, other := false, false, ""
		for _, p := range ps {
			for _, cr := range p.st.calls {
				switch cr.callee {
				case "py.Next":
					if len(cr.args) == 1 && cr.args[0].String() == "slot1" {
						sawNext = true
					} else {
						other = "py.Next called on " + fmt.Sprint(cr.args)
					}
				case "py.Send":
					if len(cr.args) == 2 && cr.args[0].String() == "slot1" && cr.args[1].String() == "slot0" {
						sawSend = true
					} else {
						other = "py.Send called with " + fmt.Sprint(cr.args)
					}
				}
			}
		}
		r.check(sawNext && sawSend && other == "", k+"delegation", pos, "py.Next(TOS1) / py.Send(TOS1, TOS)",
			fmt.Sprintf("YIELD_FROM must advance the delegate (TOS1) with py.Next when None is sent and with py.Send(TOS1, sent value) otherwise, through the generic protocol (next=%v send=%v %s): a sent value is dropped or goes to the wrong object", sawNext, sawSend, other))
	})
	// RunFrame: the whyYield test precedes the unwinding loop
	rf := c.FuncDecl("vm", "RunFrame")
	if rf == nil {
		r.undecided("vm|RunFrame", token.NoPos, "anchor not found")
		return
	}
	r.analysed("vm.RunFrame")
	var mainLoop *ast.ForStmt
	for _, s := range rf.Body.List {
		if f, ok := s.(*ast.ForStmt); ok && mainLoop == nil {
			mainLoop = f
		}
	}
	if mainLoop == nil {
		r.undecided("vm|RunFrame|main loop", rf.Pos(), "no top-level for loop")
		return
	}
	yi, ui := -1, -1
	for i, s := range mainLoop.Body.List {
		switch x := s.(type) {
		case *ast.IfStmt:
			if strings.Contains(exprStr(x.Cond), "whyYield") && yi < 0 {
				yi = i
			}
		case *ast.ForStmt:
			if ui < 0 {
				ui = i
			}
		}
	}
	r.check(yi >= 0 && ui >= 0 && yi < ui, "vm|RunFrame|yield before unwind", mainLoop.Pos(), "whyYield leaves the loop before blocks are unwound",
		"the whyYield test does not precede the block-unwinding loop: a yield inside try/finally/with/for would unwind (and lose) the suspended blocks")
}
