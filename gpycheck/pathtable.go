package main

import (
	"fmt"
	"go/ast"
	"go/token"
	"go/types"
	"sort"
	"strings"
)

// Decision tables by symbolic path enumeration (A7 of DESIGN.md, generalised).
//
// A function whose behaviour is a decision over a few conditions is interpreted symbolically;
// every path is rendered as   [conditions] effects -> results   with conditions normalised, effects
// being assignments to non-local state and calls to the listed effect functions, in order. The
// rendered set is compared with a reference table that was reviewed against the Python / CPython
// definition of the mechanism (pathspec_data.go). A path that appears, disappears or changes is
// a change of the decision the property depends on.

type tableSpec struct {
	key      string   // "rel|Recv.Name" or "rel|Name"
	prop     string   // property served
	rule     string   // rule id
	doc      string   // what the table decides (one line, goes into the rule description)
	show     []string // call names rendered as effects (method or function names); "*" = all module calls
	prim     []string // FuncIDs never inlined
	inline   bool     // inline same-package helpers (default: only small ones)
	raises   bool     // keep paths ending in a never-returning call (rendered "raise")
	noAssign bool     // do not render assignments (only calls / returns)
	fields   bool     // a constant assigned to a field is what later reads of the field on the same path see
}

var tableSpecs []tableSpec
var pathSpec = map[string][]string{}

func lookupDecl(c *Ctx, key string) (*ast.FuncDecl, string, string) {
	parts := strings.SplitN(key, "|", 2)
	rel, name := parts[0], parts[1]
	if i := strings.Index(name, "."); i > 0 {
		return c.MethodDecl(rel, name[:i], name[i+1:]), rel, name
	}
	return c.FuncDecl(rel, name), rel, name
}

func renderVal(v val) string {
	s := v.String()
	return s
}

func pathTable(c *Ctx, ts tableSpec) ([]string, []string, token.Pos) {
	fd, rel, _ := lookupDecl(c, ts.key)
	if fd == nil {
		return nil, []string{"anchor function not found"}, token.NoPos
	}
	se := newSymExec(c, rel)
	se.emitMode = true
	se.tableMode = true
	se.keepRaised = ts.raises
	se.inlineAll = ts.inline
	se.maxPaths = 20000
	se.primitive = map[*types.Func]bool{}
	prim := map[string]bool{}
	for _, p := range ts.prim {
		prim[p] = true
	}
	// primitives by id: resolve lazily through a wrapper on worthInlining
	se.primByID = prim
	var names []string
	var vals []*val
	if fd.Recv != nil && len(fd.Recv.List) == 1 && len(fd.Recv.List[0].Names) == 1 {
		// receiver keeps its source name
	}
	for _, f := range fd.Type.Params.List {
		for _, n := range f.Names {
			// parameters are shown by position (p1, p2, …) and the receiver as recv: renaming them changes no row
			nm := fmt.Sprintf("p%d", len(names)+1)
			if n.Name == "vm" {
				nm = "vm" // the handlers' machine parameter keeps the name the stack model uses
			}
			names = append(names, nm)
			v := unk(nm)
			if tv, ok := se.info.Types[f.Type]; ok {
				if b, ok := tv.Type.Underlying().(*types.Basic); ok && b.Info()&types.IsInteger != 0 {
					v = val{kind: vInt, lin: linSym(nm)}
				}
			}
			vals = append(vals, &v)
		}
	}
	show := map[string]bool{}
	for _, s := range ts.show {
		show[s] = true
	}
	var renderCalls func(crs []callRec, assigns []assignRec) []string
	renderCalls = func(crs []callRec, assigns []assignRec) []string {
		type eff struct {
			seq int
			s   string
		}
		var effs []eff
		if !ts.noAssign {
			// an assignment overwritten by a later one to the same place, with no call in between that could see
			// it, does not show: `x = a; if c { x = b }` and `if c { x = b } else { x = a }` are the same rows
			dead := map[int]bool{}
			for i, a1 := range assigns {
				for _, a2 := range assigns[i+1:] {
					if a2.lhs != a1.lhs || strings.Contains(a2.src, "= ") && !strings.HasPrefix(a2.src, a2.lhs+" = ") && a2.src != "" && strings.ContainsAny(a2.src[:1], "+-*/|&^") {
						continue
					}
					seen := false
					for _, cr := range crs {
						if cr.seq > a1.seq && cr.seq < a2.seq {
							seen = true
						}
					}
					if !seen && !strings.Contains(renderVal(a2.rhs), a1.lhs) && !strings.Contains(a2.src, a1.lhs+" ") {
						dead[i] = true
					}
					break
				}
			}
			for i, as := range assigns {
				if dead[i] {
					continue
				}
				rv := renderVal(as.rhs)
				switch {
				case strings.Contains(as.src, "= ") && (rv == "?" || rv == ""):
					effs = append(effs, eff{as.seq, as.src}) // compound assignment x op= y
					continue
				case (rv == "?" || rv == "") && as.src != "":
					rv = as.src
				}
				effs = append(effs, eff{as.seq, as.lhs + " = " + rv})
			}
		}
		for _, cr := range crs {
			if cr.callee == "<loop>" {
				var alts []string
				var items []condBody
				for _, a := range cr.loop {
					var cs []string
					for _, x := range a.conds {
						cs = append(cs, normCond(x))
					}
					items = append(items, condBody{conds: simplifyConds(cs), body: strings.Join(renderCalls(a.calls, a.assigns), "; ") + " " + a.exit})
				}
				for _, it := range items {
					cs := append([]string{}, it.conds...)
					sort.Strings(cs)
					alts = append(alts, "["+strings.Join(cs, " && ")+"] "+it.body)
				}
				sort.Strings(alts)
				hdr := ""
				if len(cr.args) > 0 {
					hdr = cr.args[0].String()
				}
				effs = append(effs, eff{cr.seq, "LOOP(" + hdr + "){" + strings.Join(alts, " | ") + "}"})
				continue
			}
			short := cr.callee
			if i := strings.LastIndex(short, ")."); i >= 0 {
				short = short[i+2:]
			} else if i := strings.LastIndex(short, "."); i >= 0 {
				short = short[i+1:]
			}
			if !show[short] && !show["*"] {
				continue
			}
			var as []string
			for _, a := range cr.args {
				as = append(as, renderVal(a))
			}
			recv := ""
			if cr.recv != nil {
				recv = renderVal(*cr.recv) + "."
			}
			effs = append(effs, eff{cr.seq, recv + short + "(" + strings.Join(as, ", ") + ")"})
		}
		sort.SliceStable(effs, func(i, j int) bool { return effs[i].seq < effs[j].seq })
		var out []string
		for _, e := range effs {
			out = append(out, e.s)
		}
		return out
	}
	render := func(st *sstate, rets []val, raised bool) condBody {
		var conds []string
		for _, cnd := range st.conds {
			conds = append(conds, normCond(cnd))
		}
		conds = simplifyConds(conds)
		sort.Strings(conds) // a conjunction: the order of the tests carries nothing
		es := renderCalls(st.calls, st.assigns)
		tail := ""
		if raised {
			tail = " -> raise"
		} else if len(rets) > 0 {
			var rs []string
			for _, v := range rets {
				rs = append(rs, renderVal(v))
			}
			tail = " -> " + strings.Join(rs, ", ")
		}
		return condBody{conds: conds, body: relabel(strings.Join(es, "; ") + tail)}
	}
	var und []string
	var res []pathResult
	if ts.fields {
		st0 := newState()
		st0.selVals = map[string]val{}
		res = se.runFuncFrom(fd, vals, names, st0)
	} else {
		res = se.runFunc(fd, vals, names)
	}
	if se.overflow {
		und = append(und, "path explosion")
	}
	var items []condBody
	for _, pr := range res {
		und = append(und, pr.st.und...)
		items = append(items, render(pr.st, pr.rets, false))
	}
	for _, st := range se.raised {
		und = append(und, st.und...)
		items = append(items, render(st, nil, true))
	}
	// (paths are not merged here as the emission engine does: the effects shown in a decision table
	// are texts of the statements, which do not carry every difference between two paths)
	// … except the paths that end in an error: what the locals held no longer matters there, so two error exits
	// doing the same under a test and its negation are one exit reached before that test
	var errItems, rest []condBody
	for _, it := range items {
		if strings.HasSuffix(it.body, "err!") || strings.HasSuffix(it.body, "-> raise") {
			errItems = append(errItems, it)
		} else {
			rest = append(rest, it)
		}
	}
	items = append(rest, mergeComplementary(errItems)...)
	var out []string
	for _, it := range items {
		out = append(out, "["+strings.Join(it.conds, " && ")+"] "+it.body)
	}
	sort.Strings(out)
	return uniq(out), uniq(und), fd.Pos()
}

func registerTableRules() {
	byRule := map[string][]tableSpec{}
	var order []string
	for _, ts := range tableSpecs {
		if _, ok := byRule[ts.rule]; !ok {
			order = append(order, ts.rule)
		}
		byRule[ts.rule] = append(byRule[ts.rule], ts)
	}
	for _, rid := range order {
		specs := byRule[rid]
		var docs []string
		floor := 0
		for _, ts := range specs {
			docs = append(docs, ts.key+": "+ts.doc)
			floor += len(pathSpec[ts.key]) * 8 / 10
		}
		rule := rid
		sp := specs
		register(&Rule{ID: rule, Prop: sp[0].prop, Floor: floor,
			Doc: "decision tables by symbolic path enumeration — every path (conditions -> effects -> result) of the function equals the reviewed reference table: " + strings.Join(docs, " || "),
			Run: func(c *Ctx, r *Rep) {
				for _, ts := range sp {
					runTable(c, r, ts)
				}
			}})
	}
}

func runTable(c *Ctx, r *Rep, ts tableSpec) {
	got, und, pos := pathTable(c, ts)
	r.analysed(ts.key)
	if len(und) > 0 {
		r.undecided(ts.key+"|paths", pos, "function not interpretable: %s", strings.Join(clip(und, 4), "; "))
		return
	}
	want, ok := pathSpec[ts.key]
	if !ok {
		r.undecided(ts.key+"|paths", pos, "no reference table recorded")
		return
	}
	missing, extra := diffSets(want, got)
	for _, p := range got {
		in := false
		for _, w := range want {
			if w == p {
				in = true
			}
		}
		if in {
			r.ok(ts.key+"|"+clipStr(p, 160), pos, "as in the reference table")
		}
	}
	if len(missing) > 0 || len(extra) > 0 {
		r.bad(ts.key+"|decision table", pos, "the decision table of %s differs from the reference (%s): %s", ts.key, ts.doc, explainDiff(missing, extra))
	}
}

func clipStr(s string, n int) string {
	if len(s) > n {
		return s[:n] + fmt.Sprintf("…(%d)", len(s))
	}
	return s
}
