package main

// The functions whose decision tables are frozen, with the definition each was reviewed against.
func init() {
	tableSpecs = []tableSpec{
		{key: "symtable|SymTable.AddDef", prop: "C03", rule: "C03.R3", raises: true, show: []string{"append"},
			doc: "symbol definition: flags are or-ed into an existing symbol, a second DefParam for the same name is a SyntaxError (duplicate argument), parameters are appended to Varnames in order, a global declaration is mirrored into the module table [symtable.c symtable_add_def]"},
		{key: "py|Function.M__get__", prop: "C16", rule: "C16.R4", show: []string{"*"}, doc: "a function read through an instance binds the instance; read through the class it stays a function"},
		{key: "py|Method.M__get__", prop: "C16", rule: "C16.R4", show: []string{"*"}, doc: "a built-in method read through an instance binds the instance; read through the class it stays unbound"},
		{key: "py|ClassMethod.M__get__", prop: "C16", rule: "C16.R4", show: []string{"*"}, doc: "a classmethod binds the owner class (the type of the instance when no owner is given), never the instance"},
		{key: "py|StaticMethod.M__get__", prop: "C16", rule: "C16.R4", show: []string{"*"}, doc: "a staticmethod binds nothing: the plain callable is returned"},
		{key: "repl|REPL.Run", prop: "C20", rule: "C20.R3", show: []string{"Compile", "RunCode", "SetPrompt", "Print", "TracebackDump", "defer"},
			prim: []string{"py.Compile", "py.IsException", "py.TracebackDump"},
			doc:  "line-at-a-time driver: in continuation mode a non-empty line is only buffered; an empty line (or any line outside continuation mode) compiles buffer+line; an incomplete-input error buffers the line and enters continuation mode; any other outcome leaves continuation mode and clears the buffer before reporting or running"},
	}
}
