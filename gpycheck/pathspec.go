package main

// The functions whose decision tables are frozen, with the definition each was reviewed against.
func init() {
	tableSpecs = []tableSpec{
		{key: "symtable|SymTable.AddDef", prop: "C03", rule: "C03.R3", raises: true, show: []string{"append"},
			doc: "symbol definition: flags are or-ed into an existing symbol, a second DefParam for the same name is a SyntaxError (duplicate argument), parameters are appended to Varnames in order, a global declaration is mirrored into the module table [symtable.c symtable_add_def]"},
	}
}
