package main

// The functions whose decision tables are frozen, with the definition each was reviewed against.
func init() {
	tableSpecs = []tableSpec{
		{key: "symtable|SymTable.AddDef", prop: "C03", rule: "C03.R3", raises: true, show: []string{"append"},
			doc: "symbol definition: flags are or-ed into an existing symbol, a second DefParam for the same name is a SyntaxError (duplicate argument), parameters are appended to Varnames in order, a global declaration is mirrored into the module table [symtable.c symtable_add_def]"},
		{key: "py|Function.M__get__", prop: "C16", rule: "C16.R4", show: []string{"*"}, doc: "a function read through an instance binds the instance; read through the class it stays a function"},
		{key: "py|Method.M__get__", prop: "C16", rule: "C16.R4", show: []string{"*"}, doc: "a built-in method read through an instance binds the instance; read through the class it stays unbound"},
		{key: "py|ClassMethod.M__get__", prop: "C16", rule: "C16.R4", show: []string{"*"}, doc: "a classmethod binds the owner class (the type of the instance when no owner is given), never the instance"},
		{key: "py|StaticMethod.M__get__", prop: "C16", rule: "C16.R4", show: []string{"*"}, doc: "a staticmethod binds nothing: the plain callable is returned"},
		{key: "repl|REPL.Run", prop: "C20", rule: "C20.R3", show: []string{"Compile", "RunCode", "SetPrompt", "Print", "TracebackDump", "defer"},
			prim: []string{"py.Compile", "py.IsException", "py.TracebackDump"},
			doc:  "line-at-a-time driver: in continuation mode a non-empty line is only buffered; an empty line (or any line outside continuation mode) compiles buffer+line; an incomplete-input error buffers the line and enters continuation mode; any other outcome leaves continuation mode and clears the buffer before reporting or running"},
		{key: "symtable|SymTable.AnalyzeBlock", prop: "C03", rule: "C03.R3", show: []string{"*"}, noAssign: true,
			prim: []string{"(*symtable.SymTable).AnalyzeName", "(*symtable.SymTable).AnalyzeChildBlock", "symtable.AnalyzeCells", "(*symtable.SymTable).DropClassFree", "(symtable.Symbols).Update", "(symtable.StringSet).Update", "(symtable.StringSet).Add"},
			doc:  "block analysis order: for a class block the sets handed to children are copied from bound/global BEFORE the block's own names are analysed (class bindings, including a `global` in the class body, are not visible in methods); for other blocks after; children are analysed on those sets; cells computed for function blocks, __class__ dropped for class blocks; symbols updated; free propagated [symtable.c analyze_block]"},
		{key: "vm|unpack_iterable", prop: "C01", rule: "C01.R8", show: []string{"*"}, raises: false,
			prim: []string{"py.Iter", "py.Next", "py.ExceptionNewf", "py.IsException", "(*py.List).M__getitem__", "(*py.List).Resize", "py.NewList", "(*py.List).Append"},
			doc:  "sequence unpacking (UNPACK_SEQUENCE / UNPACK_EX): the first argcnt items are stored downwards from the top so that the leftmost target is popped first; the starred list takes the rest; the after-star items are taken from the end of that list in the same downward order [ceval.c unpack_iterable]"},
		{key: "vm|do_SETUP_WITH", prop: "C02", rule: "C02.R7", show: []string{"*"},
			prim: []string{"py.GetAttrString", "py.Call", "py.ExceptionNewf"},
			doc:  "with statement entry: __exit__ is looked up and pushed, __enter__ is looked up and called, and only after it returned without error is the finally block pushed and the result pushed — an exception from __enter__ must not run __exit__ [ceval.c SETUP_WITH]"},
		{key: "compile|Instructions.EndsWithReturn", prop: "C12", rule: "C12.R7", show: []string{"*"},
			doc: "the implicit `return None` is omitted only when the very last element of the instruction stream is a RETURN_VALUE: a trailing label is a jump target that needs an instruction after it"},
		{key: "parser|yyLex.ErrorReturn", prop: "C20", rule: "C20.R3", show: []string{"*"}, prim: []string{"py.ExceptionNewf"},
			doc: "incomplete-input decision (lexer half): a parse error without a message of its own is reported as 'unexpected EOF while parsing' exactly when the input ran out (x.eof), otherwise as 'invalid syntax' — the REPL continues a statement on the former"},
		{key: "py|Type.Lookup", prop: "C16", rule: "C16.R4", show: []string{"*"},
			doc: "MRO lookup: every call walks the current MRO of the type and returns the first dictionary hit; nothing is memoised across calls (a cache would need invalidation in every subclass)"},
		{key: "py|Range.M__eq__", prop: "C13", rule: "C13.R6", show: []string{"*"},
			doc: "range equality compares the sequences the ranges denote: different lengths differ; empty ranges are equal; then the first items must agree; a range of one item needs nothing more; otherwise the steps must agree [rangeobject.c range_equals]"},
	}
}
